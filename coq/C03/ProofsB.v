(* C03 proofs, part B: the decoder `feed` -- fuel irrelevance, compositionality
   (decoding a ++ b = decoding a, keeping the unread rest, then decoding the rest ++ b),
   idempotence, no Fault, no Fatal under the handler hypothesis. *)
From Coq Require Import NArith List Bool Arith Lia ZifyBool ZifyNat ZifyN.
From LTV.C03 Require Import ParamsGen Model ProofsA.
Import ListNotations.
Local Open Scope nat_scope.

Section FeedProofs.
Variable HS : Type.
Variable handle : HS -> msg -> HS * verdict.
Variable rl : role.
Variable pol : policy.

Notation feed := (feed HS handle rl pol).
Notation pres := (pres HS).

Definition mu (m : rmode) (l : list N) : nat :=
  length l + match m with RPay _ _ => 1 | _ => 0 end.

Lemma skipn_length_le (n : nat) (l : list N) : length (skipn n l) <= length l.
Proof. rewrite skipn_length. lia. Qed.

Lemma feed_fuel : forall f1 f2 h m l, mu m l < f1 -> mu m l < f2 -> feed f1 h m l = feed f2 h m l.
Proof.
  induction f1 as [|f1 IH]; intros f2 h m l H1 H2; [lia|].
  destruct f2 as [|f2]; [lia|].
  cbn [Model.feed]. destruct m as [|k lft|]; [| |reflexivity].
  - destruct (one_msg pol rl l) eqn:E; try reflexivity.
    destruct (one_msg_got_len _ _ _ _ _ E) as [[L1 L2] _].
    destruct (handle h m) as [h' v]. destruct v; try reflexivity.
    assert (LS : length (skipn n l) + 4 <= length l) by (rewrite skipn_length; lia).
    unfold mu in *.
    destruct (after m) as [[k len]|]; f_equal; apply IH; unfold mu; lia.
  - destruct (N.of_nat (length l) <? lft)%N; [reflexivity|].
    destruct (handle h (pay_done k)) as [h' v]. destruct v; try reflexivity.
    pose proof (skipn_length_le (N.to_nat lft) l).
    unfold mu in *. f_equal. apply IH; unfold mu; lia.
Qed.

(* fuel-free view *)
Definition feedx (h : HS) (m : rmode) (l : list N) : pres := feed (S (mu m l)) h m l.

Arguments feedx : simpl never.

Lemma feedx_fuel f h m l : mu m l < f -> feed f h m l = feedx h m l.
Proof. intros. unfold feedx. apply feed_fuel; lia. Qed.

Lemma feedx_closed h l : feedx h RClosed l = PRes h RClosed [] [].
Proof. reflexivity. Qed.

Lemma feedx_pay h k lft l :
  feedx h (RPay k lft) l =
  if (N.of_nat (length l) <? lft)%N then PRes h (RPay k (lft - N.of_nat (length l))) [] []
  else let (h', v) := handle h (pay_done k) in
       match v with
       | VCont => pcons HS (EMsg (pay_done k)) (feedx h' RIdle (skipn (N.to_nat lft) l))
       | VClose => PRes h' RClosed [] [EMsg (pay_done k); EClose RHandler]
       | VFatal => PRes h' RClosed [] [EMsg (pay_done k); EFatal]
       end.
Proof.
  unfold feedx at 1. cbn [Model.feed].
  destruct (N.of_nat (length l) <? lft)%N; [reflexivity|].
  destruct (handle h (pay_done k)) as [h' v]. destruct v; try reflexivity.
  f_equal. apply feedx_fuel. pose proof (skipn_length_le (N.to_nat lft) l). unfold mu. lia.
Qed.

Lemma feedx_idle h l :
  feedx h RIdle l =
  match one_msg pol rl l with
  | NeedMore => PRes h RIdle l []
  | HFault => PFault
  | Bad r => PRes h RClosed [] [EClose r]
  | HFatal => PRes h RClosed [] [EFatal]
  | Got mg n =>
    let (h', v) := handle h mg in
    match v with
    | VClose => PRes h' RClosed [] [EMsg mg; EClose RHandler]
    | VFatal => PRes h' RClosed [] [EMsg mg; EFatal]
    | VCont =>
      match after mg with
      | None => pcons HS (EMsg mg) (feedx h' RIdle (skipn n l))
      | Some (k, len) => pcons HS (EMsg mg) (feedx h' (RPay k len) (skipn n l))
      end
    end
  end.
Proof.
  unfold feedx at 1. cbn [Model.feed].
  destruct (one_msg pol rl l) eqn:E; try reflexivity.
  destruct (one_msg_got_len _ _ _ _ _ E) as [[L1 L2] _].
  destruct (handle h m) as [h' v]. destruct v; try reflexivity.
  assert (LS : length (skipn n l) + 4 <= length l) by (rewrite skipn_length; lia).
  destruct (after m) as [[k len]|]; f_equal; apply feedx_fuel; unfold mu; lia.
Qed.

(* sequencing *)
Definition papp (es : list effect) (r : pres) : pres :=
  match r with PRes h m b es' => PRes h m b (es ++ es') | x => x end.

Definition pbind (r : pres) (b : list N) : pres :=
  match r with PRes h m buf es => papp es (feedx h m (buf ++ b)) | x => x end.

Lemma papp_nil r : papp [] r = r.
Proof. destruct r; reflexivity. Qed.

Lemma papp_papp a b r : papp a (papp b r) = papp (a ++ b) r.
Proof. destruct r; cbn; [rewrite app_assoc|..]; reflexivity. Qed.

Lemma pcons_papp e r : pcons HS e r = papp [e] r.
Proof. destruct r; reflexivity. Qed.

Lemma pbind_papp es r b : pbind (papp es r) b = papp es (pbind r b).
Proof. destruct r; cbn; [rewrite papp_papp|..]; reflexivity. Qed.

Lemma skipn_app_le (n : nat) (a b : list N) : n <= length a -> skipn n (a ++ b) = skipn n a ++ b.
Proof. intros. rewrite skipn_app. replace (n - length a) with 0 by lia. reflexivity. Qed.

Lemma skipn_app_ge (n : nat) (a b : list N) : length a <= n -> skipn n (a ++ b) = skipn (n - length a) b.
Proof. intros. rewrite skipn_app. rewrite skipn_all2 by lia. reflexivity. Qed.

(* compositionality *)
Lemma feedx_app : forall n h m a b, mu m a < n -> feedx h m (a ++ b) = pbind (feedx h m a) b.
Proof.
  induction n as [|n IH]; intros h m a b Hn; [lia|].
  destruct m as [|k lft|].
  - (* RIdle *)
    rewrite (feedx_idle h a).
    destruct (one_msg pol rl a) eqn:E.
    + cbn. rewrite papp_nil. reflexivity.
    + exfalso. eapply one_msg_no_fault; eauto.
    + rewrite feedx_idle, one_msg_mono by congruence. rewrite E. cbn. reflexivity.
    + rewrite feedx_idle, one_msg_mono by congruence. rewrite E. cbn. reflexivity.
    + rewrite feedx_idle, one_msg_mono by congruence. rewrite E.
      destruct (one_msg_got_len _ _ _ _ _ E) as [[L1 L2] _].
      destruct (handle h m) as [h' v]. destruct v; [|cbn; reflexivity|cbn; reflexivity].
      rewrite skipn_app_le by lia.
      assert (LS : length (skipn n0 a) + 4 <= length a) by (rewrite skipn_length; lia).
      unfold mu in Hn.
      destruct (after m) as [[k len]|]; rewrite !pcons_papp, pbind_papp; f_equal; apply IH; unfold mu; lia.
  - (* RPay *)
    rewrite (feedx_pay h k lft a).
    destruct (N.of_nat (length a) <? lft)%N eqn:E.
    + cbn. rewrite papp_nil. rewrite !feedx_pay, app_length.
      destruct (N.of_nat (length a + length b) <? lft)%N eqn:E2.
      * apply N.ltb_lt in E, E2.
        assert (X : (N.of_nat (length b) <? lft - N.of_nat (length a))%N = true) by (apply N.ltb_lt; lia).
        rewrite X. f_equal. f_equal. lia.
      * apply N.ltb_lt in E. apply N.ltb_ge in E2.
        assert (X : (N.of_nat (length b) <? lft - N.of_nat (length a))%N = false) by (apply N.ltb_ge; lia).
        rewrite X.
        rewrite skipn_app_ge by lia.
        replace (N.to_nat lft - length a) with (N.to_nat (lft - N.of_nat (length a))) by lia.
        reflexivity.
    + rewrite feedx_pay, app_length. apply N.ltb_ge in E.
      assert (X : (N.of_nat (length a + length b) <? lft)%N = false) by (apply N.ltb_ge; lia).
      rewrite X.
      destruct (handle h (pay_done k)) as [h' v]. destruct v; [|cbn; reflexivity|cbn; reflexivity].
      rewrite skipn_app_le by lia.
      rewrite !pcons_papp, pbind_papp. f_equal.
      pose proof (skipn_length_le (N.to_nat lft) a). unfold mu in Hn.
      apply IH. unfold mu. lia.
  - cbn. reflexivity.
Qed.

Lemma feedx_app' h m a b : feedx h m (a ++ b) = pbind (feedx h m a) b.
Proof. apply (feedx_app (S (mu m a))). lia. Qed.

(* a decoded state is settled: decoding nothing more changes nothing *)
Lemma feedx_idem h m a h' m' b' es :
  feedx h m a = PRes h' m' b' es -> feedx h' m' b' = PRes h' m' b' [].
Proof.
  intros H. pose proof (feedx_app' h m a []) as C. rewrite app_nil_r, H in C. cbn in C.
  rewrite app_nil_r in C.
  destruct (feedx h' m' b') as [h2 m2 b2 es2| |]; cbn in C; try discriminate.
  inversion C; subst.
  assert (es2 = []) by (apply (app_inv_head es); rewrite app_nil_r; symmetry; assumption).
  subst. reflexivity.
Qed.

(* no Fault, no OutOfFuel *)
Lemma feedx_total : forall n h m l, mu m l < n -> exists h' m' b' es, feedx h m l = PRes h' m' b' es.
Proof.
  induction n as [|n IH]; intros h m l Hn; [lia|].
  destruct m as [|k lft|].
  - rewrite feedx_idle. destruct (one_msg pol rl l) eqn:E; try (do 4 eexists; reflexivity).
    + exfalso. eapply one_msg_no_fault; eauto.
    + destruct (one_msg_got_len _ _ _ _ _ E) as [[L1 L2] _].
      destruct (handle h m) as [h' v]. destruct v; try (do 4 eexists; reflexivity).
      assert (LS : length (skipn n0 l) + 4 <= length l) by (rewrite skipn_length; lia).
      unfold mu in Hn.
      destruct (after m) as [[k len]|].
      * destruct (IH h' (RPay k len) (skipn n0 l)) as (a & b & c & d & Q); [unfold mu; lia|]. rewrite Q. cbn. do 4 eexists; reflexivity.
      * destruct (IH h' RIdle (skipn n0 l)) as (a & b & c & d & Q); [unfold mu; lia|]. rewrite Q. cbn. do 4 eexists; reflexivity.
  - rewrite feedx_pay. destruct (N.of_nat (length l) <? lft)%N; try (do 4 eexists; reflexivity).
    destruct (handle h (pay_done k)) as [h' v]. destruct v; try (do 4 eexists; reflexivity).
    pose proof (skipn_length_le (N.to_nat lft) l). unfold mu in Hn.
    destruct (IH h' RIdle (skipn (N.to_nat lft) l)) as (a & b & c & d & Q); [unfold mu; lia|]. rewrite Q. cbn. do 4 eexists; reflexivity.
  - cbn. do 4 eexists; reflexivity.
Qed.

Lemma feedx_total' h m l : exists h' m' b' es, feedx h m l = PRes h' m' b' es.
Proof. apply (feedx_total (S (mu m l))). lia. Qed.

(* shape of results: a buffer rest only in mode RIdle, and it is an incomplete message *)
Lemma feedx_shape : forall n h m l h' m' b' es, mu m l < n -> feedx h m l = PRes h' m' b' es ->
  match m' with RIdle => one_msg pol rl b' = NeedMore | _ => b' = [] end.
Proof.
  induction n as [|n IH]; intros h m l h' m' b' es Hn; [lia|].
  destruct m as [|k lft|].
  - rewrite feedx_idle. destruct (one_msg pol rl l) eqn:E; try discriminate.
    + intros Q; inversion Q; subst. exact E.
    + intros Q; inversion Q; subst. reflexivity.
    + intros Q; inversion Q; subst. reflexivity.
    + destruct (one_msg_got_len _ _ _ _ _ E) as [[L1 L2] _].
      destruct (handle h m) as [h1 v]. destruct v; try (intros Q; inversion Q; subst; reflexivity).
      assert (LS : length (skipn n0 l) + 4 <= length l) by (rewrite skipn_length; lia).
      unfold mu in Hn.
      destruct (after m) as [[k len]|].
      * destruct (feedx h1 (RPay k len) (skipn n0 l)) eqn:Q1; cbn; try discriminate.
        intros Q; inversion Q; subst. eapply (IH _ _ _ _ _ _ _ _ Q1). Unshelve. unfold mu; lia.
      * destruct (feedx h1 RIdle (skipn n0 l)) eqn:Q1; cbn; try discriminate.
        intros Q; inversion Q; subst. eapply (IH _ _ _ _ _ _ _ _ Q1). Unshelve. unfold mu; lia.
  - rewrite feedx_pay. destruct (N.of_nat (length l) <? lft)%N.
    + intros Q; inversion Q; subst. reflexivity.
    + destruct (handle h (pay_done k)) as [h1 v]. destruct v; try (intros Q; inversion Q; subst; reflexivity).
      pose proof (skipn_length_le (N.to_nat lft) l). unfold mu in Hn.
      destruct (feedx h1 RIdle (skipn (N.to_nat lft) l)) eqn:Q1; cbn; try discriminate.
      intros Q; inversion Q; subst. eapply (IH _ _ _ _ _ _ _ _ Q1). Unshelve. unfold mu; lia.
  - cbn. intros Q; inversion Q; subst. reflexivity.
Qed.

(* ---- segmentation independence at the decoder level ------------------------------------ *)
(* deliver the chunks one after the other, keeping the unread rest in between *)
Fixpoint feed_chunks (h : HS) (m : rmode) (buf : list N) (chunks : list (list N)) : pres :=
  match chunks with
  | [] => PRes h m buf []
  | c :: more =>
    match feedx h m (buf ++ c) with
    | PRes h' m' b' es => papp es (feed_chunks h' m' b' more)
    | x => x
    end
  end.

Lemma feed_chunks_concat : forall chunks h m buf,
  feedx h m buf = PRes h m buf [] ->
  feed_chunks h m buf chunks = feedx h m (buf ++ concat chunks).
Proof.
  induction chunks as [|c more IH]; intros h m buf S0.
  - cbn. rewrite app_nil_r. symmetry. exact S0.
  - cbn [feed_chunks concat]. rewrite app_assoc.
    rewrite (feedx_app' h m (buf ++ c) (concat more)).
    destruct (feedx h m (buf ++ c)) as [h' m' b' es| |] eqn:Q; cbn; try reflexivity.
    rewrite IH; [reflexivity|]. eapply feedx_idem; eauto.
Qed.

(* ---- no Fatal from the framing layer ----------------------------------------------------- *)
Definition handler_never_fatal : Prop := forall h m, snd (handle h m) <> VFatal.

Lemma one_body_no_fatal r len id l : one_body pol r len id l <> HFatal.
Proof.
  unfold one_body. destruct (p_hdr pol len id); [congruence|].
  repeat match goal with
  | |- context [if (?a =? ?b)%N then _ else _] => destruct (a =? b)%N
  end;
  repeat match goal with
  | |- context [(length ?l <? ?k)%nat] => destruct (length l <? k)%nat
  | |- context [match rd32 ?l ?k with _ => _ end] => destruct (rd32 l k)
  | |- context [match rd16 ?l ?k with _ => _ end] => destruct (rd16 l k)
  | |- context [match rd ?l ?k with _ => _ end] => destruct (rd l k)
  end; try congruence;
  try (destruct (negb (is_leech r)); [congruence|]; destruct (len <? Params.c03_piece_min_len)%N; congruence);
  try (destruct (is_meta r); congruence).
  match goal with |- context [if ?c then Bad RExtBad else _] => destruct c eqn:E end; [congruence|].
  apply orb_false_iff in E. destruct E as [_ E].
  replace (2147483648 <=? sub32 len Params.c03_ext_hdr_sub)%N with false; [congruence|].
  symmetry. apply N.leb_gt. apply N.ltb_ge in E.
  eapply N.le_lt_trans; [exact E|]. reflexivity.
Qed.

Lemma one_msg_no_fatal r l : one_msg pol r l <> HFatal.
Proof.
  unfold one_msg.
  destruct (length l <? 4)%nat; [congruence|].
  destruct (rd32 l 0) as [len|]; [|congruence].
  destruct (len =? 0)%N; [congruence|].
  destruct (length l <? 5)%nat; [congruence|].
  destruct (Params.c03_max_msg_len <? len)%N; [congruence|].
  destruct (rd l 4) as [id|]; [|congruence].
  apply one_body_no_fatal.
Qed.

Lemma feedx_no_fatal : handler_never_fatal ->
  forall n h m l h' m' b' es, mu m l < n -> feedx h m l = PRes h' m' b' es -> ~ In EFatal es.
Proof.
  intros NF. induction n as [|n IH]; intros h m l h' m' b' es Hn; [lia|].
  destruct m as [|k lft|].
  - rewrite feedx_idle. destruct (one_msg pol rl l) eqn:E; try discriminate.
    + intros Q; inversion Q; subst. cbn. tauto.
    + intros Q; inversion Q; subst. cbn. intros [X|[]]. discriminate.
    + exfalso. eapply one_msg_no_fatal; eauto.
    + destruct (one_msg_got_len _ _ _ _ _ E) as [[L1 L2] _].
      pose proof (NF h m) as NFm.
      destruct (handle h m) as [h1 v]. cbn in NFm. destruct v; [| |congruence].
      * assert (LS : length (skipn n0 l) + 4 <= length l) by (rewrite skipn_length; lia).
        unfold mu in Hn.
        destruct (after m) as [[k len]|].
        -- destruct (feedx h1 (RPay k len) (skipn n0 l)) eqn:Q1; cbn; try discriminate.
           intros Q; inversion Q; subst. cbn. intros [X|X]; [discriminate|].
           eapply (IH _ _ _ _ _ _ _ _ Q1); eauto. Unshelve. unfold mu; lia.
        -- destruct (feedx h1 RIdle (skipn n0 l)) eqn:Q1; cbn; try discriminate.
           intros Q; inversion Q; subst. cbn. intros [X|X]; [discriminate|].
           eapply (IH _ _ _ _ _ _ _ _ Q1); eauto. Unshelve. unfold mu; lia.
      * intros Q; inversion Q; subst. cbn. intros [X|[X|[]]]; discriminate.
  - rewrite feedx_pay. destruct (N.of_nat (length l) <? lft)%N.
    + intros Q; inversion Q; subst. cbn. tauto.
    + pose proof (NF h (pay_done k)) as NFm.
      destruct (handle h (pay_done k)) as [h1 v]. cbn in NFm. destruct v; [| |congruence].
      * pose proof (skipn_length_le (N.to_nat lft) l). unfold mu in Hn.
        destruct (feedx h1 RIdle (skipn (N.to_nat lft) l)) eqn:Q1; cbn; try discriminate.
        intros Q; inversion Q; subst. cbn. intros [X|X]; [discriminate|].
        eapply (IH _ _ _ _ _ _ _ _ Q1); eauto. Unshelve. unfold mu; lia.
      * intros Q; inversion Q; subst. cbn. intros [X|[X|[]]]; discriminate.
  - cbn. intros Q; inversion Q; subst. cbn. tauto.
Qed.

End FeedProofs.
