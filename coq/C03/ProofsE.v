(* C03 proofs, part E: decode_spec -- on a stream of well-formed messages produced by an
   independent BEP 3 / BEP 10 encoder the decoder reports exactly those messages. *)
From Coq Require Import NArith ZArith List Bool Arith Lia ZifyBool ZifyNat ZifyN.
From LTV.C03 Require Import ParamsGen Model Proofs ProofsA ProofsB ProofsC.
Import ListNotations.
Local Open Scope nat_scope.
Ltac Zify.zify_post_hook ::= Z.div_mod_to_equations.

Lemma be32_val v : (v < 4294967296)%N -> (b3 v * 16777216 + b2 v * 65536 + b1 v * 256 + b0 v)%N = v.
Proof. unfold b3, b2, b1, b0. intros. lia. Qed.

Lemma be16_val v : (v < 65536)%N -> (b1 v * 256 + b0 v)%N = v.
Proof. unfold b1, b0. intros. lia. Qed.

Arguments b3 : simpl never.
Arguments b2 : simpl never.
Arguments b1 : simpl never.
Arguments b0 : simpl never.
Arguments N.mul : simpl never.
Arguments N.add : simpl never.
Arguments N.sub : simpl never.
Arguments N.ltb : simpl never.
Arguments N.leb : simpl never.
Arguments N.eqb : simpl never.
Arguments ProofsB.feedx : simpl never.

Lemma rd32_at0 v post : (v < 4294967296)%N -> rd32 (be32 v ++ post) 0 = Some v.
Proof. intros. unfold rd32, rd, be32. cbn [app nth_error Nat.add]. rewrite be32_val by assumption. reflexivity. Qed.

Lemma one_msg_enc pol rl len id body :
  (len <> 0)%N -> (len <= 1048576)%N ->
  one_msg pol rl (be32 len ++ id :: body) = one_body pol rl len id (be32 len ++ id :: body).
Proof.
  intros NZ LE. unfold one_msg.
  assert (L4 : (length (be32 len ++ id :: body) <? 4) = false) by (apply Nat.ltb_ge; rewrite app_length; cbn; lia).
  assert (L5 : (length (be32 len ++ id :: body) <? 5) = false) by (apply Nat.ltb_ge; rewrite app_length; cbn; lia).
  rewrite L4, L5, rd32_at0 by lia.
  apply N.eqb_neq in NZ. rewrite NZ.
  change Params.c03_max_msg_len with 1048576%N.
  assert (X : (1048576 <? len)%N = false) by (apply N.ltb_ge; exact LE). rewrite X.
  unfold rd, be32. cbn [app nth_error]. reflexivity.
Qed.

Ltac idtests :=
  repeat match goal with
  | |- context [(?a =? ?b)%N] => first [ change (a =? b)%N with false | change (a =? b)%N with true ]
  end; cbv iota.

Section Spec.
Variable HS : Type.
Variable handle : HS -> msg -> HS * verdict.
Variable rl : role.
Variable pol : policy.
Hypothesis handler_continues : forall h m, snd (handle h m) = VCont.
(* the close policy accepts the headers of well-formed messages *)
Definition whdr (m : wmsg) : N * N :=
  match m with
  | WKeepAlive => (0, 0) | WChoke => (1, 0) | WUnchoke => (1, 1) | WInterested => (1, 2) | WNotInterested => (1, 3)
  | WHave _ => (5, 4) | WRequest _ _ _ => (13, 6) | WCancel _ _ _ => (13, 8) | WPort _ => (3, 9)
  | WPiece _ _ d => (9 + lenN d, 7) | WExt _ d => (2 + lenN d, 20) | WBitfield d => (1 + lenN d, 5)
  end%N.
Hypothesis policy_accepts_hdr : forall m, wf_wmsg rl m -> p_hdr pol (fst (whdr m)) (snd (whdr m)) = false.
Hypothesis policy_accepts_ext : forall ty d, wf_wmsg rl (WExt ty d) -> p_ext pol ty (lenN d) = false.

Notation feedx := (feedx HS handle rl pol).

Definition hfold (h : HS) (ms : list msg) : HS := fold_left (fun h m => fst (handle h m)) ms h.

Lemma handle_cont h m : handle h m = (fst (handle h m), VCont).
Proof. pose proof (handler_continues h m). destruct (handle h m); cbn in *; congruence. Qed.

(* a message without payload *)
Lemma feed_plain h l mg n :
  one_msg pol rl l = Got mg n -> after mg = None -> skipn n l = [] ->
  feedx h RIdle l = PRes (fst (handle h mg)) RIdle [] [EMsg mg].
Proof.
  intros O A S. rewrite feedx_idle, O, (handle_cont h mg), A, S.
  rewrite feedx_idle. reflexivity.
Qed.

(* a message with payload d *)
Lemma feed_payload h l mg n k d :
  one_msg pol rl l = Got mg n -> after mg = Some (k, lenN d) -> skipn n l = d ->
  feedx h RIdle l = PRes (fst (handle (fst (handle h mg)) (pay_done k))) RIdle [] [EMsg mg; EMsg (pay_done k)].
Proof.
  intros O A S. rewrite feedx_idle, O, (handle_cont h mg), A, S.
  rewrite feedx_pay. unfold lenN.
  assert (X : (N.of_nat (length d) <? N.of_nat (length d))%N = false) by (apply N.ltb_ge; lia). rewrite X.
  rewrite (handle_cont _ (pay_done k)). rewrite Nat2N.id, skipn_all, feedx_idle. reflexivity.
Qed.

Lemma enc_one h m : wf_wmsg rl m ->
  feedx h RIdle (enc_msg m) = PRes (hfold h (denotes m)) RIdle [] (map EMsg (denotes m)).
Proof.
  intros W. pose proof (policy_accepts_hdr m W) as PH.
  destruct m; cbn [enc_msg denotes map hfold fold_left whdr fst snd] in *.
  - (* keep-alive *)
    apply feed_plain with (n := 4); try reflexivity.
  - apply feed_plain with (n := 5); try reflexivity.
    rewrite one_msg_enc by lia. unfold one_body. rewrite PH. reflexivity.
  - apply feed_plain with (n := 5); try reflexivity.
    rewrite one_msg_enc by lia. unfold one_body. rewrite PH. reflexivity.
  - apply feed_plain with (n := 5); try reflexivity.
    rewrite one_msg_enc by lia. unfold one_body. rewrite PH. reflexivity.
  - apply feed_plain with (n := 5); try reflexivity.
    rewrite one_msg_enc by lia. unfold one_body. rewrite PH. reflexivity.
  - (* have *)
    cbn in W. apply feed_plain with (n := 9); try reflexivity.
    rewrite one_msg_enc by lia. unfold one_body. rewrite PH. idtests.
    unfold rd32, rd, be32. cbn [app length Nat.ltb Nat.leb Nat.add N.to_nat Pos.to_nat Pos.iter_op nth_error].
    rewrite be32_val by assumption. reflexivity.
  - (* request *)
    cbn in W. destruct W as (W1 & W2 & W3). apply feed_plain with (n := 17); try reflexivity.
    rewrite one_msg_enc by lia. unfold one_body. rewrite PH. idtests.
    unfold rd32, rd, be32. cbn [app length Nat.ltb Nat.leb Nat.add N.to_nat Pos.to_nat Pos.iter_op nth_error].
    rewrite !be32_val by assumption. reflexivity.
  - (* cancel *)
    cbn in W. destruct W as (W1 & W2 & W3). apply feed_plain with (n := 17); try reflexivity.
    rewrite one_msg_enc by lia. unfold one_body. rewrite PH. idtests.
    unfold rd32, rd, be32. cbn [app length Nat.ltb Nat.leb Nat.add N.to_nat Pos.to_nat Pos.iter_op nth_error].
    rewrite !be32_val by assumption. reflexivity.
  - (* port *)
    cbn in W. apply feed_plain with (n := 7); try reflexivity.
    rewrite one_msg_enc by lia. unfold one_body. rewrite PH. idtests.
    unfold rd16, rd, be32. cbn [app length Nat.ltb Nat.leb Nat.add N.to_nat Pos.to_nat Pos.iter_op nth_error].
    rewrite be16_val by assumption. reflexivity.
  - (* piece *)
    cbn in W. destruct W as (R & W1 & W2 & W3).
    apply (feed_payload h _ (MPiece i o (lenN data)) 13 KPiece data); [|reflexivity|reflexivity].
    rewrite one_msg_enc by lia. unfold one_body. rewrite PH. idtests.
    rewrite R. cbn [is_leech negb].
    change Params.c03_piece_min_len with 9%N. change Params.c03_piece_hdr_sub with 9%N.
    assert (X : (9 + lenN data <? 9)%N = false) by (apply N.ltb_ge; lia). rewrite X.
    unfold rd32, rd, be32. cbn [app length Nat.ltb Nat.leb Nat.add N.to_nat Pos.to_nat Pos.iter_op nth_error].
    rewrite !be32_val by assumption.
    replace (9 + lenN data - 9)%N with (lenN data) by lia. reflexivity.
  - (* extension *)
    cbn in W. destruct W as (W1 & W2).
    apply (feed_payload h _ (MExt ty (lenN data)) 6 KExt data); [|reflexivity|reflexivity].
    rewrite one_msg_enc by lia. unfold one_body. rewrite PH. idtests.
    unfold rd, be32. cbn [app length Nat.ltb Nat.leb Nat.add N.to_nat Pos.to_nat Pos.iter_op nth_error].
    change Params.c03_ext_hdr_sub with 2%N. change Params.c03_ext_limit with 32768%N.
    assert (E : sub32 (2 + lenN data) 2 = lenN data) by (unfold sub32; lia). rewrite E.
    assert (X1 : p_ext pol ty (lenN data) = false) by (apply policy_accepts_ext; cbn; tauto).
    assert (X2 : (32768 <? lenN data)%N = false) by (apply N.ltb_ge; lia).
    assert (X3 : (2147483648 <=? lenN data)%N = false) by (apply N.leb_gt; lia).
    rewrite X1, X2, X3. reflexivity.
  - (* bitfield (metadata connection) *)
    cbn in W. destruct W as (R & W1).
    apply (feed_payload h _ (MBitfield (lenN data)) 5 KBits data); [|reflexivity|reflexivity].
    rewrite one_msg_enc by lia. unfold one_body. rewrite PH. idtests. rewrite R. cbn [is_meta].
    replace (1 + lenN data - 1)%N with (lenN data) by lia. reflexivity.
Qed.

Lemma hfold_app h a b : hfold (hfold h a) b = hfold h (a ++ b).
Proof. unfold hfold. rewrite fold_left_app. reflexivity. Qed.

Theorem decode_spec : forall (ms : list wmsg) (h : HS),
  Forall (wf_wmsg rl) ms ->
  decode HS handle rl pol h (encode_msgs ms) =
  PRes (hfold h (concat (map denotes ms))) RIdle [] (map EMsg (concat (map denotes ms))).
Proof.
  intros ms h W. rewrite decode_feedx. revert h. induction W as [|m ms Wm Wms IH]; intros h.
  - cbn. rewrite feedx_idle. reflexivity.
  - cbn [encode_msgs map concat]. rewrite (feedx_app' HS handle rl pol h RIdle (enc_msg m)), (enc_one h m Wm).
    unfold ProofsB.pbind. cbn [app]. fold (encode_msgs ms). rewrite IH.
    unfold ProofsB.papp. rewrite hfold_app, map_app. reflexivity.
Qed.

End Spec.

(* non-vacuity: a handler that always continues, and a well-formed list with every payload kind *)
Example decode_spec_sat :
  decode unit (fun h _ => (h, VCont)) Leech pol_src tt
         (encode_msgs [WKeepAlive; WInterested; WHave 3; WRequest 1 0 16384; WPiece 1 0 [7; 7]%N; WExt 0 [100; 101]%N; WPort 6881])
  = PRes tt RIdle [] (map EMsg [MKeepAlive; MInterested; MHave 3; MRequest 1 0 16384; MPiece 1 0 2; MPieceDone;
                                MExt 0 2; MExtDone; MPort 6881]%N).
Proof. vm_compute. reflexivity. Qed.
