(* C03 proofs, part 1: parameters. *)
From Coq Require Import NArith List Bool Arith Lia.
From LTV.C03 Require Import ParamsGen Model.
Import ListNotations.
Open Scope N_scope.

(* side conditions on the constants extracted from the sources *)
Definition params_ok : bool :=
  (Params.c03_buffer_size <=? Params.c03_buffer_tmpl) &&
  (Params.c03_sizeof_piece <=? Params.c03_buffer_size) && (0 <? Params.c03_sizeof_piece) &&
  (Params.c03_have_body =? 4) && (Params.c03_request_body =? 12) && (Params.c03_piece_body =? 8) &&
  (Params.c03_port_body =? 2) && (Params.c03_ext_body =? 1) &&
  (Params.c03_id_extension =? 20) &&
  (Params.c03_max_msg_len =? 1048576) && (Params.c03_piece_min_len =? 9) && (Params.c03_piece_hdr_sub =? 9) &&
  (Params.c03_ext_hdr_sub =? 2) && (Params.c03_ext_limit =? 32768) &&
  (* tuning constants of the upload queue: any positive value (the model follows the compiled value) *)
  (0 <? Params.c03_request_len_limit) && (0 <? Params.c03_max_request_queue) &&
  (Params.c03_ext_first_invalid =? 3) && (17 <? Params.c03_buffer_size).

Lemma params_ok_now : params_ok = true.
Proof. vm_compute. reflexivity. Qed.
