(* C03 proofs, part C: theorems in the form used by Properties.v, computed witnesses,
   non-vacuity examples. *)
From Coq Require Import NArith List Bool Arith Lia.
From LTV.C03 Require Import ParamsGen Model Proofs ProofsA ProofsB.
Import ListNotations.
Local Open Scope nat_scope.

Section Generic.
Variable HS : Type.
Variable handle : HS -> msg -> HS * verdict.
Variable rl : role.
Variable pol : policy.

(* decode in the fuel-free form *)
Lemma decode_feedx h s : decode HS handle rl pol h s = feedx HS handle rl pol h RIdle s.
Proof. unfold decode. apply feedx_fuel. unfold mu. lia. Qed.

(* Decoder-level segmentation independence: whatever the partition of the stream into
   chunks, decoding chunk after chunk (keeping the undecoded rest, the handler state and the
   PIECE / extension sub-state in between) yields the handler state, mode, unread rest and
   effect sequence of decoding the whole stream at once. *)
Theorem decoder_segmentation_independent :
  forall (h : HS) (chunks : list (list N)),
    feed_chunks HS handle rl pol h RIdle [] chunks = decode HS handle rl pol h (concat chunks).
Proof.
  intros. rewrite decode_feedx. rewrite feed_chunks_concat; [reflexivity|].
  rewrite feedx_idle. reflexivity.
Qed.

(* the same from any settled state (mid-payload included) *)
Theorem decoder_segmentation_independent_from :
  forall h m buf chunks1 chunks2,
    feedx HS handle rl pol h m buf = PRes h m buf [] ->
    concat chunks1 = concat chunks2 ->
    feed_chunks HS handle rl pol h m buf chunks1 = feed_chunks HS handle rl pol h m buf chunks2.
Proof. intros. rewrite !feed_chunks_concat by assumption. congruence. Qed.

(* buffer_safe / totality of the decoder: never Fault (a read outside the unread bytes),
   never out of fuel *)
Theorem decode_total : forall h s, exists h' m' b' es, decode HS handle rl pol h s = PRes h' m' b' es.
Proof. intros. rewrite decode_feedx. apply feedx_total'. Qed.

(* what is left unread after decoding is an incomplete message of at most 16 bytes *)
Theorem decode_rest_incomplete : forall h s h' b' es,
  decode HS handle rl pol h s = PRes h' RIdle b' es -> one_msg pol rl b' = NeedMore.
Proof.
  intros h s h' b' es H. rewrite decode_feedx in H.
  exact (feedx_shape HS handle rl pol (S (mu RIdle s)) _ _ _ _ _ _ _ (Nat.lt_succ_diag_r _) H).
Qed.

Theorem no_fatal_from_input :
  handler_never_fatal HS handle ->
  forall h s h' m' b' es, decode HS handle rl pol h s = PRes h' m' b' es -> ~ In EFatal es.
Proof.
  intros NF h s h' m' b' es H. rewrite decode_feedx in H.
  exact (feedx_no_fatal HS handle rl pol NF (S (mu RIdle s)) _ _ _ _ _ _ _ (Nat.lt_succ_diag_r _) H).
Qed.

End Generic.

(* an incomplete message is shorter than the longest header *)
Lemma needmore_short pol r l : one_msg pol r l = NeedMore -> length l < 17.
Proof.
  unfold one_msg, one_body.
  repeat match goal with
  | |- context [(length ?l <? ?k)%nat] =>
      let E := fresh "E" in destruct (length l <? k)%nat eqn:E;
      [ rewrite Nat.ltb_lt in E; simpl in E; intros; lia | ]
  | |- context [match rd32 ?l ?k with _ => _ end] => destruct (rd32 l k)
  | |- context [match rd16 ?l ?k with _ => _ end] => destruct (rd16 l k)
  | |- context [match rd ?l ?k with _ => _ end] => destruct (rd l k)
  | |- context [if ?c then _ else _] => destruct c
  end; congruence.
Qed.

Theorem decode_rest_incomplete_short (HS : Type) (handle : HS -> msg -> HS * verdict) (rl : role) (pol : policy) :
  forall (h : HS) (s : list N) (h' : HS) (b' : list N) (es : list effect),
  decode HS handle rl pol h s = PRes h' RIdle b' es -> one_msg pol rl b' = NeedMore /\ length b' < 17.
Proof.
  intros h s h' b' es H. pose proof (decode_rest_incomplete HS handle rl pol h s h' b' es H) as X.
  split; [exact X|]. apply (needmore_short pol rl b' X).
Qed.

(* ---------- concrete instances: the correspondence handler ------------------------------- *)
Definition cfg_seed : cfg := mk_cfg Seed 8 true true [] pol_src [].
Definition cfg_leech : cfg := mk_cfg Leech 8 false true [] pol_src [].
Definition h0 (c : cfg) : hst := hinit c (repeat false 8) false false false.

Lemma hreal_never_fatal c : handler_never_fatal hst (hreal c).
Proof.
  intros h m. unfold hreal.
  destruct m; cbn;
  repeat match goal with
  | |- context [if ?c then _ else _] => destruct c; cbn
  | |- context [match c_role ?c with _ => _ end] => destruct (c_role c); cbn
  end; congruence.
Qed.

Definition interested_msg : list N := [0; 0; 0; 1; 2]%N.
Definition keepalive_msg : list N := [0; 0; 0; 0]%N.

Definition effs_of (r : mres hst) : option (list effect) :=
  match r with MRet _ _ es => Some es | _ => None end.
Definition peffs_of (r : pres hst) : option (list effect) :=
  match r with PRes _ _ _ es => Some es | _ => None end.
Definition mbuf_of (r : mres hst) : option (list N) :=
  match r with MRet s _ _ => Some (m_buf s) | _ => None end.

(* Handover path (HandshakeManager::receive_succeeded: push_unread + one event_read on an
   empty socket).  Before commit 5c4764e event_read returned on the 0-byte recv BEFORE
   read_message ran and this was `handover_complete_refuted` (witness: the 5 bytes of INTERESTED
   handed over, nothing follows: nothing emitted, a complete message kept in the buffer).
   With the repaired code the same witness is dispatched; the general theorem is
   ProofsD.handover_dispatches_complete. *)
Example handover_witness_dispatched :
  effs_of (run_real cfg_seed (fun _ => 0) (fun _ => false) (h0 cfg_seed) interested_msg []) = Some [EMsg MInterested] /\
  mbuf_of (run_real cfg_seed (fun _ => 0) (fun _ => false) (h0 cfg_seed) interested_msg []) = Some [].
Proof. split; vm_compute; reflexivity. Qed.

(* ... and as soon as one more segment arrives the whole buffer is decoded *)
Example handover_then_more :
  effs_of (run_real cfg_seed (fun _ => 0) (fun _ => false) (h0 cfg_seed) interested_msg [keepalive_msg])
  = peffs_of (decode_real cfg_seed (h0 cfg_seed) (interested_msg ++ keepalive_msg)).
Proof. vm_compute. reflexivity. Qed.

(* non-vacuity: a stream with every kind of message, three segmentations, same result *)
Definition sample_stream : list N :=
  ([0;0;0;0] ++ [0;0;0;1;2] ++ [0;0;0;5;4;0;0;0;3] ++ [0;0;0;13;6;0;0;0;1;0;0;0;0;0;0;64;0]
   ++ [0;0;0;11;7;0;0;0;1;0;0;0;0;9;9] ++ [0;0;0;4;20;0;100;101] ++ [0;0;0;3;9;26;225] ++ [0;0;0;5;4;0;0;0;9])%N.

Example sample_decode :
  peffs_of (decode_real cfg_leech (h0 cfg_leech) sample_stream) =
  Some [EMsg MKeepAlive; EMsg MInterested; EMsg (MHave 3); EMsg (MRequest 1 0 16384);
        EMsg (MPiece 1 0 2); EMsg MPieceDone; EMsg (MExt 0 2); EMsg MExtDone; EMsg (MPort 6881);
        EMsg (MHave 9); EClose RHandler]%N.
Proof. vm_compute. reflexivity. Qed.

Example sample_chunks :
  feed_chunks hst (hreal cfg_leech) Leech pol_src (h0 cfg_leech) RIdle [] (map (fun b => [b]) sample_stream)
  = decode_real cfg_leech (h0 cfg_leech) sample_stream.
Proof. vm_compute. reflexivity. Qed.

Example sample_machine_bytewise :
  effs_of (run_real cfg_leech (fun _ => 2) (fun k => Nat.even k) (h0 cfg_leech) [] (map (fun b => [b]) sample_stream))
  = peffs_of (decode_real cfg_leech (h0 cfg_leech) sample_stream).
Proof. vm_compute. reflexivity. Qed.

Example handler_never_fatal_sat : handler_never_fatal hst (hreal cfg_leech).
Proof. apply hreal_never_fatal. Qed.
