(* C03 proofs, part H: totality of the metadata machine -- PeerConnectionMetadata::event_read
   never writes past the 512-byte buffer (MFault) and never spins (MOut); with ProofsF this gives
   the unconditional segmentation-independence theorem for the metadata connection. *)
From Coq Require Import NArith List Bool Arith Lia.
From LTV.C03 Require Import ParamsGen Model Proofs ProofsA ProofsB ProofsC ProofsD ProofsF.
Import ListNotations.
Local Open Scope nat_scope.
Arguments ProofsB.feedx : simpl never.
Arguments ProofsB.papp : simpl never.

Lemma one_msg_len4 pol r l : one_msg pol r l <> NeedMore -> 4 <= length l.
Proof.
  unfold one_msg. destruct (length l <? 4) eqn:E; [congruence|]. intros _. apply Nat.ltb_ge in E. exact E.
Qed.

Section MetaTotal.
Variable HS : Type.
Variable handle : HS -> msg -> HS * verdict.
Variable rl : role.
Variable pol : policy.
Variable budget : nat -> nat.

Notation feedx := (feedx HS handle rl pol).
Notation feeds := (feeds HS handle rl pol).
Notation ev_meta := (ev_meta HS handle rl pol budget).
Notation drain_meta := (drain_meta HS handle rl pol budget).
Notation run_segs_meta := (run_segs_meta HS handle rl pol budget).
Notation mst := (mst HS).
Notation good := (good HS handle rl pol).

Lemma feeds_len : forall f h m l h1 m1 b1 es1,
  feeds f h m l = PRes h1 m1 b1 es1 ->
  length b1 <= length l /\ (m = RIdle -> m1 <> RIdle -> length b1 + 4 <= length l).
Proof.
  induction f as [|f IH]; intros h m l h1 m1 b1 es1 H; [discriminate|].
  cbn [Model.feeds] in H. destruct m as [|k lft|].
  - destruct (one_msg pol rl l) eqn:E; try discriminate.
    + inversion H; subst. split; [lia|]. intros _ X. congruence.
    + assert (4 <= length l) by (apply (one_msg_len4 pol rl); congruence).
      inversion H; subst. cbn [length]. split; lia.
    + assert (4 <= length l) by (apply (one_msg_len4 pol rl); congruence).
      inversion H; subst. cbn [length]. split; lia.
    + destruct (one_msg_got_len _ _ _ _ _ E) as [[L1 L2] _].
      assert (LS : length (skipn n l) + 4 <= length l) by (rewrite skipn_length; lia).
      destruct (handle h m) as [h' v]. destruct v.
      * destruct (after m) as [[k len]|].
        -- destruct k.
           ++ destruct (feeds f h' (RPay KPiece len) (skipn n l)) as [h2 m2 b2 es2| |] eqn:F; cbn in H; try discriminate.
              inversion H; subst. destruct (IH _ _ _ _ _ _ _ F) as [X _]. split; lia.
           ++ destruct (feeds f h' (RPay KExt len) (skipn n l)) as [h2 m2 b2 es2| |] eqn:F; cbn in H; try discriminate.
              inversion H; subst. destruct (IH _ _ _ _ _ _ _ F) as [X _]. split; lia.
           ++ inversion H; subst. split; lia.
        -- destruct (feeds f h' RIdle (skipn n l)) as [h2 m2 b2 es2| |] eqn:F; cbn in H; try discriminate.
           inversion H; subst. destruct (IH _ _ _ _ _ _ _ F) as [X _]. split; lia.
      * inversion H; subst. cbn [length]. split; lia.
      * inversion H; subst. cbn [length]. split; lia.
  - destruct (N.of_nat (length l) <? lft)%N.
    + inversion H; subst. cbn [length]. split; [lia|]. intros X; discriminate.
    + destruct (handle h (pay_done k)) as [h' v]. destruct v.
      * pose proof (skipn_length_le (N.to_nat lft) l).
        destruct (feeds f h' RIdle (skipn (N.to_nat lft) l)) as [h2 m2 b2 es2| |] eqn:F; cbn in H; try discriminate.
        inversion H; subst. destruct (IH _ _ _ _ _ _ _ F) as [X _]. split; [lia|]. intros X0; discriminate.
      * inversion H; subst. cbn [length]. split; [lia|]. intros X0; discriminate.
      * inversion H; subst. cbn [length]. split; [lia|]. intros X0; discriminate.
  - inversion H; subst. cbn [length]. split; [lia|]. intros X0; discriminate.
Qed.

Lemma feeds_total : forall f h m l, mu m l < f -> exists h1 m1 b1 es1, feeds f h m l = PRes h1 m1 b1 es1.
Proof.
  induction f as [|f IH]; intros h m l Hf; [lia|].
  cbn [Model.feeds]. destruct m as [|k lft|].
  - destruct (one_msg pol rl l) eqn:E; try (do 4 eexists; reflexivity).
    + exfalso. eapply one_msg_no_fault; eauto.
    + destruct (one_msg_got_len _ _ _ _ _ E) as [[L1 L2] _].
      assert (LS : length (skipn n l) + 4 <= length l) by (rewrite skipn_length; lia).
      unfold mu in Hf.
      destruct (handle h m) as [h' v]. destruct v; try (do 4 eexists; reflexivity).
      destruct (after m) as [[k len]|].
      * destruct k.
        -- destruct (IH h' (RPay KPiece len) (skipn n l)) as (a & b & c & d & Q); [unfold mu; lia|]. rewrite Q. cbn. do 4 eexists; reflexivity.
        -- destruct (IH h' (RPay KExt len) (skipn n l)) as (a & b & c & d & Q); [unfold mu; lia|]. rewrite Q. cbn. do 4 eexists; reflexivity.
        -- do 4 eexists; reflexivity.
      * destruct (IH h' RIdle (skipn n l)) as (a & b & c & d & Q); [unfold mu; lia|]. rewrite Q. cbn. do 4 eexists; reflexivity.
  - destruct (N.of_nat (length l) <? lft)%N; try (do 4 eexists; reflexivity).
    destruct (handle h (pay_done k)) as [h' v]. destruct v; try (do 4 eexists; reflexivity).
    pose proof (skipn_length_le (N.to_nat lft) l). unfold mu in Hf.
    destruct (IH h' RIdle (skipn (N.to_nat lft) l)) as (a & b & c & d & Q); [unfold mu; lia|]. rewrite Q. cbn. do 4 eexists; reflexivity.
  - do 4 eexists; reflexivity.
Qed.

(* the measure of the event_read loop *)
Definition mm (s : mst) (avail : list N) : nat :=
  match m_mode s with
  | RClosed => 0
  | RIdle => 2 * (length avail + length (m_buf s))
  | RPay _ _ => S (2 * (length avail + length (m_buf s)))
  end.

Lemma good_idle_short s : good s -> m_mode s = RIdle -> length (m_buf s) < 17.
Proof. intros [_ G] M. rewrite M in G. apply needmore_short in G. exact G. Qed.

Lemma bufsz_val : bufsz = 512. Proof. reflexivity. Qed.
Lemma bufcap_val : bufcap = 512. Proof. reflexivity. Qed.

Lemma ev_meta_total : forall fuel s avail,
  mm s avail < fuel -> length (m_buf s) <= bufcap -> (m_mode s = RClosed -> good s) ->
  exists s' a' es, ev_meta fuel s avail = MRet s' a' es /\ length a' <= length avail /\
                   (good s -> avail <> [] -> m_mode s <> RClosed -> length a' < length avail).
Proof.
  induction fuel as [|f IH]; intros s avail MU LB GC; [lia|].
  cbn [Model.ev_meta]. cbv zeta. unfold mm in MU.
  destruct (m_mode s) as [|k lft|] eqn:M.
  - (* RIdle *)
    set (want := if length (m_buf s) <? bufsz then Nat.min (bufsz - length (m_buf s)) (cap budget (m_cnt s)) else 0).
    pose proof (firstn_skipn want avail) as FS.
    pose proof (f_equal (@length N) FS) as FSL. rewrite app_length in FSL.
    assert (GL : length (firstn want avail) <= want) by (rewrite firstn_length; lia).
    remember (firstn want avail) as got. remember (skipn want avail) as avail1.
    assert (SEND : length (m_buf s) + length got <= 512).
    { unfold want in GL. rewrite bufsz_val in GL. rewrite bufcap_val in LB.
      destruct (length (m_buf s) <? 512) eqn:E; [apply Nat.ltb_lt in E|]; lia. }
    assert (CAP : (bufcap <? length (m_buf s) + length got) = false) by (apply Nat.ltb_ge; rewrite bufcap_val; lia).
    rewrite CAP.
    destruct (feeds_total (S (length (m_buf s) + length got)) (m_h s) RIdle (m_buf s ++ got)) as (h1 & m1 & b1 & es1 & F1);
      [unfold mu; rewrite app_length; lia|].
    rewrite F1.
    destruct (feeds_len _ _ _ _ _ _ _ _ F1) as [LEN1 LEN2]. rewrite app_length in LEN1, LEN2.
    assert (MU1 : mu RIdle (m_buf s ++ got) < S (length (m_buf s) + length got)) by (unfold mu; rewrite app_length; lia).
    destruct (feeds_refines HS handle rl pol budget _ _ _ _ _ _ _ _ MU1 F1) as [_ G1].
    (* progress on the socket when the state is settled *)
    assert (PROG : good s -> avail <> [] -> length got <> 0).
    { intros G NE. pose proof (good_idle_short s G M) as SH.
      subst got. rewrite firstn_length. unfold want. rewrite bufsz_val.
      assert (E : (length (m_buf s) <? 512) = true) by (apply Nat.ltb_lt; lia). rewrite E.
      destruct avail; [congruence|]. cbn [length]. unfold cap. lia. }
    (* the common continuation *)
    assert (REC : forall (h2 : HS) (m2 : rmode) (b2 : list N) (c : nat) (a2 : list N) (e0 : list effect) (bb : bool),
               length a2 <= length avail1 -> length b2 <= 512 ->
               (m2 = RClosed -> good (mk_mst h2 m2 b2 c)) ->
               (bb = true -> mm (mk_mst h2 m2 b2 c) a2 < f) ->
               exists s' a' es,
                 (if bb then mapp HS e0 (ev_meta f (mk_mst h2 m2 b2 c) a2) else MRet (mk_mst h2 m2 b2 c) a2 e0) = MRet s' a' es /\
                 length a' <= length avail /\ (good s -> avail <> [] -> RIdle <> RClosed -> length a' < length avail)).
    { intros h2 m2 b2 c a2 e0 bb LA LB2 GC2 MU2. destruct bb.
      - destruct (IH (mk_mst h2 m2 b2 c) a2 (MU2 eq_refl)) as (s' & a' & es & E & LE & _);
          [cbn [m_buf]; rewrite bufcap_val; exact LB2|exact GC2|].
        rewrite E. cbn [mapp]. do 3 eexists. split; [reflexivity|]. split; [lia|].
        intros G NE _. pose proof (PROG G NE). lia.
      - do 3 eexists. split; [reflexivity|]. split; [lia|].
        intros G NE _. pose proof (PROG G NE). lia. }
    assert (GC1 : forall c, m1 = RClosed -> good (mk_mst h1 m1 b1 c)).
    { intros c ->. destruct G1 as [[? X]|G1]; [discriminate|exact G1]. }
    destruct m1 as [|k1 lft1|].
    + (* stays idle: loops only if the buffer was filled to 512 *)
      apply REC; [lia|lia|apply GC1|].
      intros C. cbn [is_idle negb] in C. rewrite orb_false_r in C. apply Nat.eqb_eq in C. rewrite bufsz_val in C.
      unfold mm. cbn [m_mode m_buf].
      assert (SH : length b1 < 17).
      { destruct G1 as [[? X]|G1]; [discriminate|]. apply (good_idle_short _ G1 eq_refl). }
      lia.
    + destruct k1.
      * apply REC; [lia|lia|apply GC1|]. intros _. unfold mm. cbn [m_mode m_buf].
        pose proof (LEN2 eq_refl ltac:(discriminate)). lia.
      * (* extension payload incomplete: one recv inside read_message *)
        assert (B1 : b1 = []) by (destruct G1 as [[? X]|[_ G1]]; [discriminate|exact G1]). subst b1.
        pose proof (LEN2 eq_refl ltac:(discriminate)) as L4. cbn [length] in L4.
        remember (firstn (Nat.min (N.to_nat lft1) (cap budget (S (m_cnt s)))) avail1) as got2.
        remember (skipn (Nat.min (N.to_nat lft1) (cap budget (S (m_cnt s)))) avail1) as avail2.
        assert (LA2 : length avail2 <= length avail1) by (subst avail2; rewrite skipn_length; lia).
        rewrite (feedx_fuel HS handle rl pol) by (unfold mu; lia).
        destruct (feedx_total' HS handle rl pol h1 (RPay KExt lft1) got2) as (h2 & m2 & b2 & es2 & F2). rewrite F2.
        pose proof (good_of_feed HS handle rl pol _ _ _ _ _ _ _ (S (S (m_cnt s))) F2) as G2.
        assert (LG : (N.of_nat (length got2) <= lft1)%N) by (subst got2; rewrite firstn_length; lia).
        destruct (pay_slice HS handle rl pol _ _ _ _ _ _ _ _ LG F2) as [B2 _]. subst b2.
        apply REC; [exact LA2|cbn [length]; lia|intros _; exact G2|].
        intros _. unfold mm. cbn [m_mode m_buf length]. destruct m2; lia.
      * apply REC; [lia|lia|apply GC1|]. intros _. unfold mm. cbn [m_mode m_buf].
        pose proof (LEN2 eq_refl ltac:(discriminate)). lia.
    + apply REC; [lia|lia|apply GC1|]. intros _. unfold mm. cbn [m_mode].
      pose proof (LEN2 eq_refl ltac:(discriminate)). lia.
  - (* RPay *)
    set (c := Nat.min (N.to_nat lft) (length (m_buf s))).
    assert (LC : (N.of_nat (length (firstn c (m_buf s))) <= lft)%N) by (rewrite firstn_length; unfold c; lia).
    assert (LC2 : length (firstn c (m_buf s)) = c) by (rewrite firstn_length; unfold c; lia).
    assert (LR : length (skipn c (m_buf s)) = length (m_buf s) - c) by apply skipn_length.
    rewrite (feedx_fuel HS handle rl pol) by (unfold mu; lia).
    destruct (feedx_total' HS handle rl pol (m_h s) (RPay k lft) (firstn c (m_buf s))) as (h1 & m1 & b1 & es1 & F1). rewrite F1.
    destruct (pay_slice HS handle rl pol _ _ _ _ _ _ _ _ LC F1) as [B1 PL]. subst b1.
    pose proof (good_of_feed HS handle rl pol _ _ _ _ _ _ _ (m_cnt s) F1) as G1.
    destruct m1 as [|k1 lft1|].
    + destruct (IH (mk_mst h1 RIdle (skipn c (m_buf s)) (m_cnt s)) avail) as (s' & a' & es & E & LE & _).
      * unfold mm. cbn [m_mode m_buf]. lia.
      * cbn [m_buf]. lia.
      * cbn [m_mode]. discriminate.
      * rewrite E. cbn [mapp]. do 3 eexists. split; [reflexivity|]. split; [lia|].
        (* settled payload state: the buffer is empty and lft > 0, so this branch consumed nothing from the
           buffer and cannot have completed *)
        intros G NE _. exfalso.
        pose proof (good_pay_pos HS handle rl pol s k lft G M) as LP.
        destruct G as [_ GB]. rewrite M in GB. unfold c in *. rewrite GB in *. cbn [length firstn] in *.
        replace (Nat.min (N.to_nat lft) 0) with 0 in F1 by lia. cbn [firstn] in F1.
        rewrite feedx_pay in F1. cbn [length] in F1.
        assert (X : (N.of_nat 0 <? lft)%N = true) by (apply N.ltb_lt; lia). rewrite X in F1. discriminate.
    + assert (REST : skipn c (m_buf s) = []).
      { pose proof (PL _ _ eq_refl) as LT. rewrite LC2 in LT. apply skipn_all2. unfold c in *. lia. }
      rewrite REST.
      assert (LP1 : (0 < lft1)%N).
      { destruct G1 as [GS _]. cbn [m_h m_mode m_buf] in GS. rewrite feedx_pay in GS. cbn [length] in GS.
        destruct (N.of_nat 0 <? lft1)%N eqn:E; [apply N.ltb_lt in E; lia|].
        exfalso. destruct (handle h1 (pay_done k1)) as [h' v]. destruct v.
        - destruct (ProofsB.feedx HS handle rl pol h' RIdle (skipn (N.to_nat lft1) [])); cbn in GS; inversion GS.
        - inversion GS.
        - inversion GS. }
      set (want := Nat.min (N.to_nat lft1) (cap budget (m_cnt s))).
      assert (W : 0 < want) by (unfold want, cap; lia).
      pose proof (firstn_skipn want avail) as FS.
      pose proof (f_equal (@length N) FS) as FSL. rewrite app_length in FSL.
      destruct (firstn want avail) as [|g0 gs] eqn:GOT.
      * do 3 eexists. split; [reflexivity|]. split; [lia|].
        intros _ NE _. exfalso. apply (firstn_nonempty want avail W NE). exact GOT.
      * cbn [length] in FSL.
        rewrite (feedx_fuel HS handle rl pol) by (unfold mu; cbn [length]; lia).
        destruct (feedx_total' HS handle rl pol h1 (RPay k1 lft1) (g0 :: gs)) as (h2 & m2 & b2 & es2 & F2). rewrite F2.
        assert (LG : (N.of_nat (length (g0 :: gs)) <= lft1)%N).
        { pose proof (firstn_le_length want avail) as FL. rewrite GOT in FL. unfold want in FL. lia. }
        destruct (pay_slice HS handle rl pol _ _ _ _ _ _ _ _ LG F2) as [B2 _]. subst b2.
        destruct m2 as [|k2 lft2|].
        -- destruct (IH (mk_mst h2 RIdle [] (S (m_cnt s))) (skipn want avail)) as (s' & a' & es & E & LE & _).
           ++ unfold mm. cbn [m_mode m_buf length]. lia.
           ++ cbn [m_buf length]. lia.
           ++ cbn [m_mode]. discriminate.
           ++ rewrite E. cbn [mapp]. do 3 eexists. split; [reflexivity|]. split; lia.
        -- do 3 eexists. split; [reflexivity|]. split; lia.
        -- do 3 eexists. split; [reflexivity|]. split; lia.
    + do 3 eexists. split; [reflexivity|]. split; [lia|].
      intros G NE _. exfalso.
      pose proof (good_pay_pos HS handle rl pol s k lft G M) as LP.
      destruct G as [_ GB]. rewrite M in GB. unfold c in *. rewrite GB in *. cbn [length] in *.
      replace (Nat.min (N.to_nat lft) 0) with 0 in F1 by lia. cbn [firstn] in F1.
      rewrite feedx_pay in F1. cbn [length] in F1.
      assert (X : (N.of_nat 0 <? lft)%N = true) by (apply N.ltb_lt; lia). rewrite X in F1. discriminate.
  - do 3 eexists. split; [reflexivity|]. split; [lia|]. intros _ _ X. congruence.
Qed.

Lemma good_buf_le s : good s -> length (m_buf s) <= bufcap.
Proof.
  intros G. rewrite bufcap_val. destruct (m_mode s) eqn:M.
  - pose proof (good_idle_short s G M). lia.
  - destruct G as [_ GB]. rewrite M in GB. rewrite GB. cbn. lia.
  - destruct G as [_ GB]. rewrite M in GB. rewrite GB. cbn. lia.
Qed.

Lemma mm_fuel s avail : mm s avail < evm_fuel HS s avail.
Proof. unfold mm, evm_fuel. destruct (m_mode s); lia. Qed.

Lemma drain_meta_total : forall fuel s avail, good s -> length avail < fuel ->
  exists s' es, drain_meta fuel s avail = MRet s' [] es.
Proof.
  induction fuel as [|f IH]; intros s avail G L; [lia|].
  cbn [Model.drain_meta]. destruct avail as [|a0 av]; [do 2 eexists; reflexivity|].
  destruct (ev_meta_total (evm_fuel HS s (a0 :: av)) s (a0 :: av) (mm_fuel s (a0 :: av)) (good_buf_le s G) (fun _ => G))
    as (s1 & a1 & e1 & E & LE & LT).
  destruct (ev_meta_refines HS handle rl pol budget _ _ _ _ _ _ (fun _ => G) E) as [_ G1].
  assert (STEP : m_mode s <> RClosed ->
            exists s' es,
              (if length a1 <? length (a0 :: av) then mapp HS e1 (drain_meta f s1 a1)
               else match m_mode s1 with RClosed => MRet s1 [] e1 | _ => MOut end) = MRet s' [] es).
  { intros NC. assert (LT' : length a1 < length (a0 :: av)) by (apply LT; [exact G|discriminate|exact NC]).
    assert (X : (length a1 <? length (a0 :: av)) = true) by (apply Nat.ltb_lt; exact LT'). rewrite X.
    destruct (IH s1 a1 G1) as (s' & es & D); [cbn [length] in *; lia|].
    rewrite D. cbn [mapp]. do 2 eexists; reflexivity. }
  destruct (m_mode s) eqn:M.
  - rewrite E. apply STEP. discriminate.
  - rewrite E. apply STEP. discriminate.
  - do 2 eexists; reflexivity.
Qed.

Lemma run_segs_meta_total : forall segs s, good s -> exists s' es, run_segs_meta s segs = MRet s' [] es.
Proof.
  induction segs as [|seg more IH]; intros s G; [do 2 eexists; reflexivity|].
  cbn [Model.run_segs_meta].
  destruct (drain_meta_total (drain_fuel seg) s seg G) as (s1 & e1 & D); [unfold drain_fuel; lia|].
  rewrite D. destruct (drain_meta_refines HS handle rl pol budget _ _ _ _ _ _ G D) as [G1 _].
  destruct (IH s1 G1) as (s' & es & R). rewrite R. cbn [mapp]. do 2 eexists; reflexivity.
Qed.

(* The metadata connection, unconditionally: for every handler, recv budget oracle, handed-over
   prefix (at most the 512 bytes HandshakeManager accepts) and every list of segments the run ends
   normally -- no MFault (no write past the 512-byte buffer), no MOut (the event_read loop
   terminates: measure 2 * (socket + buffer) + [payload mode]) -- and handler state, read mode,
   unread rest and effects are those of decoding the whole stream. *)
Theorem meta_machine_segmentation_independent : forall (h : HS) (pre : list N) (segs : list (list N)),
  length pre <= bufcap ->
  exists s' es,
    run_meta HS handle rl pol budget h pre segs = MRet s' [] es /\
    decode HS handle rl pol h (pre ++ concat segs) = PRes (m_h s') (m_mode s') (m_buf s') es.
Proof.
  intros h pre segs L.
  assert (EX : exists s' es, run_meta HS handle rl pol budget h pre segs = MRet s' [] es).
  { unfold run_meta. destruct pre as [|p0 ps] eqn:P.
    - assert (G0 : good (mk_mst h RIdle [] 0)) by (split; cbn; [rewrite feedx_idle|]; reflexivity).
      destruct (run_segs_meta_total segs _ G0) as (s' & es & R). rewrite R. cbn [mapp app]. do 2 eexists; reflexivity.
    - rewrite <- P in *.
      assert (GC : m_mode (mk_mst h RIdle pre 0) = RClosed -> good (mk_mst h RIdle pre 0)) by (cbn [m_mode]; discriminate).
      destruct (ev_meta_total (evm_fuel HS (mk_mst h RIdle pre 0) []) (mk_mst h RIdle pre 0) [] (mm_fuel _ _) L GC)
        as (s0 & a0 & es0 & E & LE & _).
      rewrite E. destruct a0; [|cbn in LE; lia].
      destruct (ev_meta_refines HS handle rl pol budget _ _ _ _ _ _ GC E) as [_ G0].
      destruct (run_segs_meta_total segs _ G0) as (s' & es & R). rewrite R. cbn [mapp]. do 2 eexists; reflexivity. }
  destruct EX as (s' & es & RUN). exists s', es. split; [exact RUN|].
  eapply meta_machine_refines_decode; eauto.
Qed.

End MetaTotal.
