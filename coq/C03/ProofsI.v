(* C03 proofs, part I: the extension wait/resume machine (feedb / evb / wready / runB) versus the
   proved decoder.  Proved here: with a handler for which no completed extension message generates a
   reply, the pausing decoder IS the decoder (nothing ever waits, the pending flag never changes), so
   every theorem about `feed` transfers.  What the dispatched messages and handler states are is
   independent of the pending flag by construction (the handler never sees it).
   The general case (arbitrary reply oracles; the refinement of run_b over arbitrary interleavings of
   segments and write-ready events to "decode of the consumed prefix + unread rest", totality, and
   "= decode after a final write-ready event") is proved in ProofsJ.v (decoder level) and ProofsK.v
   (machine level): wait_decoder_refines, write_ready_progress, machine_write_events,
   machine_write_events_decode, no_fatal_real_write_machine in Properties.v. *)
From Coq Require Import NArith List Bool Arith Lia.
From LTV.C03 Require Import ParamsGen Model Proofs ProofsA ProofsB.
Import ListNotations.
Local Open Scope nat_scope.

Section WaitProofs.
Variable HS : Type.
Variable handle : HS -> msg -> HS * verdict.
Variable rl : role.
Variable pol : policy.
Variable reply : HS -> bool.
Hypothesis no_reply : forall h, reply h = false.

Definition lift (pend : bool) (r : pres HS) : presb HS :=
  match r with
  | PRes h m b es => PB HS h pend false m b es
  | PFault => PBFault HS
  | POut => PBOut HS
  end.

Lemma lift_pcons pend e r : lift pend (pcons HS e r) = pbcons HS e (lift pend r).
Proof. destruct r; reflexivity. Qed.

Lemma feedb_no_reply : forall f h pend m l,
  feedb HS handle rl pol reply f h pend m l = lift pend (feed HS handle rl pol f h m l).
Proof.
  induction f as [|f IH]; intros h pend m l; [reflexivity|].
  cbn [Model.feedb Model.feed]. destruct m as [|k lft|]; [| |reflexivity].
  - destruct (one_msg pol rl l); try reflexivity.
    destruct (handle h m) as [h' v]. destruct v; try reflexivity.
    destruct (after m) as [[k len]|]; rewrite IH, lift_pcons; reflexivity.
  - destruct (N.of_nat (length l) <? lft)%N; [reflexivity|].
    rewrite no_reply, andb_false_r. cbn [andb orb]. rewrite orb_false_r.
    destruct (handle h (pay_done k)) as [h' v]. destruct v; try reflexivity.
    rewrite IH, lift_pcons. reflexivity.
Qed.

End WaitProofs.
