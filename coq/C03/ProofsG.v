(* C03 proofs, part G: events of the machine -- segments, read pauses (throttle quota 0),
   remote close at any byte -- and the no-fatal theorem for the concrete handler. *)
From Coq Require Import NArith List Bool Arith Lia.
From LTV.C03 Require Import ParamsGen Model Proofs ProofsA ProofsB ProofsC ProofsD.
Import ListNotations.
Local Open Scope nat_scope.
Arguments ProofsB.feedx : simpl never.
Arguments ProofsB.papp : simpl never.

(* the bytes that arrive before the remote end closes, whether it closes, and whether reads are
   still paused at the end *)
Fixpoint ebytes (evs : list event) : list N :=
  match evs with
  | [] => []
  | ESeg l :: r => l ++ ebytes r
  | EEof :: _ => []
  | _ :: r => ebytes r
  end.
Fixpoint eeof (evs : list event) : bool :=
  match evs with [] => false | EEof :: _ => true | _ :: r => eeof r end.
Fixpoint epaused (p : bool) (evs : list event) : bool :=
  match evs with
  | [] => p
  | ESeg _ :: r => epaused p r
  | EPause :: r => epaused true r
  | EResume :: r => epaused false r
  | EEof :: _ => false
  end.

Section EventProofs.
Variable HS : Type.
Variable handle : HS -> msg -> HS * verdict.
Variable rl : role.
Variable pol : policy.
Variable budget : nat -> nat.
Variable short : nat -> bool.

Notation feedx := (feedx HS handle rl pol).
Notation papp := (papp HS).
Notation drain := (drain HS handle rl pol budget short).
Notation runE := (runE HS handle rl pol budget short).
Notation mst := (mst HS).
Notation A := (A HS handle rl pol).
Notation good := (good HS handle rl pol).

Definition steps (s : mst) (a : list N) (s' : mst) (es : list effect) : Prop :=
  good s' /\ forall y, A s (a ++ y) = papp es (A s' y).

Lemma steps_refl s : good s -> steps s [] s [].
Proof. intros G. split; [exact G|]. intros y. cbn [app]. symmetry. apply papp_nil. Qed.

Lemma steps_trans s a s1 e1 b s2 e2 : steps s a s1 e1 -> steps s1 b s2 e2 -> steps s (a ++ b) s2 (e1 ++ e2).
Proof.
  intros [_ R1] [G2 R2]. split; [exact G2|]. intros y. rewrite <- app_assoc, R1, R2. apply papp_papp.
Qed.

Lemma drain_steps s a : good s ->
  exists s1 es, drain (drain_fuel a) s a = MRet s1 [] es /\ steps s a s1 es.
Proof.
  intros G. destruct (drain_total HS handle rl pol budget short (drain_fuel a) s a G) as (s1 & es & D); [unfold drain_fuel; lia|].
  exists s1, es. split; [exact D|].
  destruct (drain_refines HS handle rl pol budget short _ _ _ _ _ _ G D) as [G1 (c & rest & Q & CL & R)].
  split; [exact G1|]. intros y. rewrite Q, <- app_assoc, R. f_equal.
  destruct CL as [CL|CL].
  - apply (A_closed HS handle rl pol s1 _ _ CL G1).
  - subst rest. reflexivity.
Qed.

Lemma mapp_MRet' es s a e : mapp HS es (MRet s a e) = MRet s a (es ++ e).
Proof. reflexivity. Qed.

(* the machine over events *)
Lemma runE_spec : forall evs s sock paused,
  good s -> (paused = false -> sock = []) ->
  exists s' sock' es s1 e1 consumed,
    runE s sock paused evs = MRet s' sock' es /\
    steps s consumed s1 e1 /\
    sock ++ ebytes evs = consumed ++ sock' /\
    (if eeof evs
     then sock' = [] /\ s' = fst (close_eof HS s1) /\ es = e1 ++ snd (close_eof HS s1)
     else s' = s1 /\ es = e1 /\ (epaused paused evs = false -> sock' = [])).
Proof.
  induction evs as [|ev r IH]; intros s sock paused G P.
  - exists s, sock, [], s, [], []. cbn. rewrite app_nil_r.
    split; [reflexivity|]. split; [apply steps_refl; exact G|]. split; [reflexivity|].
    split; [reflexivity|]. split; [reflexivity|]. exact P.
  - destruct ev as [l| | |].
    + (* segment *)
      cbn [Model.runE ebytes eeof epaused]. destruct paused.
      * destruct (IH s (sock ++ l) true G ltac:(discriminate)) as (s' & sock' & es & s1 & e1 & c & RU & ST & EQ & FIN).
        exists s', sock', es, s1, e1, c. split; [exact RU|]. split; [exact ST|]. split; [rewrite app_assoc; exact EQ|]. exact FIN.
      * rewrite (P eq_refl). cbn [app].
        destruct (drain_steps s l G) as (sa & ea & D & STa). rewrite D.
        destruct STa as [Ga Ra].
        destruct (IH sa [] false Ga ltac:(reflexivity)) as (s' & sock' & es & s1 & e1 & c & RU & ST & EQ & FIN).
        rewrite RU, mapp_MRet'. cbn [app] in EQ.
        exists s', sock', (ea ++ es), s1, (ea ++ e1), (l ++ c).
        split; [reflexivity|]. split; [apply (steps_trans s l sa ea c s1 e1 (conj Ga Ra) ST)|].
        split; [rewrite <- app_assoc, EQ; reflexivity|].
        destruct (eeof r).
        -- destruct FIN as (F1 & F2 & F3). split; [exact F1|]. split; [exact F2|]. rewrite F3, app_assoc. reflexivity.
        -- destruct FIN as (F1 & F2 & F3). split; [exact F1|]. split; [rewrite F2; reflexivity|]. exact F3.
    + (* pause *)
      cbn [Model.runE ebytes eeof epaused].
      destruct (IH s sock true G ltac:(discriminate)) as (s' & sock' & es & s1 & e1 & c & RU & ST & EQ & FIN).
      exists s', sock', es, s1, e1, c. split; [exact RU|]. split; [exact ST|]. split; [exact EQ|]. exact FIN.
    + (* resume *)
      cbn [Model.runE ebytes eeof epaused].
      destruct (drain_steps s sock G) as (sa & ea & D & STa). rewrite D. destruct STa as [Ga Ra].
      destruct (IH sa [] false Ga ltac:(reflexivity)) as (s' & sock' & es & s1 & e1 & c & RU & ST & EQ & FIN).
      rewrite RU, mapp_MRet'. cbn [app] in EQ.
      exists s', sock', (ea ++ es), s1, (ea ++ e1), (sock ++ c).
      split; [reflexivity|]. split; [apply (steps_trans s sock sa ea c s1 e1 (conj Ga Ra) ST)|].
      split; [rewrite <- app_assoc, EQ; reflexivity|].
      destruct (eeof r).
      * destruct FIN as (F1 & F2 & F3). split; [exact F1|]. split; [exact F2|]. rewrite F3, app_assoc. reflexivity.
      * destruct FIN as (F1 & F2 & F3). split; [exact F1|]. split; [rewrite F2; reflexivity|]. exact F3.
    + (* remote close *)
      cbn [Model.runE ebytes eeof epaused].
      destruct (drain_steps s sock G) as (sa & ea & D & STa). rewrite D.
      destruct (close_eof HS sa) as [s2 e2] eqn:CE.
      exists s2, [], (ea ++ e2), sa, ea, sock. split; [reflexivity|]. split; [exact STa|].
      split; [rewrite !app_nil_r; reflexivity|]. split; [reflexivity|]. rewrite CE. split; reflexivity.
Qed.

(* Events theorem: for every handler, role, budget / target oracle, handed-over prefix and every
   list of events (segments, read pauses and resumes at any point, a remote close at any byte)
   the run ends normally; the bytes that arrived before the close and were read are decoded
   exactly as `decode` does it, a pause only delays (what was not read is still in the socket,
   nothing if reads are not paused at the end), and a remote close adds exactly one effect:
   Close of that connection (or nothing if it was already closed). *)
Theorem machine_events : forall (h : HS) (pre : list N) (evs : list event),
  length pre < bufsz ->
  exists s' sock' es hd md bd ed consumed,
    run_events HS handle rl pol budget short h pre evs = MRet s' sock' es /\
    ebytes evs = consumed ++ sock' /\
    decode HS handle rl pol h (pre ++ consumed) = PRes hd md bd ed /\
    (epaused false evs = false -> sock' = []) /\
    (if eeof evs
     then sock' = [] /\ m_mode s' = RClosed /\
          es = ed ++ (match md with RClosed => [] | _ => [EClose REof] end)
     else m_h s' = hd /\ m_mode s' = md /\ m_buf s' = bd /\ es = ed).
Proof.
  intros h pre evs L.
  destruct (handover_dispatches_complete HS handle rl pol budget short h pre L) as (s0 & es0 & HO & D0 & G0).
  destruct (runE_spec evs s0 [] false G0 ltac:(reflexivity)) as (s' & sock' & es & s1 & e1 & c & RU & [G1 ST] & EQ & FIN).
  cbn [app] in EQ.
  assert (DEC : decode HS handle rl pol h (pre ++ c) = PRes (m_h s1) (m_mode s1) (m_buf s1) (es0 ++ e1)).
  { rewrite decode_feedx in *. rewrite (feedx_app' HS handle rl pol h RIdle pre c), D0.
    unfold ProofsB.pbind. pose proof (ST []) as S0. unfold ProofsD.A in S0. rewrite !app_nil_r in S0.
    rewrite S0. destruct G1 as [G1 _]. rewrite G1. unfold ProofsB.papp. rewrite app_nil_r. reflexivity. }
  exists s', sock', (es0 ++ es), (m_h s1), (m_mode s1), (m_buf s1), (es0 ++ e1), c.
  split; [unfold run_events; rewrite HO, RU; reflexivity|].
  split; [exact EQ|]. split; [exact DEC|].
  destruct (eeof evs) eqn:EO.
  - destruct FIN as (F1 & F2 & F3). split; [intros _; exact F1|]. split; [exact F1|].
    subst s' es. unfold close_eof. destruct (m_mode s1) eqn:M; cbn [fst snd m_mode].
    + split; [reflexivity|]. rewrite app_assoc. reflexivity.
    + split; [reflexivity|]. rewrite app_assoc. reflexivity.
    + split; [exact M|]. rewrite !app_nil_r. reflexivity.
  - destruct FIN as (F1 & F2 & F3). split; [exact F3|]. subst s' es. repeat split; reflexivity.
Qed.

End EventProofs.

(* ---- no Fatal for the concrete handler, over ALL byte strings / segmentations --------------- *)
(* `hreal` is the model of what the decoded messages do to bitfield, choke state and upload queue.
   It has no Fatal outcome by construction (hreal_never_fatal is a for-all statement over every
   configuration, state and message, ProofsC).  The internal_error sites of the REAL handlers that
   this abstracts away, and whose unreachability is the business of other properties, are:
     RequestList::downloading "m_transfer != nullptr", event_read "READ_PIECE state but RequestList
       is not downloading", down_chunk / down_chunk_skip "not in throttle list", down_chunk_finished
       "Transfer not finished", down_chunk_start "Incoming pieces list contains a bad piece",
       try_request_pieces "tried to use an invalid piece"                   -- C04 (request legality) / C01
     down_chunk_skip_process "block is not transferring" / "past the Block's position",
       Block / TransferList bookkeeping                                       -- C01 (fixed: bfb0451)
     receive_upload_choke / receive_download_choke "already set to the same state"  -- C11
     up_chunk "not in throttle list", write side                              -- C05, C12
     up_extension / read_done / ProtocolExtension::id                         -- C20 (fixed: 1b429d0, 941ab7d)
   Those sites are exercised on the real code by the free-mode and writer-released runs of the
   correspondence (ERR:internal = violation). *)
Theorem no_fatal_real_decode : forall (c : cfg) (h0 : hst) (s : list N) h' m' b' es,
  decode_real c h0 s = PRes h' m' b' es -> ~ In EFatal es.
Proof.
  intros c h0 s h' m' b' es H. unfold decode_real in H.
  eapply (no_fatal_from_input hst (hreal c) (c_role c) (c_pol c) (hreal_never_fatal c)); eauto.
Qed.

Theorem no_fatal_real_machine : forall (c : cfg) (budget : nat -> nat) (short : nat -> bool) (h0 : hst)
  (pre : list N) (evs : list event),
  length pre < bufsz ->
  exists s' sock' es,
    run_events hst (hreal c) (c_role c) (c_pol c) budget short h0 pre evs = MRet s' sock' es /\ ~ In EFatal es.
Proof.
  intros c budget short h0 pre evs L.
  destruct (machine_events hst (hreal c) (c_role c) (c_pol c) budget short h0 pre evs L)
    as (s' & sock' & es & hd & md & bd & ed & cons & RU & _ & DEC & _ & FIN).
  exists s', sock', es. split; [exact RU|].
  pose proof (no_fatal_from_input hst (hreal c) (c_role c) (c_pol c) (hreal_never_fatal c) _ _ _ _ _ _ DEC) as NF.
  destruct (eeof evs).
  - destruct FIN as (_ & _ & ->). intros I. apply in_app_or in I. destruct I as [I|I]; [exact (NF I)|].
    destruct md; cbn in I; intuition discriminate.
  - destruct FIN as (_ & _ & _ & ->). exact NF.
Qed.
