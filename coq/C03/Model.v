(* C03 -- read side of PeerConnection<type> (src/protocol/peer_connection_leech.cc:
   read_message / event_read, peer_connection_base.cc: down_extension, down_chunk_skip*,
   protocol_base.h can_read_*_body, net/protocol_buffer.h, extensions.cc read_start) as a
   byte-stream decoder.  Definitions only.

   Shape:
     one_msg   = one call of read_message() on the unread part of the 512-byte buffer
                 (header decoding, length / id / role checks, "need more" = rewind to beginning)
     feed      = `while (read_message());` + consumption of PIECE / extension payload that is
                 already available, as a function of (handler state, read mode, bytes)
     ev        = one call of event_read(): fill target 13/512, recv with a per-read budget,
                 on a 0-byte read: parse what is buffered, then return, READ_SKIP_PIECE / READ_PIECE / READ_EXTENSION
                 sub-states, loop condition `remaining > 0 || size_end == target`
     run       = handover from the handshake (push_unread + event_read) followed by the
                 poll-driven delivery of a list of TCP segments
   The handler (what a decoded message does to the connection) is a Section variable for the
   theorems and is instantiated by `hreal` for the correspondence run.
   READ_PIECE and READ_SKIP_PIECE are one mode (RPay KPiece): both consume exactly the
   announced number of payload bytes from the stream; which one is taken is handler business.
   down_chunk()'s inner loop (several recv per event_read) is modelled as several event_read
   calls that each do one recv -- event_read re-enters the same state, so this is the same
   sequence of recv calls.  Not modelled: EOF (close_connection), encryption, throttle quota 0
   (a pause), the "extension read blocked by a pending write" pause (C20). *)
From Coq Require Import NArith List Bool Arith.
From LTV.C03 Require Import ParamsGen.
Import ListNotations.
Open Scope N_scope.

Inductive role := Leech | Seed | ISeed | Meta.   (* Meta = PeerConnectionMetadata (magnet download) *)

Inductive msg :=
| MKeepAlive | MChoke | MUnchoke | MInterested | MNotInterested
| MHave (i : N) | MRequest (i o l : N) | MCancel (i o l : N) | MPort (p : N)
| MPiece (i o len : N)      (* 13-byte header decoded; len payload bytes follow *)
| MPieceDone                (* payload consumed: down_chunk_finished *)
| MExt (ty len : N)         (* 6-byte header accepted by read_start *)
| MExtDone                  (* payload complete: read_done *)
| MBitfield (len : N)       (* metadata connection only: BITFIELD header, len bytes to discard *)
| MBitsDone.

Inductive reason := RLen | RUnknownId | RPieceRole | RPieceShort | RExtBad | RFull | RHandler | REof | RPolicy.
Inductive effect := EMsg (m : msg) | EClose (r : reason) | EFatal.
Inductive verdict := VCont | VClose | VFatal.

(* what can happen to a connection between two of its event_read calls *)
Inductive event :=
| ESeg (l : list N)   (* a TCP segment arrives *)
| EPause             (* reads stop: throttle quota 0 (down_chunk / down_chunk_skip remove_read) *)
| EResume            (* the throttle hands out quota again: insert_read *)
| EEof.              (* the remote end closes: the next recv on an empty socket throws close_connection *)

(* ---- buffer reads: every access goes through rd; None = outside the unread range -------- *)
Definition rd (l : list N) (k : nat) : option N := nth_error l k.
Definition rd16 (l : list N) (k : nat) : option N :=
  match rd l k, rd l (k + 1) with
  | Some a, Some b => Some (a * 256 + b)
  | _, _ => None
  end.
Definition rd32 (l : list N) (k : nat) : option N :=
  match rd l k, rd l (k + 1), rd l (k + 2), rd l (k + 3) with
  | Some a, Some b, Some c, Some d => Some (a * 16777216 + b * 65536 + c * 256 + d)
  | _, _, _, _ => None
  end.

Inductive hdr := NeedMore | HFault | Bad (r : reason) | HFatal | Got (m : msg) (n : nat).

Definition is_leech (r : role) : bool := match r with Leech => true | _ => false end.
Definition is_meta (r : role) : bool := match r with Meta => true | _ => false end.

(* uint32 `length - 2` as computed by read_message before read_start *)
Definition sub32 (a b : N) : N := (a + 4294967296 - b) mod 4294967296.

(* Which headers make the connection close is NOT fixed by the property (only that the outcome is
   safe and independent of the segmentation).  The decoder is therefore parametric in a policy:
   p_hdr len id   -- close on a message with this length prefix and id; decided when the 5th byte
                     is there (e.g. "a fixed-size message with a wrong length prefix")
   p_ext ty elen  -- close on an extension header with this type and payload length; decided when
                     the 6th byte is there (e.g. "extension type we never advertised")
   All framing theorems hold for EVERY policy.  The hard framing limits (length prefix above the
   message limit, ids that have no framing rule, PIECE where the role has no piece handling,
   extension payload above its limit) stay in the decoder: without them there is no framing. *)
Record policy := mk_policy { p_hdr : N -> N -> bool; p_ext : N -> N -> bool }.

(* the policy of the source tree the constants were extracted from *)
Definition pol_src : policy :=
  mk_policy (fun _ _ => false) (fun ty _ => Params.c03_ext_first_invalid <=? ty).

(* The `switch (buf->read_8())` of read_message for message id `id` and length prefix `len`;
   l is the unread part of the buffer starting at the length prefix (at least 5 bytes). *)
Definition one_body (pol : policy) (r : role) (len id : N) (l : list N) : hdr :=
  if p_hdr pol len id then Bad RPolicy else
  if id =? 0 then Got MChoke 5 else
  if id =? 1 then Got MUnchoke 5 else
  if id =? 2 then Got MInterested 5 else
  if id =? 3 then Got MNotInterested 5 else
  if id =? 4 then
    if (length l <? 5 + N.to_nat Params.c03_have_body)%nat then NeedMore else
    match rd32 l 5 with Some i => Got (MHave i) 9 | None => HFault end
  else if id =? 6 then
    if (length l <? 5 + N.to_nat Params.c03_request_body)%nat then NeedMore else
    match rd32 l 5, rd32 l 9, rd32 l 13 with
    | Some i, Some o, Some n => Got (MRequest i o n) 17
    | _, _, _ => HFault
    end
  else if id =? 7 then
    if negb (is_leech r) then Bad RPieceRole else
    if len <? Params.c03_piece_min_len then Bad RPieceShort else
    if (length l <? 5 + N.to_nat Params.c03_piece_body)%nat then NeedMore else
    match rd32 l 5, rd32 l 9 with
    | Some i, Some o => Got (MPiece i o (len - Params.c03_piece_hdr_sub)) 13
    | _, _ => HFault
    end
  else if id =? 8 then
    if (length l <? 5 + N.to_nat Params.c03_request_body)%nat then NeedMore else
    match rd32 l 5, rd32 l 9, rd32 l 13 with
    | Some i, Some o, Some n => Got (MCancel i o n) 17
    | _, _, _ => HFault
    end
  else if id =? 9 then
    if (length l <? 5 + N.to_nat Params.c03_port_body)%nat then NeedMore else
    match rd16 l 5 with Some p => Got (MPort p) 7 | None => HFault end
  else if id =? Params.c03_id_extension then
    if (length l <? 5 + N.to_nat Params.c03_ext_body)%nat then NeedMore else
    match rd l 5 with
    | None => HFault
    | Some ty =>
      let elen := sub32 len Params.c03_ext_hdr_sub in
      (* read_start: communication_error first, then the internal_error test *)
      if p_ext pol ty elen || (Params.c03_ext_limit <? elen) then Bad RExtBad else
      if 2147483648 <=? elen then HFatal else
      Got (MExt ty elen) 6
    end
  else if id =? 5 then
    (* BITFIELD after the handshake: PeerConnection<> has no case for it (default: unsupported
       message type); PeerConnectionMetadata discards length - 1 bytes *)
    if is_meta r then Got (MBitfield (len - 1)) 5 else Bad RUnknownId
  else Bad RUnknownId.

(* One read_message() call on the unread bytes l.  Got m n: n header bytes consumed. *)
Definition one_msg (pol : policy) (r : role) (l : list N) : hdr :=
  if (length l <? 4)%nat then NeedMore else
  match rd32 l 0 with
  | None => HFault
  | Some len =>
    if len =? 0 then Got MKeepAlive 4 else
    if (length l <? 5)%nat then NeedMore else
    if Params.c03_max_msg_len <? len then Bad RLen else
    match rd l 4 with
    | None => HFault
    | Some id => one_body pol r len id l
    end
  end.

Inductive paykind := KPiece | KExt | KBits.
Inductive rmode := RIdle | RPay (k : paykind) (lft : N) | RClosed.

Definition is_idle (m : rmode) : bool := match m with RIdle => true | _ => false end.
Definition pay_done (k : paykind) : msg :=
  match k with KPiece => MPieceDone | KExt => MExtDone | KBits => MBitsDone end.

Section Framing.
Variable HS : Type.
Variable handle : HS -> msg -> HS * verdict.
Variable rl : role.
Variable pol : policy.

(* result of decoding a run of bytes: handler state, mode, unread buffer rest, effects *)
Inductive pres := PRes (h : HS) (m : rmode) (buf : list N) (effs : list effect) | PFault | POut.

Definition pcons (e : effect) (r : pres) : pres :=
  match r with PRes h m b es => PRes h m b (e :: es) | x => x end.

Definition after (m : msg) : option (paykind * N) :=
  match m with
  | MPiece _ _ len => Some (KPiece, len)
  | MExt _ len => Some (KExt, len)
  | MBitfield len => Some (KBits, len)
  | _ => None
  end.

(* `feed fuel h mode l`: in mode RIdle l is the whole unread buffer; in mode RPay the bytes
   that are available for the payload (and whatever follows it).  A payload of length 0 is
   complete at once.  Measure: length l + (1 in mode RPay) < fuel is enough (ProofsB). *)
Fixpoint feed (fuel : nat) (h : HS) (m : rmode) (l : list N) : pres :=
  match fuel with
  | O => POut
  | S f =>
    match m with
    | RClosed => PRes h RClosed [] []
    | RPay k lft =>
      if N.of_nat (length l) <? lft then
        (* down_chunk_from_buffer: "!finished && remaining != 0" is the internal_error test;
           all of l was consumed, so remaining = 0 *)
        PRes h (RPay k (lft - N.of_nat (length l))) [] []
      else
        let (h', v) := handle h (pay_done k) in
        match v with
        | VCont => pcons (EMsg (pay_done k)) (feed f h' RIdle (skipn (N.to_nat lft) l))
        | VClose => PRes h' RClosed [] [EMsg (pay_done k); EClose RHandler]
        | VFatal => PRes h' RClosed [] [EMsg (pay_done k); EFatal]
        end
    | RIdle =>
      match one_msg pol rl l with
      | NeedMore => PRes h RIdle l []
      | HFault => PFault
      | Bad r => PRes h RClosed [] [EClose r]
      | HFatal => PRes h RClosed [] [EFatal]
      | Got mg n =>
        let (h', v) := handle h mg in
        match v with
        | VClose => PRes h' RClosed [] [EMsg mg; EClose RHandler]
        | VFatal => PRes h' RClosed [] [EMsg mg; EFatal]
        | VCont =>
          match after mg with
          | None => pcons (EMsg mg) (feed f h' RIdle (skipn n l))
          | Some (k, len) => pcons (EMsg mg) (feed f h' (RPay k len) (skipn n l))
          end
        end
      end
    end
  end.

(* What PeerConnectionMetadata's `while (read_message());` does: as feed, but the BITFIELD case
   only records the length and returns false -- the bytes to discard, and whatever follows them
   in the buffer, stay in the buffer (mode RPay KBits with a non-empty rest). *)
Fixpoint feeds (fuel : nat) (h : HS) (m : rmode) (l : list N) : pres :=
  match fuel with
  | O => POut
  | S f =>
    match m with
    | RClosed => PRes h RClosed [] []
    | RPay k lft =>
      if N.of_nat (length l) <? lft then PRes h (RPay k (lft - N.of_nat (length l))) [] []
      else
        let (h', v) := handle h (pay_done k) in
        match v with
        | VCont => pcons (EMsg (pay_done k)) (feeds f h' RIdle (skipn (N.to_nat lft) l))
        | VClose => PRes h' RClosed [] [EMsg (pay_done k); EClose RHandler]
        | VFatal => PRes h' RClosed [] [EMsg (pay_done k); EFatal]
        end
    | RIdle =>
      match one_msg pol rl l with
      | NeedMore => PRes h RIdle l []
      | HFault => PFault
      | Bad r => PRes h RClosed [] [EClose r]
      | HFatal => PRes h RClosed [] [EFatal]
      | Got mg n =>
        let (h', v) := handle h mg in
        match v with
        | VClose => PRes h' RClosed [] [EMsg mg; EClose RHandler]
        | VFatal => PRes h' RClosed [] [EMsg mg; EFatal]
        | VCont =>
          match after mg with
          | None => pcons (EMsg mg) (feeds f h' RIdle (skipn n l))
          | Some (KBits, len) => PRes h' (RPay KBits len) (skipn n l) [EMsg mg]
          | Some (k, len) => pcons (EMsg mg) (feeds f h' (RPay k len) (skipn n l))
          end
        end
      end
    end
  end.

(* the specification of the whole connection: decode the concatenated stream at once *)
Definition decode (h : HS) (s : list N) : pres := feed (S (length s)) h RIdle s.

(* ---- the machine: event_read over a socket ---------------------------------------------- *)
Record mst := mk_mst { m_h : HS; m_mode : rmode; m_buf : list N; m_cnt : nat }.

Inductive mres := MRet (s : mst) (avail : list N) (effs : list effect) | MFault | MOut.

Variable budget : nat -> nat.   (* k-th recv returns at most S (budget k) bytes *)
Variable short : nat -> bool.   (* leech, empty buffer: request_list()->pipe_size() != 0 -> target 13 *)

Definition cap (k : nat) : nat := S (budget k).
Definition bufsz : nat := N.to_nat Params.c03_buffer_size.
Definition bufcap : nat := N.to_nat Params.c03_buffer_tmpl.   (* ProtocolBuffer<512> *)
Definition target_of (s : mst) : nat :=
  if is_leech rl && (length (m_buf s) =? 0)%nat && short (m_cnt s)
  then N.to_nat Params.c03_sizeof_piece else bufsz.

Definition mapp (es : list effect) (r : mres) : mres :=
  match r with MRet s a es' => MRet s a (es ++ es') | x => x end.

Fixpoint ev (fuel : nat) (s : mst) (avail : list N) : mres :=
  match fuel with
  | O => MOut
  | S f =>
    match m_mode s with
    | RClosed => MRet s avail []
    | RIdle =>
      let n0 := length (m_buf s) in
      let target := target_of s in
      if (n0 <? target)%nat then
        let want := Nat.min (target - n0) (cap (m_cnt s)) in
        let got := firstn want avail in
        let avail1 := skipn want avail in
        match got with
        | [] =>
          (* length == 0 (commit 5c4764e): `while (read_message());` on what the buffer already
             holds (bytes handed over with the handshake), then move_unused(); return *)
          match feed (S n0) (m_h s) RIdle (m_buf s) with
          | PFault => MFault
          | POut => MOut
          | PRes h1 m1 b1 es1 => MRet (mk_mst h1 m1 b1 (S (m_cnt s))) avail es1
          end
        | _ :: _ =>
          let send := (n0 + length got)%nat in
          if (bufcap <? send)%nat then MFault else    (* write past the 512-byte buffer *)
          match feed (S send) (m_h s) RIdle (m_buf s ++ got) with
          | PFault => MFault
          | POut => MOut
          | PRes h1 m1 b1 es1 =>
            (* read_message(): an incomplete extension message tries one recv itself *)
            match m1 with
            | RPay KExt lft =>
              let c1 := S (m_cnt s) in
              let want2 := Nat.min (N.to_nat lft) (cap c1) in
              let got2 := firstn want2 avail1 in
              let avail2 := skipn want2 avail1 in
              match feed (S (S (length got2))) h1 m1 got2 with
              | PFault => MFault
              | POut => MOut
              | PRes h2 m2 b2 es2 =>
                let s2 := mk_mst h2 m2 b2 (S c1) in
                if negb (length b2 =? 0)%nat || (send =? target)%nat
                then mapp (es1 ++ es2) (ev f s2 avail2)
                else MRet s2 avail2 (es1 ++ es2)
              end
            | _ =>
              let s1 := mk_mst h1 m1 b1 (S (m_cnt s)) in
              if negb (length b1 =? 0)%nat || (send =? target)%nat
              then mapp es1 (ev f s1 avail1)
              else MRet s1 avail1 es1
            end
          end
        end
      else
        match m_buf s with
        | [] => MRet s avail []     (* not reachable: target >= 13 *)
        | _ :: _ => MRet (mk_mst (m_h s) RClosed [] (m_cnt s)) avail [EClose RFull]
        end
    | RPay k lft =>
      let want := Nat.min (N.to_nat lft) (cap (m_cnt s)) in
      let got := firstn want avail in
      let avail1 := skipn want avail in
      match got with
      | [] => MRet s avail []
      | _ :: _ =>
        match feed (S (S (length got))) (m_h s) (RPay k lft) got with
        | PFault => MFault
        | POut => MOut
        | PRes h1 m1 b1 es1 =>
          let s1 := mk_mst h1 m1 b1 (S (m_cnt s)) in
          match m1 with
          | RIdle => mapp es1 (ev f s1 avail1)
          | _ => MRet s1 avail1 es1
          end
        end
      end
    end
  end.

Definition ev_fuel (avail : list N) : nat := S (S (length avail)).

(* level-triggered poll: event_read is called again while the socket still has bytes *)
Fixpoint drain (fuel : nat) (s : mst) (avail : list N) : mres :=
  match fuel with
  | O => MOut
  | S f =>
    match avail with
    | [] => MRet s [] []
    | _ :: _ =>
      match m_mode s with
      | RClosed => MRet s [] []                 (* connection erased: the rest is never read *)
      | _ =>
        match ev (ev_fuel avail) s avail with
        | MRet s1 a1 es1 => mapp es1 (drain f s1 a1)
        | x => x
        end
      end
    end
  end.

Definition drain_fuel (avail : list N) : nat := S (length avail).

Fixpoint run_segs (s : mst) (segs : list (list N)) : mres :=
  match segs with
  | [] => MRet s [] []
  | seg :: more =>
    match drain (drain_fuel seg) s seg with
    | MRet s1 _ es1 => mapp es1 (run_segs s1 more)
    | x => x
    end
  end.

(* HandshakeManager::receive_succeeded: push_unread(pre) then ONE event_read() although the
   socket may be empty; `first` = bytes that are already in the socket at that moment.
   With pre = [] nothing is pushed and event_read is not called. *)
Definition handover (h : HS) (pre first : list N) : mres :=
  match pre with
  | [] => MRet (mk_mst h RIdle [] 0) first []
  | _ :: _ => ev (ev_fuel first) (mk_mst h RIdle pre 0) first
  end.

Definition run (h : HS) (pre : list N) (segs : list (list N)) : mres :=
  match handover h pre [] with
  | MRet s0 _ es0 => mapp es0 (run_segs s0 segs)
  | x => x
  end.

(* ---- events: segments, read pauses (quota 0), remote close ------------------------------- *)
(* read_stream_throws on EOF: close_connection -> that connection is erased, nothing else *)
Definition close_eof (s : mst) : mst * list effect :=
  match m_mode s with
  | RClosed => (s, [])
  | _ => (mk_mst (m_h s) RClosed [] (m_cnt s), [EClose REof])
  end.

(* sock = bytes that arrived while reads were paused.  A pause only delays: the bytes wait in the
   socket.  EOF is seen after everything that arrived before it has been read. *)
Fixpoint runE (s : mst) (sock : list N) (paused : bool) (evs : list event) : mres :=
  match evs with
  | [] => MRet s sock []
  | ESeg l :: r =>
    if paused then runE s (sock ++ l) true r
    else match drain (drain_fuel (sock ++ l)) s (sock ++ l) with
         | MRet s1 a1 es1 => mapp es1 (runE s1 a1 false r)
         | x => x
         end
  | EPause :: r => runE s sock true r
  | EResume :: r =>
    match drain (drain_fuel sock) s sock with
    | MRet s1 a1 es1 => mapp es1 (runE s1 a1 false r)
    | x => x
    end
  | EEof :: _ =>
    match drain (drain_fuel sock) s sock with
    | MRet s1 _ es1 => let (s2, e2) := close_eof s1 in MRet s2 [] (es1 ++ e2)
    | x => x
    end
  end.

Definition run_events (h : HS) (pre : list N) (evs : list event) : mres :=
  match handover h pre [] with
  | MRet s0 _ es0 => mapp es0 (runE s0 [] false evs)
  | x => x
  end.

(* ---- the extension "waiting for a write" pause (commits 6c29d69, 1b429d0, c72865a) ---------- *)
(* A completed extension message that needs a reply (ut_metadata request) cannot be processed
   while the previous reply is still pending (ProtocolExtension::has_pending_message): read_done()
   returns false, down_extension() does remove_read and the connection stays in READ_EXTENSION
   with the complete message kept; whatever is behind it in the 512-byte buffer and in the socket
   waits.  When the pending reply has been written (event_write: up_extension), the waiting
   message is processed, the state becomes IDLE, the buffered messages are parsed
   (`while (read_message());`) and reads are enabled again.
   `reply h` = the extension message that completes in handler state h generates a reply.
   pend = a reply is pending; wait = a complete message is waiting (mode RPay KExt 0, the buffer
   rest kept).  The handler never sees pend: the dispatched messages and handler states are
   those of `feed`; only how far the stream has been consumed depends on the writes. *)
Variable reply : HS -> bool.

Inductive presb := PB (h : HS) (pend wait : bool) (m : rmode) (buf : list N) (effs : list effect) | PBFault | PBOut.

Definition pbcons (e : effect) (r : presb) : presb :=
  match r with PB h p w m b es => PB h p w m b (e :: es) | x => x end.

Definition is_kext (k : paykind) : bool := match k with KExt => true | _ => false end.

Fixpoint feedb (fuel : nat) (h : HS) (pend : bool) (m : rmode) (l : list N) : presb :=
  match fuel with
  | O => PBOut
  | S f =>
    match m with
    | RClosed => PB h pend false RClosed [] []
    | RPay k lft =>
      if N.of_nat (length l) <? lft then PB h pend false (RPay k (lft - N.of_nat (length l))) [] []
      else if is_kext k && reply h && pend then PB h pend true (RPay k 0) (skipn (N.to_nat lft) l) []
      else
        let pend' := pend || (is_kext k && reply h) in
        let (h', v) := handle h (pay_done k) in
        match v with
        | VCont => pbcons (EMsg (pay_done k)) (feedb f h' pend' RIdle (skipn (N.to_nat lft) l))
        | VClose => PB h' pend' false RClosed [] [EMsg (pay_done k); EClose RHandler]
        | VFatal => PB h' pend' false RClosed [] [EMsg (pay_done k); EFatal]
        end
    | RIdle =>
      match one_msg pol rl l with
      | NeedMore => PB h pend false RIdle l []
      | HFault => PBFault
      | Bad r => PB h pend false RClosed [] [EClose r]
      | HFatal => PB h pend false RClosed [] [EFatal]
      | Got mg n =>
        let (h', v) := handle h mg in
        match v with
        | VClose => PB h' pend false RClosed [] [EMsg mg; EClose RHandler]
        | VFatal => PB h' pend false RClosed [] [EMsg mg; EFatal]
        | VCont =>
          match after mg with
          | None => pbcons (EMsg mg) (feedb f h' pend RIdle (skipn n l))
          | Some (k, len) => pbcons (EMsg mg) (feedb f h' pend (RPay k len) (skipn n l))
          end
        end
      end
    end
  end.

Inductive mresb := BRet (s : mst) (pend wait : bool) (avail : list N) (effs : list effect) | BFault | BOut.

Definition bapp (es : list effect) (r : mresb) : mresb :=
  match r with BRet s p w a es' => BRet s p w a (es ++ es') | x => x end.

(* event_read with the pause; identical to ev when nothing waits *)
Fixpoint evb (fuel : nat) (s : mst) (pend wait : bool) (avail : list N) : mresb :=
  match fuel with
  | O => BOut
  | S f =>
    if wait then BRet s pend wait avail [] else
    match m_mode s with
    | RClosed => BRet s pend false avail []
    | RIdle =>
      let n0 := length (m_buf s) in
      let target := target_of s in
      if (n0 <? target)%nat then
        let want := Nat.min (target - n0) (cap (m_cnt s)) in
        let got := firstn want avail in
        let avail1 := skipn want avail in
        let send := (n0 + length got)%nat in
        if (bufcap <? send)%nat then BFault else
        match feedb (S send) (m_h s) pend RIdle (m_buf s ++ got) with
        | PBFault => BFault
        | PBOut => BOut
        | PB h1 p1 w1 m1 b1 es1 =>
          match got with
          | [] => BRet (mk_mst h1 m1 b1 (S (m_cnt s))) p1 w1 avail es1
          | _ :: _ =>
            if w1 then BRet (mk_mst h1 m1 b1 (S (m_cnt s))) p1 true avail1 es1 else
            match m1 with
            | RPay KExt lft =>
              let c1 := S (m_cnt s) in
              let want2 := Nat.min (N.to_nat lft) (cap c1) in
              let got2 := firstn want2 avail1 in
              let avail2 := skipn want2 avail1 in
              match feedb (S (S (length got2))) h1 p1 m1 got2 with
              | PBFault => BFault
              | PBOut => BOut
              | PB h2 p2 w2 m2 b2 es2 =>
                let s2 := mk_mst h2 m2 b2 (S c1) in
                if w2 then BRet s2 p2 true avail2 (es1 ++ es2) else
                if negb (length b2 =? 0)%nat || (send =? target)%nat
                then bapp (es1 ++ es2) (evb f s2 p2 false avail2)
                else BRet s2 p2 false avail2 (es1 ++ es2)
              end
            | _ =>
              let s1 := mk_mst h1 m1 b1 (S (m_cnt s)) in
              if negb (length b1 =? 0)%nat || (send =? target)%nat
              then bapp es1 (evb f s1 p1 false avail1)
              else BRet s1 p1 false avail1 es1
            end
          end
        end
      else
        match m_buf s with
        | [] => BRet s pend false avail []
        | _ :: _ => BRet (mk_mst (m_h s) RClosed [] (m_cnt s)) pend false avail [EClose RFull]
        end
    | RPay k lft =>
      let want := Nat.min (N.to_nat lft) (cap (m_cnt s)) in
      let got := firstn want avail in
      let avail1 := skipn want avail in
      match got with
      | [] => BRet s pend false avail []
      | _ :: _ =>
        match feedb (S (S (length got))) (m_h s) pend (RPay k lft) got with
        | PBFault => BFault
        | PBOut => BOut
        | PB h1 p1 w1 m1 b1 es1 =>
          let s1 := mk_mst h1 m1 b1 (S (m_cnt s)) in
          if w1 then BRet s1 p1 true avail1 es1 else
          match m1 with
          | RIdle => bapp es1 (evb f s1 p1 false avail1)
          | _ => BRet s1 p1 false avail1 es1
          end
        end
      end
    end
  end.

(* poll: event_read while the socket has bytes, the connection is open and reads are enabled *)
Fixpoint drainb (fuel : nat) (s : mst) (pend wait : bool) (avail : list N) : mresb :=
  match fuel with
  | O => BOut
  | S f =>
    if wait then BRet s pend true avail [] else
    match avail with
    | [] => BRet s pend false [] []
    | _ :: _ =>
      match m_mode s with
      | RClosed => BRet s pend false [] []
      | _ =>
        match evb (ev_fuel avail) s pend false avail with
        | BRet s1 p1 w1 a1 es1 => bapp es1 (drainb f s1 p1 w1 a1)
        | x => x
        end
      end
    end
  end.

(* the write side becomes ready and writes everything it has: the pending reply goes out, a waiting
   message is processed (its reply becomes pending and is written in turn), the buffer behind it is
   parsed, reads resume -- until nothing waits *)
Fixpoint wready (fuel : nat) (s : mst) (wait : bool) (sock : list N) : mresb :=
  match fuel with
  | O => BOut
  | S f =>
    if wait then
      match feedb (S (S (length (m_buf s)))) (m_h s) false (m_mode s) (m_buf s) with
      | PBFault => BFault
      | PBOut => BOut
      | PB h1 p1 w1 m1 b1 es1 =>
        let s1 := mk_mst h1 m1 b1 (m_cnt s) in
        match drainb (drain_fuel sock) s1 p1 w1 sock with
        | BRet s2 _ w2 a2 es2 => bapp (es1 ++ es2) (wready f s2 w2 a2)
        | x => x
        end
      end
    else BRet s false false sock []
  end.

Inductive bevent := BSeg (l : list N) | BWrite.

Fixpoint runB (s : mst) (pend wait : bool) (sock : list N) (evs : list bevent) : mresb :=
  match evs with
  | [] => BRet s pend wait sock []
  | BSeg l :: r =>
    match drainb (drain_fuel (sock ++ l)) s pend wait (sock ++ l) with
    | BRet s1 p1 w1 a1 es1 => bapp es1 (runB s1 p1 w1 a1 r)
    | x => x
    end
  | BWrite :: r =>
    match wready (S (S (length sock + length (m_buf s)))) s wait sock with
    | BRet s1 p1 w1 a1 es1 => bapp es1 (runB s1 p1 w1 a1 r)
    | x => x
    end
  end.

Definition run_b (h : HS) (pre : list N) (evs : list bevent) : mresb :=
  match pre with
  | [] => runB (mk_mst h RIdle [] 0) false false [] evs
  | _ :: _ =>
    match evb (ev_fuel []) (mk_mst h RIdle pre 0) false false [] with
    | BRet s0 p0 w0 _ es0 => bapp es0 (runB s0 p0 w0 [] evs)
    | x => x
    end
  end.

(* ---- PeerConnectionMetadata::event_read ---------------------------------------------------- *)
(* IDLE: fill to 512 (no return on a 0-byte read), parse, loop if the buffer was filled to 512
   or the parse left the IDLE state (commit 37af099; before it only the first condition, so a
   BITFIELD and everything buffered behind it waited for the next readable event); READ_SKIP_PIECE (= discarding a bitfield): read_skip_bitfield first eats from the buffer,
   then does one recv; READ_EXTENSION as in PeerConnection<>. *)
Fixpoint ev_meta (fuel : nat) (s : mst) (avail : list N) : mres :=
  match fuel with
  | O => MOut
  | S f =>
    match m_mode s with
    | RClosed => MRet s avail []
    | RIdle =>
      let n0 := length (m_buf s) in
      let want := if (n0 <? bufsz)%nat then Nat.min (bufsz - n0) (cap (m_cnt s)) else O in
      let got := firstn want avail in
      let avail1 := skipn want avail in
      let send := (n0 + length got)%nat in
      if (bufcap <? send)%nat then MFault else
      match feeds (S send) (m_h s) RIdle (m_buf s ++ got) with
      | PFault => MFault
      | POut => MOut
      | PRes h1 m1 b1 es1 =>
        match m1 with
        | RPay KExt lft =>
          let c1 := S (m_cnt s) in
          let want2 := Nat.min (N.to_nat lft) (cap c1) in
          let got2 := firstn want2 avail1 in
          let avail2 := skipn want2 avail1 in
          match feed (S (S (length got2))) h1 m1 got2 with
          | PFault => MFault
          | POut => MOut
          | PRes h2 m2 b2 es2 =>
            let s2 := mk_mst h2 m2 b2 (S c1) in
            if (send =? bufsz)%nat || negb (is_idle m2) then mapp (es1 ++ es2) (ev_meta f s2 avail2)
            else MRet s2 avail2 (es1 ++ es2)
          end
        | _ =>
          let s1 := mk_mst h1 m1 b1 (S (m_cnt s)) in
          if (send =? bufsz)%nat || negb (is_idle m1) then mapp es1 (ev_meta f s1 avail1) else MRet s1 avail1 es1
        end
      end
    | RPay k lft =>
      (* from the buffer first *)
      let c := Nat.min (N.to_nat lft) (length (m_buf s)) in
      let rest := skipn c (m_buf s) in
      match feed (S (S c)) (m_h s) (RPay k lft) (firstn c (m_buf s)) with
      | PFault => MFault
      | POut => MOut
      | PRes h1 m1 _ es1 =>
        match m1 with
        | RIdle => mapp es1 (ev_meta f (mk_mst h1 RIdle rest (m_cnt s)) avail)
        | RClosed => MRet (mk_mst h1 RClosed [] (m_cnt s)) avail es1
        | RPay k1 lft1 =>
          let want := Nat.min (N.to_nat lft1) (cap (m_cnt s)) in
          let got := firstn want avail in
          let avail1 := skipn want avail in
          match got with
          | [] => MRet (mk_mst h1 m1 rest (m_cnt s)) avail es1
          | _ :: _ =>
            match feed (S (S (length got))) h1 m1 got with
            | PFault => MFault
            | POut => MOut
            | PRes h2 m2 _ es2 =>
              let s2 := mk_mst h2 m2 rest (S (m_cnt s)) in
              match m2 with
              | RIdle => mapp (es1 ++ es2) (ev_meta f s2 avail1)
              | _ => MRet s2 avail1 (es1 ++ es2)
              end
            end
          end
        end
      end
    end
  end.

(* every loop iteration strictly decreases 2 * (socket + buffer) + [mode is a payload mode] *)
Definition evm_fuel (s : mst) (avail : list N) : nat := S (S (2 * (length avail + length (m_buf s)))).

Fixpoint drain_meta (fuel : nat) (s : mst) (avail : list N) : mres :=
  match fuel with
  | O => MOut
  | S f =>
    match avail with
    | [] => MRet s [] []
    | _ :: _ =>
      match m_mode s with
      | RClosed => MRet s [] []
      | _ =>
        match ev_meta (evm_fuel s avail) s avail with
        | MRet s1 a1 es1 =>
          if (length a1 <? length avail)%nat then mapp es1 (drain_meta f s1 a1)
          else match m_mode s1 with
               | RClosed => MRet s1 [] es1     (* closed by what was still buffered *)
               | _ => MOut                    (* no progress on the socket: not reachable *)
               end
        | x => x
        end
      end
    end
  end.

Fixpoint run_segs_meta (s : mst) (segs : list (list N)) : mres :=
  match segs with
  | [] => MRet s [] []
  | seg :: more =>
    match drain_meta (drain_fuel seg) s seg with
    | MRet s1 _ es1 => mapp es1 (run_segs_meta s1 more)
    | x => x
    end
  end.

Definition run_meta (h : HS) (pre : list N) (segs : list (list N)) : mres :=
  match (match pre with
         | [] => MRet (mk_mst h RIdle [] 0) [] []
         | _ :: _ => ev_meta (evm_fuel (mk_mst h RIdle pre 0) []) (mk_mst h RIdle pre 0) []
         end) with
  | MRet s0 _ es0 => mapp es0 (run_segs_meta s0 segs)
  | x => x
  end.

End Framing.

Arguments PRes {HS}.
Arguments PFault {HS}.
Arguments POut {HS}.
Arguments BRet {HS}.
Arguments BFault {HS}.
Arguments BOut {HS}.
Arguments MRet {HS}.
Arguments MFault {HS}.
Arguments MOut {HS}.
Arguments mk_mst {HS}.
Arguments m_h {HS}.
Arguments m_mode {HS}.
Arguments m_buf {HS}.
Arguments m_cnt {HS}.

(* ======== independent BEP 3 / BEP 10 encoder (reference framing for decode_spec) ========= *)
Inductive wmsg :=
| WKeepAlive | WChoke | WUnchoke | WInterested | WNotInterested
| WHave (i : N) | WRequest (i o l : N) | WCancel (i o l : N) | WPort (p : N)
| WPiece (i o : N) (data : list N)
| WExt (ty : N) (data : list N)
| WBitfield (data : list N).

Definition b3 (v : N) : N := (v / 16777216) mod 256.
Definition b2 (v : N) : N := (v / 65536) mod 256.
Definition b1 (v : N) : N := (v / 256) mod 256.
Definition b0 (v : N) : N := v mod 256.
Definition be32 (v : N) : list N := [b3 v; b2 v; b1 v; b0 v].
Definition lenN (l : list N) : N := N.of_nat (length l).

(* <length prefix = 1 + payload length> <id> <payload>; keep-alive = a zero length prefix *)
Definition enc_msg (m : wmsg) : list N :=
  match m with
  | WKeepAlive => be32 0
  | WChoke => be32 1 ++ [0]
  | WUnchoke => be32 1 ++ [1]
  | WInterested => be32 1 ++ [2]
  | WNotInterested => be32 1 ++ [3]
  | WHave i => be32 5 ++ 4 :: be32 i
  | WRequest i o l => be32 13 ++ 6 :: be32 i ++ be32 o ++ be32 l
  | WCancel i o l => be32 13 ++ 8 :: be32 i ++ be32 o ++ be32 l
  | WPort p => be32 3 ++ 9 :: [b1 p; b0 p]
  | WPiece i o d => be32 (9 + lenN d) ++ 7 :: be32 i ++ be32 o ++ d
  | WExt ty d => be32 (2 + lenN d) ++ 20 :: ty :: d
  | WBitfield d => be32 (1 + lenN d) ++ 5 :: d
  end.

Definition encode_msgs (ms : list wmsg) : list N := concat (map enc_msg ms).

(* what the decoder is expected to report for one wire message *)
Definition denotes (m : wmsg) : list msg :=
  match m with
  | WKeepAlive => [MKeepAlive] | WChoke => [MChoke] | WUnchoke => [MUnchoke]
  | WInterested => [MInterested] | WNotInterested => [MNotInterested]
  | WHave i => [MHave i] | WRequest i o l => [MRequest i o l] | WCancel i o l => [MCancel i o l]
  | WPort p => [MPort p]
  | WPiece i o d => [MPiece i o (lenN d); MPieceDone]
  | WExt ty d => [MExt ty (lenN d); MExtDone]
  | WBitfield d => [MBitfield (lenN d); MBitsDone]
  end.

(* well-formed for a connection role and within the limits of the read side *)
Definition u32 (v : N) : Prop := v < 4294967296.
Definition wf_wmsg (r : role) (m : wmsg) : Prop :=
  match m with
  | WHave i => u32 i
  | WRequest i o l | WCancel i o l => u32 i /\ u32 o /\ u32 l
  | WPort p => p < 65536
  | WPiece i o d => r = Leech /\ u32 i /\ u32 o /\ 9 + lenN d <= 1048576
  | WExt ty d => ty < 3 /\ lenN d <= 32768
  | WBitfield d => r = Meta /\ 1 + lenN d <= 1048576
  | _ => True
  end.

(* ======== concrete handler used by the correspondence run ================================ *)
(* What the decoded messages do to the observable connection state while the write side is
   held (no fill_write_buffer between reads): peer bitfield, upload choke status, upload
   queue, m_down_unchoked.  Mirrors read_have_chunk, choke_queue::set_queued/set_not_queued
   (slots free, not snubbed), read_request_piece, read_cancel_piece. *)
Record cfg := mk_cfg {
  c_role : role;
  c_npieces : N;
  c_done : bool;              (* file_list()->is_done() *)
  c_can_unchoke : bool;       (* a free upload slot exists *)
  c_ext_verdicts : list bool; (* k-th completed extension message closes the connection
                                 (read_done -> communication_error), supplied per case *)
  c_pol : policy;             (* the close policy probed on the implementation (or pol_src) *)
  c_ext_reply : list bool     (* k-th completed extension message generates a reply (ut_metadata request
                                 from a peer that advertised ut_metadata), supplied per case *)
}.

Record hst := mk_hst {
  h_bits : list bool;
  h_queued : bool;
  h_unchoked : bool;
  h_recent : bool;             (* time_last_choke + 10 s >= now *)
  h_upq : list (N * N * N);
  h_down_unchoked : bool;
  h_extn : nat
}.

Definition all_set (b : list bool) : bool := forallb (fun x => x) b.
Fixpoint set_bit (b : list bool) (i : nat) : list bool :=
  match b, i with
  | [], _ => []
  | _ :: t, O => true :: t
  | x :: t, S j => x :: set_bit t j
  end.

Definition set_queued (c : cfg) (h : hst) : hst :=
  if h_queued h || h_unchoked h then h else
  if c_can_unchoke c && negb (h_recent h)
  then mk_hst (h_bits h) true true true (h_upq h) (h_down_unchoked h) (h_extn h)
  else mk_hst (h_bits h) true false (h_recent h) (h_upq h) (h_down_unchoked h) (h_extn h).

Definition set_not_queued (h : hst) : hst :=
  if negb (h_queued h) then h else
  if h_unchoked h
  then mk_hst (h_bits h) false false true (h_upq h) (h_down_unchoked h) (h_extn h)
  else mk_hst (h_bits h) false false (h_recent h) (h_upq h) (h_down_unchoked h) (h_extn h).

Definition piece_eqb (a b : N * N * N) : bool :=
  let '(a1, a2, a3) := a in let '(b1, b2, b3) := b in (a1 =? b1) && (a2 =? b2) && (a3 =? b3).

Fixpoint remove_first (p : N * N * N) (q : list (N * N * N)) : list (N * N * N) :=
  match q with
  | [] => []
  | x :: t => if piece_eqb p x then t else x :: remove_first p t
  end.

Definition with_upq (h : hst) (q : list (N * N * N)) : hst :=
  mk_hst (h_bits h) (h_queued h) (h_unchoked h) (h_recent h) q (h_down_unchoked h) (h_extn h).
Definition with_bits (h : hst) (b : list bool) : hst :=
  mk_hst b (h_queued h) (h_unchoked h) (h_recent h) (h_upq h) (h_down_unchoked h) (h_extn h).
Definition with_down (h : hst) (d : bool) : hst :=
  mk_hst (h_bits h) (h_queued h) (h_unchoked h) (h_recent h) (h_upq h) d (h_extn h).

Definition hreal (c : cfg) (h : hst) (m : msg) : hst * verdict :=
  if is_meta (c_role c) && negb (match m with MExtDone => true | _ => false end) then (h, VCont) else
  match m with
  | MKeepAlive | MPort _ | MPiece _ _ _ | MPieceDone | MExt _ _ | MBitfield _ | MBitsDone => (h, VCont)
  | MChoke => (if is_leech (c_role c) then with_down h false else h, VCont)
  | MUnchoke => (if is_leech (c_role c) then with_down h true else h, VCont)
  | MInterested =>
    if is_leech (c_role c) && all_set (h_bits h) then (h, VCont) else (set_queued c h, VCont)
  | MNotInterested => (set_not_queued h, VCont)
  | MHave i =>
    if c_npieces c <=? i then (h, VClose) else
    if nth (N.to_nat i) (h_bits h) false then (h, VCont) else
    let h1 := with_bits h (set_bit (h_bits h) (N.to_nat i)) in
    if all_set (h_bits h1) then
      match c_role c with
      | Seed => (h1, VClose)
      | ISeed | Meta => (set_not_queued h1, VCont)
      | Leech => if c_done c then (h1, VClose) else (set_not_queued h1, VCont)
      end
    else (h1, VCont)
  | MRequest i o l =>
    if negb (h_unchoked h) || (Params.c03_max_request_queue <=? N.of_nat (length (h_upq h)))
       || (Params.c03_request_len_limit <? l) || existsb (piece_eqb (i, o, l)) (h_upq h)
    then (h, VCont) else (with_upq h (h_upq h ++ [(i, o, l)]), VCont)
  | MCancel i o l => (with_upq h (remove_first (i, o, l) (h_upq h)), VCont)
  | MExtDone =>
    let h1 := mk_hst (h_bits h) (h_queued h) (h_unchoked h) (h_recent h) (h_upq h) (h_down_unchoked h) (S (h_extn h)) in
    if nth (h_extn h) (c_ext_verdicts c) false then (h1, VClose) else (h1, VCont)
  end.

Definition hinit (c : cfg) (bits : list bool) (queued unchoked recent : bool) : hst :=
  mk_hst bits queued unchoked recent [] false 0.

Definition run_real (c : cfg) (budget : nat -> nat) (short : nat -> bool)
           (h0 : hst) (pre : list N) (segs : list (list N)) : mres hst :=
  if is_meta (c_role c) then run_meta hst (hreal c) (c_role c) (c_pol c) budget h0 pre segs
  else run hst (hreal c) (c_role c) (c_pol c) budget short h0 pre segs.

Definition reply_real (c : cfg) (h : hst) : bool := nth (h_extn h) (c_ext_reply c) false.

Definition run_b_real (c : cfg) (budget : nat -> nat) (short : nat -> bool)
           (h0 : hst) (pre : list N) (evs : list bevent) : mresb hst :=
  run_b hst (hreal c) (c_role c) (c_pol c) budget short (reply_real c) h0 pre evs.

Definition decode_real (c : cfg) (h0 : hst) (s : list N) : pres hst :=
  decode hst (hreal c) (c_role c) (c_pol c) h0 s.
