(* C03 proofs, part K: the MACHINE with the extension "waiting for a write" pause (evb / drainb /
   wready / runB / run_b of Model.v) for arbitrary reply oracles, recv budgets, fill targets and
   arbitrary interleavings of segments and write-ready events:
   - totality: never BFault (no write past the 512-byte buffer), never BOut (every loop terminates
     within the fuel the model gives it);
   - refinement: the effects emitted so far followed by the decode from the state reached over
     (buffer ++ socket ++ anything that follows) IS the decode of everything -- nothing is lost,
     duplicated or reordered by waiting;
   - after a final write-ready event nothing waits, the socket has been read empty and handler
     state / mode / buffer rest / effects are exactly `decode` of the whole stream. *)
From Coq Require Import NArith List Bool Arith Lia ZifyBool ZifyNat ZifyN.
From LTV.C03 Require Import ParamsGen Model Proofs ProofsA ProofsB ProofsC ProofsD ProofsJ.
Import ListNotations.
Local Open Scope nat_scope.
Arguments ProofsB.feedx : simpl never.
Arguments ProofsB.papp : simpl never.
Arguments ProofsB.mu : simpl never.

Section WaitMachine.
Variable HS : Type.
Variable handle : HS -> msg -> HS * verdict.
Variable rl : role.
Variable pol : policy.
Variable budget : nat -> nat.
Variable short : nat -> bool.
Variable reply : HS -> bool.

Notation feedb := (feedb HS handle rl pol reply).
Notation feedx := (feedx HS handle rl pol).
Notation papp := (papp HS).
Notation evb := (evb HS handle rl pol budget short reply).
Notation drainb := (drainb HS handle rl pol budget short reply).
Notation wready := (wready HS handle rl pol budget short reply).
Notation runB := (runB HS handle rl pol budget short reply).
Notation mst := (mst HS).
Notation A := (A HS handle rl pol).
Notation good := (good HS handle rl pol).

(* byte accounting of the pausing decoder: the rest is never longer than the input, and a stop
   with a waiting message has consumed at least that message's header *)
Lemma feedb_len : forall f h pend m l h1 p1 w1 m1 b1 es1,
  feedb f h pend m l = PB HS h1 p1 w1 m1 b1 es1 ->
  length b1 <= length l /\
  (w1 = true -> match m with
                | RIdle => length b1 + 4 <= length l
                | RPay k lft => (0 < lft)%N -> l <> [] -> length b1 < length l
                | RClosed => False
                end).
Proof.
  induction f as [|f IH]; intros h pend m l h1 p1 w1 m1 b1 es1; [discriminate|].
  cbn [Model.feedb]. destruct m as [|k lft|].
  - destruct (one_msg pol rl l) eqn:E; try discriminate;
      try (intros Q; inversion Q; subst; cbn [length]; split; [lia|discriminate]).
    destruct (one_msg_got_len _ _ _ _ _ E) as [[L1 L2] _].
    destruct (handle h m) as [h' v].
    destruct v; try (intros Q; inversion Q; subst; cbn [length]; split; [lia|discriminate]).
    assert (LS : length (skipn n l) + 4 <= length l) by (rewrite skipn_length; lia).
    destruct (after m) as [[k len]|].
    + destruct (feedb f h' pend (RPay k len) (skipn n l)) as [h2 p2 w2 m2 b2 es2| |] eqn:Q1;
        cbn [Model.pbcons]; try discriminate.
      intros Q; inversion Q; subst.
      destruct (IH _ _ _ _ _ _ _ _ _ _ Q1) as [I1 _]. split; [lia|intros _; lia].
    + destruct (feedb f h' pend RIdle (skipn n l)) as [h2 p2 w2 m2 b2 es2| |] eqn:Q1;
        cbn [Model.pbcons]; try discriminate.
      intros Q; inversion Q; subst.
      destruct (IH _ _ _ _ _ _ _ _ _ _ Q1) as [I1 _]. split; [lia|intros _; lia].
  - destruct (N.of_nat (length l) <? lft)%N eqn:EL.
    { intros Q; inversion Q; subst. cbn [length]. split; [lia|discriminate]. }
    destruct (is_kext k && reply h && pend).
    + intros Q; inversion Q; subst. pose proof (skipn_length_le (N.to_nat lft) l). split; [lia|].
      intros _ LP NE. rewrite skipn_length. destruct l; [congruence|]. cbn [length]. lia.
    + destruct (handle h (pay_done k)) as [h' v].
      destruct v; try (intros Q; inversion Q; subst; cbn [length]; split; [lia|discriminate]).
      destruct (feedb f h' (pend || is_kext k && reply h) RIdle (skipn (N.to_nat lft) l)) as [h2 p2 w2 m2 b2 es2| |] eqn:Q1;
        cbn [Model.pbcons]; try discriminate.
      intros Q; inversion Q; subst.
      pose proof (skipn_length_le (N.to_nat lft) l).
      destruct (IH _ _ _ _ _ _ _ _ _ _ Q1) as [I1 I2]. split; [lia|].
      intros W _ _. specialize (I2 W). cbn in I2. lia.
  - intros Q; inversion Q; subst. cbn [length]. split; [lia|discriminate].
Qed.

Lemma feedb_resume_len f h l h1 p1 m1 b1 es1 :
  feedb (S f) h false (RPay KExt 0%N) l = PB HS h1 p1 true m1 b1 es1 -> length b1 + 4 <= length l.
Proof.
  rewrite (feedb_resume HS handle rl pol reply).
  destruct (handle h MExtDone) as [h' v]. destruct v; try discriminate.
  destruct (feedb f h' (reply h) RIdle l) as [h2 p2 w2 m2 b2 es2| |] eqn:Q1; cbn [Model.pbcons]; try discriminate.
  intros Q; inversion Q; subst.
  destruct (feedb_len _ _ _ _ _ _ _ _ _ _ _ Q1) as [_ X]. apply (X eq_refl).
Qed.

(* a waiting state is one in mode RPay KExt 0; otherwise the state is settled *)
Definition goodB (s : mst) (w : bool) : Prop := if w then m_mode s = RPay KExt 0%N else good s.

(* effects es lead from (s, unread a) to (s', unread a') *)
Definition R (s : mst) (a : list N) (s' : mst) (a' : list N) (es : list effect) : Prop :=
  forall y, A s (a ++ y) = papp es (A s' (a' ++ y)).

Lemma R_refl s a : R s a s a [].
Proof. intros y. symmetry. apply papp_nil. Qed.

Lemma R_trans s a s1 a1 e1 s2 a2 e2 : R s a s1 a1 e1 -> R s1 a1 s2 a2 e2 -> R s a s2 a2 (e1 ++ e2).
Proof. intros X Y y. rewrite X, Y. apply papp_papp. Qed.

Lemma feedb_step f (s : mst) pend got rest c' :
  mu (m_mode s) (m_buf s ++ got) < f ->
  exists h1 p1 w1 m1 b1 es1,
    feedb f (m_h s) pend (m_mode s) (m_buf s ++ got) = PB HS h1 p1 w1 m1 b1 es1 /\
    R s (got ++ rest) (mk_mst h1 m1 b1 c') rest es1 /\
    goodB (mk_mst h1 m1 b1 c') w1 /\
    length b1 <= length (m_buf s ++ got) /\
    (w1 = true -> match m_mode s with
                  | RIdle => length b1 + 4 <= length (m_buf s ++ got)
                  | RPay k lft => (0 < lft)%N -> m_buf s ++ got <> [] -> length b1 < length (m_buf s ++ got)
                  | RClosed => False
                  end).
Proof.
  intros Hf.
  destruct (feedb_refines HS handle rl pol reply f (m_h s) pend (m_mode s) (m_buf s ++ got) Hf)
    as (h1 & p1 & w1 & m1 & b1 & es1 & Q & C & X).
  exists h1, p1, w1, m1, b1, es1. split; [exact Q|].
  destruct (feedb_len _ _ _ _ _ _ _ _ _ _ _ Q) as [L1 L2].
  split; [|split; [|split; [exact L1|exact L2]]].
  - intros y. unfold ProofsD.A. cbn [m_h m_mode m_buf].
    rewrite <- (app_assoc got rest y), (app_assoc (m_buf s) got (rest ++ y)). apply C.
  - destruct w1; cbn [goodB].
    + cbn [m_mode]. tauto.
    + rewrite (feedx_fuel HS handle rl pol) in X by exact Hf. eapply good_of_feed; exact X.
Qed.

(* what one event_read establishes *)
Definition post (s : mst) (avail : list N) (wait : bool) (r : mresb HS) : Prop :=
  exists s' p' w' a' es,
    r = BRet s' p' w' a' es /\ R s avail s' a' es /\ goodB s' w' /\
    length (m_buf s') + length a' <= length (m_buf s) + length avail /\
    length a' <= length avail /\
    (wait = false -> w' = true -> length (m_buf s') + length a' < length (m_buf s) + length avail) /\
    (wait = false -> avail <> [] -> m_mode s <> RClosed -> length a' < length avail).

Lemma post_ret s avail wait s' p' w' a' es :
  R s avail s' a' es -> goodB s' w' ->
  length (m_buf s') + length a' <= length (m_buf s) + length avail ->
  length a' <= length avail ->
  (wait = false -> w' = true -> length (m_buf s') + length a' < length (m_buf s) + length avail) ->
  (wait = false -> avail <> [] -> m_mode s <> RClosed -> length a' < length avail) ->
  post s avail wait (BRet s' p' w' a' es).
Proof. intros. exists s', p', w', a', es. repeat (split; [first [reflexivity|assumption]|]). assumption. Qed.

Lemma evb_ok : forall fuel s pend wait avail,
  goodB s wait -> length avail < fuel -> post s avail wait (evb fuel s pend wait avail).
Proof.
  induction fuel as [|f IH]; intros s pend wait avail G L; [lia|].
  cbn [Model.evb]. cbv zeta.
  destruct wait.
  { apply post_ret; [apply R_refl|exact G|lia|lia|discriminate|discriminate]. }
  cbn [goodB] in G.
  assert (REC : forall (s2 : mst) (p2 : bool) (a2 : list N) (e0 : list effect) (bb : bool),
     good s2 -> R s avail s2 a2 e0 ->
     length (m_buf s2) + length a2 <= length (m_buf s) + length avail -> length a2 < length avail ->
     post s avail false (if bb then bapp HS e0 (evb f s2 p2 false a2) else BRet s2 p2 false a2 e0)).
  { intros s2 p2 a2 e0 bb G2 R2 LA LB. destruct bb.
    - destruct (IH s2 p2 false a2 G2) as (s' & p' & w' & a' & es & E & RR & GB & L1 & L2 & L3 & L4); [lia|].
      rewrite E. cbn [Model.bapp]. apply post_ret.
      + eapply R_trans; eauto.
      + exact GB.
      + lia.
      + lia.
      + intros _ W'. specialize (L3 eq_refl W'). lia.
      + intros _ _ _. lia.
    - apply post_ret; [exact R2|exact G2|lia|lia|intros _ X; discriminate|intros _ _ _; lia]. }
  destruct (m_mode s) as [|k lft|] eqn:M.
  - (* RIdle *)
    pose proof (target_pos HS handle rl pol short s G M) as TP. pose proof TP as TP'. apply Nat.ltb_lt in TP'. rewrite TP'.
    set (want := Nat.min (target_of HS rl short s - length (m_buf s)) (cap budget (m_cnt s))).
    assert (W : 0 < want) by (unfold want, cap; lia).
    pose proof (firstn_skipn want avail) as FS.
    assert (FL2 : length (firstn want avail) <= want) by (rewrite firstn_length; lia).
    pose proof (f_equal (@length N) FS) as FSL. rewrite app_length in FSL.
    remember (firstn want avail) as got eqn:GOT.
    remember (skipn want avail) as avail1 eqn:AV1.
    pose proof (target_le_cap HS rl short s) as TC.
    assert (CAP : (bufcap <? length (m_buf s) + length got) = false) by (apply Nat.ltb_ge; unfold want in FL2; lia).
    rewrite CAP.
    destruct (feedb_step (S (length (m_buf s) + length got)) s pend got avail1 (S (m_cnt s)))
      as (h1 & p1 & w1 & m1 & b1 & es1 & Q & R1 & G1 & LB & LW).
    { rewrite M. unfold mu. rewrite app_length. lia. }
    rewrite M in Q, LW. rewrite Q. rewrite FS in R1. rewrite app_length in LB, LW.
    destruct got as [|g0 gs].
    + clear AV1. cbn [app] in FS. subst avail1. cbn [length] in LB, LW.
      apply post_ret; [exact R1|exact G1|cbn [m_buf]; lia|lia| |].
      * intros _ W1. specialize (LW W1). cbn [m_buf]. lia.
      * intros _ NE _. exfalso. apply (firstn_nonempty want avail W NE). symmetry. exact GOT.
    + cbn [length] in FSL, LB, LW.
      destruct w1.
      { apply post_ret; [exact R1|exact G1|cbn [m_buf]; lia|lia| |].
        - intros _ _. specialize (LW eq_refl). cbn [m_buf]. lia.
        - intros _ _ _. lia. }
      cbn [goodB] in G1.
      destruct m1 as [|k1 lft1|].
      * apply REC; [exact G1|exact R1|cbn [m_buf]; lia|lia].
      * destruct k1.
        -- apply REC; [exact G1|exact R1|cbn [m_buf]; lia|lia].
        -- (* KExt: one recv inside read_message *)
           assert (B1 : b1 = []) by (destruct G1 as [_ X]; exact X). subst b1.
           set (want2 := Nat.min (N.to_nat lft1) (cap budget (S (m_cnt s)))).
           pose proof (firstn_skipn want2 avail1) as FS2.
           pose proof (f_equal (@length N) FS2) as FSL2. rewrite app_length in FSL2.
           remember (firstn want2 avail1) as got2 eqn:GOT2.
           remember (skipn want2 avail1) as avail2 eqn:AV2.
           destruct (feedb_step (S (S (length got2))) (mk_mst h1 (RPay KExt lft1) [] (S (m_cnt s))) p1 got2 avail2 (S (S (m_cnt s))))
             as (h2 & p2 & w2 & m2 & b2 & es2 & Q2 & R2 & G2 & LB2 & LW2).
           { cbn [m_mode m_buf app]. unfold mu. lia. }
           cbn [m_h m_mode m_buf app] in Q2, LB2, LW2. rewrite Q2. rewrite FS2 in R2.
           pose proof (R_trans _ _ _ _ _ _ _ _ R1 R2) as R12.
           destruct w2.
           { apply post_ret; [exact R12|exact G2|cbn [m_buf]; lia|lia| |].
             - intros _ _. cbn [m_buf]. lia.
             - intros _ _ _. lia. }
           cbn [goodB] in G2.
           apply REC; [exact G2|exact R12|cbn [m_buf]; lia|lia].
        -- apply REC; [exact G1|exact R1|cbn [m_buf]; lia|lia].
      * apply REC; [exact G1|exact R1|cbn [m_buf]; lia|lia].
  - (* RPay *)
    pose proof (good_pay_pos HS handle rl pol s k lft G M) as LP.
    assert (B : m_buf s = []) by (destruct G as [_ X]; rewrite M in X; exact X).
    set (want := Nat.min (N.to_nat lft) (cap budget (m_cnt s))).
    assert (W : 0 < want) by (unfold want, cap; lia).
    pose proof (firstn_skipn want avail) as FS.
    pose proof (f_equal (@length N) FS) as FSL. rewrite app_length in FSL.
    remember (firstn want avail) as got eqn:GOT.
    remember (skipn want avail) as avail1 eqn:AV1.
    destruct got as [|g0 gs].
    + apply post_ret; [apply R_refl|exact G|lia|lia|intros _ X; discriminate|].
      intros _ NE _. exfalso. apply (firstn_nonempty want avail W NE). symmetry. exact GOT.
    + destruct (feedb_step (S (S (length (g0 :: gs)))) s pend (g0 :: gs) avail1 (S (m_cnt s)))
        as (h1 & p1 & w1 & m1 & b1 & es1 & Q & R1 & G1 & LB & LW).
      { rewrite M, B. cbn [app]. unfold mu. lia. }
      rewrite M in Q, LW. rewrite B in Q, LB, LW. cbn [app] in Q, LB, LW. rewrite Q. rewrite FS in R1.
      cbn [length] in FSL, LB, LW.
      destruct w1.
      { apply post_ret; [exact R1|exact G1|rewrite B; cbn [m_buf length]; lia|lia| |].
        - intros _ _. assert (NE : g0 :: gs <> []) by discriminate. specialize (LW eq_refl LP NE). rewrite B. cbn [m_buf length]. lia.
        - intros _ _ _. lia. }
      cbn [goodB] in G1.
      destruct m1 as [|k1 lft1|].
      * apply (REC _ p1 _ _ true); [exact G1|exact R1|rewrite B; cbn [m_buf length]; lia|lia].
      * apply (REC _ p1 _ _ false); [exact G1|exact R1|rewrite B; cbn [m_buf length]; lia|lia].
      * apply (REC _ p1 _ _ false); [exact G1|exact R1|rewrite B; cbn [m_buf length]; lia|lia].
  - apply post_ret; [apply R_refl|exact G|lia|lia|intros _ X; discriminate|].
    intros _ _ X. congruence.
Qed.

Lemma drainb_ok : forall fuel s pend wait avail,
  goodB s wait -> length avail < fuel ->
  exists s' p' w' a' es,
    drainb fuel s pend wait avail = BRet s' p' w' a' es /\
    R s avail s' a' es /\ goodB s' w' /\
    length (m_buf s') + length a' <= length (m_buf s) + length avail /\
    (wait = false -> w' = true -> length (m_buf s') + length a' < length (m_buf s) + length avail) /\
    (w' = false -> a' = []) /\
    (wait = true -> s' = s /\ a' = avail /\ w' = true /\ es = []).
Proof.
  induction fuel as [|f IH]; intros s pend wait avail G L; [lia|].
  cbn [Model.drainb]. destruct wait.
  { exists s, pend, true, avail, []. split; [reflexivity|]. split; [apply R_refl|]. split; [exact G|].
    split; [lia|]. split; [discriminate|]. split; [discriminate|]. intros _. repeat split; reflexivity. }
  cbn [goodB] in G.
  destruct avail as [|a0 av].
  { exists s, pend, false, [], []. split; [reflexivity|]. split; [apply R_refl|]. split; [exact G|].
    split; [lia|]. split; [discriminate|]. split; [reflexivity|discriminate]. }
  assert (STEP : m_mode s <> RClosed ->
    exists s' p' w' a' es,
      match evb (ev_fuel (a0 :: av)) s pend false (a0 :: av) with
      | BRet s1 p1 w1 a1 es1 => bapp HS es1 (drainb f s1 p1 w1 a1)
      | x => x
      end = BRet s' p' w' a' es /\
      R s (a0 :: av) s' a' es /\ goodB s' w' /\
      length (m_buf s') + length a' <= length (m_buf s) + length (a0 :: av) /\
      (false = false -> w' = true -> length (m_buf s') + length a' < length (m_buf s) + length (a0 :: av)) /\
      (w' = false -> a' = []) /\
      (false = true -> s' = s /\ a' = a0 :: av /\ w' = true /\ es = [])).
  { intros NC.
    destruct (evb_ok (ev_fuel (a0 :: av)) s pend false (a0 :: av) G) as (s1 & p1 & w1 & a1 & es1 & E & R1 & G1 & L1 & L2 & L3 & L4);
      [unfold ev_fuel; lia|].
    rewrite E. assert (NE : a0 :: av <> []) by discriminate. specialize (L4 eq_refl NE NC).
    destruct (IH s1 p1 w1 a1 G1) as (s' & p' & w' & a' & es & E2 & R2 & G2 & M1 & M2 & M3 & M4); [lia|].
    rewrite E2. cbn [Model.bapp]. exists s', p', w', a', (es1 ++ es). split; [reflexivity|].
    split; [eapply R_trans; eauto|]. split; [exact G2|]. split; [lia|]. split.
    - intros _ W'. destruct w1.
      + destruct (M4 eq_refl) as (-> & -> & _ & _). specialize (L3 eq_refl eq_refl). lia.
      + specialize (M2 eq_refl W'). lia.
    - split; [exact M3|discriminate]. }
  destruct (m_mode s) eqn:M.
  - apply STEP. discriminate.
  - apply STEP. discriminate.
  - exists s, pend, false, [], []. split; [reflexivity|]. split.
    + intros y. rewrite papp_nil. apply A_closed; assumption.
    + split; [exact G|]. split; [cbn [length]; lia|]. split; [discriminate|]. split; [reflexivity|discriminate].
Qed.

Lemma wready_ok : forall fuel s wait sock,
  goodB s wait -> length sock + length (m_buf s) + 1 < fuel ->
  exists s' a' es,
    wready fuel s wait sock = BRet s' false false a' es /\
    R s sock s' a' es /\ good s' /\
    (wait = true -> a' = []) /\ (wait = false -> s' = s /\ a' = sock /\ es = []).
Proof.
  induction fuel as [|f IH]; intros s wait sock G L; [lia|].
  cbn [Model.wready]. destruct wait.
  2: { exists s, sock, []. split; [reflexivity|]. split; [apply R_refl|]. split; [exact G|].
       split; [discriminate|]. intros _. repeat split; reflexivity. }
  cbn [goodB] in G.
  destruct (feedb_step (S (S (length (m_buf s)))) s false [] sock (m_cnt s))
    as (h1 & p1 & w1 & m1 & b1 & es1 & Q & R1 & G1 & LB & _).
  { rewrite app_nil_r, G. unfold mu. lia. }
  rewrite app_nil_r in Q, LB. cbn [app] in R1. rewrite Q.
  destruct (drainb_ok (drain_fuel sock) (mk_mst h1 m1 b1 (m_cnt s)) p1 w1 sock G1)
    as (s2 & p2 & w2 & a2 & es2 & E2 & R2 & G2 & M1 & M2 & M3 & M4); [unfold drain_fuel; lia|].
  rewrite E2. cbn [m_buf] in M1, M2.
  pose proof (R_trans _ _ _ _ _ _ _ _ R1 R2) as R12.
  destruct w2.
  - (* still waiting: strictly fewer bytes *)
    assert (DEC : length a2 + length (m_buf s2) + 1 < f).
    { destruct w1.
      - destruct (M4 eq_refl) as (-> & -> & _ & _). cbn [m_buf].
        rewrite G in Q. apply feedb_resume_len in Q. lia.
      - specialize (M2 eq_refl eq_refl). lia. }
    destruct (IH s2 true a2 G2 DEC) as (s' & a' & es & E3 & R3 & G3 & X1 & _).
    rewrite E3. cbn [Model.bapp]. exists s', a', ((es1 ++ es2) ++ es). split; [reflexivity|].
    split; [eapply R_trans; eauto|]. split; [exact G3|]. split; [intros _; apply X1; reflexivity|discriminate].
  - destruct f as [|f']; [lia|]. cbn [Model.wready Model.bapp].
    exists s2, a2, ((es1 ++ es2) ++ []). split; [reflexivity|].
    split; [rewrite app_nil_r; exact R12|]. split; [exact G2|]. split; [intros _; apply M3; reflexivity|discriminate].
Qed.

(* invariant between events: a waiting message is an extension message with nothing left to
   read of it; when nothing waits the state is settled and the socket has been read empty *)
Definition binv (s : mst) (wait : bool) (sock : list N) : Prop := goodB s wait /\ (wait = false -> sock = []).

Lemma runB_ok : forall evs s pend wait sock, binv s wait sock ->
  exists s' p' w' a' es,
    runB s pend wait sock evs = BRet s' p' w' a' es /\ binv s' w' a' /\
    R s (sock ++ wbytes evs) s' a' es.
Proof.
  induction evs as [|e r IH]; intros s pend wait sock [G S0].
  - cbn [Model.runB wbytes]. exists s, pend, wait, sock, []. split; [reflexivity|]. split; [split; assumption|].
    rewrite app_nil_r. apply R_refl.
  - destruct e as [c|]; cbn [Model.runB wbytes].
    + destruct (drainb_ok (drain_fuel (sock ++ c)) s pend wait (sock ++ c) G)
        as (s1 & p1 & w1 & a1 & es1 & E & R1 & G1 & M1 & M2 & M3 & M4); [unfold drain_fuel; lia|].
      rewrite E. destruct (IH s1 p1 w1 a1) as (s' & p' & w' & a' & es & E2 & I2 & R2); [split; assumption|].
      rewrite E2. cbn [Model.bapp]. exists s', p', w', a', (es1 ++ es). split; [reflexivity|]. split; [exact I2|].
      intros y.
      replace ((sock ++ c ++ wbytes r) ++ y) with ((sock ++ c) ++ wbytes r ++ y) by (rewrite <- !app_assoc; reflexivity).
      rewrite R1.
      replace (a1 ++ wbytes r ++ y) with ((a1 ++ wbytes r) ++ y) by (rewrite <- app_assoc; reflexivity).
      rewrite R2. apply papp_papp.
    + destruct (wready_ok (S (S (length sock + length (m_buf s)))) s wait sock G)
        as (s1 & a1 & es1 & E & R1 & G1 & X1 & X2); [lia|].
      rewrite E. destruct (IH s1 false false a1) as (s' & p' & w' & a' & es & E2 & I2 & R2).
      { split; [exact G1|]. intros _. destruct wait.
        - apply X1. reflexivity.
        - destruct (X2 eq_refl) as (_ & -> & _). apply S0. reflexivity. }
      rewrite E2. cbn [Model.bapp]. exists s', p', w', a', (es1 ++ es). split; [reflexivity|]. split; [exact I2|].
      intros y. rewrite <- app_assoc. rewrite R1.
      replace (a1 ++ wbytes r ++ y) with ((a1 ++ wbytes r) ++ y) by (rewrite <- app_assoc; reflexivity).
      rewrite R2. apply papp_papp.
Qed.

Lemma bapp_nil (r : mresb HS) : bapp HS [] r = r.
Proof. destruct r; reflexivity. Qed.

Lemma bapp_bapp a b (r : mresb HS) : bapp HS a (bapp HS b r) = bapp HS (a ++ b) r.
Proof. destruct r; cbn; [rewrite app_assoc|..]; reflexivity. Qed.

Lemma runB_app : forall a b s p w sock,
  runB s p w sock (a ++ b) =
  match runB s p w sock a with
  | BRet s1 p1 w1 a1 es1 => bapp HS es1 (runB s1 p1 w1 a1 b)
  | x => x
  end.
Proof.
  induction a as [|e r IH]; intros b s p w sock.
  - cbn. rewrite bapp_nil. reflexivity.
  - cbn [app Model.runB]. destruct e as [c|].
    + destruct (drainb _ s p w _) as [s1 p1 w1 a1 es1| |]; try reflexivity.
      rewrite IH. destruct (runB s1 p1 w1 a1 r); cbn [Model.bapp]; [rewrite bapp_bapp|..]; reflexivity.
    + destruct (wready _ s w sock) as [s1 p1 w1 a1 es1| |]; try reflexivity.
      rewrite IH. destruct (runB s1 p1 w1 a1 r); cbn [Model.bapp]; [rewrite bapp_bapp|..]; reflexivity.
Qed.

(* the first event_read after the handshake handed over `pre` *)
Lemma run_b_start (h : HS) (pre : list N) (evs : list bevent) : length pre < bufsz ->
  exists s0 p0 w0 es0,
    run_b HS handle rl pol budget short reply h pre evs = bapp HS es0 (runB s0 p0 w0 [] evs) /\
    binv s0 w0 [] /\ R (mk_mst h RIdle [] 0) pre s0 [] es0.
Proof.
  intros L. unfold run_b. destruct pre as [|p0 ps] eqn:P.
  - exists (mk_mst h RIdle [] 0), false, false, []. split; [rewrite bapp_nil; reflexivity|].
    split; [|apply R_refl]. split; [|reflexivity].
    cbn [goodB]. split; cbn; [rewrite feedx_idle|]; reflexivity.
  - rewrite <- P in *. unfold ev_fuel. cbn [length Model.evb m_mode m_buf m_h m_cnt]. cbv zeta.
    assert (T : target_of HS rl short (mk_mst h RIdle pre 0) = bufsz).
    { unfold target_of. cbn [m_buf m_cnt]. subst pre. cbn [length Nat.eqb]. rewrite andb_false_r. reflexivity. }
    rewrite T. assert (LT : (length pre <? bufsz) = true) by (apply Nat.ltb_lt; exact L). rewrite LT.
    assert (W : firstn (Nat.min (bufsz - length pre) (cap budget 0)) (@nil N) = []) by apply firstn_nil.
    rewrite W. cbn [length]. rewrite Nat.add_0_r.
    assert (CAP : (bufcap <? length pre) = false).
    { apply Nat.ltb_ge. pose proof (target_le_cap HS rl short (mk_mst h RIdle pre 0)) as TC. rewrite T in TC. lia. }
    rewrite CAP.
    destruct (feedb_step (S (length pre)) (mk_mst h RIdle pre 0) false [] [] 1)
      as (h1 & p1 & w1 & m1 & b1 & es1 & Q & R1 & G1 & _ & _).
    { cbn [m_mode m_buf]. rewrite app_nil_r. unfold mu. lia. }
    cbn [m_h m_mode m_buf] in Q. rewrite Q.
    exists (mk_mst h1 m1 b1 1), p1, w1, es1. split; [reflexivity|].
    split; [split; [exact G1|reflexivity]|].
    intros y. specialize (R1 y). cbn [app] in R1. unfold ProofsD.A in *. cbn [m_h m_mode m_buf app] in *. exact R1.
Qed.

(* THE MACHINE THEOREM.  For every handler, reply oracle, role, recv budget oracle, fill-target
   oracle, handed-over prefix and EVERY interleaving of segments and write-ready events: the run
   ends normally (no BFault, no BOut); the effects emitted followed by the decode from the state
   reached over buffer ++ socket ++ (whatever follows) are the decode of the whole stream; a
   waiting message is an extension message (mode RPay KExt 0); if nothing waits the state is
   settled and the socket has been read empty. *)
Theorem machine_write_events : forall (h : HS) (pre : list N) (evs : list bevent),
  length pre < bufsz ->
  exists s' p' w' sock' es,
    run_b HS handle rl pol budget short reply h pre evs = BRet s' p' w' sock' es /\
    (if w' then m_mode s' = RPay KExt 0%N else good s' /\ sock' = []) /\
    (forall y, feedx h RIdle (pre ++ wbytes evs ++ y) =
               papp es (feedx (m_h s') (m_mode s') (m_buf s' ++ sock' ++ y))).
Proof.
  intros h pre evs L.
  destruct (run_b_start h pre evs L) as (s0 & p0 & w0 & es0 & E0 & I0 & R0).
  destruct (runB_ok evs s0 p0 w0 [] I0) as (s' & p' & w' & a' & es & E & [G' S'] & R1).
  rewrite E0, E. cbn [Model.bapp]. exists s', p', w', a', (es0 ++ es). split; [reflexivity|]. split.
  - destruct w'; [exact G'|]. split; [exact G'|apply S'; reflexivity].
  - intros y. specialize (R0 (wbytes evs ++ y)). cbn [app] in R0, R1. specialize (R1 y).
    unfold ProofsD.A in *. cbn [m_h m_mode m_buf app] in *.
    rewrite R0, R1. apply papp_papp.
Qed.

(* ... and once the write side has caught up (a final write-ready event), the machine is exactly
   where `decode` of the whole stream is *)
Theorem machine_write_events_decode : forall (h : HS) (pre : list N) (evs : list bevent),
  length pre < bufsz ->
  exists s' es,
    run_b HS handle rl pol budget short reply h pre (evs ++ [BWrite]) = BRet s' false false [] es /\
    decode HS handle rl pol h (pre ++ wbytes evs) = PRes (m_h s') (m_mode s') (m_buf s') es.
Proof.
  intros h pre evs L.
  destruct (run_b_start h pre (evs ++ [BWrite]) L) as (s0 & p0 & w0 & es0 & E0 & I0 & R0).
  destruct (runB_ok evs s0 p0 w0 [] I0) as (s1 & p1 & w1 & a1 & es1 & E1 & [G1 S1] & R1).
  rewrite E0, runB_app, E1. cbn [Model.runB].
  destruct (wready_ok (S (S (length a1 + length (m_buf s1)))) s1 w1 a1 G1) as (s2 & a2 & es2 & E2 & R2 & G2 & X1 & X2); [lia|].
  rewrite E2. cbn [Model.bapp].
  assert (A2 : a2 = []).
  { destruct w1; [apply X1; reflexivity|]. destruct (X2 eq_refl) as (_ & -> & _). apply S1. reflexivity. }
  subst a2. exists s2, (es0 ++ (es1 ++ es2 ++ [])). split; [reflexivity|].
  rewrite decode_feedx.
  specialize (R0 (wbytes evs)). specialize (R1 []). specialize (R2 []).
  unfold ProofsD.A in *. cbn [m_h m_mode m_buf app] in *. rewrite ?app_nil_r in *.
  rewrite R0, R1, R2. destruct G2 as [G2 _]. rewrite G2.
  unfold ProofsB.papp. rewrite ?app_nil_r. reflexivity.
Qed.

End WaitMachine.

(* no internal_error from input on the pausing machine, generic handler ... *)
Theorem no_fatal_write_events (HS : Type) (handle : HS -> msg -> HS * verdict) (rl : role) (pol : policy)
  (budget : nat -> nat) (short : nat -> bool) (reply : HS -> bool) :
  handler_never_fatal HS handle ->
  forall (h : HS) (pre : list N) (evs : list bevent), length pre < bufsz ->
  exists s' p' w' sock' es,
    run_b HS handle rl pol budget short reply h pre evs = BRet s' p' w' sock' es /\ ~ In EFatal es.
Proof.
  intros NF h pre evs L.
  destruct (machine_write_events HS handle rl pol budget short reply h pre evs L)
    as (s' & p' & w' & sock' & es & E & _ & C).
  exists s', p', w', sock', es. split; [exact E|].
  specialize (C []).
  destruct (feedx_total' HS handle rl pol h RIdle (pre ++ wbytes evs ++ [])) as (ha & ma & ba & ea & F).
  pose proof (feedx_no_fatal HS handle rl pol NF _ _ _ _ _ _ _ _ (Nat.lt_succ_diag_r _) F) as NFa.
  rewrite F in C.
  destruct (ProofsB.feedx HS handle rl pol (m_h s') (m_mode s') (m_buf s' ++ sock' ++ [])) as [hb mb bb eb| |];
    unfold ProofsB.papp in C; try discriminate.
  inversion C; subst. intros I. apply NFa. apply in_or_app. left. exact I.
Qed.

(* ... and for the concrete handler hreal with its reply oracle, for ALL configurations *)
Theorem no_fatal_real_write_machine : forall (c : cfg) (budget : nat -> nat) (short : nat -> bool) (h0 : hst)
  (pre : list N) (evs : list bevent),
  length pre < bufsz ->
  exists s' p' w' sock' es,
    run_b_real c budget short h0 pre evs = BRet s' p' w' sock' es /\ ~ In EFatal es.
Proof.
  intros c budget short h0 pre evs L. unfold run_b_real.
  apply no_fatal_write_events; [apply hreal_never_fatal|exact L].
Qed.

(* non-vacuity: the waiting state IS reached (two extension messages that both generate a reply,
   arriving in one segment: the second waits, with a HAVE kept behind it in the buffer), and a
   write-ready event resolves it to exactly the decode of the stream *)
Definition wstream : list N := encode_msgs [WExt 0 [100; 101]%N; WExt 0 [102]%N; WHave 3].
Definition wobs (r : mresb unit) :=
  match r with BRet s p w a es => Some (p, w, m_mode s, m_buf s, a, es) | _ => None end.
Definition wrun := run_b unit (fun h _ => (h, VCont)) Leech pol_src (fun _ => 600) (fun _ => false) (fun _ => true) tt [].

Example wait_reached :
  wobs (wrun [BSeg wstream]) =
  Some (true, true, RPay KExt 0, [0; 0; 0; 5; 4; 0; 0; 0; 3]%N, [],
        [EMsg (MExt 0 2); EMsg MExtDone; EMsg (MExt 0 1)]).
Proof. vm_compute. reflexivity. Qed.

Example wait_resolved :
  wobs (wrun [BSeg wstream; BSeg [0; 0]%N; BWrite]) =
  Some (false, false, RIdle, [0; 0]%N, [],
        [EMsg (MExt 0 2); EMsg MExtDone; EMsg (MExt 0 1); EMsg MExtDone; EMsg (MHave 3)]) /\
  decode unit (fun h _ => (h, VCont)) Leech pol_src tt (wstream ++ [0; 0]%N) =
  PRes tt RIdle [0; 0]%N [EMsg (MExt 0 2); EMsg MExtDone; EMsg (MExt 0 1); EMsg MExtDone; EMsg (MHave 3)].
Proof. split; vm_compute; reflexivity. Qed.
