From Coq Require Import NArith List Bool Arith.
From LTV.C03 Require Import ParamsGen Model Proofs ProofsA ProofsB ProofsC ProofsD ProofsE ProofsF ProofsG ProofsH ProofsI ProofsJ ProofsK.
Import ListNotations.

Theorem params_ok_now : params_ok = true.
Proof. exact Proofs.params_ok_now. Qed.
Print Assumptions params_ok_now.

(* one read_message call never reads outside the unread bytes of the buffer *)
Theorem read_message_buffer_safe : forall (pol : policy) (r : role) (l : list N), one_msg pol r l <> HFault.
Proof. exact ProofsA.one_msg_no_fault. Qed.
Print Assumptions read_message_buffer_safe.

(* a decision of read_message other than "need more" does not depend on the bytes that follow *)
Theorem read_message_monotone : forall (pol : policy) (r : role) (l x : list N),
  one_msg pol r l <> NeedMore -> one_msg pol r (l ++ x) = one_msg pol r l.
Proof. exact ProofsA.one_msg_mono. Qed.
Print Assumptions read_message_monotone.

(* a header is 4..17 bytes and lies inside the unread bytes: every loop iteration consumes input *)
Theorem read_message_consumes : forall (pol : policy) (r : role) (l : list N) (m : msg) (n : nat),
  one_msg pol r l = Got m n -> (4 <= n <= length l)%nat /\ (n <= 17)%nat.
Proof. exact ProofsA.one_msg_got_len. Qed.
Print Assumptions read_message_consumes.

(* the fuel of the decoder is irrelevant once it exceeds the measure: no spin *)
Theorem decoder_no_spin : forall (HS : Type) (handle : HS -> msg -> HS * verdict) (rl : role) (pol : policy)
  (f1 f2 : nat) (h : HS) (m : rmode) (l : list N),
  (mu m l < f1)%nat -> (mu m l < f2)%nat -> feed HS handle rl pol f1 h m l = feed HS handle rl pol f2 h m l.
Proof. exact ProofsB.feed_fuel. Qed.
Print Assumptions decoder_no_spin.

Theorem decode_total : forall (HS : Type) (handle : HS -> msg -> HS * verdict) (rl : role) (pol : policy) (h : HS) (s : list N),
  exists h' m' b' es, decode HS handle rl pol h s = PRes h' m' b' es.
Proof. exact ProofsC.decode_total. Qed.
Print Assumptions decode_total.

Theorem decoder_compositional : forall (HS : Type) (handle : HS -> msg -> HS * verdict) (rl : role) (pol : policy)
  (h : HS) (m : rmode) (a b : list N),
  feedx HS handle rl pol h m (a ++ b) = pbind HS handle rl pol (feedx HS handle rl pol h m a) b.
Proof. exact ProofsB.feedx_app'. Qed.
Print Assumptions decoder_compositional.

Theorem decoder_segmentation_independent : forall (HS : Type) (handle : HS -> msg -> HS * verdict) (rl : role) (pol : policy)
  (h : HS) (chunks : list (list N)),
  feed_chunks HS handle rl pol h RIdle [] chunks = decode HS handle rl pol h (concat chunks).
Proof. exact ProofsC.decoder_segmentation_independent. Qed.
Print Assumptions decoder_segmentation_independent.

Theorem decoder_segmentation_independent_from : forall (HS : Type) (handle : HS -> msg -> HS * verdict) (rl : role) (pol : policy)
  (h : HS) (m : rmode) (buf : list N) (chunks1 chunks2 : list (list N)),
  feedx HS handle rl pol h m buf = PRes h m buf [] ->
  concat chunks1 = concat chunks2 ->
  feed_chunks HS handle rl pol h m buf chunks1 = feed_chunks HS handle rl pol h m buf chunks2.
Proof. exact ProofsC.decoder_segmentation_independent_from. Qed.
Print Assumptions decoder_segmentation_independent_from.

Theorem decode_rest_incomplete : forall (HS : Type) (handle : HS -> msg -> HS * verdict) (rl : role) (pol : policy)
  (h : HS) (s : list N) (h' : HS) (b' : list N) (es : list effect),
  decode HS handle rl pol h s = PRes h' RIdle b' es -> one_msg pol rl b' = NeedMore /\ (length b' < 17)%nat.
Proof. exact ProofsC.decode_rest_incomplete_short. Qed.
Print Assumptions decode_rest_incomplete.

Theorem no_fatal_from_input : forall (HS : Type) (handle : HS -> msg -> HS * verdict) (rl : role) (pol : policy),
  handler_never_fatal HS handle ->
  forall (h : HS) (s : list N) (h' : HS) (m' : rmode) (b' : list N) (es : list effect),
  decode HS handle rl pol h s = PRes h' m' b' es -> ~ In EFatal es.
Proof. exact ProofsC.no_fatal_from_input. Qed.
Print Assumptions no_fatal_from_input.

(* The machine: event_read over a socket.  For EVERY handler, role, per-read budget oracle,
   fill-target oracle (13 or 512 on an empty buffer) and EVERY list of TCP segments: the run ends
   normally -- no MFault (no write past the 512-byte buffer, no read outside the unread bytes:
   buffer_safe), no MOut (every loop iteration consumed input or returned: no_spin) -- and the
   handler state, read mode, unread rest and effect sequence are those of decoding the
   concatenated stream at once (segmentation_independent). *)
Theorem machine_segmentation_independent :
  forall (HS : Type) (handle : HS -> msg -> HS * verdict) (rl : role) (pol : policy) (budget : nat -> nat) (short : nat -> bool)
         (h : HS) (pre : list N) (segs : list (list N)),
  (length pre < bufsz)%nat ->
  exists s' es,
    run HS handle rl pol budget short h pre segs = MRet s' [] es /\
    decode HS handle rl pol h (pre ++ concat segs) = PRes (m_h s') (m_mode s') (m_buf s') es.
Proof. exact ProofsD.machine_segmentation_independent. Qed.
Print Assumptions machine_segmentation_independent.

(* one event_read from a settled state: ends normally, never reads more than the socket holds,
   consumes at least one byte when the socket is non-empty and the connection is open *)
Theorem event_read_total :
  forall (HS : Type) (handle : HS -> msg -> HS * verdict) (rl : role) (pol : policy) (budget : nat -> nat) (short : nat -> bool)
         (fuel : nat) (s : mst HS) (avail : list N),
  good HS handle rl pol s -> (length avail < fuel)%nat ->
  exists s' a' es, ev HS handle rl pol budget short fuel s avail = MRet s' a' es /\ (length a' <= length avail)%nat /\
                   (avail <> [] -> m_mode s <> RClosed -> (length a' < length avail)%nat).
Proof. exact ProofsD.ev_total. Qed.
Print Assumptions event_read_total.

(* was handover_complete_refuted before commit 5c4764e: after push_unread(pre) + one event_read
   on an empty socket the connection is in the state decode pre denotes -- every complete message
   in the handed-over bytes has been dispatched, what stays buffered is an incomplete message *)
Theorem handover_dispatches_complete :
  forall (HS : Type) (handle : HS -> msg -> HS * verdict) (rl : role) (pol : policy) (budget : nat -> nat) (short : nat -> bool)
         (h : HS) (pre : list N),
  (length pre < bufsz)%nat ->
  exists s0 es0,
    handover HS handle rl pol budget short h pre [] = MRet s0 [] es0 /\
    decode HS handle rl pol h pre = PRes (m_h s0) (m_mode s0) (m_buf s0) es0 /\
    good HS handle rl pol s0.
Proof. exact ProofsD.handover_dispatches_complete. Qed.
Print Assumptions handover_dispatches_complete.

(* decode_spec: on the encoding (independent BEP 3 / BEP 10 encoder `encode_msgs`) of any list of
   messages that are well-formed for the role and within the limits (2^20 message, 2^15 extension
   payload, 3 extension types, 32-bit fields), with a handler that does not close, the decoder
   reports exactly those messages, leaves nothing unread and ends in the IDLE state *)
Theorem decode_spec :
  forall (HS : Type) (handle : HS -> msg -> HS * verdict) (rl : role) (pol : policy),
  (forall h m, snd (handle h m) = VCont) ->
  (forall m, wf_wmsg rl m -> p_hdr pol (fst (whdr m)) (snd (whdr m)) = false) ->
  (forall ty d, wf_wmsg rl (WExt ty d) -> p_ext pol ty (lenN d) = false) ->
  forall (ms : list wmsg) (h : HS),
  Forall (wf_wmsg rl) ms ->
  decode HS handle rl pol h (encode_msgs ms) =
  PRes (hfold HS handle h (concat (map denotes ms))) RIdle [] (map EMsg (concat (map denotes ms))).
Proof. exact ProofsE.decode_spec. Qed.
Print Assumptions decode_spec.

(* PeerConnectionMetadata (after commit 37af099; before it this was refuted by the witness in
   corpus/C03/meta.case: a BITFIELD and what was buffered behind it stayed unparsed): the parse that
   stops at a BITFIELD header loses nothing ... *)
Theorem metadata_parse_refines :
  forall (HS : Type) (handle : HS -> msg -> HS * verdict) (rl : role) (pol : policy) (budget : nat -> nat)
         (f : nat) (h : HS) (m : rmode) (l : list N) (h1 : HS) (m1 : rmode) (b1 : list N) (es1 : list effect),
  (mu m l < f)%nat -> feeds HS handle rl pol f h m l = PRes h1 m1 b1 es1 ->
  (forall y, feedx HS handle rl pol h m (l ++ y) = papp HS es1 (feedx HS handle rl pol h1 m1 (b1 ++ y))) /\
  ((exists lft, m1 = RPay KBits lft) \/ good HS handle rl pol (mk_mst h1 m1 b1 0)).
Proof. exact ProofsF.feeds_refines. Qed.
Print Assumptions metadata_parse_refines.

(* ... and the metadata connection's event_read machine, for every handler, recv budget oracle,
   handed-over prefix and list of segments: a run that ends normally emitted exactly the effects
   of decoding the whole stream and is in the state decode denotes *)
Theorem meta_machine_refines_decode :
  forall (HS : Type) (handle : HS -> msg -> HS * verdict) (rl : role) (pol : policy) (budget : nat -> nat)
         (h : HS) (pre : list N) (segs : list (list N)) (s' : mst HS) (avail' : list N) (es : list effect),
  run_meta HS handle rl pol budget h pre segs = MRet s' avail' es ->
  decode HS handle rl pol h (pre ++ concat segs) = PRes (m_h s') (m_mode s') (m_buf s') es.
Proof. exact ProofsF.meta_machine_refines_decode. Qed.
Print Assumptions meta_machine_refines_decode.

(* Events: segments, read pauses (throttle quota 0: reads stop and resume) at any point, a remote
   close at any byte.  The run always ends normally; what was read before the close is decoded as
   `decode` does; a pause only delays (unread bytes stay in the socket; none if reads are not
   paused at the end); a remote close adds exactly one effect, Close of that connection. *)
Theorem machine_events :
  forall (HS : Type) (handle : HS -> msg -> HS * verdict) (rl : role) (pol : policy) (budget : nat -> nat) (short : nat -> bool)
         (h : HS) (pre : list N) (evs : list event),
  (length pre < bufsz)%nat ->
  exists s' sock' es hd md bd ed consumed,
    run_events HS handle rl pol budget short h pre evs = MRet s' sock' es /\
    ebytes evs = consumed ++ sock' /\
    decode HS handle rl pol h (pre ++ consumed) = PRes hd md bd ed /\
    (epaused false evs = false -> sock' = []) /\
    (if eeof evs
     then sock' = [] /\ m_mode s' = RClosed /\
          es = ed ++ (match md with RClosed => [] | _ => [EClose REof] end)
     else m_h s' = hd /\ m_mode s' = md /\ m_buf s' = bd /\ es = ed).
Proof. exact ProofsG.machine_events. Qed.
Print Assumptions machine_events.

(* no_fatal_from_input with the handler hypothesis discharged for the concrete handler hreal, for
   ALL configurations, byte strings and event lists (the code-level internal_error sites that
   hreal abstracts, and the properties that own them, are listed in ProofsG.v) *)
Theorem hreal_never_fatal : forall (c : cfg), handler_never_fatal hst (hreal c).
Proof. exact ProofsC.hreal_never_fatal. Qed.
Print Assumptions hreal_never_fatal.

Theorem no_fatal_real_decode : forall (c : cfg) (h0 : hst) (s : list N) h' m' b' es,
  decode_real c h0 s = PRes h' m' b' es -> ~ In EFatal es.
Proof. exact ProofsG.no_fatal_real_decode. Qed.
Print Assumptions no_fatal_real_decode.

Theorem no_fatal_real_machine : forall (c : cfg) (budget : nat -> nat) (short : nat -> bool) (h0 : hst)
  (pre : list N) (evs : list event),
  (length pre < bufsz)%nat ->
  exists s' sock' es,
    run_events hst (hreal c) (c_role c) (c_pol c) budget short h0 pre evs = MRet s' sock' es /\ ~ In EFatal es.
Proof. exact ProofsG.no_fatal_real_machine. Qed.
Print Assumptions no_fatal_real_machine.

(* The metadata connection, unconditionally (totality added to meta_machine_refines_decode): the
   run always ends normally -- no MFault (never writes past the 512-byte buffer), no MOut (the
   event_read loop terminates) -- and equals the decode of the whole stream *)
Theorem meta_machine_segmentation_independent :
  forall (HS : Type) (handle : HS -> msg -> HS * verdict) (rl : role) (pol : policy) (budget : nat -> nat)
         (h : HS) (pre : list N) (segs : list (list N)),
  (length pre <= bufcap)%nat ->
  exists s' es,
    run_meta HS handle rl pol budget h pre segs = MRet s' [] es /\
    decode HS handle rl pol h (pre ++ concat segs) = PRes (m_h s') (m_mode s') (m_buf s') es.
Proof. exact ProofsH.meta_machine_segmentation_independent. Qed.
Print Assumptions meta_machine_segmentation_independent.

(* The extension "waiting for a write" pause (feedb / evb / drainb / wready / runB / run_b in Model.v;
   commits 6c29d69, 1b429d0, c72865a).
   machine_write_events_partial (kept: it is not implied by the full theorems below, it holds for
   EVERY fuel): the pausing decoder coincides with the proved decoder whenever no completed
   extension message generates a reply.  What this comment used to list as MISSING -- the refinement
   of run_b over arbitrary interleavings of segments and write-ready events for ARBITRARY reply
   oracles -- is now proved: wait_decoder_refines, write_ready_progress, machine_write_events,
   machine_write_events_decode. *)
Theorem machine_write_events_partial :
  forall (HS : Type) (handle : HS -> msg -> HS * verdict) (rl : role) (pol : policy) (reply : HS -> bool),
  (forall h, reply h = false) ->
  forall (f : nat) (h : HS) (pend : bool) (m : rmode) (l : list N),
  feedb HS handle rl pol reply f h pend m l = lift HS pend (feed HS handle rl pol f h m l).
Proof. exact ProofsI.feedb_no_reply. Qed.
Print Assumptions machine_write_events_partial.

(* the pausing decoder, any reply oracle: total (no PBFault, no PBOut); what it dispatched followed by
   the decode from where it stopped (the kept buffer rest ++ whatever follows) is the decode of
   everything; if it does not end waiting it IS `feed`; if it ends waiting, the mode is RPay KExt 0,
   a reply is pending and the waiting message is one that generates a reply *)
Theorem wait_decoder_refines :
  forall (HS : Type) (handle : HS -> msg -> HS * verdict) (rl : role) (pol : policy) (reply : HS -> bool)
         (f : nat) (h : HS) (pend : bool) (m : rmode) (l : list N),
  (mu m l < f)%nat ->
  exists h1 p1 w1 m1 b1 es1,
    feedb HS handle rl pol reply f h pend m l = PB HS h1 p1 w1 m1 b1 es1 /\
    (forall y, feedx HS handle rl pol h m (l ++ y) = papp HS es1 (feedx HS handle rl pol h1 m1 (b1 ++ y))) /\
    (if w1 then m1 = RPay KExt 0%N /\ p1 = true /\ reply h1 = true /\ (length b1 <= length l)%nat
     else feed HS handle rl pol f h m l = PRes h1 m1 b1 es1).
Proof. exact ProofsJ.feedb_refines. Qed.
Print Assumptions wait_decoder_refines.

(* once the pending reply has been written, the waiting message is dispatched at once *)
Theorem write_ready_progress :
  forall (HS : Type) (handle : HS -> msg -> HS * verdict) (rl : role) (pol : policy) (reply : HS -> bool)
         (f : nat) (h : HS) (b : list N),
  feedb HS handle rl pol reply (S f) h false (RPay KExt 0%N) b =
  let (h', v) := handle h MExtDone in
  match v with
  | VCont => pbcons HS (EMsg MExtDone) (feedb HS handle rl pol reply f h' (reply h) RIdle b)
  | VClose => PB HS h' (reply h) false RClosed [] [EMsg MExtDone; EClose RHandler]
  | VFatal => PB HS h' (reply h) false RClosed [] [EMsg MExtDone; EFatal]
  end.
Proof. exact ProofsJ.feedb_resume. Qed.
Print Assumptions write_ready_progress.

(* THE MACHINE with the pause (full version of machine_write_events_partial).  For every handler,
   reply oracle, role, recv budget oracle, fill-target oracle, handed-over prefix (< 512 bytes) and
   EVERY interleaving of TCP segments and write-ready events: the run ends normally -- no BFault (no
   write past the 512-byte buffer), no BOut (every loop terminates within the fuel the model gives
   it) --; the effects emitted followed by the decode from the state reached over
   buffer ++ unread socket ++ (whatever follows) are the decode of the whole stream (nothing lost,
   duplicated or reordered by waiting); a waiting message is an extension message with nothing left
   to read (mode RPay KExt 0); if nothing waits the state is settled and the socket read empty. *)
Theorem machine_write_events :
  forall (HS : Type) (handle : HS -> msg -> HS * verdict) (rl : role) (pol : policy) (budget : nat -> nat) (short : nat -> bool)
         (reply : HS -> bool) (h : HS) (pre : list N) (evs : list bevent),
  (length pre < bufsz)%nat ->
  exists s' p' w' sock' es,
    run_b HS handle rl pol budget short reply h pre evs = BRet s' p' w' sock' es /\
    (if w' then m_mode s' = RPay KExt 0%N else good HS handle rl pol s' /\ sock' = []) /\
    (forall y, feedx HS handle rl pol h RIdle (pre ++ wbytes evs ++ y) =
               papp HS es (feedx HS handle rl pol (m_h s') (m_mode s') (m_buf s' ++ sock' ++ y))).
Proof. exact ProofsK.machine_write_events. Qed.
Print Assumptions machine_write_events.

(* ... and after a final write-ready event (the write side has caught up) nothing waits, no reply
   is pending, the socket is empty, and handler state / mode / unread rest / effects are exactly
   those of decoding the whole stream at once *)
Theorem machine_write_events_decode :
  forall (HS : Type) (handle : HS -> msg -> HS * verdict) (rl : role) (pol : policy) (budget : nat -> nat) (short : nat -> bool)
         (reply : HS -> bool) (h : HS) (pre : list N) (evs : list bevent),
  (length pre < bufsz)%nat ->
  exists s' es,
    run_b HS handle rl pol budget short reply h pre (evs ++ [BWrite]) = BRet s' false false [] es /\
    decode HS handle rl pol h (pre ++ wbytes evs) = PRes (m_h s') (m_mode s') (m_buf s') es.
Proof. exact ProofsK.machine_write_events_decode. Qed.
Print Assumptions machine_write_events_decode.

(* no_fatal_real_machine for the machine with the pause: the concrete handler hreal with its reply
   oracle, ALL configurations, budgets, handed-over prefixes and interleavings of segments and
   write-ready events: the run ends normally and no internal_error effect is emitted *)
Theorem no_fatal_real_write_machine : forall (c : cfg) (budget : nat -> nat) (short : nat -> bool) (h0 : hst)
  (pre : list N) (evs : list bevent),
  (length pre < bufsz)%nat ->
  exists s' p' w' sock' es,
    run_b_real c budget short h0 pre evs = BRet s' p' w' sock' es /\ ~ In EFatal es.
Proof. exact ProofsK.no_fatal_real_write_machine. Qed.
Print Assumptions no_fatal_real_write_machine.
