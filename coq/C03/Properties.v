From Coq Require Import NArith List Bool Arith.
From LTV.C03 Require Import ParamsGen Model Proofs.
Import ListNotations.

Theorem params_ok_now : params_ok = true.
Proof. exact Proofs.params_ok_now. Qed.
Print Assumptions params_ok_now.
