(* C06 — property theorems (statements only; proofs in Proofs*.v) *)
From Coq Require Import NArith List Bool Arith.
Import ListNotations.
From LTV.C06 Require Import ParamsGen Model Proofs.

Theorem params_ok_now : params_ok = true.
Proof. exact Proofs.params_ok_now. Qed.
Print Assumptions params_ok_now.

(* For every policy (15), direction, remote offer {plain, MSE provide 1,2,3}, pad lengths in
   {0,512}^2 and IA on/off, the modelled handshake run against a protocol-following peer
   succeeds iff a connection type is allowed by both sides, with a mode both allow, the preferred
   one when both are possible, correctly aligned ciphers and at most 512 unread bytes; at most one
   retry. Excluded: the cell where the model (and the code) raise internal_error. Reading: the
   stream policy constrains MSE-negotiated streams only. *)
Theorem negotiation_table :
  forall incoming p o pa pb ia,
    In p all_policies -> In o all_offers -> In pa [0; 512] -> In pb [0; 512] ->
    crash_cell incoming p o = false ->
    spec_ok false incoming p o (negotiate incoming p o pa pb ia 0) = true.
Proof. exact Proofs.negotiation_table. Qed.
Print Assumptions negotiation_table.

Theorem retry_internal_error_refuted :
  exists p o, In p all_policies /\ In o all_offers /\ compatible false p o = true /\
              negotiate false p o 0 0 false 0 = NCrash.
Proof. exact Proofs.retry_internal_error_refuted. Qed.
Print Assumptions retry_internal_error_refuted.

Theorem strict_stream_policy_refuted :
  exists incoming p o, In p all_policies /\ In o all_offers /\ crash_cell incoming p o = false /\
    spec_ok true incoming p o (negotiate incoming p o 0 0 false 0) = false /\
    negotiate incoming p o 0 0 false 0 = NSucc false 1 1 true 5 /\ allow_plain_stream p = false.
Proof. exact Proofs.strict_stream_policy_refuted. Qed.
Print Assumptions strict_stream_policy_refuted.

(* PARTIAL: alignment of both keystreams is proved for the enumerated matrix (pads in
   {0,1,255,511,512}^2, IA on/off, one segment per protocol flight), not yet for all pad lengths
   0..512 and all segmentations by induction. *)
Theorem keystream_aligned_partial :
  forall incoming p o pa pb ia,
    In p all_policies -> In o all_offers -> In pa [0; 1; 255; 511; 512] -> In pb [0; 1; 255; 511; 512] ->
    aligned_of (negotiate incoming p o pa pb ia 0) = true.
Proof. exact Proofs.keystream_aligned_partial. Qed.
Print Assumptions keystream_aligned_partial.
