(* C06 — property theorems (statements only; proofs in Proofs*.v) *)
From Coq Require Import NArith List Bool Arith.
Import ListNotations.
From LTV.C06 Require Import ParamsGen Model Proofs ProofsInv ProofsRun.

Theorem params_ok_now : params_ok = true.
Proof. exact Proofs.params_ok_now. Qed.
Print Assumptions params_ok_now.

(* For every policy (15), direction, remote offer {plain, MSE provide 1,2,3}, pad lengths in
   {0,512}^2 and IA on/off, the modelled handshake run against a protocol-following peer
   succeeds iff a connection type is allowed by both sides, with a mode both allow, the preferred
   one when both are possible, correctly aligned ciphers and at most 512 unread bytes; at most one
   retry. Reading: the stream policy constrains MSE-negotiated streams only (the code's reading;
   the strict reading is the known finding below). Excluded: the (prefer, require) dial to a
   plain-only remote, which since /repo 3196365 fails without a plaintext retry. *)
Theorem negotiation_table :
  forall incoming p o pa pb ia,
    In p all_policies -> In o all_offers -> In pa [0; 512] -> In pb [0; 512] ->
    noretry_cell incoming p o = false ->
    spec_ok false incoming p o (negotiate incoming p o pa pb ia 0) = true.
Proof. exact Proofs.negotiation_table. Qed.
Print Assumptions negotiation_table.

Theorem noretry_cell_fails_cleanly :
  forall pa pb, In pa [0; 512] -> In pb [0; 512] ->
    negotiate false (mkPolicy Prefer Require false Allow) OPlain pa pb false 0 = NFail 1.
Proof. exact Proofs.noretry_cell_fails_cleanly. Qed.
Print Assumptions noretry_cell_fails_cleanly.

(* known finding plain-handshake-despite-stream-require *)
Theorem strict_stream_policy_refuted :
  exists incoming p o, In p all_policies /\ In o all_offers /\
    spec_ok true incoming p o (negotiate incoming p o 0 0 false 0) = false /\
    negotiate incoming p o 0 0 false 0 = NSucc false 1 1 true 5 /\ allow_plain_stream p = false.
Proof. exact Proofs.strict_stream_policy_refuted. Qed.
Print Assumptions strict_stream_policy_refuted.

(* PARTIAL: alignment of both keystreams is proved for the enumerated matrix (pads in
   {0,1,255,511,512}^2, IA on/off, one segment per protocol flight), not yet for all pad lengths
   0..512 and all segmentations by induction. *)
Theorem keystream_aligned_partial :
  forall incoming p o pa pb ia,
    In p all_policies -> In o all_offers -> In pa [0; 1; 255; 511; 512] -> In pb [0; 1; 255; 511; 512] ->
    aligned_of (negotiate incoming p o pa pb ia 0) = true.
Proof. exact Proofs.keystream_aligned_partial. Qed.
Print Assumptions keystream_aligned_partial.

(* PARTIAL: index safety of ProtocolBuffer<1254> is proved for EVERY policy, direction, input cell
   sequence, segmentation and close timing (run = segments fed one after the other, each
   optionally followed by the peer closing): positions stay within the per-state bounds of InvB
   (pos + occupancy <= 1254 everywhere), fill_read_buffer never reaches its "Buffer overflow"
   internal_error, event_read is never entered in an invalid state, and the only Crash the model
   can still produce is receive_succeeded's "unread data won't fit" with more than 512 unread
   bytes. MISSING: the inductive bound unread <= 450 (it needs the per-state occupancy bounds and a
   data-dependent invariant of READ_ENC_KEY; shown here only on the enumerated matrix through
   negotiation_table / keystream_aligned_partial), and exclusion of the OutOfFuel constructor. *)
Theorem buffer_safe_partial : forall bfb incoming p segs,
  safe_out (run bfb (Cont (if (incoming : bool) then init_in p else init_out p) []) segs).
Proof. exact ProofsRun.buffer_safe_partial. Qed.
Print Assumptions buffer_safe_partial.

(* Whatever bytes arrive, a run ends in success, in receive_failed for this handshake (Failed), or
   is still waiting; the model's transition function has no access to anything but this
   handshake's own state. The residual Crash is the one of buffer_safe_partial. *)
Theorem bad_handshake_closes_one : forall bfb incoming p segs,
  match run bfb (Cont (if (incoming : bool) then init_in p else init_out p) []) segs with
  | Crash s => 512 < L s
  | _ => True
  end.
Proof. exact ProofsRun.bad_handshake_closes_one. Qed.
Print Assumptions bad_handshake_closes_one.

(* receive_failed: shape of every retry *)
Theorem retry_policy_spec : forall p p',
  retry_policy false p = RRetry p' ->
  retrying p' = true /\ retry_mode p' = Allow /\ st_mode p' = st_mode p /\
  ((retry_mode p = Deny /\ hs_mode p' = Deny) \/ (retry_mode p = Require /\ hs_mode p' = Require)).
Proof. exact Proofs.retry_policy_spec. Qed.
Print Assumptions retry_policy_spec.

(* PARTIAL: for the 15 policies and the two failure points (before / right after the peer's key or
   handshake part 1 was recognised) an outgoing failure is retried iff the retry flag was set and
   nothing had been recognised, with the flipped handshake type, the retry is never retried, and the
   retry policy constructor never throws. *)
Theorem retry_rule_partial : forall p fp, In p all_policies -> In fp [0; 1] -> retry_cell p fp = true.
Proof. exact Proofs.retry_rule_partial. Qed.
Print Assumptions retry_rule_partial.
