(* C06 — property theorems (statements only; proofs in Proofs*.v) *)
From Coq Require Import NArith List Bool Arith.
Import ListNotations.
From LTV.C06 Require Import ParamsProbe Model Proofs ProofsInv ProofsRun ProofsOcc ProofsFull ProofsRetry ProofsKs ProofsKs2 ProofsKs3 ModelSend ProofsSend ProofsDual ProofsRetry2 ProofsSync.

Theorem params_ok_now : params_ok = true.
Proof. exact Proofs.params_ok_now. Qed.
Print Assumptions params_ok_now.

(* For every policy (15), direction, remote offer {plain, MSE provide 1,2,3}, pad lengths in
   {0,1,255,511,512}^2 and IA on/off, the modelled handshake run against a protocol-following peer
   succeeds iff a connection type is allowed by both sides, with a mode both allow, the preferred
   one when both are possible, correctly aligned ciphers and at most 512 unread bytes; at most one
   retry. Reading: the stream policy constrains MSE-negotiated streams only (the code's reading;
   the strict reading is the known finding below). Excluded: the (prefer, require) dial to a
   plain-only remote, which since /repo 3196365 fails without a plaintext retry. *)
Theorem negotiation_table :
  forall incoming p o pa pb ia,
    In p all_policies -> In o all_offers -> In pa [0; 1; 255; 511; 512] -> In pb [0; 1; 255; 511; 512] ->
    noretry_cell incoming p o = false ->
    spec_ok false incoming p o (negotiate incoming p o pa pb ia 0) = true.
Proof. exact Proofs.negotiation_table. Qed.
Print Assumptions negotiation_table.

Theorem noretry_cell_fails_cleanly :
  forall pa pb, In pa [0; 1; 255; 511; 512] -> In pb [0; 1; 255; 511; 512] ->
    negotiate false (mkPolicy Prefer Require false Allow) OPlain pa pb false 0 = NFail 1.
Proof. exact Proofs.noretry_cell_fails_cleanly. Qed.
Print Assumptions noretry_cell_fails_cleanly.

(* known finding plain-handshake-despite-stream-require *)
Theorem strict_stream_policy_refuted :
  exists incoming p o, In p all_policies /\ In o all_offers /\
    spec_ok true incoming p o (negotiate incoming p o 0 0 false 0) = false /\
    negotiate incoming p o 0 0 false 0 = NSucc false 1 1 true 5 /\ allow_plain_stream p = false.
Proof. exact Proofs.strict_stream_policy_refuted. Qed.
Print Assumptions strict_stream_policy_refuted.

(* finite cross-check with a protocol-following sender (sender-side indices on the cells): alignment
   of the received stream, unread data and handed-over cipher for the enumerated matrix (pads in
   {0,1,255,511,512}^2, IA on/off, one segment per protocol flight), not yet for all pad lengths
   0..512 and all segmentations by induction. *)
Theorem keystream_aligned_matrix :
  forall incoming p o pa pb ia,
    In p all_policies -> In o all_offers -> In pa [0; 1; 255; 511; 512] -> In pb [0; 1; 255; 511; 512] ->
    aligned_of (negotiate incoming p o pa pb ia 0) = true.
Proof. exact Proofs.keystream_aligned_partial. Qed.
Print Assumptions keystream_aligned_matrix.

(* keystream_aligned, by induction.  Ghost stream offsets: nread s = bytes read from the socket so
   far, the byte at window index j has stream offset (nread s - occupancy) + j, dstart s = offset of
   the byte at which initialize_decrypt was called (the byte after the SKEY hash for incoming, the
   first byte of the sync match ENCRYPT(VC) for outgoing - wherever PadA/PadB of ANY length 0..512
   put it).  For EVERY policy, direction, input (bytes nobody has decrypted yet), segmentation and
   close timing, in every reachable state InvK holds: KC - the byte at stream offset q has been
   decrypted exactly once with keystream index q - dstart if dstart <= q < dstart + didx and never
   otherwise - plus, per state, that the cipher is only ever advanced at that frontier; bytes
   coalesced with the handshake and left unread at success are covered (KC of the final window),
   and when the cipher is handed to the connection still valid (RC4 stream) it stands exactly at
   the end of what has been read (keystream_handover): the first byte the connection reads gets the
   next index.  sender_cells_ok turns this into "decrypts to the plaintext" for any sender that
   encrypted byte q with index q - dstart.  NOT covered inductively: that in plaintext-stream mode
   the frontier stops exactly at the end of PadD / IA (matrix theorem + correspondence), and the
   sender-side start coinciding with dstart for a protocol-following peer (by inspection of
   read_encryption_sync / skey: the same byte). *)
Theorem keystream_aligned : forall bfb incoming p segs, fresh_segs segs ->
  postK bfb (run bfb (Cont (if (incoming : bool) then init_in p else init_out p) []) segs).
Proof. exact ProofsKs3.keystream_aligned. Qed.
Print Assumptions keystream_aligned.

Theorem keystream_exactly_once : forall bfb incoming p segs s k, fresh_segs segs ->
  (run bfb (Cont (if (incoming : bool) then init_in p else init_out p) []) segs = Cont s k \/
   run bfb (Cont (if (incoming : bool) then init_in p else init_out p) []) segs = Done s k) ->
  forall j, j < length (buf s) ->
    dec (nth j (buf s) dcell) = expd (dstart s) (didx s) (nread s - length (buf s) + j).
Proof. exact ProofsKs3.keystream_exactly_once. Qed.
Print Assumptions keystream_exactly_once.

Theorem keystream_handover : forall bfb incoming p segs s k, fresh_segs segs ->
  run bfb (Cont (if (incoming : bool) then init_in p else init_out p) []) segs = Done s k ->
  dvalid s = true -> dstart s + didx s = nread s.
Proof. exact ProofsKs3.keystream_handover. Qed.
Print Assumptions keystream_handover.

Theorem sender_cells_ok : forall s j, KC s -> j < L s ->
  let c := nth j (buf s) dcell in let q := o0 s + j in
  (forall v, dstart s <= q -> q < dstart s + didx s -> ck c = Enc (q - dstart s) v -> cell_ok c = true) /\
  (q < dstart s \/ dstart s + didx s <= q -> is_clr c = true -> cell_ok c = true).
Proof. exact ProofsKs3.sender_cells_ok. Qed.
Print Assumptions sender_cells_ok.

(* send_keystream_aligned (ModelSend.v: the write side of handshake.cc as the list of appends to
   m_writeBuffer and EncryptionInfo::encrypt calls, each with the two length expressions the code
   uses).  For every length of our own pad and extension-handshake message, stream mode, extension
   support of the peer and chunking of the bitfield body, the bytes the library has queued are:
   clear bytes (key, pad, req hashes), then bytes encrypted exactly once with keystream positions
   0,1,2,... in stream order (VC, crypto_select / crypto_provide + lengths, IA / BT handshake,
   extension handshake, bitfield header, bitfield body), then - only after set_obfuscated - clear
   bytes.  The generic form (send_generic) holds for any op list whose encrypt lengths equal the
   lengths written and that starts the cipher once; send_misaligned_detected (ProofsSend.v) shows
   a wrong length is visible.  The interleaving with the read machine is not modelled here (the
   write order is fixed by the read states); the real stream is checked by the peer's decryption in
   every correspondence case (w= / m= fields). *)
Theorem send_keystream_aligned : forall pad xl plain ext chunks,
  WInv (wrun (send_script_in pad xl plain ext chunks)) /\ WInv (wrun (send_script_out pad xl plain ext chunks)).
Proof. exact ProofsSend.send_keystream_aligned. Qed.
Print Assumptions send_keystream_aligned.

Theorem send_generic : forall A B,
  Forall op_ok A -> Forall is_put A -> Forall op_ok B -> Forall not_encon B ->
  WInv (wrun (A ++ WEncOn :: B)).
Proof. exact ProofsSend.send_generic. Qed.
Print Assumptions send_generic.

(* the two operation lemmas the induction rests on *)
Theorem keystream_fill_aligned : forall size s k eof s1 k1 b,
  KC s -> fresh k ->
  (dvalid s = true -> L s < size -> dstart s + didx s = nread s) ->
  fill size s k eof = FOk s1 k1 b ->
  KC s1 /\ fresh k1 /\ dvalid s1 = dvalid s /\ dstart s1 = dstart s /\ o0 s1 = o0 s /\
  (dvalid s = false -> didx s1 = didx s) /\
  (dvalid s = true -> dstart s + didx s = nread s -> dstart s1 + didx s1 = nread s1) /\
  (size <= L s -> s1 = s).
Proof. exact ProofsKs.fill_K. Qed.
Print Assumptions keystream_fill_aligned.

Theorem keystream_decrypt_aligned : forall s a n, KC s -> a + n <= L s -> dstart s + didx s = o0 s + a ->
  KC (dec_range s a n) /\ dstart (dec_range s a n) + didx (dec_range s a n) = o0 s + a + n /\
  o0 (dec_range s a n) = o0 s.
Proof. exact ProofsKs.KC_dec_range. Qed.
Print Assumptions keystream_decrypt_aligned.

(* buffer_safe, in full.  For EVERY policy, direction, input cell sequence, segmentation and close
   timing (run = segments fed one after the other, each optionally followed by the peer closing):
   the run never ends in Crash (fill_read_buffer never reaches its "Buffer overflow"
   internal_error, event_read is never entered in an invalid state, receive_succeeded never finds
   more than 512 unread bytes) and never runs out of fuel (event_read and the level-triggered
   pump terminate: measure 2*(occupancy + socket bytes) + rank(state) strictly decreases on every
   state transition); a still-running handshake satisfies the per-state index bounds InvB
   (pos + occupancy <= 1254) and occupancy bounds InvL; at success at most 450 bytes are unread.
   This settles DESIGN.md section 8 "C06/C03 to check by proof": the hand bound 450 is right. *)
Theorem buffer_safe : forall bfb incoming p segs,
  run_post (run bfb (Cont (if (incoming : bool) then init_in p else init_out p) []) segs).
Proof. exact ProofsFull.buffer_safe. Qed.
Print Assumptions buffer_safe.

Theorem buffer_safe_no_internal_error : forall bfb incoming p segs s,
  run bfb (Cont (if (incoming : bool) then init_in p else init_out p) []) segs <> Crash s /\
  run bfb (Cont (if (incoming : bool) then init_in p else init_out p) []) segs <> OutOfFuel.
Proof. exact ProofsFull.buffer_safe_no_internal_error. Qed.
Print Assumptions buffer_safe_no_internal_error.

Theorem unread_at_success : forall bfb incoming p segs s k,
  run bfb (Cont (if (incoming : bool) then init_in p else init_out p) []) segs = Done s k ->
  length (buf s) <= 450.
Proof. exact ProofsFull.unread_at_success. Qed.
Print Assumptions unread_at_success.

(* Whatever bytes arrive and however they are cut, a run ends in success, in receive_failed for
   this handshake (Failed: destroy_connection of this handshake only; the model's transition
   function has no access to anything but this handshake's own state), or is still waiting. *)
Theorem bad_handshake_closes_one : forall bfb incoming p segs,
  match run bfb (Cont (if (incoming : bool) then init_in p else init_out p) []) segs with
  | Cont _ _ | Done _ _ | Failed _ _ _ => True
  | Crash _ | OutOfFuel => False
  end.
Proof. exact ProofsFull.bad_handshake_closes_one. Qed.
Print Assumptions bad_handshake_closes_one.

(* receive_failed: shape of every retry *)
Theorem retry_policy_spec : forall p p',
  retry_policy false p = RRetry p' ->
  retrying p' = true /\ retry_mode p' = Allow /\ st_mode p' = st_mode p /\
  ((retry_mode p = Deny /\ hs_mode p' = Deny) \/ (retry_mode p = Require /\ hs_mode p' = Require)).
Proof. exact Proofs.retry_policy_spec. Qed.
Print Assumptions retry_policy_spec.

(* retry_rule, for all failure points.  For EVERY policy p without a retry mode set, input,
   segmentation and close timing: the failing handshake of an outgoing attempt is retried iff it
   was a first attempt (not retrying), the policy permits the other handshake type (and, for the
   plaintext retry, a plaintext stream: /repo 3196365) and the peer's key / handshake part 1 had not
   been recognised (ghost flag recog, set exactly where the code calls set_retry_disabled); the
   retry has the flipped handshake type, the same stream mode, is marked retrying; a retry is never
   retried; the retry policy constructor never throws. *)
Theorem retry_rule : forall bfb p segs s t e,
  retry_mode p = Allow ->
  run bfb (Cont (init_out p) []) segs = Failed s t e ->
  retry_policy false (pol s) =
    if recog s || retrying p then RNone
    else if prefer_enc_hs p
         then (if allow_plain_hs p && allow_plain_stream p then RRetry (mkPolicy Deny (st_mode p) true Allow) else RNone)
         else (if allow_enc_hs p then RRetry (mkPolicy Require (st_mode p) true Allow) else RNone).
Proof. exact ProofsRetry.retry_rule. Qed.
Print Assumptions retry_rule.

Theorem retry_once : forall bfb p segs s t e,
  retry_mode p = Allow -> retrying p = true ->
  run bfb (Cont (init_out p) []) segs = Failed s t e -> retry_policy false (pol s) = RNone.
Proof. exact ProofsRetry.retry_once. Qed.
Print Assumptions retry_once.

(* positive form of the former retry_internal_error_refuted (fixed by /repo 3196365) *)
Theorem retry_never_throws : forall bfb p segs s t e,
  retry_mode p = Allow ->
  run bfb (Cont (init_out p) []) segs = Failed s t e -> retry_policy false (pol s) <> RThrow.
Proof. exact ProofsRetry.retry_never_throws. Qed.
Print Assumptions retry_never_throws.

Theorem retry_policy_incoming : forall p, retry_policy true p = RNone.
Proof. exact Proofs.retry_policy_incoming. Qed.
Print Assumptions retry_policy_incoming.

(* retry_rule for every reachable STATE, not only the failure points of event_read: receive_failed is
   also called by receive_timeout and event_error on a handshake that is still waiting (Cont), and
   the decision it takes there is the same function of (policy, recognised?). *)
Theorem retry_rule_any_state : forall bfb p segs s,
  retry_mode p = Allow ->
  state_of (run bfb (Cont (init_out p) []) segs) = Some s ->
  retry_policy false (pol s) = retry_formula p (recog s).
Proof. exact ProofsRetry2.retry_rule_any_state. Qed.
Print Assumptions retry_rule_any_state.

(* a connect that fails or times out before event_write (CONNECTING) armed the flag is never retried *)
Theorem retry_connecting : forall p, retry_mode p = Allow -> retry_policy false p = RNone.
Proof. exact ProofsRetry2.retry_connecting. Qed.
Print Assumptions retry_connecting.

(* what the ghost flag means in terms of the handshake's own state: while the peer's key / handshake
   part 1 has not been recognised, an outgoing handshake (any policy, input, segmentation, close
   timing) is still in its first state, has consumed nothing (position 0, every byte read is still
   in the buffer), has written nothing beyond its first flight and runs no cipher. *)
Theorem unrecognised_means_untouched : forall bfb p segs s,
  state_of (run bfb (Cont (init_out p) []) segs) = Some s ->
  recog s = false ->
  st s = first_state p /\ pos s = 0 /\ nread s = length (buf s) /\ wlog s = first_flight p /\ dvalid s = false.
Proof. exact ProofsRetry2.unrecognised_means_untouched. Qed.
Print Assumptions unrecognised_means_untouched.

(* the whole two-attempt chain for ALL failure points / states of BOTH attempts (the full form of
   retry_rule_partial's retry_cell: retried only as a first attempt that consumed nothing of the peer;
   flipped handshake type, same stream mode, valid policy; the retry is never retried, wherever and
   however it ends). *)
Theorem retry_chain : forall bfb p segs s p2,
  retry_mode p = Allow ->
  state_of (run bfb (Cont (init_out p) []) segs) = Some s ->
  retry_policy false (pol s) = RRetry p2 ->
  retrying p = false /\ recog s = false /\
  st s = first_state p /\ pos s = 0 /\ nread s = length (buf s) /\ wlog s = first_flight p /\
  p2 = flipped p /\ policy_valid p2 = true /\ prefer_enc_hs p2 = negb (prefer_enc_hs p) /\
  first_flight p2 = (if prefer_enc_hs p then [WHs false] else [WKeyPad]) /\
  pol (init_out p2) = p2 /\
  (forall bfb' segs' s', state_of (run bfb' (Cont (init_out p2) []) segs') = Some s' ->
                         retry_policy false (pol s') = RNone).
Proof. exact ProofsRetry2.retry_chain. Qed.
Print Assumptions retry_chain.

(* finite cross-check of the same rule on the 15 policies x 2 failure points, including the second
   attempt, on concrete closing peers (kept: it also shows those concrete attempts do fail; the
   general statement is retry_rule + retry_rule_any_state + retry_chain above) *)
Theorem retry_rule_partial : forall p fp, In p all_policies -> In fp [0; 1] -> retry_cell p fp = true.
Proof. exact Proofs.retry_rule_partial. Qed.
Print Assumptions retry_rule_partial.

(* "nothing else affected": two handshakes alive at the same time, their segments (and closes)
   interleaved in ANY order, evolve exactly as the two independent runs - the handshake model shares
   nothing between handshakes. The correspondence (case type D: two concurrent incoming peers,
   interleaved flights and cuts) checks the implementation against this product, so shared mutable
   state between handshakes in the code (a cached DH object, a shared buffer) shows up as a
   disagreement and, for a protocol-following peer that is dropped, as a property failure. Together
   with buffer_safe / keystream_aligned / retry_rule, which hold for every single run, every
   per-handshake theorem transfers to concurrent handshakes. *)
Theorem handshakes_independent : forall bfb l oa ob,
  run2 bfb oa ob l = (run bfb oa (proj true l), run bfb ob (proj false l)).
Proof. exact ProofsDual.handshakes_independent. Qed.
Print Assumptions handshakes_independent.

(* PadA / PadB scan of read_encryption_sync for EVERY pad length (not only {0,1,255,511,512}).
   sound: when the scan moves on, the sync pattern stands right behind the skipped pad in the bytes
   received so far and nowhere earlier, position/state/window are as stated, and the pad is at most
   512 bytes - except an outgoing PadB that arrived in the same read as the key, where the code's
   bound is 524 (pad_bound).  complete: an opaque pad of any length n the window can hold followed
   by the pattern is found at n.  reject: a full window (512 + pattern length) without the pattern
   fails with sync-failed. *)
Theorem sync_scan_sound : forall s k eof s' k',
  InvB s -> st s = SYNC -> act_sync s k eof = ANext s' k' ->
  exists o c, o <= pad_bound (inc s) /\ (find_sync (inc s) (buf s) 0 = None -> o <= PADMAX) /\
    o + patlen (inc s) <= length (buf s ++ c) /\
    sync_at (inc s) (skipn o (buf s ++ c)) = true /\
    (forall j, j < o -> sync_at (inc s) (skipn j (buf s ++ c)) = false) /\
    st s' = sync_target (inc s) /\ pos s' = 96 + o + sync_skip (inc s) /\
    buf s' = skipn (o + sync_skip (inc s)) (buf s ++ c) /\ k' = skipn (length c) k.
Proof. exact ProofsSync.sync_scan_sound. Qed.
Print Assumptions sync_scan_sound.

Theorem sync_scan_complete : forall s k eof n rest,
  st s = SYNC -> buf s = opq n ++ sync_pattern (inc s) ++ rest ->
  act_sync s k eof = sync_found s k n.
Proof. exact ProofsSync.sync_scan_complete. Qed.
Print Assumptions sync_scan_complete.

Theorem sync_scan_complete_bound : forall s n rest,
  InvB s -> st s = SYNC -> buf s = opq n ++ sync_pattern (inc s) ++ rest -> n <= pad_bound (inc s).
Proof. exact ProofsSync.sync_scan_complete_bound. Qed.
Print Assumptions sync_scan_complete_bound.

Theorem sync_scan_reject : forall s k eof,
  st s = SYNC -> find_sync (inc s) (buf s) 0 = None -> PADMAX + patlen (inc s) <= length (buf s) ->
  act_sync s k eof = AThr s 7 9.
Proof. exact ProofsSync.sync_scan_reject. Qed.
Print Assumptions sync_scan_reject.

(* "PadB is at most 512 bytes" is false of the faithful model (and of the code: witness replayed,
   corpus/C06/padb_over_512.case): an outgoing handshake accepts PadB = 513..524 when pad and
   ENCRYPT(VC) are coalesced with the peer's key, and rejects the same bytes cut after the pad. *)
Theorem padb_bound_512_refuted :
  (exists s k, run bfb0 (Cont (init_out padb_policy) []) [(padb_stream 524, false)] = Done s k /\ aligned_final s k = true) /\
  (exists s, run bfb0 (Cont (init_out padb_policy) [])
               [(firstn 620 (padb_stream 524), false); (skipn 620 (padb_stream 524), false)] = Failed s 7 9) /\
  (exists s, run bfb0 (Cont (init_out padb_policy) []) [(padb_stream 525, false)] = Failed s 7 9).
Proof. exact ProofsSync.padb_over_512_accepted_when_coalesced. Qed.
Print Assumptions padb_bound_512_refuted.
