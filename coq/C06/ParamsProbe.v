(* WRITTEN by props/c06.py from `harness/c06.cc --params` (compiled code) on every run. Do not edit. *)
From Coq Require Import NArith ZArith List.
Import ListNotations.
Module Params.

Definition c06_part1_size : nat := 48%nat.
Definition c06_part2_size : nat := 20%nat.
Definition c06_handshake_size : nat := 68%nat.
Definition c06_read_message_size : nat := 10%nat.
Definition c06_enc_negotiation_size : nat := 14%nat.
Definition c06_enc_pad_size : nat := 512%nat.
Definition c06_enc_pad_read_size : nat := 628%nat.
Definition c06_buffer_size : nat := 1254%nat.
Definition c06_vc_length : nat := 8%nat.
Definition c06_dh_key_length : nat := 96%nat.
Definition c06_pcb_read_buffer : nat := 512%nat.
Definition c06_ext_first_invalid : N := 3%N.
Definition c06_ext_max_len : N := 32768%N.
Definition c06_dh_prime : list N := [255%N;255%N;255%N;255%N;255%N;255%N;255%N;255%N;201%N;15%N;218%N;162%N;33%N;104%N;194%N;52%N;196%N;198%N;98%N;139%N;128%N;220%N;28%N;209%N;41%N;2%N;78%N;8%N;138%N;103%N;204%N;116%N;2%N;11%N;190%N;166%N;59%N;19%N;155%N;34%N;81%N;74%N;8%N;121%N;142%N;52%N;4%N;221%N;239%N;149%N;25%N;179%N;205%N;58%N;67%N;27%N;48%N;43%N;10%N;109%N;242%N;95%N;20%N;55%N;79%N;225%N;53%N;109%N;109%N;81%N;194%N;69%N;228%N;133%N;181%N;118%N;98%N;94%N;126%N;198%N;244%N;76%N;66%N;233%N;166%N;58%N;54%N;33%N;0%N;0%N;0%N;0%N;0%N;9%N;5%N;99%N].

End Params.
