(* C06 — retry rule, generalised from failure points to every reachable handshake state, plus the
   observable meaning of "before the peer was recognised" and the whole two-attempt chain. *)
From Coq Require Import NArith List Bool Arith Lia.
Import ListNotations.
From LTV.C06 Require Import ParamsProbe Model ProofsInv ProofsRun ProofsRetry.

(* ---------------------------------------------------------------- any reachable state *)
(* the state carried by a run result: receive_failed can be called on it by event_read/event_write
   (Failed), or later by receive_timeout / event_error on a handshake that is still waiting (Cont) *)
Definition state_of (o : out) : option hst :=
  match o with Cont s _ | Done s _ | Failed s _ _ | Crash s => Some s | OutOfFuel => None end.

Definition retry_formula (p : policy) (rec : bool) : rres :=
  if rec || retrying p then RNone
  else if prefer_enc_hs p
       then (if allow_plain_hs p && allow_plain_stream p then RRetry (mkPolicy Deny (st_mode p) true Allow) else RNone)
       else (if allow_enc_hs p then RRetry (mkPolicy Require (st_mode p) true Allow) else RNone).

Lemma RInv_formula : forall p s, retry_mode p = Allow -> RInv (set_retry p (armed p)) s ->
  retry_policy false (pol s) = retry_formula p (recog s).
Proof.
  intros p s RM (A & B & C & D). cbn in A, B, C, D.
  unfold retry_policy, retry_formula. rewrite D, B.
  destruct (recog s); cbn [orb]; [reflexivity|].
  unfold armed. rewrite RM.
  destruct (retrying p); cbn [orb]; [reflexivity|].
  destruct (prefer_enc_hs p).
  - destruct (allow_plain_hs p) eqn:AH; cbn [andb]; [|reflexivity].
    unfold allow_plain_stream. destruct (mode_eqb (st_mode p) Require); cbn; reflexivity.
  - destruct (allow_enc_hs p); reflexivity.
Qed.

Theorem retry_rule_any_state : forall bfb p segs s,
  retry_mode p = Allow ->
  state_of (run bfb (Cont (init_out p) []) segs) = Some s ->
  retry_policy false (pol s) = retry_formula p (recog s).
Proof.
  intros bfb p segs s RM H.
  pose proof (run_pol bfb (set_retry p (armed p)) segs (Cont (init_out p) []) (init_out_RInv p)) as R.
  destruct (run bfb (Cont (init_out p) []) segs); cbn [state_of] in H; try discriminate;
    injection H as <-; cbn [out_inv] in R; apply RInv_formula; assumption.
Qed.

(* a connect that fails or times out in CONNECTING (before event_write armed anything) is not retried *)
Lemma retry_connecting : forall p, retry_mode p = Allow -> retry_policy false p = RNone.
Proof. intros p H. unfold retry_policy. rewrite H. reflexivity. Qed.

(* ---------------------------------------------------------------- "not yet recognised" is observable *)
(* As long as the ghost flag is clear, an outgoing handshake has consumed nothing (position 0, every
   byte read is still in the buffer), made no state transition, written nothing beyond its first
   flight and has no cipher running. *)
Definition UInv (s0 s : hst) : Prop :=
  recog s = false ->
  inc s = false /\ dvalid s = false /\ st s = st s0 /\ pos s = 0 /\ wlog s = wlog s0 /\ nread s = length (buf s).

Definition ustep (s : hst) (a : aout) : Prop :=
  match a with
  | ANext s' _ | ABrk s' _ | ASuc s' _ | AThr s' _ _ | AInt s' =>
    recog s' = false ->
    inc s' = false /\ dvalid s' = false /\ st s' = st s /\ pos s' = pos s /\ wlog s' = wlog s /\
    nread s' + length (buf s) = nread s + length (buf s')
  end.

Lemma fill_U : forall size s k eof, dvalid s = false ->
  match fill size s k eof with
  | FOk s1 _ _ | FNet s1 | FOver s1 =>
    inc s1 = inc s /\ dvalid s1 = false /\ st s1 = st s /\ pos s1 = pos s /\ wlog s1 = wlog s /\ recog s1 = recog s /\
    pol s1 = pol s /\ dl s1 = dl s /\
    nread s1 + length (buf s) = nread s + length (buf s1)
  end.
Proof.
  intros size s k eof DV. unfold fill. rewrite DV.
  destruct (remaining s <? size); [|repeat split; auto].
  destruct (BUF - endp s <? size - remaining s); [repeat split; auto|].
  destruct (rd (size - remaining s) k eof) as [[c k']|]; [|repeat split; auto].
  cbn. rewrite app_length. repeat split; auto. lia.
Qed.

Ltac ucbn := cbn [inc dvalid st pos wlog recog nread buf pol dl consume move_unused set_obf add_cells set_st set_win set_rpos set_crypto
       set_lenia set_dec set_dl set_extp set_exti set_bfe set_aok add_w mark_recog set_w set_ghost start_dec] in *.

Lemma act_key_U : forall s k eof, inc s = false -> dvalid s = false -> ustep s (act_key s k eof).
Proof.
  intros s k eof I DV. unfold act_key. rewrite I. cbn [andb].
  repeat dm; unfold ustep; ucbn; intro R; try discriminate;
    rewrite ?app_length; cbn [length]; repeat split; auto; lia.
Qed.

Lemma act_info_U : forall s k eof, inc s = false -> dvalid s = false -> ustep s (act_info s k eof).
Proof.
  intros s k eof I DV. unfold act_info.
  pose proof (fill_U HSIZE s k eof DV) as F.
  destruct (fill HSIZE s k eof) as [s1 k1 b | s1 | s1];
    destruct F as (F1 & F2 & F3 & F4 & F5 & F6 & F7 & F8 & F9).
  - rewrite I.
    repeat dm; unfold ustep; ucbn; intro R; try discriminate; repeat split; auto; congruence.
  - unfold ustep. intro R. repeat split; auto; congruence.
  - unfold ustep. intro R. repeat split; auto; congruence.
Qed.

Lemma act_U : forall bfb s k eof, inc s = false -> dvalid s = false -> (st s = KEY \/ st s = INFO) ->
  ustep s (act bfb s k eof).
Proof.
  intros bfb s k eof I DV [E|E]; unfold act; rewrite E; destruct (rdone s);
    try (unfold ustep; intro; repeat split; auto; fail).
  - apply act_key_U; auto.
  - apply act_info_U; auto.
Qed.

Definition started (s0 : hst) : Prop := st s0 = KEY \/ st s0 = INFO.

Lemma UInv_act : forall bfb s0 s k eof, started s0 -> UInv s0 s ->
  match act bfb s k eof with
  | ANext s' _ | ABrk s' _ | ASuc s' _ | AThr s' _ _ | AInt s' => UInv s0 s'
  end.
Proof.
  intros bfb s0 s k eof S0 U.
  pose proof (act_pol bfb s k eof) as P.
  destruct (recog s) eqn:RS.
  - (* already recognised: stays recognised *)
    destruct (act bfb s k eof); cbn [polstep] in P; unfold UInv; intro R;
      destruct P as [[_ P]|[_ P]]; congruence.
  - destruct (U RS) as (I & DV & E & PZ & W & NR).
    assert (SS : st s = KEY \/ st s = INFO) by (rewrite E; exact S0).
    pose proof (act_U bfb s k eof I DV SS) as A.
    destruct (act bfb s k eof); cbn [ustep] in A; unfold UInv; intro R;
      destruct (A R) as (A1 & A2 & A3 & A4 & A5 & A6); repeat split; auto; try congruence; lia.
Qed.

Lemma UInv_ewrite : forall s0 s, started s0 -> UInv s0 s -> UInv s0 (ewrite s).
Proof.
  intros s0 s S0 U. unfold ewrite. destruct (wint s); auto.
  destruct (st s); exact U.
Qed.

Definition out_U (s0 : hst) (o : out) : Prop :=
  match o with
  | Cont s _ | Done s _ | Failed s _ _ | Crash s => UInv s0 s
  | OutOfFuel => True
  end.

Lemma event_read_U : forall fuel bfb s0 s k eof, started s0 -> UInv s0 s -> out_U s0 (event_read fuel bfb s k eof).
Proof.
  induction fuel; intros bfb s0 s k eof S0 U; cbn [event_read]; [exact Logic.I|].
  pose proof (UInv_act bfb s0 s k eof S0 U) as A.
  destruct (act bfb s k eof) as [s' k' | s' k' | s' t e | s' | s' k'].
  - apply IHfuel; assumption.
  - cbn [out_U]. apply UInv_ewrite; assumption.
  - exact A.
  - exact A.
  - destruct (wbf s' || wint s'); [destruct (PCBBUF <? remaining s')|]; cbn [out_U]; exact A.
Qed.

Lemma pump_U : forall n bfb s0 s k, started s0 -> UInv s0 s -> out_U s0 (pump n bfb s k).
Proof.
  induction n; intros bfb s0 s k S0 U; cbn [pump]; [exact Logic.I|].
  pose proof (event_read_U (fuel_of s k) bfb s0 s k false S0 U) as R.
  destruct (event_read (fuel_of s k) bfb s k false); auto.
  cbn [out_U] in R. match goal with |- context [if ?c then _ else _] => destruct c end; auto.
Qed.

Lemma run_U : forall bfb s0 segs o, started s0 -> out_U s0 o -> out_U s0 (run bfb o segs).
Proof.
  induction segs as [|[g cl] r IH]; intros o S0 S; cbn [run]; auto.
  destruct o; auto. apply IH; auto. cbn [out_U] in S. destruct cl.
  - unfold feed_close. apply event_read_U; assumption.
  - unfold feed. destruct (k ++ g); [exact S|]. apply pump_U; assumption.
Qed.

Lemma init_out_started : forall p, started (init_out p).
Proof. intro p. unfold started, init_out. destruct (prefer_enc_hs p); cbn; auto. Qed.

Lemma init_out_U : forall p, UInv (init_out p) (init_out p).
Proof. intro p. unfold UInv, init_out. destruct (prefer_enc_hs p); cbn; auto 10. Qed.

(* first flight of an outgoing attempt *)
Definition first_state (p : policy) : hstate := if prefer_enc_hs p then KEY else INFO.
Definition first_flight (p : policy) : list wev := if prefer_enc_hs p then [WKeyPad] else [WHs false].

Lemma init_out_first : forall p, st (init_out p) = first_state p /\ wlog (init_out p) = first_flight p.
Proof. intro p. unfold init_out, first_state, first_flight. destruct (prefer_enc_hs p); cbn; auto. Qed.

Theorem unrecognised_means_untouched : forall bfb p segs s,
  state_of (run bfb (Cont (init_out p) []) segs) = Some s ->
  recog s = false ->
  st s = first_state p /\ pos s = 0 /\ nread s = length (buf s) /\ wlog s = first_flight p /\ dvalid s = false.
Proof.
  intros bfb p segs s H R.
  pose proof (run_U bfb (init_out p) segs (Cont (init_out p) []) (init_out_started p) (init_out_U p)) as U.
  destruct (init_out_first p) as [F1 F2].
  destruct (run bfb (Cont (init_out p) []) segs); cbn [state_of] in H; try discriminate;
    injection H as <-; cbn [out_U] in U; destruct (U R) as (A1 & A2 & A3 & A4 & A5 & A6);
    repeat split; auto; congruence.
Qed.

(* ---------------------------------------------------------------- the whole chain *)
Definition flipped (p : policy) : policy := mkPolicy (if prefer_enc_hs p then Deny else Require) (st_mode p) true Allow.

Theorem retry_chain : forall bfb p segs s p2,
  retry_mode p = Allow ->
  state_of (run bfb (Cont (init_out p) []) segs) = Some s ->
  retry_policy false (pol s) = RRetry p2 ->
  (* only a first attempt, only before anything of the peer was consumed *)
  retrying p = false /\ recog s = false /\
  st s = first_state p /\ pos s = 0 /\ nread s = length (buf s) /\ wlog s = first_flight p /\
  (* the retry: flipped handshake type, same stream mode, a valid policy, marked retrying, arms nothing *)
  p2 = flipped p /\ policy_valid p2 = true /\ prefer_enc_hs p2 = negb (prefer_enc_hs p) /\
  first_flight p2 = (if prefer_enc_hs p then [WHs false] else [WKeyPad]) /\
  pol (init_out p2) = p2 /\
  (* and whatever happens to the retry, in whatever state, it is not retried again *)
  (forall bfb' segs' s', state_of (run bfb' (Cont (init_out p2) []) segs') = Some s' ->
                         retry_policy false (pol s') = RNone).
Proof.
  intros bfb p segs s p2 RM H RP.
  pose proof (retry_rule_any_state bfb p segs s RM H) as F. rewrite RP in F.
  unfold retry_formula in F.
  destruct (recog s) eqn:RS; cbn [orb] in F; [discriminate|].
  destruct (retrying p) eqn:RT; cbn [orb] in F; [discriminate|].
  destruct (unrecognised_means_untouched bfb p segs s H RS) as (U1 & U2 & U3 & U4 & U5).
  assert (P2 : p2 = flipped p /\ policy_valid p2 = true /\ prefer_enc_hs p2 = negb (prefer_enc_hs p)).
  { unfold flipped. destruct (prefer_enc_hs p) eqn:PE.
    - destruct (allow_plain_hs p && allow_plain_stream p) eqn:AP; [|discriminate].
      injection F as ->. apply andb_prop in AP. destruct AP as [_ AS].
      unfold allow_plain_stream in AS. unfold policy_valid. cbn.
      destruct (mode_eqb (st_mode p) Require); [discriminate|]. cbn. auto.
    - destruct (allow_enc_hs p); [|discriminate]. injection F as ->. cbn. auto. }
  destruct P2 as (P2a & P2b & P2c).
  repeat split; auto.
  - unfold first_flight. rewrite P2c. destruct (prefer_enc_hs p); reflexivity.
  - subst p2. unfold flipped, init_out. destruct (prefer_enc_hs p); cbn; reflexivity.
  - intros bfb' segs' s' H'.
    assert (RM2 : retry_mode p2 = Allow) by (subst p2; reflexivity).
    rewrite (retry_rule_any_state bfb' p2 segs' s' RM2 H').
    unfold retry_formula. subst p2. cbn [retrying flipped]. rewrite orb_true_r. reflexivity.
Qed.

Example retry_chain_nonvacuous :
  exists s p2,
    state_of (run bfb0 (Cont (init_out (mkPolicy Prefer Allow false Allow)) []) [(firstn 50 keyc, false); ([], true)]) = Some s /\
    retry_policy false (pol s) = RRetry p2 /\ p2 = mkPolicy Deny Allow true Allow /\ nread s = 50.
Proof. vm_compute. eexists. eexists. repeat split. Qed.

(* a handshake still waiting (Cont: timeout / socket error may come) with 95 key bytes buffered *)
Example retry_any_state_nonvacuous :
  match run bfb0 (Cont (init_out (mkPolicy Prefer Allow false Allow)) []) [(firstn 95 keyc, false)] with
  | Cont s _ => recog s = false /\ retry_policy false (pol s) = RRetry (mkPolicy Deny Allow true Allow) /\ nread s = 95
  | _ => False
  end.
Proof. vm_compute. repeat split. Qed.

(* ... and with the 96th byte the peer's key is recognised: no retry any more *)
Example recognised_nonvacuous :
  match run bfb0 (Cont (init_out (mkPolicy Prefer Allow false Allow)) []) [(firstn 96 keyc, false)] with
  | Cont s _ => recog s = true /\ retry_policy false (pol s) = RNone /\ st s = SYNC
  | _ => False
  end.
Proof. vm_compute. repeat split. Qed.
