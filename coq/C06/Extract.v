From Coq Require Import Extraction ExtrOcamlBasic ZArith.
From LTV.C06 Require Import Model.
Set Extraction Optimize.
Extraction Language OCaml.
(* ocaml/conv.ml mentions the extracted type z; this model has no Z of its own *)
Definition z_unused : Z := Z0.
Extraction "extracted/c06_model.ml" feed feed_close init_in init_out retry_policy aligned_final remaining st_num
  hash_of own_id other_id bt_prefix find_sel find_prov choose negotiate spec_ok params_ok z_unused.
