(* C06 — keystream alignment for every input, segmentation and close timing.
   Ghost: nread s = bytes read from the socket so far, so the byte at buffer index j has stream
   offset (nread s - occupancy) + j; dstart s = stream offset of the byte at which
   initialize_decrypt was called.  Invariant: a byte at stream offset q has been decrypted exactly
   once with keystream index q - dstart if dstart <= q < dstart + didx, and never otherwise. *)
From Coq Require Import NArith List Bool Arith Lia.
Import ListNotations.
From LTV.C06 Require Import ParamsProbe Model ProofsInv.

Definition dcell : cell := mkCell Opq [].
Definition o0 (s : hst) := nread s - L s.
Definition expd (ds di q : nat) : list nat := if (ds <=? q) && (q <? ds + di) then [q - ds] else [].
Definition K1 (s : hst) : Prop :=
  forall j, j < L s -> dec (nth j (buf s) dcell) = expd (dstart s) (didx s) (o0 s + j).
Definition fresh (k : list cell) : Prop := Forall (fun c => dec c = []) k.

Lemma fresh_nth : forall k j, fresh k -> dec (nth j k dcell) = [].
Proof.
  intros k j F. revert j. induction F; intros [|j]; simpl; auto.
Qed.
Lemma fresh_firstn : forall n k, fresh k -> fresh (firstn n k).
Proof. intros n k F. revert n. induction F; intros [|n]; simpl; try constructor; auto. apply IHF. Qed.
Lemma fresh_skipn : forall n k, fresh k -> fresh (skipn n k).
Proof. intros n k F. revert n. induction F; intros [|n]; simpl; auto; constructor; auto. Qed.
Lemma fresh_app : forall a b, fresh a -> fresh b -> fresh (a ++ b).
Proof. intros. apply Forall_app. auto. Qed.

Lemma expd_out : forall ds di q, ds + di <= q -> expd ds di q = [].
Proof. intros. unfold expd. destruct (ds <=? q) eqn:A; auto. destruct (q <? ds + di) eqn:B; auto. apply Nat.ltb_lt in B. lia. Qed.
Lemma expd_in : forall ds di q, ds <= q -> q < ds + di -> expd ds di q = [q - ds].
Proof. intros. unfold expd. apply Nat.leb_le in H. apply Nat.ltb_lt in H0. rewrite H, H0. reflexivity. Qed.
Lemma expd_mono : forall ds di n q, q < ds + di -> expd ds (di + n) q = expd ds di q.
Proof.
  intros. unfold expd. destruct (ds <=? q); auto. cbn [andb].
  assert (A : (q <? ds + di) = true) by (apply Nat.ltb_lt; lia).
  assert (B : (q <? ds + (di + n)) = true) by (apply Nat.ltb_lt; lia). rewrite A, B. reflexivity.
Qed.
Lemma expd_zero : forall ds q, expd ds 0 q = [].
Proof.
  intros. unfold expd. destruct (ds <=? q) eqn:A; auto. destruct (q <? ds + 0) eqn:B; auto.
  apply Nat.leb_le in A. apply Nat.ltb_lt in B. lia.
Qed.

Lemma nth_firstn_lt : forall (A : Type) (l : list A) n i d, i < n -> nth i (firstn n l) d = nth i l d.
Proof. induction l; intros [|n] [|i] d H; simpl; auto; try lia. apply IHl. lia. Qed.
Lemma nth_skipn_add : forall (A : Type) (l : list A) n i d, nth i (skipn n l) d = nth (n + i) l d.
Proof. induction l; intros [|n] i d; simpl; auto. destruct i; auto. Qed.

Lemma nth_dec_from : forall l d i, i < length l -> nth i (dec_from d l) dcell = mkCell (ck (nth i l dcell)) ((d + i) :: dec (nth i l dcell)).
Proof.
  induction l; intros d i H; simpl in *; [lia|].
  destruct i; [rewrite Nat.add_0_r; reflexivity|].
  rewrite IHl by lia. replace (S d + i) with (d + S i) by lia. reflexivity.
Qed.

(* cells of a window after EncryptionInfo::decrypt(position + a, n) *)
Lemma nth_dec_range : forall b d a n j, a + n <= length b ->
  nth j (firstn a b ++ dec_from d (firstn n (skipn a b)) ++ skipn (a + n) b) dcell =
  if (a <=? j) && (j <? a + n)
  then mkCell (ck (nth j b dcell)) ((d + (j - a)) :: dec (nth j b dcell))
  else nth j b dcell.
Proof.
  intros b d a n j H.
  assert (La : length (firstn a b) = a) by (rewrite firstn_length; lia).
  assert (Lm : length (dec_from d (firstn n (skipn a b))) = n) by (rewrite dec_from_len, firstn_length, skipn_length; lia).
  destruct (a <=? j) eqn:A.
  - apply Nat.leb_le in A. rewrite app_nth2 by lia. rewrite La.
    destruct (j <? a + n) eqn:B; cbn [andb].
    + apply Nat.ltb_lt in B. rewrite app_nth1 by lia.
      rewrite nth_dec_from by (rewrite firstn_length, skipn_length; lia).
      rewrite nth_firstn_lt by lia.
      rewrite nth_skipn_add. replace (a + (j - a)) with j by lia. reflexivity.
    + apply Nat.ltb_ge in B. rewrite app_nth2 by lia. rewrite Lm. rewrite nth_skipn_add.
      replace (a + n + (j - a - n)) with j by lia. reflexivity.
  - apply Nat.leb_gt in A. cbn [andb]. rewrite app_nth1 by lia.
    rewrite nth_firstn_lt by lia. reflexivity.
Qed.

Definition KC (s : hst) : Prop := L s <= nread s /\ dstart s + didx s <= nread s /\ K1 s.

Lemma KC_add : forall s c, KC s -> fresh c -> KC (add_cells s c).
Proof.
  intros s c (A & B & C) F. unfold KC, K1, o0, L in *. cbn [buf nread dstart didx add_cells].
  rewrite app_length. repeat split; try lia.
  intros j Hj. replace (nread s + length c - (length (buf s) + length c)) with (nread s - length (buf s)) by lia.
  destruct (j <? length (buf s)) eqn:J.
  - apply Nat.ltb_lt in J. rewrite app_nth1 by lia. apply C. exact J.
  - apply Nat.ltb_ge in J. rewrite app_nth2 by lia. rewrite fresh_nth by exact F.
    symmetry. apply expd_out. lia.
Qed.

Lemma KC_consume : forall s n, KC s -> KC (consume n s).
Proof.
  intros s n (A & B & C). unfold KC, K1, o0, L in *. cbn [buf nread dstart didx consume set_aok set_win].
  rewrite skipn_length. repeat split; try lia.
  intros j Hj. rewrite nth_skipn_add. rewrite C by lia. f_equal. lia.
Qed.

Lemma KC_dec_range : forall s a n, KC s -> a + n <= L s -> dstart s + didx s = o0 s + a ->
  KC (dec_range s a n) /\ dstart (dec_range s a n) + didx (dec_range s a n) = o0 s + a + n /\
  o0 (dec_range s a n) = o0 s.
Proof.
  intros s a n (A & B & C) H Fr. unfold KC, K1, o0, L in *.
  assert (Lm : length (firstn n (skipn a (buf s))) = n) by (rewrite firstn_length, skipn_length; lia).
  unfold dec_range. cbn [buf nread dstart didx set_dec set_win]. rewrite Lm.
  rewrite !app_length, dec_from_len, Lm, firstn_length, skipn_length.
  replace (Nat.min a (length (buf s)) + (n + (length (buf s) - (a + n)))) with (length (buf s)) by lia.
  repeat split; try lia.
  intros j Hj. rewrite nth_dec_range by lia.
  destruct ((a <=? j) && (j <? a + n)) eqn:R.
  - apply andb_true_iff in R. destruct R as [R1 R2]. apply Nat.leb_le in R1. apply Nat.ltb_lt in R2.
    cbn [dec]. rewrite C by lia. rewrite expd_out by lia. rewrite expd_in by lia. f_equal. lia.
  - rewrite C by lia.
    destruct (a <=? j) eqn:R1.
    + cbn [andb] in R. apply Nat.leb_le in R1. apply Nat.ltb_ge in R. rewrite !expd_out by lia. reflexivity.
    + apply Nat.leb_gt in R1. symmetry. apply expd_mono. lia.
Qed.

Lemma KC_start : forall s e, KC s -> didx s = 0 -> KC (start_dec s e) /\ dstart (start_dec s e) = o0 s /\ didx (start_dec s e) = 0.
Proof.
  intros s e (A & B & C) Z. unfold KC, K1, o0, L in *. cbn [buf nread dstart didx start_dec].
  repeat split; try lia.
  intros j Hj. rewrite C by lia. rewrite Z. rewrite !expd_zero. reflexivity.
Qed.

(* fill_read_buffer keeps the invariant provided a decrypting read happens at the frontier *)
Lemma fill_K : forall size s k eof s1 k1 b,
  KC s -> fresh k ->
  (dvalid s = true -> L s < size -> dstart s + didx s = nread s) ->
  fill size s k eof = FOk s1 k1 b ->
  KC s1 /\ fresh k1 /\ dvalid s1 = dvalid s /\ dstart s1 = dstart s /\ o0 s1 = o0 s /\
  (dvalid s = false -> didx s1 = didx s) /\
  (dvalid s = true -> dstart s + didx s = nread s -> dstart s1 + didx s1 = nread s1) /\
  (size <= L s -> s1 = s).
Proof.
  intros size s k eof s1 k1 b K F D H. unfold fill in H.
  destruct (remaining s <? size) eqn:R.
  - apply Nat.ltb_lt in R. unfold remaining in R.
    destruct (BUF - endp s <? size - remaining s); [discriminate|].
    destruct (rd (size - remaining s) k eof) as [[c k']|] eqn:RD; [|discriminate].
    assert (FC : fresh c /\ fresh k').
    { unfold rd in RD. destruct k; [destruct eof; inversion RD; subst; split; constructor|].
      inversion RD; subst. split; [apply fresh_firstn | apply fresh_skipn]; auto. }
    destruct FC as [FC FK].
    pose proof (KC_add s c K FC) as KA.
    assert (OA : o0 (add_cells s c) = o0 s).
    { destruct K as (A & _). unfold o0, L in *. cbn [buf nread add_cells]. rewrite app_length. lia. }
    destruct (dvalid s) eqn:DV.
    + inversion H; subst; clear H.
      assert (Fr : dstart (add_cells s c) + didx (add_cells s c) = o0 (add_cells s c) + remaining s).
      { rewrite OA. cbn [dstart didx add_cells]. rewrite (D eq_refl ltac:(unfold L; lia)).
        destruct K as (A & _). unfold o0, L, remaining in *. lia. }
      assert (Hl : remaining s + length c <= L (add_cells s c)).
      { unfold L, remaining. cbn [buf add_cells]. rewrite app_length. lia. }
      destruct (KC_dec_range (add_cells s c) (remaining s) (length c) KA Hl Fr) as (K2 & F2 & O2).
      destruct K2 as (K2a & K2b & K2c).
      repeat split; auto; try (intro; discriminate).
      all: try (rewrite O2; exact OA).
      all: try (intros _ _; rewrite F2, OA; unfold dec_range; cbn [nread set_dec set_win add_cells];
                destruct K as (A & _); unfold o0, L, remaining in *; lia).
      all: intro; unfold L in *; lia.
    + inversion H; subst; clear H. destruct KA as (KAa & KAb & KAc). repeat split; auto; try (intro; discriminate).
      intro. unfold L in *. lia.
  - inversion H; subst. destruct K as (Ka & Kb & Kc). repeat split; auto.
Qed.

(* What remains for the full keystream_aligned theorem: the per-state argument that every
   decrypt call of the read state machine satisfies the frontier side conditions of
   KC_dec_range / fill_K (READ_ENC_SKEY and outgoing READ_ENC_NEGOT start the cipher at
   position(); outgoing plaintext READ_ENC_PAD never reads while undecrypted bytes are buffered),
   and lifting it to runs as in ProofsFull. *)
