(* C06 — retry rule for every failure point: the policy carried by a failing outgoing handshake,
   for every input, segmentation and close timing. *)
From Coq Require Import NArith List Bool Arith Lia.
Import ListNotations.
From LTV.C06 Require Import ParamsProbe Model ProofsInv ProofsRun.

(* the policy only ever changes by set_retry_disabled at a recognition point *)
Definition polrel (s s' : hst) : Prop :=
  (pol s' = pol s /\ recog s' = recog s) \/ (pol s' = set_retry (pol s) Prefer /\ recog s' = true).

Definition polstep (s : hst) (a : aout) : Prop :=
  match a with
  | ANext s' _ | ABrk s' _ | ASuc s' _ | AThr s' _ _ | AInt s' => polrel s s'
  end.

Lemma dr_pol : forall s a n, pol (dec_range s a n) = pol s. Proof. reflexivity. Qed.
Lemma dr_recog : forall s a n, recog (dec_range s a n) = recog s. Proof. reflexivity. Qed.

Lemma fill_pol : forall size s k eof,
  match fill size s k eof with
  | FOk s1 _ _ | FNet s1 | FOver s1 => pol s1 = pol s /\ recog s1 = recog s
  end.
Proof.
  intros. unfold fill.
  destruct (remaining s <? size); auto.
  destruct (BUF - endp s <? size - remaining s); auto.
  destruct (rd (size - remaining s) k eof) as [[c k']|]; auto.
  destruct (dvalid s); auto.
Qed.

Ltac pf := repeat match goal with
  | |- context [fill ?a ?b ?c ?d] =>
      let H := fresh "FP" in pose proof (fill_pol a b c d) as H; destruct (fill a b c d); destruct H
  end.

Ltac polcbn := cbn [pol recog consume move_unused set_obf add_cells set_st set_win set_rpos set_crypto set_lenia set_dec set_dl set_extp set_exti
       set_bfe set_aok add_w mark_recog set_w set_ghost start_dec] in *.
Ltac polfin :=
  unfold polstep, polrel;
  repeat (first [rewrite dr_pol in * | rewrite dr_recog in * | progress polcbn]);
  try (left; split; congruence); try (right; split; congruence).

Ltac polall := pf; repeat dm; polfin.

Lemma act_key_pol : forall s k eof, polstep s (act_key s k eof).
Proof. intros. unfold act_key. polall. Qed.
Lemma act_sync_pol : forall s k eof, polstep s (act_sync s k eof).
Proof. intros. unfold act_sync, sync_found. polall. Qed.
Lemma act_skey_pol : forall s k eof, polstep s (act_skey s k eof).
Proof. intros. unfold act_skey. polall. Qed.
Lemma act_negot_pol : forall s k eof, polstep s (act_negot s k eof).
Proof. intros. unfold act_negot. polall. Qed.
Lemma act_pad_pol : forall s k eof, polstep s (act_pad s k eof).
Proof. intros. unfold act_pad, act_pad2. polall. Qed.
Lemma act_ia_pol : forall s k eof, polstep s (act_ia s k eof).
Proof. intros. unfold act_ia. destruct (0 <? lenia s); polall. Qed.
Lemma act_info_pol : forall s k eof, polstep s (act_info s k eof).
Proof. intros. unfold act_info. polall. Qed.
Lemma act_peer_pol : forall s k eof, polstep s (act_peer s k eof).
Proof. intros. unfold act_peer. polall. Qed.
Lemma act_message_pol : forall bfb s k eof, polstep s (act_message bfb s k eof).
Proof. intros. unfold act_message. destruct (BUF - endp s <? 5); polall. Qed.
Lemma act_bitfield_pol : forall bfb s k eof, polstep s (act_bitfield bfb s k eof).
Proof. intros. unfold act_bitfield, after_msg. polall. Qed.
Lemma act_ext_pol : forall s k eof, polstep s (act_ext s k eof).
Proof. intros. unfold act_ext, after_msg. dm; [polfin|]. destruct (over (N.to_nat (be (firstn 4 (vals s)) 0)) s); polall. Qed.
Lemma act_port_pol : forall s k eof, polstep s (act_port s k eof).
Proof. intros. unfold act_port, after_msg. dm; [polfin|]. destruct (over (N.to_nat (be (firstn 4 (vals s)) 0)) s); polall. Qed.

Theorem act_pol : forall bfb s k eof, polstep s (act bfb s k eof).
Proof.
  intros. unfold act. destruct (rdone s); [left; auto|].
  destruct (st s);
    first [ apply act_key_pol | apply act_sync_pol | apply act_skey_pol | apply act_negot_pol | apply act_pad_pol
          | apply act_ia_pol | apply act_info_pol | apply act_peer_pol | apply act_message_pol | apply act_bitfield_pol
          | apply act_ext_pol | apply act_port_pol | (left; auto) ].
Qed.

(* p0 = the policy the attempt started with (after Handshake::event_write armed the retry flag) *)
Definition RInv (p0 : policy) (s : hst) : Prop :=
  hs_mode (pol s) = hs_mode p0 /\ st_mode (pol s) = st_mode p0 /\ retrying (pol s) = retrying p0 /\
  retry_mode (pol s) = (if recog s then Prefer else retry_mode p0).

Lemma RInv_step : forall p0 s s', polrel s s' -> RInv p0 s -> RInv p0 s'.
Proof.
  intros p0 s s' [[P R]|[P R]] (A & B & C & D); unfold RInv; rewrite P, R; cbn; auto.
Qed.

Definition out_inv (p0 : policy) (o : out) : Prop :=
  match o with
  | Cont s _ | Done s _ | Failed s _ _ | Crash s => RInv p0 s
  | OutOfFuel => True
  end.

Lemma RInv_ewrite : forall p0 s, RInv p0 s -> RInv p0 (ewrite s).
Proof. intros. unfold ewrite. destruct (wint s); auto. destruct (st s); exact H. Qed.

Lemma event_read_pol : forall fuel bfb p0 s k eof, RInv p0 s -> out_inv p0 (event_read fuel bfb s k eof).
Proof.
  induction fuel; intros; cbn [event_read]; [exact Logic.I|].
  pose proof (act_pol bfb s k eof) as P.
  destruct (act bfb s k eof) as [s' k' | s' k' | s' t e | s' | s' k']; cbn [polstep] in P;
    pose proof (RInv_step p0 s s' P H) as R.
  - apply IHfuel. exact R.
  - cbn [out_inv]. apply RInv_ewrite. exact R.
  - exact R.
  - exact R.
  - destruct (wbf s' || wint s'); [destruct (PCBBUF <? remaining s')|]; cbn [out_inv]; exact R.
Qed.

Lemma pump_pol : forall n bfb p0 s k, RInv p0 s -> out_inv p0 (pump n bfb s k).
Proof.
  induction n; intros; cbn [pump]; [exact Logic.I|].
  pose proof (event_read_pol (fuel_of s k) bfb p0 s k false H) as R.
  destruct (event_read (fuel_of s k) bfb s k false); auto.
  cbn [out_inv] in R. match goal with |- context [if ?c then _ else _] => destruct c end; auto.
Qed.

Lemma run_pol : forall bfb p0 segs o, out_inv p0 o -> out_inv p0 (run bfb o segs).
Proof.
  induction segs as [|[g cl] r IH]; intros o S; cbn [run]; auto.
  destruct o; auto. apply IH. cbn [out_inv] in S. destruct cl.
  - unfold feed_close. apply event_read_pol. exact S.
  - unfold feed. destruct (k ++ g); [exact S|]. apply pump_pol. exact S.
Qed.

(* what Handshake::event_write (CONNECTING) arms *)
Definition armed (p : policy) : mode :=
  if retrying p then retry_mode p
  else if prefer_enc_hs p then (if allow_plain_hs p && allow_plain_stream p then Deny else retry_mode p)
  else (if allow_enc_hs p then Require else retry_mode p).

Lemma init_out_RInv : forall p, RInv (set_retry p (armed p)) (init_out p).
Proof.
  intro p. unfold init_out, armed, RInv.
  destruct (prefer_enc_hs p); destruct (retrying p); cbn;
    repeat match goal with |- context [if ?c then _ else _] => destruct c; cbn end; auto.
Qed.

(* retry_rule: the failing handshake of an outgoing attempt started with policy p (fresh: no
   retry mode set) is retried iff it was a first attempt, the policy permits the other handshake
   type and the peer's key / handshake had not been recognised; the retry uses the flipped
   handshake type, the same stream mode and is marked retrying; the policy constructor never throws. *)
Theorem retry_rule : forall bfb p segs s t e,
  retry_mode p = Allow ->
  run bfb (Cont (init_out p) []) segs = Failed s t e ->
  retry_policy false (pol s) =
    if recog s || retrying p then RNone
    else if prefer_enc_hs p
         then (if allow_plain_hs p && allow_plain_stream p then RRetry (mkPolicy Deny (st_mode p) true Allow) else RNone)
         else (if allow_enc_hs p then RRetry (mkPolicy Require (st_mode p) true Allow) else RNone).
Proof.
  intros bfb p segs s t e RM H.
  pose proof (run_pol bfb (set_retry p (armed p)) segs (Cont (init_out p) []) (init_out_RInv p)) as R.
  rewrite H in R. cbn [out_inv] in R. destruct R as (A & B & C & D). cbn in A, B, C, D.
  unfold retry_policy. rewrite D, B.
  destruct (recog s); cbn [orb]; [reflexivity|].
  unfold armed. rewrite RM.
  destruct (retrying p); cbn [orb]; [reflexivity|].
  destruct (prefer_enc_hs p).
  - destruct (allow_plain_hs p) eqn:AH; cbn [andb]; [|reflexivity].
    unfold allow_plain_stream. destruct (mode_eqb (st_mode p) Require); cbn; reflexivity.
  - destruct (allow_enc_hs p); reflexivity.
Qed.

(* a retry attempt (retrying = true) is never retried again, whatever happens *)
Corollary retry_once : forall bfb p segs s t e,
  retry_mode p = Allow -> retrying p = true ->
  run bfb (Cont (init_out p) []) segs = Failed s t e -> retry_policy false (pol s) = RNone.
Proof.
  intros. rewrite (retry_rule bfb p segs s t e H H1). rewrite H0, orb_true_r. reflexivity.
Qed.

(* the retry-policy constructor never throws (the defect fixed by /repo 3196365) *)
Corollary retry_never_throws : forall bfb p segs s t e,
  retry_mode p = Allow ->
  run bfb (Cont (init_out p) []) segs = Failed s t e -> retry_policy false (pol s) <> RThrow.
Proof.
  intros. rewrite (retry_rule bfb p segs s t e H H0).
  repeat match goal with |- context [if ?c then _ else _] => destruct c end; discriminate.
Qed.

Example retry_rule_nonvacuous :
  match run bfb0 (Cont (init_out (mkPolicy Prefer Allow false Allow)) []) [(firstn 50 keyc, false); ([], true)] with
  | Failed s _ _ => retry_policy false (pol s) = RRetry (mkPolicy Deny Allow true Allow)
  | _ => False
  end.
Proof. vm_compute. reflexivity. Qed.
