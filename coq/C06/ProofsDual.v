(* C06 — two handshakes alive at the same time do not interfere: the model of two concurrent
   handshakes whose segments interleave in any order is the product of the two independent runs
   (each handshake's transition function sees only its own state and its own bytes). The
   correspondence checks the implementation against this product (case type D). *)
From Coq Require Import NArith List Bool Arith.
Import ListNotations.
From LTV.C06 Require Import ParamsProbe Model ProofsRun.

(* an interleaving: who (true = A), the segment, and whether that peer closes after it *)
Definition istep := (bool * (list cell * bool))%type.

Definition feed1 (bfb : nat) (o : out) (g : list cell * bool) : out := run bfb o [g].

Fixpoint run2 (bfb : nat) (oa ob : out) (l : list istep) : out * out :=
  match l with
  | [] => (oa, ob)
  | (true, g) :: r => run2 bfb (feed1 bfb oa g) ob r
  | (false, g) :: r => run2 bfb oa (feed1 bfb ob g) r
  end.

Definition proj (who : bool) (l : list istep) : list (list cell * bool) :=
  map snd (filter (fun x => Bool.eqb (fst x) who) l).

Definition is_cont (o : out) : bool := match o with Cont _ _ => true | _ => false end.

Lemma run_final : forall bfb l o, is_cont o = false -> run bfb o l = o.
Proof. induction l as [|[g cl] l IH]; intros o H; cbn [run]; auto. destruct o; auto; discriminate. Qed.

Lemma run_app : forall bfb a b o, run bfb o (a ++ b) = run bfb (run bfb o a) b.
Proof.
  induction a as [|[g cl] a IH]; intros b o; cbn [app]; auto.
  destruct o; try (rewrite !run_final by reflexivity; reflexivity).
  cbn [run]. apply IH.
Qed.

(* handshakes do not interfere *)
Theorem handshakes_independent : forall bfb l oa ob,
  run2 bfb oa ob l = (run bfb oa (proj true l), run bfb ob (proj false l)).
Proof.
  induction l as [|[[|] g] l IH]; intros oa ob; cbn [run2 proj filter map fst snd Bool.eqb]; auto.
  - rewrite IH. unfold feed1. change (g :: map snd (filter (fun x => Bool.eqb (fst x) true) l)) with ([g] ++ proj true l).
    rewrite run_app. reflexivity.
  - rewrite IH. unfold feed1. change (g :: map snd (filter (fun x => Bool.eqb (fst x) false) l)) with ([g] ++ proj false l).
    rewrite run_app. reflexivity.
Qed.
