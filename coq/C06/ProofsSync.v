(* C06 — the PadA / PadB scan of Handshake::read_encryption_sync for EVERY pad length: the scan
   accepts the first occurrence of the sync pattern at any offset 0..512 and nothing further out. *)
From Coq Require Import NArith List Bool Arith Lia.
Import ListNotations.
From LTV.C06 Require Import ParamsProbe Model ProofsInv.

Definition patlen (incoming : bool) : nat := if incoming then 20 else 8.
(* what a protocol-following peer sends at the sync point: HASH('req1', S) / ENCRYPT(VC) *)
Definition sync_pattern (incoming : bool) : list cell := if incoming then rq1c else encs 0 vc8.

(* find_sync returns the FIRST offset at which the pattern stands *)
Lemma find_sync_spec : forall b l o0 o, find_sync b l o0 = Some o ->
  o0 <= o /\ sync_at b (skipn (o - o0) l) = true /\ (forall j, j < o - o0 -> sync_at b (skipn j l) = false).
Proof.
  induction l as [|a l IH]; intros o0 o H; cbn [find_sync] in H; [discriminate|].
  destruct (sync_at b (a :: l)) eqn:SA.
  - injection H as <-. rewrite Nat.sub_diag. cbn [skipn]. repeat split; auto. intros j J. lia.
  - apply IH in H. destruct H as (H1 & H2 & H3).
    assert (E : o - o0 = S (o - S o0)) by lia.
    repeat split; [lia| |].
    + rewrite E. cbn [skipn]. exact H2.
    + intros j J. destruct j; [exact SA|]. cbn [skipn]. apply H3. lia.
Qed.

Lemma find_sync_none : forall b l o0, find_sync b l o0 = None -> forall j, j < length l -> sync_at b (skipn j l) = false.
Proof.
  induction l as [|a l IH]; intros o0 H j J; cbn [length] in J; [lia|].
  cbn [find_sync] in H. destruct (sync_at b (a :: l)) eqn:SA; [discriminate|].
  destruct j; [exact SA|]. cbn [skipn]. apply (IH (S o0) H). lia.
Qed.

Definition sync_target (incoming : bool) : hstate := if incoming then SKEY else NEGOT.
Definition sync_skip (incoming : bool) : nat := if incoming then 20 else 0.

Lemma sync_found_proj : forall s k o s' k', sync_found s k o = ANext s' k' ->
  st s' = sync_target (inc s) /\ pos s' = pos s + o + sync_skip (inc s) /\ k' = k /\ buf s' = skipn (o + sync_skip (inc s)) (buf s).
Proof.
  intros s k o s' k' H. unfold sync_found, sync_target, sync_skip in *.
  destruct (inc s); injection H as <- <-; cbn; rewrite ?Nat.add_0_r; repeat split; auto; lia.
Qed.

Lemma rd_skip : forall n k eof c k', rd n k eof = Some (c, k') -> k' = skipn (length c) k.
Proof.
  intros n k eof c k' R. unfold rd in R. destruct k as [|c0 k]; [destruct eof; [discriminate|]; injection R as <- <-; reflexivity|].
  injection R as <- <-. set (kk := c0 :: k).
  rewrite firstn_length. destruct (Nat.le_ge_cases n (length kk)).
  - rewrite Nat.min_l by assumption. reflexivity.
  - rewrite Nat.min_r by assumption. rewrite skipn_all. rewrite skipn_all2 by assumption. reflexivity.
Qed.

(* soundness of the scan: whenever read_encryption_sync moves on, the pattern stands right behind the
   skipped pad in the bytes received so far (buf s ++ c, c = what this call read) and nowhere
   earlier, the new position is pad + (pattern for incoming), and the pad is at most 512 bytes -
   EXCEPT for an outgoing handshake whose PadB arrived in the same read as the peer's key
   (read_encryption_key reads up to enc_pad_read_size = 628 bytes, 532 stay after the key, the
   pattern is 8 bytes): there the bound is 524.  See padb_over_512_accepted_when_coalesced. *)
Definition pad_bound (incoming : bool) : nat := if incoming then 512 else 524.

Theorem sync_scan_sound : forall s k eof s' k',
  InvB s -> st s = SYNC -> act_sync s k eof = ANext s' k' ->
  exists o c, o <= pad_bound (inc s) /\ (find_sync (inc s) (buf s) 0 = None -> o <= PADMAX) /\
    o + patlen (inc s) <= length (buf s ++ c) /\
    sync_at (inc s) (skipn o (buf s ++ c)) = true /\
    (forall j, j < o -> sync_at (inc s) (skipn j (buf s ++ c)) = false) /\
    st s' = sync_target (inc s) /\ pos s' = 96 + o + sync_skip (inc s) /\
    buf s' = skipn (o + sync_skip (inc s)) (buf s ++ c) /\ k' = skipn (length c) k.
Proof.
  intros s k eof s' k' I E H. unfold InvB in I. rewrite E in I. destruct I as [P0 L0]. unfold L in L0.
  unfold act_sync in H. unfold patlen. consts.
  set (pl := if inc s then 20 else 8) in *.
  assert (PB : forall o n, o + pl <= n -> n <= 532 -> o <= pad_bound (inc s)).
  { intros o n. subst pl. unfold pad_bound. destruct (inc s); lia. }
  assert (PB2 : forall o, o <= 512 -> o <= pad_bound (inc s)).
  { intros o. unfold pad_bound. destruct (inc s); lia. }
  destruct (find_sync (inc s) (buf s) 0) as [o|] eqn:F.
  - pose proof (find_sync_len _ _ _ _ F) as FL. fold pl in FL. rewrite Nat.sub_0_r in FL. destruct FL as [_ FL].
    apply find_sync_spec in F. destruct F as (_ & F2 & F3). rewrite Nat.sub_0_r in *.
    apply sync_found_proj in H. destruct H as (H1 & H2 & H3 & H4).
    exists o, []. rewrite app_nil_r. cbn [length skipn].
    split; [apply (PB o (length (buf s))); assumption|].
    split; [intro X; discriminate X|].
    split; [exact FL|]. split; [exact F2|]. split; [exact F3|]. split; [exact H1|].
    split; [rewrite H2, P0; reflexivity|]. split; [exact H4|exact H3].
  - destruct (512 + pl <=? remaining s) eqn:C; [discriminate|].
    apply Nat.leb_gt in C.
    destruct (rd (512 + pl - remaining s) k eof) as [[c k1]|] eqn:R; [|discriminate].
    pose proof (rd_skip _ _ _ _ _ R) as K1.
    apply rd_len in R. destruct R as [R _].
    destruct (find_sync (inc s) (buf (add_cells s c)) 0) as [o|] eqn:F2; [|discriminate].
    cbn [buf add_cells] in F2.
    pose proof (find_sync_len _ _ _ _ F2) as FL. fold pl in FL. rewrite Nat.sub_0_r in FL. destruct FL as [_ FL].
    apply find_sync_spec in F2. destruct F2 as (_ & F2 & F3). rewrite Nat.sub_0_r in *.
    apply sync_found_proj in H. cbn [inc pos buf add_cells] in H. destruct H as (H1 & H2 & H3 & H4).
    exists o, c. unfold remaining in *. rewrite app_length in *.
    assert (OB : o <= 512) by (clear - FL R C; lia).
    split; [apply PB2; exact OB|].
    split; [intros _; exact OB|].
    split; [exact FL|]. split; [exact F2|]. split; [exact F3|]. split; [exact H1|].
    split; [rewrite H2, P0; reflexivity|]. split; [exact H4|congruence].
Qed.

(* the scan gives up exactly when the window is full: 512 + pattern length bytes without the pattern *)
Theorem sync_scan_reject : forall s k eof,
  st s = SYNC -> find_sync (inc s) (buf s) 0 = None -> PADMAX + patlen (inc s) <= length (buf s) ->
  act_sync s k eof = AThr s 7 9.
Proof.
  intros s k eof E F C. unfold act_sync. rewrite F. unfold patlen in C.
  apply Nat.leb_le in C. unfold remaining. rewrite C. reflexivity.
Qed.

(* completeness for EVERY pad length: an opaque pad of any length n followed by the pattern is found at n *)
Lemma find_sync_opq : forall b n l o, find_sync b (opq n ++ l) o = find_sync b l (o + n).
Proof.
  induction n; intros l o; cbn [opq repeat app]; [rewrite Nat.add_0_r; reflexivity|].
  cbn [find_sync]. replace (sync_at b (mkCell Opq [] :: repeat (mkCell Opq []) n ++ l)) with false by (destruct b; reflexivity).
  fold (opq n). rewrite IHn. f_equal. lia.
Qed.

Lemma find_sync_pattern : forall b rest o, find_sync b (sync_pattern b ++ rest) o = Some o.
Proof. intros b rest o. destruct b; destruct rest; vm_compute; reflexivity. Qed.

Theorem sync_scan_complete : forall s k eof n rest,
  st s = SYNC -> buf s = opq n ++ sync_pattern (inc s) ++ rest ->
  act_sync s k eof = sync_found s k n.
Proof.
  intros s k eof n rest E B. unfold act_sync. rewrite B, find_sync_opq, find_sync_pattern. reflexivity.
Qed.

(* a pad in the buffer is never longer than the window allows: with InvB, n <= 512 (incoming) / 524 (outgoing) *)
Corollary sync_scan_complete_bound : forall s n rest,
  InvB s -> st s = SYNC -> buf s = opq n ++ sync_pattern (inc s) ++ rest -> n <= pad_bound (inc s).
Proof.
  intros s n rest I E B. unfold InvB in I. rewrite E in I. destruct I as [_ L0]. unfold L in L0.
  rewrite B in L0. rewrite !app_length in L0. unfold opq in L0. rewrite repeat_length in L0.
  unfold pad_bound, sync_pattern in *. destruct (inc s); cbn in L0; lia.
Qed.

(* ---------------------------------------------------------------- the 512 bound is not what the code enforces *)
From LTV.C06 Require Import ProofsRun.

Definition padb_stream (n : nat) : list cell :=
  keyc ++ opq n ++ encs 0 (vc8 ++ be4 2 ++ be2 0) ++ encs 14 (hs_bytes 1 false false ++ trail).
Definition padb_policy : policy := mkPolicy Prefer Allow false Allow.

(* Outgoing, PadB = 524 > 512: accepted (handshake succeeds, ciphers aligned) when the pad and
   ENCRYPT(VC) arrive in the same read as the peer's key; the same bytes cut after the pad are
   rejected with sync-failed.  525 is rejected either way; incoming PadA = 513 is rejected even when
   coalesced.  Replayed on the real code: `O 2 1 1 X K,O524,V2.0,mH100,m:...@W` -> ok,
   `...@620` -> closed  (corpus/C06/padb_over_512.case). *)
Lemma padb_over_512_accepted_when_coalesced :
  (exists s k, run bfb0 (Cont (init_out padb_policy) []) [(padb_stream 524, false)] = Done s k /\ aligned_final s k = true) /\
  (exists s, run bfb0 (Cont (init_out padb_policy) [])
               [(firstn 620 (padb_stream 524), false); (skipn 620 (padb_stream 524), false)] = Failed s 7 9) /\
  (exists s, run bfb0 (Cont (init_out padb_policy) []) [(padb_stream 525, false)] = Failed s 7 9).
Proof.
  split; [|split].
  - vm_compute. eexists. eexists. split; reflexivity.
  - vm_compute. eexists. reflexivity.
  - vm_compute. eexists. reflexivity.
Qed.

Example sync_scan_sound_nonvacuous :
  exists s k s' k', InvB s /\ st s = SYNC /\ inc s = true /\ act_sync s k false = ANext s' k' /\ pos s' = 96 + 512 + 20.
Proof.
  exists (mkH SYNC 96 (opq 512) 0 true (mkPolicy Allow Allow false Prefer) 0 0 false 0 false None false true true true true [] false false false 608 0),
         (rq1c ++ skhc 1).
  eexists. eexists. split; [|split; [|split; [|split]]].
  - unfold InvB, L. cbn. lia.
  - reflexivity.
  - reflexivity.
  - vm_compute. reflexivity.
  - reflexivity.
Qed.

Example sync_scan_complete_nonvacuous :
  exists s, InvB s /\ st s = SYNC /\ buf s = opq 300 ++ sync_pattern (inc s) ++ [mkCell Opq []].
Proof.
  exists (mkH SYNC 96 (opq 300 ++ rq1c ++ [mkCell Opq []]) 0 true (mkPolicy Allow Allow false Prefer) 0 0 false 0 false None false true true true true [] false false false 417 0).
  split; [|split]; [unfold InvB, L; cbn; lia|reflexivity|reflexivity].
Qed.
