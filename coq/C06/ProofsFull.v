(* C06 — buffer_safe in full: for every policy, direction, input, segmentation and close timing the
   read state machine never raises internal_error (no fill overflow, no invalid state, and at
   success at most 450 <= 512 unread bytes are handed to the connection) and always terminates
   within its fuel. *)
From Coq Require Import NArith List Bool Arith Lia.
Import ListNotations.
From LTV.C06 Require Import ParamsProbe Model ProofsInv ProofsRun ProofsOcc.

Definition Inv (s : hst) : Prop := InvB s /\ InvL s.

Lemma InvL_ewrite : forall s, InvL s -> InvL (ewrite s).
Proof.
  intros s I. unfold ewrite. destruct (wint s) eqn:W; auto.
  destruct (st s) eqn:E; unfold InvL, Lmsg, wflag, L, vals in *; cbn [st buf inc wint wbf set_w]; rewrite E in *; auto;
    intuition.
Qed.

Lemma st_ewrite : forall s, st (ewrite s) = st s.
Proof. intros. unfold ewrite. destruct (wint s); auto. destruct (st s) eqn:E; cbn [st set_w]; auto. Qed.
Lemma measure_ewrite : forall s k, measure (ewrite s) k = measure s k.
Proof. intros. unfold measure, remaining. rewrite st_ewrite. unfold ewrite. destruct (wint s); auto. destruct (st s) eqn:E; cbn [buf set_w]; auto. Qed.

Definition er_post (s : hst) (k : list cell) (o : out) : Prop :=
  match o with
  | Cont s' k' => Inv s' /\ length k' <= length k /\ measure s' k' <= measure s k /\ (st s' = st s \/ measure s' k' < measure s k)
  | Done s' _ => InvB s' /\ L s' <= 450
  | Failed _ _ _ => True
  | Crash _ => False
  | OutOfFuel => False
  end.

Lemma event_read_full : forall fuel bfb s k eof, Inv s -> measure s k < fuel -> er_post s k (event_read fuel bfb s k eof).
Proof.
  induction fuel; intros bfb s k eof [IB IL] M; [lia|].
  cbn [event_read].
  pose proof (act_good bfb s k eof IB) as G1.
  pose proof (act_good2 bfb s k eof IL) as G2.
  destruct (act bfb s k eof) as [s' k' | s' k' | s' t e | s' | s' k']; cbn [good good2] in G1, G2.
  - destruct G2 as (G2a & G2b & G2c).
    assert (M' : measure s' k' < fuel) by lia.
    pose proof (IHfuel bfb s' k' eof (conj G1 G2a) M') as R.
    destruct (event_read fuel bfb s' k' eof); cbn [er_post] in *; auto.
    destruct R as ([R1a R1b] & R2 & R3 & R4). repeat split; auto; lia.
  - destruct G2 as (G2a & G2b & G2c & G2d). cbn [er_post].
    split; [split; [apply InvB_ewrite; auto | apply InvL_ewrite; auto]|].
    rewrite st_ewrite, measure_ewrite. auto.
  - exact Logic.I.
  - contradiction.
  - destruct G2 as [G2a G2b]. unfold wflag in G2b. rewrite orb_comm in G2b. rewrite G2b.
    assert (C : (PCBBUF <? remaining s') = false). { apply Nat.ltb_ge. consts. unfold remaining, L in *. lia. }
    rewrite C. cbn [er_post]. auto.
Qed.

Definition run_post (o : out) : Prop :=
  match o with
  | Cont s' _ => Inv s'
  | Done s' _ => InvB s' /\ L s' <= 450
  | Failed _ _ _ => True
  | Crash _ => False
  | OutOfFuel => False
  end.

Lemma pump_full : forall n bfb s k, Inv s -> measure s k + length k < n -> run_post (pump n bfb s k).
Proof.
  induction n; intros bfb s k I M; [lia|].
  cbn [pump].
  pose proof (event_read_full (fuel_of s k) bfb s k false I ltac:(unfold fuel_of; lia)) as R.
  destruct (event_read (fuel_of s k) bfb s k false) as [s' k' | | | |]; cbn [er_post run_post] in *; auto.
  destruct R as (R1 & R2 & R3 & R4).
  match goal with |- context [if ?c then _ else _] => destruct c eqn:C end; cbn [run_post]; auto.
  apply IHn; auto.
  apply andb_true_iff in C. destruct C as [_ C]. apply orb_true_iff in C. destruct C as [C|C].
  - apply Nat.ltb_lt in C. lia.
  - destruct R4 as [R4|R4]; [|lia].
    rewrite R4 in C. unfold st_eqb in C. rewrite Nat.eqb_refl in C. discriminate.
Qed.

Lemma feed_full : forall bfb s k, Inv s -> run_post (feed bfb s k).
Proof. intros. unfold feed. destruct k; [exact H|]. apply pump_full; auto. Qed.

Lemma feed_close_full : forall bfb s k, Inv s -> run_post (feed_close bfb s k).
Proof.
  intros. unfold feed_close.
  pose proof (event_read_full (fuel_of s k) bfb s k true H ltac:(unfold fuel_of; lia)) as R.
  destruct (event_read (fuel_of s k) bfb s k true); cbn [er_post run_post] in *; tauto.
Qed.

Lemma run_full : forall bfb segs o, run_post o -> run_post (run bfb o segs).
Proof.
  induction segs as [|[g cl] r IH]; intros o S; cbn [run]; auto.
  destruct o; auto. apply IH. cbn [run_post] in S. destruct cl; [apply feed_close_full | apply feed_full]; auto.
Qed.

Lemma init_in_invL : forall p, InvL (init_in p).
Proof. intro p. unfold init_in, InvL, L. destruct (allow_enc_hs p); cbn; [split; [lia | intros; lia] | lia]. Qed.
Lemma init_out_invL : forall p, InvL (init_out p).
Proof. intro p. unfold init_out, InvL, L. destruct (prefer_enc_hs p); cbn; [split; [lia | intros; lia] | lia]. Qed.

Theorem buffer_safe : forall bfb incoming p segs,
  run_post (run bfb (Cont (if (incoming : bool) then init_in p else init_out p) []) segs).
Proof.
  intros. apply run_full. cbn [run_post]. destruct incoming; split;
    first [apply init_in_inv | apply init_out_inv | apply init_in_invL | apply init_out_invL].
Qed.

(* readable corollaries *)
Corollary buffer_safe_no_internal_error : forall bfb incoming p segs s,
  run bfb (Cont (if (incoming : bool) then init_in p else init_out p) []) segs <> Crash s /\
  run bfb (Cont (if (incoming : bool) then init_in p else init_out p) []) segs <> OutOfFuel.
Proof.
  intros. pose proof (buffer_safe bfb incoming p segs) as H.
  destruct (run _ _ _); cbn [run_post] in H; split; try discriminate; contradiction.
Qed.

Corollary unread_at_success : forall bfb incoming p segs s k,
  run bfb (Cont (if (incoming : bool) then init_in p else init_out p) []) segs = Done s k ->
  length (buf s) <= 450.
Proof.
  intros. pose proof (buffer_safe bfb incoming p segs) as B. rewrite H in B. cbn [run_post] in B.
  destruct B as [B1 B2]. exact B2.
Qed.

Theorem bad_handshake_closes_one : forall bfb incoming p segs,
  match run bfb (Cont (if (incoming : bool) then init_in p else init_out p) []) segs with
  | Cont _ _ | Done _ _ | Failed _ _ _ => True
  | Crash _ | OutOfFuel => False
  end.
Proof.
  intros. pose proof (buffer_safe bfb incoming p segs) as H.
  destruct (run _ _ _); cbn [run_post] in H; auto.
Qed.
