(* C06 — inductive invariant: buffer indices of the read state machine, for every input,
   segmentation and close timing. *)
From Coq Require Import NArith List Bool Arith Lia.
Import ListNotations.
From LTV.C06 Require Import ParamsProbe Model.


Ltac consts := cbv [BUF PADMAX PADREAD KEYLEN NEGO HSIZE PART1 VCLEN PCBBUF
  Params.c06_buffer_size Params.c06_enc_pad_size Params.c06_enc_pad_read_size Params.c06_dh_key_length
  Params.c06_enc_negotiation_size Params.c06_handshake_size Params.c06_part1_size Params.c06_vc_length
  Params.c06_pcb_read_buffer] in *.

Definition L (s : hst) := length (buf s).

Definition InvB (s : hst) : Prop :=
  match st s with
  | KEY => pos s = 0 /\ L s <= 628
  | SYNC => pos s = 96 /\ L s <= 532
  | SKEY => pos s <= 628 /\ pos s + L s <= 648
  | NEGOT => pos s <= 648 /\ pos s + L s <= 662
  | PAD => pos s + rpos s <= 1174 /\ pos s + L s <= 1176 /\ rpos s <= 512
  | IA => pos s <= 1176 /\ pos s + L s <= 1244 /\ lenia s <= 68
  | INFO => pos s <= 1176 /\ pos s + L s <= 1244
  | PEER => pos s <= 1224 /\ pos s + L s <= 1244
  | MESSAGE | BITFIELD | EXT | PORT => pos s + L s <= 1254
  | _ => rdone s = true
  end.

Definition good (a : aout) : Prop :=
  match a with
  | ANext s _ | ABrk s _ | ASuc s _ => InvB s
  | AThr _ _ _ => True
  | AInt _ => False
  end.

Lemma rd_len : forall n k eof c k', rd n k eof = Some (c, k') -> length c <= n /\ length c + length k' = length k.
Proof.
  intros n k eof c k' H. unfold rd in H. destruct k.
  - destruct eof; inversion H; subst; simpl; lia.
  - inversion H; subst. rewrite firstn_length, skipn_length. lia.
Qed.

Lemma dec_from_len : forall l j, length (dec_from j l) = length l.
Proof. induction l; intros; simpl; auto. Qed.

Lemma dec_range_len : forall s a n, length (buf (dec_range s a n)) = length (buf s).
Proof.
  intros. unfold dec_range. simpl. rewrite !app_length, dec_from_len, !firstn_length, !skipn_length. lia.
Qed.

Lemma dec_range_fields : forall s a n,
  st (dec_range s a n) = st s /\ pos (dec_range s a n) = pos s /\ rpos (dec_range s a n) = rpos s /\
  lenia (dec_range s a n) = lenia s /\ inc (dec_range s a n) = inc s /\ rdone (dec_range s a n) = rdone s.
Proof. intros. unfold dec_range. simpl. auto 10. Qed.

(* what a fill does to the window *)
Lemma fill_spec : forall size s k eof,
  match fill size s k eof with
  | FOk s1 k1 b =>
      st s1 = st s /\ pos s1 = pos s /\ rpos s1 = rpos s /\ lenia s1 = lenia s /\ inc s1 = inc s /\ rdone s1 = rdone s /\
      L s <= L s1 /\ L s1 <= Nat.max (L s) size /\ (b = true -> size <= L s1) /\ (b = false -> L s1 < size)
  | FNet _ => True
  | FOver _ => BUF < pos s + size
  end.
Proof.
  intros. unfold fill, remaining, endp, L.
  destruct (length (buf s) <? size) eqn:E1.
  - apply Nat.ltb_lt in E1.
    destruct (BUF - (pos s + length (buf s)) <? size - length (buf s)) eqn:E2.
    + apply Nat.ltb_lt in E2. lia.
    + destruct (rd (size - length (buf s)) k eof) as [[c k']|] eqn:E3; auto.
      apply rd_len in E3. destruct E3 as [E3 _].
      assert (Hl : forall x, length (buf x) = length (buf s) + length c ->
                   length (buf s) <= length (buf x) /\ length (buf x) <= Nat.max (length (buf s)) size) by (intros; lia).
      destruct (dvalid s).
      * pose proof (dec_range_fields (add_cells s c) (length (buf s)) (length c)) as F.
        pose proof (dec_range_len (add_cells s c) (length (buf s)) (length c)) as G.
        unfold add_cells in *. cbn [buf pos st rpos lenia inc rdone] in *. rewrite app_length in G.
        destruct F as (F1 & F2 & F3 & F4 & F5 & F6).
        repeat split; auto; try lia;
          intro H; first [apply Nat.leb_le in H | apply Nat.leb_gt in H]; unfold remaining in H; lia.
      * unfold add_cells. cbn [buf pos st rpos lenia inc rdone]. rewrite app_length.
        repeat split; auto; try lia;
          intro H; first [apply Nat.leb_le in H | apply Nat.leb_gt in H]; unfold remaining in H; cbn [buf] in H; try rewrite app_length in H; lia.
  - apply Nat.ltb_ge in E1. repeat split; auto; try lia; intro H; discriminate.
Qed.

Ltac prj :=
  unfold L, remaining, endp in *;
  cbn [st pos buf rpos lenia rdone inc
       consume move_unused set_obf add_cells set_st set_win set_rpos set_crypto set_lenia set_dec set_dl set_extp set_exti
       set_bfe set_aok add_w mark_recog set_w set_ghost start_dec] in *.

Lemma skipn_len : forall (A : Type) n (l : list A), length (skipn n l) = length l - n.
Proof. intros. apply skipn_length. Qed.

Lemma rd_opt_len : forall (b : bool) n k eof c k',
  (if b then rd n k eof else Some ([], k)) = Some (c, k') -> length c <= (if b then n else 0).
Proof.
  intros. destruct b.
  - apply rd_len in H. lia.
  - inversion H; subst; simpl; lia.
Qed.

Lemma act_key_good : forall s k eof, InvB s -> st s = KEY -> good (act_key s k eof).
Proof.
  intros s k eof I E. unfold InvB in I. rewrite E in I. destruct I as [P0 L0]. unfold L in L0.
  unfold act_key.
  destruct (if inc s && (remaining s <? 20) then rd (20 - remaining s) k eof else Some ([], k)) as [[c1 k1]|] eqn:R1; [|exact Logic.I].
  apply rd_opt_len in R1.
  assert (B1 : length (buf s) + length c1 <= 628).
  { destruct (inc s && (remaining s <? 20)) eqn:C; [|lia].
    apply andb_true_iff in C. destruct C as [_ C]. apply Nat.ltb_lt in C. unfold remaining in *. lia. }
  destruct (inc s && (remaining (add_cells s c1) <? 20)) eqn:C1.
  { unfold good, InvB. prj. rewrite E. rewrite app_length. lia. }
  destruct (inc s && list_eqb (firstn 20 (vals (add_cells s c1))) bt_prefix) eqn:C2.
  { destruct (require_enc_hs (pol (add_cells s c1))); [exact Logic.I|].
    unfold good, InvB. prj. rewrite app_length. lia. }
  destruct (if remaining (add_cells s c1) <? PADREAD then rd (PADREAD - remaining (add_cells s c1)) k1 eof else Some ([], k1)) as [[c2 k2]|] eqn:R2; [|exact Logic.I].
  apply rd_opt_len in R2.
  assert (B2 : length (buf s) + length c1 + length c2 <= 628).
  { destruct (remaining (add_cells s c1) <? PADREAD) eqn:C; [|lia].
    apply Nat.ltb_lt in C. prj. rewrite app_length in *. consts. lia. }
  destruct (endp (add_cells (add_cells s c1) c2) <? KEYLEN) eqn:C3.
  { unfold good, InvB. prj. rewrite E. rewrite !app_length. lia. }
  apply Nat.ltb_ge in C3. prj. rewrite !app_length in C3. consts.
  match goal with |- context [if negb ?x then _ else _] => destruct x end; cbn [negb]; [|exact Logic.I].
  destruct (inc s).
  - unfold good, InvB. prj. cbn [st pos buf]. rewrite skipn_len. rewrite !app_length. lia.
  - match goal with |- context [match ?x with Some _ => _ | None => _ end] => destruct x eqn:Heqo end.
    + unfold good, InvB. prj. cbn [st pos buf]. rewrite skipn_len. rewrite !app_length. lia.
    + exfalso. revert Heqo. unfold crypto_provide, allow_plain_stream, allow_enc_stream.
      destruct (st_mode (pol _)); cbn; discriminate.
Qed.

Lemma sync_in_len : forall n l k, sync_in l k n = true -> n <= length l.
Proof. induction n; intros; simpl in *; [lia|]. destruct l; [discriminate|]. apply andb_true_iff in H. destruct H as [_ H]. apply IHn in H. simpl. lia. Qed.
Lemma sync_out_len : forall n l k, sync_out l k n = true -> n <= length l.
Proof. induction n; intros; simpl in *; [lia|]. destruct l; [discriminate|]. apply andb_true_iff in H. destruct H as [_ H]. apply IHn in H. simpl. lia. Qed.
Lemma find_sync_len : forall b l o0 o, find_sync b l o0 = Some o -> o0 <= o /\ (o - o0) + (if b then 20 else 8) <= length l.
Proof.
  induction l; intros; simpl in *; [discriminate|].
  destruct (sync_at b (a :: l)) eqn:S.
  - inversion H; subst. unfold sync_at in S. destruct b; [apply sync_in_len in S | apply sync_out_len in S]; simpl in S; lia.
  - apply IHl in H. lia.
Qed.

Lemma sync_found_good : forall s k o, st s = SYNC -> pos s = 96 -> L s <= 532 -> o + (if inc s then 20 else 8) <= L s -> good (sync_found s k o).
Proof.
  intros. unfold sync_found. destruct (inc s); unfold good, InvB; prj; rewrite skipn_len; lia.
Qed.

Lemma act_sync_good : forall s k eof, InvB s -> st s = SYNC -> good (act_sync s k eof).
Proof.
  intros s k eof I E. unfold InvB in I. rewrite E in I. destruct I as [P0 L0].
  unfold act_sync.
  destruct (find_sync (inc s) (buf s) 0) eqn:F.
  - apply find_sync_len in F. apply sync_found_good; auto. unfold L. lia.
  - destruct (PADMAX + (if inc s then 20 else 8) <=? remaining s); [exact Logic.I|].
    destruct (rd (PADMAX + (if inc s then 20 else 8) - remaining s) k eof) as [[c k']|] eqn:R; [|exact Logic.I].
    apply rd_len in R. destruct R as [R _].
    assert (B : L s + length c <= 532). { consts. unfold L, remaining in *. destruct (inc s); lia. }
    destruct (find_sync (inc s) (buf (add_cells s c)) 0) eqn:F2.
    + apply find_sync_len in F2.
      apply sync_found_good; prj; auto; rewrite ?app_length in *; try lia.
    + unfold good, InvB. prj. rewrite E. rewrite app_length. unfold L in *. lia.
Qed.

Lemma dr_pos : forall s a n, pos (dec_range s a n) = pos s. Proof. reflexivity. Qed.
Lemma dr_rpos : forall s a n, rpos (dec_range s a n) = rpos s. Proof. reflexivity. Qed.
Lemma dr_lenia : forall s a n, lenia (dec_range s a n) = lenia s. Proof. reflexivity. Qed.
Lemma dr_rdone : forall s a n, rdone (dec_range s a n) = rdone s. Proof. reflexivity. Qed.
Lemma dr_st : forall s a n, st (dec_range s a n) = st s. Proof. reflexivity. Qed.
Lemma dr_inc : forall s a n, inc (dec_range s a n) = inc s. Proof. reflexivity. Qed.

Ltac fin := unfold good, InvB; prj;
  rewrite ?dr_pos, ?dr_rpos, ?dr_lenia, ?dr_rdone, ?dr_st, ?dec_range_len in *; prj;
  rewrite ?skipn_len, ?app_length in *; consts; try lia.

Ltac fillcase size s k eof s1 k1 b :=
  let FS := fresh "FS" in
  pose proof (fill_spec size s k eof) as FS;
  destruct (fill size s k eof) as [s1 k1 b | ? | ?];
  [ destruct FS as (F1 & F2 & F3 & F4 & F5 & F6 & F7 & F8 & F9 & F10) | exact Logic.I | try (consts; unfold L in *; lia) ].

Lemma act_skey_good : forall s k eof, InvB s -> st s = SKEY -> good (act_skey s k eof).
Proof.
  intros s k eof I E. unfold InvB in I. rewrite E in I.
  unfold act_skey. fillcase 20 s k eof s1 k1 b.
  destruct b.
  - specialize (F9 eq_refl).
    destruct (skey_lookup (firstn 20 (buf s1))); [|exact Logic.I].
    destruct (is_active n); [|exact Logic.I].
    unfold L in *. fin.
  - unfold L in *. fin. rewrite F1, E. lia.
Qed.

Ltac dm := match goal with
  | |- context [match ?x with _ => _ end] => destruct x eqn:?
  end.

Lemma act_negot_good : forall s k eof, InvB s -> st s = NEGOT -> good (act_negot s k eof).
Proof.
  intros s k eof I E. unfold InvB in I. rewrite E in I.
  unfold act_negot. fillcase NEGO s k eof s1 k1 b.
  destruct b.
  - specialize (F9 eq_refl). unfold L in *.
    set (s2 := if inc s then s1 else dec_range (start_dec s1 (encr s1)) 0 NEGO).
    assert (H2 : pos s2 = pos s1 /\ length (buf s2) = length (buf s1)).
    { subst s2. destruct (inc s); auto. rewrite dr_pos, dec_range_len. prj. auto. }
    destruct H2 as [H2a H2b].
    destruct (negb (forallb (N.eqb 0) (firstn VCLEN (firstn NEGO (vals s2))))); [exact Logic.I|].
    match goal with |- context [(N.of_nat PADMAX <? ?pl)%N] => destruct (N.of_nat PADMAX <? pl)%N eqn:PL; [exact Logic.I|] ; set (plv := pl) in * end.
    assert (RP : N.to_nat plv <= 512). { apply N.ltb_ge in PL. consts. lia. }
    destruct (inc s).
    + dm; [destruct p; exact Logic.I|]. fin.
    + repeat dm; try exact Logic.I; fin.
  - unfold L in *. fin. rewrite F1, E. lia.
Qed.

Lemma act_pad2_good : forall s k eof,
  st s = PAD -> rpos s = 0 -> pos s <= 1174 -> pos s + L s <= 1176 -> good (act_pad2 s k eof).
Proof.
  intros s k eof E R P1 P2. unfold act_pad2.
  destruct (inc s).
  - fillcase 2 s k eof s1 k1 b. destruct b.
    + specialize (F9 eq_refl). unfold L in *.
      set (iav := be (firstn 2 (vals s1)) 0) in *.
      destruct (N.of_nat HSIZE <? iav)%N eqn:IAV; [exact Logic.I|].
      assert (N.to_nat iav <= 68) by (apply N.ltb_ge in IAV; consts; lia).
      fin.
    + unfold L in *. fin. rewrite F1, E. lia.
  - unfold L in *. destruct (N.eqb (crypto s) 1); fin.
Qed.

Lemma act_pad_good : forall s k eof, InvB s -> st s = PAD -> good (act_pad s k eof).
Proof.
  intros s k eof I E. unfold InvB in I. rewrite E in I. destruct I as (I1 & I2 & I3).
  unfold act_pad. destruct (rpos s =? 0) eqn:R0.
  - apply Nat.eqb_eq in R0. apply act_pad2_good; auto; lia.
  - set (d := if inc s then 2 else 0) in *.
    assert (D : d <= 2) by (subst d; destruct (inc s); lia).
    clearbody d.
    fillcase (rpos s + d) s k eof s1 k1 b.
    destruct b.
    + specialize (F9 eq_refl). unfold L in *.
      apply act_pad2_good; prj; auto; unfold L; prj; rewrite ?skipn_len; try lia; congruence.
    + unfold L in *. fin. rewrite F1, E. lia.
Qed.

Lemma act_ia_good : forall s k eof, InvB s -> st s = IA -> good (act_ia s k eof).
Proof.
  intros s k eof I E. unfold InvB in I. rewrite E in I. destruct I as (I1 & I2 & I3).
  unfold act_ia. destruct (0 <? lenia s).
  - fillcase (lenia s) s k eof s1 k1 b. destruct b.
    + specialize (F9 eq_refl). unfold L in *. dm; [exact Logic.I|]. destruct (N.eqb (crypto s1) 1); fin.
    + unfold L in *. fin. rewrite F1, E. lia.
  - unfold L in *. dm; [exact Logic.I|]. destruct (N.eqb (crypto s) 1); fin.
Qed.

Lemma act_info_good : forall s k eof, InvB s -> st s = INFO -> good (act_info s k eof).
Proof.
  intros s k eof I E. unfold InvB in I. rewrite E in I. destruct I as (I1 & I2).
  unfold act_info. fillcase HSIZE s k eof s1 k1 b.
  unfold L in *.
  dm; [exact Logic.I|].
  destruct (remaining s1 <? PART1) eqn:C.
  { fin. rewrite F1, E. lia. }
  apply Nat.ltb_ge in C.
  repeat dm; try exact Logic.I; fin.
Qed.

Lemma act_peer_good : forall s k eof, InvB s -> st s = PEER -> good (act_peer s k eof).
Proof.
  intros s k eof I E. unfold InvB in I. rewrite E in I. destruct I as (I1 & I2).
  unfold act_peer. fillcase 20 s k eof s1 k1 b. destruct b.
  - specialize (F9 eq_refl). unfold L in *. dm; [exact Logic.I|]. destruct (extp (consume 20 s1)); fin.
  - unfold L in *. fin. rewrite F1, E. lia.
Qed.

Lemma after_msg_good : forall s k, pos s + L s <= 1254 -> good (after_msg s k).
Proof. intros. unfold after_msg. unfold L in *. dm; fin. Qed.

Lemma act_message_good : forall bfb s k eof, InvB s -> st s = MESSAGE -> good (act_message bfb s k eof).
Proof.
  intros bfb s k eof I E. unfold InvB in I. rewrite E in I. unfold L in I.
  unfold act_message.
  set (s0 := if BUF - endp s <? 5 then move_unused s else s).
  assert (H0 : st s0 = MESSAGE /\ pos s0 + length (buf s0) <= 1254 /\ (length (buf s0) < 5 -> pos s0 + 5 <= 1254)).
  { subst s0. destruct (BUF - endp s <? 5) eqn:C.
    - prj. repeat split; auto; lia.
    - apply Nat.ltb_ge in C. prj. consts. repeat split; auto; lia. }
  destruct H0 as (H0a & H0b & H0c). clearbody s0.
  pose proof (fill_spec 5 s0 k eof) as FS.
  destruct (fill 5 s0 k eof) as [s1 k1 b | ? | ?]; [ | exact Logic.I | ].
  2: { unfold fill in *. exfalso. revert FS. consts. unfold L in *. intros.
       (* FOver only when remaining < 5 and reserved_left < need *) lia. }
  destruct FS as (F1 & F2 & F3 & F4 & F5 & F6 & F7 & F8 & F9 & F10). unfold L in *.
  assert (B1 : pos s1 + length (buf s1) <= 1254) by lia.
  dm; [solve [fin; rewrite ?F1, ?H0a; lia]|].
  dm; [solve [fin; rewrite ?F1, ?H0a; lia]|].
  repeat dm; try exact Logic.I; solve [fin; rewrite ?F1, ?H0a; lia].
Qed.

Lemma act_bitfield_good : forall bfb s k eof, InvB s -> st s = BITFIELD -> good (act_bitfield bfb s k eof).
Proof.
  intros bfb s k eof I E. unfold InvB in I. rewrite E in I.
  unfold act_bitfield. destruct (rpos s <? bfb).
  - destruct (rd (bfb - rpos s) k eof) as [[c k1]|]; [|exact Logic.I].
    dm.
    + apply after_msg_good. unfold L in *. prj. lia.
    + unfold L in *. fin. rewrite E. lia.
  - apply after_msg_good. auto.
Qed.

(* shared by read_extension / read_port *)
Lemma over_fill : forall Ln s k eof, pos s + L s <= 1254 ->
  let s0 := if over Ln s then move_unused s else s in
  over Ln s0 = false ->
  st s0 = st s /\ pos s0 + L s0 <= 1254 /\
  match fill (Ln + 4) s0 k eof with
  | FOk s1 k1 b => st s1 = st s /\ pos s1 + L s1 <= 1254 /\ (b = true -> Ln + 4 <= L s1)
  | FNet _ => True
  | FOver _ => False
  end.
Proof.
  intros Ln s k eof B s0 O.
  assert (H0 : st s0 = st s /\ pos s0 + L s0 <= 1254).
  { subst s0. destruct (over Ln s); unfold L in *; prj; split; auto; lia. }
  destruct H0 as [H0a H0b]. split; auto. split; auto.
  unfold over in O. apply Nat.ltb_ge in O. unfold endp, remaining in O. revert O. consts. intro O.
  pose proof (fill_spec (Ln + 4) s0 k eof) as FS.
  destruct (fill (Ln + 4) s0 k eof) as [s1 k1 b | ? | ?]; auto.
  - destruct FS as (F1 & F2 & F3 & F4 & F5 & F6 & F7 & F8 & F9 & F10). unfold L in *.
    repeat split; try congruence; try lia. exact F9.
  - revert FS. consts. unfold L in *. lia.
Qed.

Lemma act_ext_good : forall s k eof, InvB s -> st s = EXT -> good (act_ext s k eof).
Proof.
  intros s k eof I E. unfold InvB in I. rewrite E in I.
  unfold act_ext.
  set (Lv := be (firstn 4 (vals s)) 0).
  destruct (N.of_nat BUF <? Lv)%N; [exact Logic.I|].
  set (Ln := N.to_nat Lv). clearbody Ln.
  pose proof (over_fill Ln s k eof I) as OF. cbv zeta in OF.
  set (s0 := if over Ln s then move_unused s else s) in *. clearbody s0.
  destruct (over Ln s0); [exact Logic.I|].
  specialize (OF eq_refl). destruct OF as (O1 & O2 & O3).
  destruct (fill (Ln + 4) s0 k eof) as [s1 k1 b | ? | ?]; [ | exact Logic.I | contradiction].
  destruct O3 as (P1 & P2 & P3).
  destruct b.
  - specialize (P3 eq_refl). dm; [exact Logic.I|].
    apply after_msg_good. unfold L in *. destruct (N.eqb (nth 5 (vals s1) 0%N) 0); prj; rewrite skipn_len; lia.
  - unfold good, InvB. rewrite P1, E. exact P2.
Qed.

Lemma act_port_good : forall s k eof, InvB s -> st s = PORT -> good (act_port s k eof).
Proof.
  intros s k eof I E. unfold InvB in I. rewrite E in I.
  unfold act_port.
  set (Lv := be (firstn 4 (vals s)) 0).
  destruct (N.of_nat BUF <? Lv)%N; [exact Logic.I|].
  set (Ln := N.to_nat Lv). clearbody Ln.
  pose proof (over_fill Ln s k eof I) as OF. cbv zeta in OF.
  set (s0 := if over Ln s then move_unused s else s) in *. clearbody s0.
  destruct (over Ln s0); [exact Logic.I|].
  specialize (OF eq_refl). destruct OF as (O1 & O2 & O3).
  destruct (fill (Ln + 4) s0 k eof) as [s1 k1 b | ? | ?]; [ | exact Logic.I | contradiction].
  destruct O3 as (P1 & P2 & P3).
  destruct b.
  - specialize (P3 eq_refl). dm; [exact Logic.I|].
    apply after_msg_good. unfold L in *. prj. rewrite skipn_len. lia.
  - unfold good, InvB. rewrite P1, E. exact P2.
Qed.

Theorem act_good : forall bfb s k eof, InvB s -> good (act bfb s k eof).
Proof.
  intros bfb s k eof I. unfold act.
  destruct (rdone s) eqn:RD.
  - exact I.
  - destruct (st s) eqn:E;
      [ unfold InvB in I; rewrite E in I; congruence
      | unfold InvB in I; rewrite E in I; congruence
      | unfold InvB in I; rewrite E in I; congruence
      | apply act_key_good | apply act_sync_good | apply act_skey_good | apply act_negot_good | apply act_pad_good
      | apply act_ia_good | apply act_info_good | apply act_peer_good | apply act_message_good | apply act_bitfield_good
      | apply act_ext_good | apply act_port_good ]; auto.
Qed.

