(* C06 — the library's own first encrypted bytes (write side of the handshake): every append to
   m_writeBuffer and every EncryptionInfo::encrypt call of handshake.cc up to the bitfield, with
   the two length expressions the code uses (bytes written / bytes encrypted).  Definitions only. *)
From Coq Require Import NArith List Bool Arith.
Import ListNotations.
From LTV.C06 Require Import ParamsProbe Model.

Record wcell := mkW { wtag : N; wenc : list nat }.
Fixpoint enc_from (j : nat) (l : list wcell) : list wcell :=
  match l with [] => [] | c :: t => mkW (wtag c) (j :: wenc c) :: enc_from (S j) t end.

Record wst := mkWS { wq : list wcell; eidx : nat; wencr : bool }.

Inductive wop :=
| WPut (tag : N) (nw ne : nat)   (* write nw bytes at end(); if is_encrypted(): encrypt(end() - ne, ne) *)
| WEncOn                         (* initialize_encrypt: set_encrypt *)
| WObf.                          (* set_obfuscated *)

Definition wstep (s : wst) (o : wop) : wst :=
  match o with
  | WPut tag nw ne =>
    let q := wq s ++ repeat (mkW tag []) nw in
    if wencr s then
      let a := length q - ne in
      mkWS (firstn a q ++ enc_from (eidx s) (skipn a q)) (eidx s + ne) true
    else mkWS q (eidx s) false
  | WEncOn => mkWS (wq s) (eidx s) true
  | WObf => mkWS (wq s) (eidx s) false
  end.
Definition wrun (ops : list wop) : wst := fold_left wstep ops (mkWS [] 0 false).

(* tags: 1 DH key, 2 pad, 3 VC, 4 crypto_select / crypto_provide and lengths, 5 BT handshake,
   6 extension handshake message, 7 bitfield header, 8 req1 / req2^req3 hashes, 10 bitfield body chunk *)
(* incoming (we are B): prepare_key_plus_pad; read_encryption_skey: initialize_encrypt, copy_vc,
   encrypt(end(), vc_length), move_end; read_encryption_negotiation: write_32 + write_16,
   encrypt(end() - 4 - 2, 4 + 2); [plaintext selected: set_obfuscated]; prepare_handshake:
   encrypt(end() - handshake_size, handshake_size); write_extension_handshake:
   encrypt(end() - len - 2 - 4, len + 2 + 4); prepare_bitfield: encrypt(end() - 5, 5);
   write_bitfield: each chunk memcpy(end(), .., n), encrypt(end(), n), move_end(n) *)
Definition send_script_in (pad xl : nat) (plain ext : bool) (chunks : list nat) : list wop :=
  [WPut 1 KEYLEN KEYLEN; WPut 2 pad pad; WEncOn; WPut 3 VCLEN VCLEN; WPut 4 (4 + 2) (4 + 2)]
  ++ (if plain then [WObf] else [])
  ++ [WPut 5 (1 + 19 + 8 + 20 + 20) HSIZE]
  ++ (if ext then [WPut 6 (4 + 1 + 1 + xl) (xl + 2 + 4)] else [])
  ++ [WPut 7 (4 + 1) 5]
  ++ map (fun n => WPut 10 n n) chunks.
(* outgoing (we are A): prepare_key_plus_pad; prepare_enc_negotiation: hashes, initialize_encrypt,
   encrypt(old_end, end() - old_end) over VC + crypto_provide + len(PadC) + len(IA), prepare_handshake
   as IA; [plaintext selected: set_obfuscated]; then as above *)
Definition send_script_out (pad xl : nat) (plain ext : bool) (chunks : list nat) : list wop :=
  [WPut 1 KEYLEN KEYLEN; WPut 2 pad pad; WPut 8 (20 + 20) (20 + 20); WEncOn;
   WPut 4 (VCLEN + 4 + 2 + 2) (VCLEN + 4 + 2 + 2); WPut 5 (1 + 19 + 8 + 20 + 20) HSIZE]
  ++ (if plain then [WObf] else [])
  ++ (if ext then [WPut 6 (4 + 1 + 1 + xl) (xl + 2 + 4)] else [])
  ++ [WPut 7 (4 + 1) 5]
  ++ map (fun n => WPut 10 n n) chunks.

(* the stream is: clear bytes, then bytes encrypted exactly once with keystream positions 0,1,2,...,
   then (only once the stream went back to plaintext) clear bytes *)
Fixpoint all_clear (l : list wcell) : bool := match l with [] => true | c :: t => (match wenc c with [] => true | _ => false end) && all_clear t end.
Fixpoint encs_ok (j : nat) (l : list wcell) : bool :=
  match l with [] => true | c :: t => (match wenc c with [i] => i =? j | _ => false end) && encs_ok (S j) t end.
