(* C06 — send_keystream_aligned *)
From Coq Require Import NArith List Bool Arith Lia.
Import ListNotations.
From LTV.C06 Require Import ParamsProbe Model ModelSend.

Definition WInv (s : wst) : Prop :=
  exists P E Q, wq s = P ++ E ++ Q /\ all_clear P = true /\ encs_ok 0 E = true /\ length E = eidx s /\
                all_clear Q = true /\ (wencr s = true -> Q = []).

Definition op_ok (o : wop) : Prop := match o with WPut _ nw ne => nw = ne | _ => True end.

Lemma all_clear_app : forall a b, all_clear (a ++ b) = all_clear a && all_clear b.
Proof. induction a; intros; simpl; auto. rewrite IHa. rewrite andb_assoc. reflexivity. Qed.
Lemma all_clear_repeat : forall t n, all_clear (repeat (mkW t []) n) = true.
Proof. induction n; simpl; auto. Qed.
Lemma encs_ok_app : forall a b j, encs_ok j (a ++ b) = encs_ok j a && encs_ok (j + length a) b.
Proof.
  induction a; intros; simpl. { rewrite Nat.add_0_r. reflexivity. }
  rewrite IHa. rewrite andb_assoc. replace (S j + length a0) with (j + S (length a0)) by lia. reflexivity.
Qed.
Lemma encs_from_fresh : forall t n j, encs_ok j (enc_from j (repeat (mkW t []) n)) = true.
Proof. induction n; intros; simpl; auto. rewrite Nat.eqb_refl. apply IHn. Qed.
Lemma enc_from_len : forall l j, length (enc_from j l) = length l.
Proof. induction l; intros; simpl; auto. Qed.

Lemma wstep_inv : forall s o, WInv s -> op_ok o -> (o = WEncOn -> eidx s = 0) -> WInv (wstep s o).
Proof.
  intros s o (P & E & Q & HQ & HP & HE & HL & HQc & HQe) OK EO. destruct o as [tag nw ne| |]; cbn [wstep].
  - cbn [op_ok] in OK. subst ne. destruct (wencr s) eqn:W.
    + specialize (HQe eq_refl). subst Q. rewrite app_nil_r in HQ.
      set (new := repeat (mkW tag []) nw).
      assert (A : length (wq s ++ new) - nw = length (wq s)) by (rewrite app_length; subst new; rewrite repeat_length; lia).
      rewrite A. rewrite firstn_app, Nat.sub_diag, firstn_all, firstn_O, app_nil_r.
      rewrite skipn_app, Nat.sub_diag, skipn_all. cbn [skipn app].
      exists P, (E ++ enc_from (eidx s) new), []. cbn [wq eidx wencr].
      rewrite HQ. rewrite <- app_assoc, app_nil_r. repeat split; auto.
      * rewrite encs_ok_app, HE. cbn [andb]. rewrite Nat.add_0_l, HL. apply encs_from_fresh.
      * rewrite app_length, enc_from_len. subst new. rewrite repeat_length. lia.
    + exists P, E, (Q ++ repeat (mkW tag []) nw). cbn [wq eidx wencr]. rewrite HQ, <- !app_assoc. repeat split; auto.
      * rewrite all_clear_app, HQc, all_clear_repeat. reflexivity.
      * intro; discriminate.
  - specialize (EO eq_refl). rewrite EO in HL. destruct E; [|discriminate].
    exists (P ++ Q), [], []. cbn [wq eidx wencr]. rewrite HQ. cbn [app]. rewrite app_nil_r. repeat split; auto.
    rewrite all_clear_app, HP, HQc. reflexivity.
  - exists P, E, Q. cbn [wq eidx wencr]. repeat split; auto. intro; discriminate.
Qed.

Definition is_put (o : wop) : Prop := match o with WPut _ _ _ => True | _ => False end.
Definition not_encon (o : wop) : Prop := match o with WEncOn => False | _ => True end.

Lemma fold_pre : forall A s, Forall op_ok A -> Forall is_put A -> WInv s -> eidx s = 0 -> wencr s = false ->
  WInv (fold_left wstep A s) /\ eidx (fold_left wstep A s) = 0 /\ wencr (fold_left wstep A s) = false.
Proof.
  induction A; intros s OK PUT I E W; cbn [fold_left]; auto.
  inversion OK; subst. inversion PUT; subst.
  destruct a as [tag nw ne| |]; try contradiction.
  apply IHA; auto; try (cbn [wstep]; rewrite W; auto; fail); try (apply wstep_inv; auto; intro X; discriminate).
Qed.

Lemma fold_post : forall B s, Forall op_ok B -> Forall not_encon B -> WInv s -> WInv (fold_left wstep B s).
Proof.
  induction B; intros s OK NE I; cbn [fold_left]; auto.
  inversion OK; subst. inversion NE; subst. apply IHB; auto.
  apply wstep_inv; auto. intro X. subst a. contradiction.
Qed.

Lemma WInv_init : WInv (mkWS [] 0 false).
Proof. exists [], [], []. cbn. repeat split; auto. Qed.

Theorem send_generic : forall A B,
  Forall op_ok A -> Forall is_put A -> Forall op_ok B -> Forall not_encon B ->
  WInv (wrun (A ++ WEncOn :: B)).
Proof.
  intros A B OA PA OB NB. unfold wrun. rewrite fold_left_app. cbn [fold_left].
  destruct (fold_pre A (mkWS [] 0 false) OA PA WInv_init eq_refl eq_refl) as (I & E & W).
  apply fold_post; auto. apply wstep_inv; auto. exact Logic.I.
Qed.

Lemma hs_len_ok : 1 + 19 + 8 + 20 + 20 = HSIZE.
Proof. vm_compute. reflexivity. Qed.

Ltac fa := repeat (first [apply Forall_nil | apply Forall_cons | apply Forall_app; split]); cbn [op_ok is_put not_encon]; auto; try lia; try exact hs_len_ok.

Lemma chunks_ok : forall chunks, Forall op_ok (map (fun n => WPut 10 n n) chunks) /\ Forall not_encon (map (fun n => WPut 10 n n) chunks).
Proof. induction chunks; cbn [map]; split; try constructor; cbn; auto; tauto. Qed.

(* send_keystream_aligned: for every length of our own pad and extension message, stream mode,
   extension support of the peer and chunking of the bitfield body, what the library has appended
   to its write buffer is: clear bytes (key, pad, hashes), then bytes encrypted EXACTLY ONCE with
   keystream positions 0,1,2,... in stream order (VC, crypto_select / crypto_provide and lengths,
   IA / BT handshake, extension handshake, bitfield header and body), then - only in
   plaintext-stream mode, after set_obfuscated - clear bytes again. *)
Theorem send_keystream_aligned : forall pad xl plain ext chunks,
  WInv (wrun (send_script_in pad xl plain ext chunks)) /\ WInv (wrun (send_script_out pad xl plain ext chunks)).
Proof.
  intros. destruct (chunks_ok chunks) as [C1 C2]. split.
  - change (send_script_in pad xl plain ext chunks) with
      ([WPut 1 KEYLEN KEYLEN; WPut 2 pad pad] ++ WEncOn ::
       ([WPut 3 VCLEN VCLEN; WPut 4 (4 + 2) (4 + 2)] ++ (if plain then [WObf] else []) ++ [WPut 5 (1 + 19 + 8 + 20 + 20) HSIZE]
        ++ (if ext then [WPut 6 (4 + 1 + 1 + xl) (xl + 2 + 4)] else []) ++ [WPut 7 (4 + 1) 5] ++ map (fun n => WPut 10 n n) chunks)).
    apply send_generic; destruct plain; destruct ext; fa.
  - change (send_script_out pad xl plain ext chunks) with
      ([WPut 1 KEYLEN KEYLEN; WPut 2 pad pad; WPut 8 (20 + 20) (20 + 20)] ++ WEncOn ::
       ([WPut 4 (VCLEN + 4 + 2 + 2) (VCLEN + 4 + 2 + 2); WPut 5 (1 + 19 + 8 + 20 + 20) HSIZE] ++ (if plain then [WObf] else [])
        ++ (if ext then [WPut 6 (4 + 1 + 1 + xl) (xl + 2 + 4)] else []) ++ [WPut 7 (4 + 1) 5] ++ map (fun n => WPut 10 n n) chunks)).
    apply send_generic; destruct plain; destruct ext; fa.
Qed.

(* a wrong length in one encrypt call is visible: the checker is not vacuous *)
Example send_misaligned_detected :
  let s := wrun [WPut 1 96 96; WEncOn; WPut 3 8 8; WPut 4 6 5] in
  encs_ok 0 (skipn 96 (wq s)) = false.
Proof. vm_compute. reflexivity. Qed.

Example send_aligned_example :
  let s := wrun (send_script_in 3 10 false true [2; 1]) in
  eidx s = 8 + 6 + 68 + 16 + 5 + 3 /\ encs_ok 0 (skipn (96 + 3) (wq s)) = true.
Proof. vm_compute. split; reflexivity. Qed.
