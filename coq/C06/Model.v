(* C06 — executable model of the handshake decision points and of the read state machine of
   src/protocol/handshake.cc (Handshake::event_read and the read_* functions it calls),
   EncryptionPolicy, HandshakeManager::receive_failed (retry) and the unread-data transfer of
   HandshakeManager::receive_succeeded.  Definitions only.

   Bytes are SYMBOLIC cells: DH, SHA-1 and RC4 are not computed.  A cell records how the sender
   produced the byte (clear / RC4 with keystream index i / opaque / part of a hash) and which
   keystream indices the receiver has applied to it so far; the value seen by the parser is the
   plaintext iff the two agree (Dolev-Yao style).  Buffer positions are [nat] indices into
   ProtocolBuffer<1254>; the model keeps the live window [pos, pos + length buf). *)
From Coq Require Import NArith List Bool Arith.
Import ListNotations.
From LTV.C06 Require Import ParamsProbe.

Definition BUF := Params.c06_buffer_size.
Definition PADMAX := Params.c06_enc_pad_size.
Definition PADREAD := Params.c06_enc_pad_read_size.
Definition KEYLEN := Params.c06_dh_key_length.
Definition NEGO := Params.c06_enc_negotiation_size.
Definition HSIZE := Params.c06_handshake_size.
Definition PART1 := Params.c06_part1_size.
Definition VCLEN := Params.c06_vc_length.
Definition PCBBUF := Params.c06_pcb_read_buffer.

Definition params_ok : bool :=
  (BUF =? 1254) && (PADMAX =? 512) && (PADREAD =? 628) && (KEYLEN =? 96) && (NEGO =? 14) &&
  (HSIZE =? 68) && (PART1 =? 48) && (VCLEN =? 8) && (PCBBUF =? 512) &&
  (BUF =? PADREAD + 20 + NEGO + PADMAX + 2 + HSIZE + Params.c06_read_message_size) &&
  (N.eqb Params.c06_ext_first_invalid 3) && (N.eqb Params.c06_ext_max_len 32768) &&
  (length Params.c06_dh_prime =? 96).

(* ---------------------------------------------------------------- EncryptionPolicy *)
Inductive mode := Deny | Allow | Prefer | Require.
Record policy := mkPolicy { hs_mode : mode; st_mode : mode; retrying : bool; retry_mode : mode }.
(* retry_mode: Allow = nothing set, Prefer = set_retry_disabled, Deny = set_retry_plaintext,
   Require = set_retry_encrypted  (encryption_policy.h) *)
Definition mode_eqb (a b : mode) : bool :=
  match a, b with Deny, Deny | Allow, Allow | Prefer, Prefer | Require, Require => true | _, _ => false end.
Definition allow_plain_hs p := negb (mode_eqb (hs_mode p) Require).
Definition allow_enc_hs p := negb (mode_eqb (hs_mode p) Deny).
Definition prefer_enc_hs p := mode_eqb (hs_mode p) Prefer || mode_eqb (hs_mode p) Require.
Definition require_enc_hs p := mode_eqb (hs_mode p) Require.
Definition allow_plain_stream p := negb (mode_eqb (st_mode p) Require).
Definition allow_enc_stream p := negb (mode_eqb (st_mode p) Deny).
Definition prefer_enc_stream p := mode_eqb (st_mode p) Prefer || mode_eqb (st_mode p) Require.
Definition require_plain_stream p := mode_eqb (st_mode p) Deny.
Definition require_enc_stream p := mode_eqb (st_mode p) Require.
Definition policy_valid p := negb (mode_eqb (hs_mode p) Deny && mode_eqb (st_mode p) Require).
Definition set_retry (p : policy) (m : mode) := mkPolicy (hs_mode p) (st_mode p) (retrying p) m.

(* Handshake::prepare_enc_negotiation: crypto_provide; None = internal_error("invalid policy") *)
Definition crypto_provide p : option N :=
  if allow_plain_stream p && allow_enc_stream p then Some 3%N
  else if allow_plain_stream p then Some 1%N
  else if allow_enc_stream p then Some 2%N else None.

(* Handshake::read_encryption_negotiation, incoming: selected_mode lambda. inl = handshake_error *)
Definition select_mode p (provide : N) : (N * N) + N :=
  let hp := N.testbit provide 0 in let he := N.testbit provide 1 in
  if hp && he then (if prefer_enc_stream p then inr 2%N else inr 1%N)
  else if hp then (if negb (allow_plain_stream p) then inl (7, 7)%N else inr 1%N)
  else if he then (if negb (allow_enc_stream p) then inl (7, 8)%N else inr 2%N)
  else inl (7, 8)%N.

(* HandshakeManager::receive_failed *)
Inductive rres := RNone | RRetry (p : policy) | RThrow.
Definition retry_policy (incoming : bool) (p : policy) : rres :=
  if incoming then RNone else
  match retry_mode p with
  | Deny => if mode_eqb (st_mode p) Require then RThrow   (* EncryptionPolicy(DENY, REQUIRE): validate_modes throws internal_error *)
            else RRetry (mkPolicy Deny (st_mode p) true Allow)
  | Require => RRetry (mkPolicy Require (st_mode p) true Allow)
  | _ => RNone
  end.

(* ---------------------------------------------------------------- symbolic bytes *)
Inductive kind :=
| Clr (v : N)              (* sent in clear, value v *)
| Enc (i : nat) (v : N)    (* sent RC4-encrypted with the sender's keystream index i (after the 1024 discard) *)
| Opq                      (* opaque junk (pad): matches no pattern *)
| KeyB (ok : bool)         (* byte of a DH public key; ok = false: a key DH_compute_key rejects *)
| Rq1 (k : nat)            (* k-th byte of HASH('req1', S) *)
| Skh (k : nat) (t : N).   (* k-th byte of HASH('req2', SKEY_t) xor HASH('req3', S) *)
Record cell := mkCell { ck : kind; dec : list nat }.
Definition garbage : N := 999%N.
Definition cval (c : cell) : N :=
  match ck c, dec c with
  | Clr v, [] => v
  | Enc i v, [j] => if i =? j then v else garbage
  | _, _ => garbage
  end.
(* a cell whose treatment by the receiver is right: clear data never decrypted, encrypted data
   decrypted exactly once with the sender's index *)
Definition cell_ok (c : cell) : bool :=
  match ck c, dec c with
  | Enc i _, [j] => i =? j
  | Enc _ _, _ => false
  | _, [] => true
  | _, _ => false
  end.
Fixpoint dec_from (j : nat) (l : list cell) : list cell :=
  match l with [] => [] | c :: t => mkCell (ck c) (j :: dec c) :: dec_from (S j) t end.

Fixpoint be (l : list N) (acc : N) : N := match l with [] => acc | v :: t => be t (acc * 256 + v)%N end.
Fixpoint list_eqb (a b : list N) : bool :=
  match a, b with [], [] => true | x :: a', y :: b' => N.eqb x y && list_eqb a' b' | _, _ => false end.

Definition bt_name : list N := [66;105;116;84;111;114;114;101;110;116;32;112;114;111;116;111;99;111;108]%N.
Definition bt_prefix : list N := 19%N :: bt_name.
(* torrent kinds: 1 active, 2 known but inactive, 3 unknown, 4 a second active torrent *)
Definition hash_of (t : N) : list N := repeat (160 + t)%N 20.
Definition own_id : list N := repeat 177%N 20.
Definition lookup_hash (h : list N) : option N :=
  if list_eqb h (hash_of 1) then Some 1%N else if list_eqb h (hash_of 2) then Some 2%N
  else if list_eqb h (hash_of 4) then Some 4%N else None.
Definition is_active (t : N) : bool := N.eqb t 1 || N.eqb t 4.

Fixpoint skey_go (l : list cell) (k : nat) (t : N) : bool :=
  match l with [] => true
  | c :: r => match ck c, dec c with Skh k' t', [] => (k' =? k) && N.eqb t' t && skey_go r (S k) t | _, _ => false end end.
Definition skey_lookup (l : list cell) : option N :=
  match l with
  | c :: _ => match ck c with
              | Skh _ t => if skey_go l 0 t && (length l =? 20) && (N.eqb t 1 || N.eqb t 2 || N.eqb t 4) then Some t else None
              | _ => None end
  | [] => None end.

Definition is_clr (c : cell) := match ck c with Clr _ => true | _ => false end.
Definition key_bad (c : cell) := match ck c with KeyB false => true | _ => false end.
(* DiffieHellman::compute_secret: OpenSSL rejects Y <= 1 and Y >= p - 1 *)
Definition key_valid (l : list cell) : bool :=
  if forallb is_clr l then
    let y := be (map cval l) 0 in let p := be Params.c06_dh_prime 0 in (1 <? y)%N && (y <? p - 1)%N
  else negb (existsb key_bad l).

(* sync patterns: incoming HASH('req1',S) (20 bytes); outgoing ENCRYPT_B(VC) (8 bytes) *)
Fixpoint sync_in (l : list cell) (k n : nat) : bool :=
  match n with O => true | S n' =>
    match l with c :: r => (match ck c, dec c with Rq1 k', [] => k' =? k | _, _ => false end) && sync_in r (S k) n' | [] => false end end.
Fixpoint sync_out (l : list cell) (k n : nat) : bool :=
  match n with O => true | S n' =>
    match l with c :: r => (match ck c, dec c with Enc i v, [] => (i =? k) && N.eqb v 0 | _, _ => false end) && sync_out r (S k) n' | [] => false end end.
Definition sync_at (incoming : bool) (l : list cell) : bool := if incoming then sync_in l 0 20 else sync_out l 0 8.
Fixpoint find_sync (incoming : bool) (l : list cell) (o : nat) : option nat :=
  match l with [] => None | _ :: t => if sync_at incoming l then Some o else find_sync incoming t (S o) end.

(* ---------------------------------------------------------------- handshake state *)
Inductive hstate := INACTIVE | CONNECTING | POSTHS | KEY | SYNC | SKEY | NEGOT | PAD | IA | INFO | PEER | MESSAGE | BITFIELD | EXT | PORT.
Definition st_num (s : hstate) : nat :=   (* enum Handshake::State *)
  match s with INACTIVE => 0 | CONNECTING => 1 | POSTHS => 2 | KEY => 6 | SYNC => 7 | SKEY => 8 | NEGOT => 9 | PAD => 10
             | IA => 11 | INFO => 12 | PEER => 13 | MESSAGE => 14 | BITFIELD => 15 | EXT => 16 | PORT => 17 end.
Definition st_eqb (a b : hstate) : bool := st_num a =? st_num b.

Inductive wev := WKeyPad | WVC | WSelect (n : N) | WProvide (n : N) | WHs (enc : bool) | WExt (enc : bool).

Record hst := mkH {
  st : hstate; pos : nat; buf : list cell; rpos : nat;     (* m_state, m_readBuffer window, m_readPos *)
  inc : bool; pol : policy; crypto : N; lenia : nat;
  dvalid : bool; didx : nat; encr : bool;                  (* EncryptionInfo: decrypt valid, next decrypt index, is_encrypted *)
  dl : option N; extp : bool; exti : bool; bfe : bool;     (* m_download, peer supports ext, is_initial_handshake, m_bitfield.empty() *)
  recog : bool; aok : bool; wlog : list wev;               (* ghost: peer key/handshake recognised; all consumed cells cell_ok; writes *)
  wint : bool; wbf : bool; rdone : bool;                   (* in the poll's write set; m_writePos == bitfield size; m_readDone *)
  nread : nat; dstart : nat }.                             (* ghost: bytes read from the socket so far; stream offset of the first decrypted byte *)

Definition remaining s := length (buf s).
Definition endp s := pos s + length (buf s).

Definition set_st s x := mkH x (pos s) (buf s) (rpos s) (inc s) (pol s) (crypto s) (lenia s) (dvalid s) (didx s) (encr s) (dl s) (extp s) (exti s) (bfe s) (recog s) (aok s) (wlog s) (wint s) (wbf s) (rdone s) (nread s) (dstart s).
Definition set_win s p b := mkH (st s) p b (rpos s) (inc s) (pol s) (crypto s) (lenia s) (dvalid s) (didx s) (encr s) (dl s) (extp s) (exti s) (bfe s) (recog s) (aok s) (wlog s) (wint s) (wbf s) (rdone s) (nread s) (dstart s).
Definition set_rpos s x := mkH (st s) (pos s) (buf s) x (inc s) (pol s) (crypto s) (lenia s) (dvalid s) (didx s) (encr s) (dl s) (extp s) (exti s) (bfe s) (recog s) (aok s) (wlog s) (wint s) (wbf s) (rdone s) (nread s) (dstart s).
Definition set_crypto s x := mkH (st s) (pos s) (buf s) (rpos s) (inc s) (pol s) x (lenia s) (dvalid s) (didx s) (encr s) (dl s) (extp s) (exti s) (bfe s) (recog s) (aok s) (wlog s) (wint s) (wbf s) (rdone s) (nread s) (dstart s).
Definition set_lenia s x := mkH (st s) (pos s) (buf s) (rpos s) (inc s) (pol s) (crypto s) x (dvalid s) (didx s) (encr s) (dl s) (extp s) (exti s) (bfe s) (recog s) (aok s) (wlog s) (wint s) (wbf s) (rdone s) (nread s) (dstart s).
Definition set_dec s v i e := mkH (st s) (pos s) (buf s) (rpos s) (inc s) (pol s) (crypto s) (lenia s) v i e (dl s) (extp s) (exti s) (bfe s) (recog s) (aok s) (wlog s) (wint s) (wbf s) (rdone s) (nread s) (dstart s).
Definition set_dl s x := mkH (st s) (pos s) (buf s) (rpos s) (inc s) (pol s) (crypto s) (lenia s) (dvalid s) (didx s) (encr s) x (extp s) (exti s) (bfe s) (recog s) (aok s) (wlog s) (wint s) (wbf s) (rdone s) (nread s) (dstart s).
Definition set_extp s x := mkH (st s) (pos s) (buf s) (rpos s) (inc s) (pol s) (crypto s) (lenia s) (dvalid s) (didx s) (encr s) (dl s) x (exti s) (bfe s) (recog s) (aok s) (wlog s) (wint s) (wbf s) (rdone s) (nread s) (dstart s).
Definition set_exti s x := mkH (st s) (pos s) (buf s) (rpos s) (inc s) (pol s) (crypto s) (lenia s) (dvalid s) (didx s) (encr s) (dl s) (extp s) x (bfe s) (recog s) (aok s) (wlog s) (wint s) (wbf s) (rdone s) (nread s) (dstart s).
Definition set_bfe s x := mkH (st s) (pos s) (buf s) (rpos s) (inc s) (pol s) (crypto s) (lenia s) (dvalid s) (didx s) (encr s) (dl s) (extp s) (exti s) x (recog s) (aok s) (wlog s) (wint s) (wbf s) (rdone s) (nread s) (dstart s).
Definition set_aok s x := mkH (st s) (pos s) (buf s) (rpos s) (inc s) (pol s) (crypto s) (lenia s) (dvalid s) (didx s) (encr s) (dl s) (extp s) (exti s) (bfe s) (recog s) x (wlog s) (wint s) (wbf s) (rdone s) (nread s) (dstart s).
Definition add_w s w := mkH (st s) (pos s) (buf s) (rpos s) (inc s) (pol s) (crypto s) (lenia s) (dvalid s) (didx s) (encr s) (dl s) (extp s) (exti s) (bfe s) (recog s) (aok s) (wlog s ++ [w]) (wint s) (wbf s) (rdone s) (nread s) (dstart s).
(* policy().set_retry_disabled() at the two recognition points; the ghost flag is set with it *)
Definition mark_recog s := mkH (st s) (pos s) (buf s) (rpos s) (inc s) (set_retry (pol s) Prefer) (crypto s) (lenia s) (dvalid s) (didx s) (encr s) (dl s) (extp s) (exti s) (bfe s) true (aok s) (wlog s) (wint s) (wbf s) (rdone s) (nread s) (dstart s).

Definition set_w s i b r := mkH (st s) (pos s) (buf s) (rpos s) (inc s) (pol s) (crypto s) (lenia s) (dvalid s) (didx s) (encr s) (dl s) (extp s) (exti s) (bfe s) (recog s) (aok s) (wlog s) i b r (nread s) (dstart s).

Definition set_ghost s n d := mkH (st s) (pos s) (buf s) (rpos s) (inc s) (pol s) (crypto s) (lenia s) (dvalid s) (didx s) (encr s) (dl s) (extp s) (exti s) (bfe s) (recog s) (aok s) (wlog s) (wint s) (wbf s) (rdone s) n d.
(* bytes arriving from the socket *)
Definition add_cells s (c : list cell) := mkH (st s) (pos s) (buf s ++ c) (rpos s) (inc s) (pol s) (crypto s) (lenia s) (dvalid s) (didx s) (encr s) (dl s) (extp s) (exti s) (bfe s) (recog s) (aok s) (wlog s) (wint s) (wbf s) (rdone s) (nread s + length c) (dstart s).
(* initialize_decrypt: the cipher starts at the byte now at position() *)
Definition start_dec s (e : bool) := mkH (st s) (pos s) (buf s) (rpos s) (inc s) (pol s) (crypto s) (lenia s) true 0 e (dl s) (extp s) (exti s) (bfe s) (recog s) (aok s) (wlog s) (wint s) (wbf s) (rdone s) (nread s) (nread s - length (buf s)).
(* EncryptionInfo::decrypt(position + a, n) *)
Definition dec_range s (a n : nat) :=
  let b := buf s in
  let mid := firstn n (skipn a b) in
  set_dec (set_win s (pos s) (firstn a b ++ dec_from (didx s) mid ++ skipn (a + n) b)) (dvalid s) (didx s + length mid) (encr s).
Definition consume (n : nat) s := set_aok (set_win s (pos s + n) (skipn n (buf s))) (aok s && forallb cell_ok (firstn n (buf s))).
Definition move_unused s := set_win s 0 (buf s).
Definition set_obf s := set_dec s false (didx s) false.    (* EncryptionInfo::set_obfuscated *)

(* socket: k = bytes available now, eof = peer has closed behind them.
   None = read_stream_throws raised close_connection *)
Definition rd (n : nat) (k : list cell) (eof : bool) : option (list cell * list cell) :=
  match k with [] => if eof then None else Some ([], []) | _ => Some (firstn n k, skipn n k) end.

Inductive fres := FOk (s : hst) (k : list cell) (full : bool) | FNet (s : hst) | FOver (s : hst).
(* Handshake::fill_read_buffer *)
Definition fill (size : nat) s k eof : fres :=
  if remaining s <? size then
    if BUF - endp s <? size - remaining s then FOver s
    else match rd (size - remaining s) k eof with
         | None => FNet s
         | Some (c, k') =>
             let s1 := add_cells s c in
             let s2 := if dvalid s then dec_range s1 (remaining s) (length c) else s1 in
             FOk s2 k' (size <=? remaining s2)
         end
  else FOk s k true.

Inductive aout :=
| ANext (s : hst) (k : list cell)      (* read_X returned true: continue the switch at the new state *)
| ABrk (s : hst) (k : list cell)       (* break: wait for more data *)
| AThr (s : hst) (ty err : N)          (* handshake_error / network_error -> receive_failed *)
| AInt (s : hst)                       (* internal_error *)
| ASuc (s : hst) (k : list cell).      (* read_done(); writes complete -> handshake_succeeded *)

Definition vals s := map cval (buf s).

Definition act_key s k eof : aout :=
  match (if inc s && (remaining s <? 20) then rd (20 - remaining s) k eof else Some ([], k)) with
  | None => AThr s 7 15
  | Some (c1, k1) =>
    let s1 := add_cells s c1 in
    if inc s && (remaining s1 <? 20) then ABrk s1 k1
    else if inc s && list_eqb (firstn 20 (vals s1)) bt_prefix then
      (if require_enc_hs (pol s1) then AThr s1 6 7 else ANext (set_st s1 INFO) k1)
    else
      match (if remaining s1 <? PADREAD then rd (PADREAD - remaining s1) k1 eof else Some ([], k1)) with
      | None => AThr s1 7 15
      | Some (c2, k2) =>
        let s2 := add_cells s1 c2 in
        if endp s2 <? KEYLEN then ABrk s2 k2
        else
          let s3 := mark_recog s2 in
          let s4 := if inc s then add_w s3 WKeyPad else s3 in
          if negb (key_valid (firstn KEYLEN (buf s4))) then AThr s4 7 8
          else
            let s5 := consume KEYLEN s4 in
            if inc s then ANext (set_st s5 SYNC) k2
            else match crypto_provide (pol s5) with
                 | None => AInt s5
                 | Some p => ANext (set_st (add_w (add_w s5 (WProvide p)) (WHs true)) SYNC) k2
                 end
      end
  end.

Definition sync_found s k (o : nat) : aout :=
  if inc s then ANext (set_st (consume (o + 20) s) SKEY) k else ANext (set_st (consume o s) NEGOT) k.

Definition act_sync s k eof : aout :=
  let L := if inc s then 20 else 8 in
  match find_sync (inc s) (buf s) 0 with
  | Some o => sync_found s k o
  | None =>
    if PADMAX + L <=? remaining s then AThr s 7 9
    else match rd (PADMAX + L - remaining s) k eof with
         | None => AThr s 7 15
         | Some (c, k') =>
           let s1 := add_cells s c in
           match find_sync (inc s) (buf s1) 0 with None => ABrk s1 k' | Some o => sync_found s1 k' o end
         end
  end.

Definition act_skey s k eof : aout :=
  match fill 20 s k eof with
  | FOver s' => AInt s' | FNet s' => AThr s' 7 15
  | FOk s1 k1 false => ABrk s1 k1
  | FOk s1 k1 true =>
    let d := skey_lookup (firstn 20 (buf s1)) in
    let s2 := set_dl (consume 20 s1) d in
    match d with
    | None => AThr s2 6 2
    | Some t =>
      if is_active t then
        let s3 := start_dec s2 true in
        let s4 := dec_range s3 0 (remaining s3) in
        ANext (set_st (add_w s4 WVC) NEGOT) k1
      else AThr s2 6 3
    end
  end.

Definition act_negot s k eof : aout :=
  match fill NEGO s k eof with
  | FOver s' => AInt s' | FNet s' => AThr s' 7 15
  | FOk s1 k1 false => ABrk s1 k1
  | FOk s1 k1 true =>
    let s2 := if inc s then s1 else dec_range (start_dec s1 (encr s1)) 0 NEGO in
    let v := firstn NEGO (vals s2) in
    if negb (forallb (N.eqb 0) (firstn VCLEN v)) then AThr s2 7 6
    else
      let cr := be (firstn 4 (skipn 8 v)) 0 in
      let pl := be (firstn 2 (skipn 12 v)) 0 in
      let s3 := set_crypto (consume NEGO s2) cr in
      if (N.of_nat PADMAX <? pl)%N then AThr s3 7 6
      else
        let s4 := set_rpos s3 (N.to_nat pl) in
        if inc s then
          match select_mode (pol s4) cr with
          | inl (ty, err) => AThr s4 ty err
          | inr sel => ANext (set_st (add_w (set_crypto s4 sel) (WSelect sel)) PAD) k1
          end
        else if N.eqb cr 1 then
          (if require_enc_stream (pol s4) then AThr s4 7 7
           else ANext (set_st (dec_range s4 0 (Nat.min (rpos s4) (remaining s4))) PAD) k1)
        else if N.eqb cr 2 then
          (if require_plain_stream (pol s4) then AThr s4 7 8
           else ANext (set_st (dec_range s4 0 (remaining s4)) PAD) k1)
        else AThr s4 7 8
  end.

(* Handshake::read_negotiation_reply *)
Definition act_pad2 s k eof : aout :=
  if inc s then
    match fill 2 s k eof with
    | FOver s' => AInt s' | FNet s' => AThr s' 7 15
    | FOk s1 k1 false => ABrk s1 k1
    | FOk s1 k1 true =>
      let ia := be (firstn 2 (vals s1)) 0 in
      let s2 := set_lenia (consume 2 s1) (N.to_nat ia) in
      if (N.of_nat HSIZE <? ia)%N then AThr s2 7 6 else ANext (set_st s2 IA) k1
    end
  else ANext (set_st (if N.eqb (crypto s) 1 then set_obf s else s) INFO) k.

Definition act_pad s k eof : aout :=
  if rpos s =? 0 then act_pad2 s k eof
  else match fill (rpos s + (if inc s then 2 else 0)) s k eof with
       | FOver s' => AInt s' | FNet s' => AThr s' 7 15
       | FOk s1 k1 false => ABrk s1 k1
       | FOk s1 k1 true => act_pad2 (set_rpos (consume (rpos s1) s1) 0) k1 eof
       end.

Definition act_ia s k eof : aout :=
  match (if 0 <? lenia s then fill (lenia s) s k eof else FOk s k true) with
  | FOver s' => AInt s' | FNet s' => AThr s' 7 15
  | FOk s1 k1 false => ABrk s1 k1
  | FOk s1 k1 true =>
    if lenia s1 <? remaining s1 then AThr s1 7 6
    else ANext (set_st (if N.eqb (crypto s1) 1 then set_obf s1 else s1) INFO) k1
  end.

Definition act_info s k eof : aout :=
  match fill HSIZE s k eof with
  | FOver s' => AInt s' | FNet s' => AThr s' 7 15
  | FOk s1 k1 _ =>
    let v := vals s1 in
    if ((1 <=? remaining s1) && negb (N.eqb (nth 0 v 0%N) 19)) ||
       ((20 <=? remaining s1) && negb (list_eqb (firstn 19 (skipn 1 v)) bt_name)) then AThr s1 7 0
    else if remaining s1 <? PART1 then ABrk s1 k1
    else
      let opts := firstn 8 (skipn 20 v) in
      let hash := firstn 20 (skipn 28 v) in
      let s2 := set_extp (consume 28 s1) (N.testbit (nth 5 opts 0%N) 4) in
      if inc s then
        match dl s2 with
        | Some t =>
          if negb (list_eqb hash (hash_of t)) then AThr s2 7 6
          else if negb (is_active t) then AThr s2 6 3
          else ANext (set_st (consume 20 (add_w s2 (WHs (encr s2)))) PEER) k1
        | None =>
          match lookup_hash hash with
          | None => AThr s2 6 2
          | Some t =>
            let s3 := set_dl s2 (Some t) in
            if negb (is_active t) then AThr s3 6 3
            else ANext (set_st (consume 20 (add_w s3 (WHs (encr s3)))) PEER) k1
          end
        end
      else
        let s3 := mark_recog s2 in
        if negb (list_eqb hash (hash_of (match dl s3 with Some t => t | None => 0%N end))) then AThr s3 7 6
        else ANext (set_st (consume 20 s3) PEER) k1
  end.

Definition act_peer s k eof : aout :=
  match fill 20 s k eof with
  | FOver s' => AInt s' | FNet s' => AThr s' 7 15
  | FOk s1 k1 false => ABrk s1 k1
  | FOk s1 k1 true =>
    if list_eqb (firstn 20 (vals s1)) own_id then AThr s1 7 5
    else
      let s2 := consume 20 s1 in
      (* prepare_bitfield (the local bitfield is not empty: m_writePos = 0) and insert_write *)
      ANext (set_st (set_w (if extp s2 then add_w s2 (WExt (encr s2)) else s2) true false false) MESSAGE) k1
  end.

(* tail of the READ_BITFIELD/READ_EXT/READ_PORT case group *)
Definition after_msg s k : aout :=
  let s1 := set_st s MESSAGE in
  if negb (bfe s1) && (negb (extp s1) || negb (exti s1)) then ASuc s1 k else ANext s1 k.

Definition act_message (bfb : nat) s k eof : aout :=
  let s0 := if BUF - endp s <? 5 then move_unused s else s in
  match fill 5 s0 k eof with
  | FOver s' => AInt s' | FNet s' => AThr s' 7 15
  | FOk s1 k1 _ =>
    let v := vals s1 in
    if (4 <=? remaining s1) && N.eqb (be (firstn 4 v) 0) 0 then ASuc (consume 4 s1) k1
    else if remaining s1 <? 5 then ABrk s1 k1
    else
      let s2 := set_rpos s1 0 in
      let t := nth 4 v 0%N in
      if N.eqb t 5 then
        (if negb (bfe s2) || negb (N.eqb (be (firstn 4 v) 0) (N.of_nat (bfb + 1))) then AThr s2 7 6
         else
           let s3 := consume 5 s2 in
           let n := Nat.min bfb (remaining s3) in
           ANext (set_st (set_rpos (set_bfe (consume n s3) false) n) BITFIELD) k1)
      else if N.eqb t 20 && exti s2 then ANext (set_st s2 EXT) k1
      else if N.eqb t 9 then ANext (set_st s2 PORT) k1
      else ASuc s2 k1
  end.

(* Handshake::read_bitfield: the rest of the bitfield goes from the socket straight into m_bitfield *)
Definition act_bitfield (bfb : nat) s k eof : aout :=
  if rpos s <? bfb then
    match rd (bfb - rpos s) k eof with
    | None => AThr s 7 15
    | Some (c, k1) =>
      let c' := if dvalid s then dec_from (didx s) c else c in
      let s1 := set_ghost (set_dec s (dvalid s) (if dvalid s then didx s + length c else didx s) (encr s)) (nread s + length c) (dstart s) in
      let s2 := set_rpos (set_aok s1 (aok s1 && forallb cell_ok c')) (rpos s + length c) in
      if rpos s2 =? bfb then after_msg s2 k1 else ABrk s2 k1
    end
  else after_msg s k.

(* shared front of read_extension / read_port *)
Definition over (Ln : nat) s := BUF - endp s + remaining s <? Ln + 9.

Definition act_ext s k eof : aout :=
  let L := be (firstn 4 (vals s)) 0 in
  if (N.of_nat BUF <? L)%N then AThr s 7 6
  else
    let Ln := N.to_nat L in
    let s0 := if over Ln s then move_unused s else s in
    if over Ln s0 then AThr s0 7 6
    else match fill (Ln + 4) s0 k eof with
         | FOver s' => AInt s' | FNet s' => AThr s' 7 15
         | FOk s1 k1 false => ABrk s1 k1
         | FOk s1 k1 true =>
           let ty := nth 5 (vals s1) 0%N in
           if (Ln <? 2) || negb (extp s1) || (Params.c06_ext_first_invalid <=? ty)%N || (Params.c06_ext_max_len <? L - 2)%N
           then AThr s1 7 15          (* ProtocolExtension::read_start: communication_error *)
           else
             let s2 := consume (Ln + 4) s1 in
             after_msg (if N.eqb ty 0 then set_exti s2 false else s2) k1
         end.

Definition act_port s k eof : aout :=
  let L := be (firstn 4 (vals s)) 0 in
  if (N.of_nat BUF <? L)%N then AThr s 7 6
  else
    let Ln := N.to_nat L in
    let s0 := if over Ln s then move_unused s else s in
    if over Ln s0 then AThr s0 7 6
    else match fill (Ln + 4) s0 k eof with
         | FOver s' => AInt s' | FNet s' => AThr s' 7 15
         | FOk s1 k1 false => ABrk s1 k1
         | FOk s1 k1 true => if Ln <? 1 then AThr s1 7 6 else after_msg (consume (Ln + 4) s1) k1
         end.

Definition act (bfb : nat) s k eof : aout :=
  if rdone s then ABrk s k else      (* read_done() removed the handshake from the read set *)
  match st s with
  | KEY => act_key s k eof | SYNC => act_sync s k eof | SKEY => act_skey s k eof
  | NEGOT => act_negot s k eof | PAD => act_pad s k eof | IA => act_ia s k eof
  | INFO => act_info s k eof | PEER => act_peer s k eof
  | MESSAGE => act_message bfb s k eof | BITFIELD => act_bitfield bfb s k eof
  | EXT => act_ext s k eof | PORT => act_port s k eof
  | _ => AInt s      (* "Handshake::event_read() called in invalid state." *)
  end.

Inductive out :=
| Cont (s : hst) (k : list cell)
| Done (s : hst) (k : list cell)       (* receive_succeeded: buf s = unread data pushed into the connection *)
| Failed (s : hst) (ty err : N)        (* receive_failed: this handshake destroyed *)
| Crash (s : hst)                      (* internal_error escapes *)
| OutOfFuel.

(* Handshake::event_write as far as it matters for the read side: the socket is writable and takes
   everything. Called by the poll after event_read returned, when the handshake is in the write set
   (from read_peer on). States READ_MESSAGE/READ_BITFIELD/READ_EXT write the buffered data and the
   (and READ_PORT since /repo 9304f5c) bitfield (write_bitfield) and then leave the write set until
   reading is done; any other state only flushes the buffer and leaves the write set. *)
Definition ewrite s : hst :=
  if wint s then
    match st s with
    | MESSAGE | BITFIELD | EXT | PORT => set_w s false true (rdone s)
    | _ => set_w s false (wbf s) (rdone s)
    end
  else s.

Fixpoint event_read (fuel : nat) (bfb : nat) s k eof : out :=
  match fuel with
  | O => OutOfFuel
  | S f =>
    match act bfb s k eof with
    | ANext s' k' => event_read f bfb s' k' eof
    | ABrk s' k' => Cont (ewrite s') k'
    | AThr s' t e => Failed s' t e
    | AInt s' => Crash s'
    | ASuc s' k' =>
      (* read_done(): succeeds at once if the bitfield is out (prepare_post_handshake -> write_done),
         or in the event_write that follows if the handshake is still in the write set; otherwise
         nothing will ever call it again (until the 120 s timeout) *)
      if wbf s' || wint s' then
        (if PCBBUF <? remaining s' then Crash s' else Done s' k')   (* receive_succeeded *)
      else Cont (set_w s' false false true) k'
    end
  end.
Definition rank (x : hstate) : nat :=
  match x with KEY => 20 | SYNC => 19 | SKEY => 18 | NEGOT => 17 | PAD => 16 | IA => 15 | INFO => 14 | PEER => 13
             | BITFIELD => 3 | MESSAGE => 1 | _ => 0 end.
Definition measure s (k : list cell) := 2 * (remaining s + length k) + rank (st s).
Definition fuel_of s (k : list cell) := S (measure s k).

(* one segment arriving: level-triggered poll calls event_read while data is left and something moves *)
Fixpoint pump (n : nat) (bfb : nat) s k : out :=
  match n with
  | O => OutOfFuel
  | S n' =>
    match event_read (fuel_of s k) bfb s k false with
    | Cont s' k' =>
      if negb (match k' with [] => true | _ => false end) && ((length k' <? length k) || negb (st_eqb (st s') (st s)))
      then pump n' bfb s' k' else Cont s' k'
    | o => o
    end
  end.
Definition feed (bfb : nat) s (k : list cell) : out :=
  match k with [] => Cont s [] | _ => pump (S (measure s k + length k)) bfb s k end.
Definition feed_close (bfb : nat) s (k : list cell) : out := event_read (fuel_of s k) bfb s k true.

Definition init_in (p : policy) : hst :=
  mkH (if allow_enc_hs p then KEY else INFO) 0 [] 0 true p 0 0 false 0 false None false true true false true [] false false false 0 0.
(* Handshake::event_write, case CONNECTING (socket connected, no proxy) *)
Definition init_out (p : policy) : hst :=
  if prefer_enc_hs p then
    mkH KEY 0 [] 0 false (if negb (retrying p) && allow_plain_hs p && allow_plain_stream p then set_retry p Deny else p)
        0 0 false 0 false (Some 1%N) false true true false true [WKeyPad] false false false 0 0
  else
    mkH INFO 0 [] 0 false (if negb (retrying p) && allow_enc_hs p then set_retry p Require else p)
        0 0 false 0 false (Some 1%N) false true true false true [WHs false] false false false 0 0.

(* ---------------------------------------------------------------- a protocol-following remote peer *)
Definition clr (l : list N) : list cell := map (fun v => mkCell (Clr v) []) l.
Fixpoint encs (i : nat) (l : list N) : list cell :=
  match l with [] => [] | v :: t => mkCell (Enc i v) [] :: encs (S i) t end.
Definition opq (n : nat) : list cell := repeat (mkCell Opq []) n.
Definition keyc : list cell := repeat (mkCell (KeyB true) []) 96.
Definition rq1c : list cell := map (fun k => mkCell (Rq1 k) []) (seq 0 20).
Definition skhc (t : N) : list cell := map (fun k => mkCell (Skh k t) []) (seq 0 20).
Definition other_id : list N := repeat 178%N 20.
Definition hs_bytes (t : N) (own : bool) (ext : bool) : list N :=
  bt_prefix ++ [0;0;0;0;0;(if ext then 16 else 0);0;0]%N ++ hash_of t ++ (if own then own_id else other_id).
Definition be2 (n : nat) : list N := [N.of_nat (n / 256); N.of_nat (n mod 256)].
Definition be4 (v : N) : list N := [0;0;0;v]%N.
Definition vc8 : list N := repeat 0%N 8.
Definition trail : list N := [0;0;0;1;2; 0;0;0;5;4;0;0;0;1]%N.    (* interested, have 1 *)
Definition modec (sel : N) (i : nat) (l : list N) : list cell := if N.eqb sel 2 then encs i l else clr l.

Inductive offer := OPlain | OMse (p : N).
Inductive nres :=
| NSucc (hsenc : bool) (m : N) (attempts : nat) (aligned : bool) (unread : nat)
| NFail (attempts : nat) | NCrash | NFuel | NStuck.

Fixpoint find_sel (l : list wev) : option N := match l with [] => None | WSelect n :: _ => Some n | _ :: t => find_sel t end.
Fixpoint find_prov (l : list wev) : option N := match l with [] => None | WProvide n :: _ => Some n | _ :: t => find_prov t end.

(* all consumed cells were treated right, the unread ones too, and the cipher state handed to the
   connection continues where the sender continues *)
Definition aligned_final (s : hst) (k : list cell) : bool :=
  aok s && forallb cell_ok (buf s) &&
  (if N.eqb (crypto s) 2 then dvalid s && match k with [] => true | c :: _ => match ck c with Enc i _ => i =? didx s | _ => false end end
   else negb (dvalid s) && forallb is_clr k).

Definition finish (hsenc : bool) (attempts : nat) (o : out) : nres :=
  match o with
  | Done s k => NSucc hsenc (if hsenc then crypto s else 1%N) attempts (aligned_final s k) (remaining s)
  | Failed _ _ _ => NFail attempts | Crash _ => NCrash | OutOfFuel => NFuel | Cont _ _ => NStuck
  end.

(* split a stream into segments of at most [chunk] cells (chunk = 0: one segment) *)
Fixpoint chunks (fuel chunk : nat) (l : list cell) : list (list cell) :=
  match fuel with O => [l] | S f =>
    match l with [] => [] | _ => if (chunk =? 0) || (length l <=? chunk) then [l] else firstn chunk l :: chunks f chunk (skipn chunk l) end end.
Fixpoint feed_all (bfb : nat) (o : out) (segs : list (list cell)) : out :=
  match segs with [] => o | g :: r =>
    match o with Cont s k => feed_all bfb (feed bfb s (k ++ g)) r | _ => o end end.
Definition feed_stream (bfb chunk : nat) (s : hst) (l : list cell) : out :=
  feed_all bfb (Cont s []) (chunks (length l) chunk l).

Definition bfb0 : nat := 3.

Definition run_in (pol0 : policy) (o : offer) (padA padC : nat) (ia : bool) (chunk : nat) : nres :=
  let s0 := init_in pol0 in
  match o with
  | OPlain => finish false 1 (feed_stream bfb0 chunk s0 (clr (hs_bytes 1 false false ++ trail)))
  | OMse p =>
    match feed_stream bfb0 chunk s0 (keyc ++ opq padA) with
    | Cont s1 k1 =>
      let n2 := 8 + 4 + 2 + padC + 2 + (if ia then 68 else 0) in
      let part2 := rq1c ++ skhc 1 ++ encs 0 (vc8 ++ be4 p ++ be2 padC ++ repeat 0%N padC ++ be2 (if ia then 68 else 0)
                                            ++ (if ia then hs_bytes 1 false false else [])) in
      match feed_stream bfb0 chunk s1 (k1 ++ part2) with
      | Cont s2 k2 =>
        match find_sel (wlog s2) with
        | None => NStuck
        | Some sel => finish true 1 (feed_stream bfb0 chunk s2 (k2 ++ modec sel n2 ((if ia then [] else hs_bytes 1 false false) ++ trail)))
        end
      | o2 => finish true 1 o2
      end
    | o1 => finish true 1 o1
    end
  end.

(* responder: selects RC4 when it may, else plaintext; None: nothing in common, it closes *)
Definition choose (p provide : N) : option N :=
  if N.testbit p 1 && N.testbit provide 1 then Some 2%N
  else if N.testbit p 0 && N.testbit provide 0 then Some 1%N else None.

Definition attempt_out (pol1 : policy) (o : offer) (padB padD : nat) (chunk : nat) : out * bool :=
  let s0 := init_out pol1 in
  let mse := match wlog s0 with WKeyPad :: _ => true | _ => false end in
  match o, mse with
  | OPlain, false => (feed_stream bfb0 chunk s0 (clr (hs_bytes 1 false false ++ trail)), false)
  | OPlain, true => (feed_close bfb0 s0 [], true)
  | OMse _, false => (feed_close bfb0 s0 [], false)
  | OMse p, true =>
    match feed_stream bfb0 chunk s0 (keyc ++ opq padB) with
    | Cont s1 k1 =>
      match find_prov (wlog s1) with
      | None => (Cont s1 k1, true)
      | Some pr =>
        match choose p pr with
        | None => (feed_close bfb0 s1 k1, true)
        | Some sel =>
          (feed_stream bfb0 chunk s1 (k1 ++ encs 0 (vc8 ++ be4 sel ++ be2 padD ++ repeat 0%N padD)
                                          ++ modec sel (14 + padD) (hs_bytes 1 false false ++ trail)), true)
        end
      end
    | o1 => (o1, true)
    end
  end.

Definition out_pol (o : out) : option policy :=
  match o with Failed s _ _ => Some (pol s) | _ => None end.

Definition run_out (pol0 : policy) (o : offer) (padB padD : nat) (chunk : nat) : nres :=
  match attempt_out pol0 o padB padD chunk with
  | (Failed s _ _, _) =>
    match retry_policy false (pol s) with
    | RNone => NFail 1
    | RThrow => NCrash
    | RRetry p2 =>
      match attempt_out p2 o padB padD chunk with
      | (Failed s2 _ _, _) => match retry_policy false (pol s2) with RNone => NFail 2 | _ => NFail 3 end
      | (o2, e2) => finish e2 2 o2
      end
    end
  | (o1, e1) => finish e1 1 o1
  end.

Definition negotiate (incoming : bool) (pol0 : policy) (o : offer) (pad1 pad2 : nat) (ia : bool) (chunk : nat) : nres :=
  if incoming then run_in pol0 o pad1 pad2 ia chunk else run_out pol0 o pad1 pad2 chunk.

(* ---------------------------------------------------------------- declarative negotiation spec *)
(* connection types: (encrypted handshake?, stream mode 1 plaintext / 2 RC4); a plain handshake
   always gives a plaintext stream.  strict = the stream policy also governs plain handshakes. *)
Definition local_allows (strict : bool) (p : policy) (hsenc : bool) (m : N) : bool :=
  if hsenc then allow_enc_hs p && (if N.eqb m 2 then allow_enc_stream p else allow_plain_stream p)
  else N.eqb m 1 && allow_plain_hs p && (negb strict || allow_plain_stream p).
Definition remote_allows (o : offer) (hsenc : bool) (m : N) : bool :=
  match o with OPlain => negb hsenc && N.eqb m 1 | OMse p => hsenc && N.testbit p (m - 1) end.
Definition conn_types : list (bool * N) := [(false, 1%N); (true, 1%N); (true, 2%N)].
Definition both_allow strict p o (t : bool * N) := local_allows strict p (fst t) (snd t) && remote_allows o (fst t) (snd t).
Definition compatible strict p o : bool := existsb (both_allow strict p o) conn_types.
(* preference when both MSE stream modes are mutually allowed: incoming, the local policy
   decides; outgoing, the responder does (the modelled peer prefers RC4) *)
Definition preferred (incoming : bool) (p : policy) : N := if incoming then (if prefer_enc_stream p then 2%N else 1%N) else 2%N.
Definition spec_ok (strict incoming : bool) (p : policy) (o : offer) (r : nres) : bool :=
  match r with
  | NSucc h m att al unread =>
    compatible strict p o && both_allow strict p o (h, m) && al && (unread <=? PCBBUF) &&
    (if both_allow strict p o (true, 1%N) && both_allow strict p o (true, 2%N) then N.eqb m (preferred incoming p) else true) &&
    (att <=? 2) && (incoming && (att =? 1) || negb incoming)
  | NFail att => negb (compatible strict p o) && (att <=? 2)
  | _ => false
  end.

Definition all_modes := [Deny; Allow; Prefer; Require].
Definition all_policies : list policy :=
  filter policy_valid (flat_map (fun h => map (fun s => mkPolicy h s false Allow) all_modes) all_modes).
Definition all_offers : list offer := [OPlain; OMse 1; OMse 2; OMse 3]%N.
