(* C06 — finite-domain theorems (negotiation table, retry table, alignment matrix) *)
From Coq Require Import NArith List Bool Arith Lia.
Import ListNotations.
From LTV.C06 Require Import ParamsProbe Model.

Lemma params_ok_now : params_ok = true.
Proof. vm_compute. reflexivity. Qed.

(* ---------------------------------------------------------------- negotiation table *)
Definition pads2 : list nat := [0; 512].
Definition pads5 : list nat := [0; 1; 255; 511; 512].
Definition bools : list bool := [false; true].

(* Since /repo 3196365 an outgoing MSE attempt under (prefer, require) is not retried in plaintext
   (the retry policy DENY/REQUIRE is invalid), so a plain-only remote is not reached although an
   incoming plain handshake is accepted under the same policy: the one cell where the code's own
   reading of the policy ("stream mode governs MSE streams only") says compatible and the dial fails. *)
Definition noretry_cell (incoming : bool) (p : policy) (o : offer) : bool :=
  negb incoming && mode_eqb (hs_mode p) Prefer && mode_eqb (st_mode p) Require && match o with OPlain => true | _ => false end.

Definition table_row (strict : bool) (p : policy) : bool :=
  forallb (fun incoming => forallb (fun o =>
    noretry_cell incoming p o ||
    forallb (fun pa => forallb (fun pb => forallb (fun ia =>
      spec_ok strict incoming p o (negotiate incoming p o pa pb ia 0)) bools) pads5) pads5) all_offers) bools.

Lemma table_all : forallb (table_row false) all_policies = true.
Proof. vm_compute. reflexivity. Qed.

Lemma negotiation_table :
  forall incoming p o pa pb ia,
    In p all_policies -> In o all_offers -> In pa pads5 -> In pb pads5 ->
    noretry_cell incoming p o = false ->
    spec_ok false incoming p o (negotiate incoming p o pa pb ia 0) = true.
Proof.
  intros incoming p o pa pb ia Hp Ho Hpa Hpb Hc.
  pose proof table_all as T. rewrite forallb_forall in T. specialize (T p Hp).
  unfold table_row in T. rewrite forallb_forall in T.
  assert (Hi : In incoming bools) by (destruct incoming; simpl; auto).
  specialize (T incoming Hi). rewrite forallb_forall in T. specialize (T o Ho).
  rewrite Hc in T. rewrite orb_false_l in T.
  rewrite forallb_forall in T. specialize (T pa Hpa).
  rewrite forallb_forall in T. specialize (T pb Hpb).
  rewrite forallb_forall in T. apply T. destruct ia; simpl; auto.
Qed.

Example negotiation_table_nonvacuous :
  In (mkPolicy Prefer Prefer false Allow) all_policies /\ In (OMse 3) all_offers /\
  negotiate true (mkPolicy Prefer Prefer false Allow) (OMse 3) 512 512 true 0 = NSucc true 2 1 true 5.
Proof. vm_compute. repeat split; auto 20. Qed.

Lemma noretry_all : forallb (fun pa => forallb (fun pb =>
  match negotiate false (mkPolicy Prefer Require false Allow) OPlain pa pb false 0 with NFail 1 => true | _ => false end) pads5) pads5 = true.
Proof. vm_compute. reflexivity. Qed.

Lemma noretry_cell_fails_cleanly :
  forall pa pb, In pa pads5 -> In pb pads5 -> negotiate false (mkPolicy Prefer Require false Allow) OPlain pa pb false 0 = NFail 1.
Proof.
  intros pa pb Ha Hb. pose proof noretry_all as T. rewrite forallb_forall in T. specialize (T pa Ha).
  rewrite forallb_forall in T. specialize (T pb Hb).
  destruct (negotiate false (mkPolicy Prefer Require false Allow) OPlain pa pb false 0) as [| [|[|]] | | |]; try discriminate. reflexivity.
Qed.

(* strict reading (stream policy also governs plain handshakes): false of the faithful model *)
Lemma strict_stream_policy_refuted :
  exists incoming p o, In p all_policies /\ In o all_offers /\
    spec_ok true incoming p o (negotiate incoming p o 0 0 false 0) = false /\
    negotiate incoming p o 0 0 false 0 = NSucc false 1 1 true 5 /\ allow_plain_stream p = false.
Proof. exists true, (mkPolicy Allow Require false Allow), OPlain. vm_compute. repeat split; auto 20. Qed.

(* ---------------------------------------------------------------- keystream alignment over the matrix *)
Definition aligned_of (r : nres) : bool :=
  match r with NSucc _ _ _ al u => al && (u <=? PCBBUF) | NFail _ => true | NCrash => true | _ => false end.

Definition align_row (chunk : nat) (p : policy) : bool :=
  forallb (fun incoming => forallb (fun o =>
    forallb (fun pa => forallb (fun pb => forallb (fun ia =>
      aligned_of (negotiate incoming p o pa pb ia chunk)) bools) pads5) pads5) all_offers) bools.

Lemma align_whole : forallb (align_row 0) all_policies = true.
Proof. vm_compute. reflexivity. Qed.

Lemma keystream_aligned_partial :
  forall incoming p o pa pb ia,
    In p all_policies -> In o all_offers -> In pa pads5 -> In pb pads5 ->
    aligned_of (negotiate incoming p o pa pb ia 0) = true.
Proof.
  intros incoming p o pa pb ia Hp Ho Hpa Hpb.
  pose proof align_whole as T. rewrite forallb_forall in T. specialize (T p Hp).
  unfold align_row in T. rewrite forallb_forall in T.
  assert (Hi : In incoming bools) by (destruct incoming; simpl; auto).
  specialize (T incoming Hi). rewrite forallb_forall in T. specialize (T o Ho).
  rewrite forallb_forall in T. specialize (T pa Hpa).
  rewrite forallb_forall in T. specialize (T pb Hpb).
  rewrite forallb_forall in T. apply T. destruct ia; simpl; auto.
Qed.

(* ---------------------------------------------------------------- retry rule *)
Lemma retry_policy_spec : forall p p',
  retry_policy false p = RRetry p' ->
  retrying p' = true /\ retry_mode p' = Allow /\ st_mode p' = st_mode p /\
  ((retry_mode p = Deny /\ hs_mode p' = Deny) \/ (retry_mode p = Require /\ hs_mode p' = Require)).
Proof.
  intros p p' H. unfold retry_policy in H.
  destruct (retry_mode p) eqn:R; try discriminate.
  - destruct (mode_eqb (st_mode p) Require); try discriminate. inversion H; subst; cbn. auto 10.
  - inversion H; subst; cbn. auto 10.
Qed.

Lemma retry_policy_incoming : forall p, retry_policy true p = RNone.
Proof. reflexivity. Qed.

(* an outgoing attempt that the peer closes at failure point fp:
   0 = before the peer's key (MSE: 50 of 96 bytes; plain: 20 of the 48 bytes of part 1) was recognised,
   1 = right after it (96 key bytes; the 48 bytes up to and including the info hash) *)
Definition closed_attempt (p : policy) (fp : nat) : out :=
  let s0 := init_out p in
  let mse := match wlog s0 with WKeyPad :: _ => true | _ => false end in
  let stream := if mse then firstn (if fp =? 0 then 50 else 96) keyc
                else clr (firstn (if fp =? 0 then 20 else 48) (hs_bytes 1 false false)) in
  match feed bfb0 s0 stream with
  | Cont s1 k1 => feed_close bfb0 s1 k1
  | o => o
  end.

Definition first_is_mse (p : policy) : bool := prefer_enc_hs p.
Definition retry_flag (p : policy) : bool := if first_is_mse p then allow_plain_hs p && allow_plain_stream p else allow_enc_hs p.

Definition retry_cell (p : policy) (fp : nat) : bool :=
  match closed_attempt p fp with
  | Failed s _ _ =>
    match retry_policy false (pol s) with
    | RRetry p2 =>
      (* retried: only when the flag was set and nothing was recognised; flipped type; never again *)
      retry_flag p && (fp =? 0) && retrying p2 && negb (Bool.eqb (first_is_mse p2) (first_is_mse p)) &&
      mode_eqb (st_mode p2) (st_mode p) &&
      forallb (fun fp2 => match closed_attempt p2 fp2 with
                          | Failed s2 _ _ => match retry_policy false (pol s2) with RNone => true | _ => false end
                          | _ => false end) [0; 1]
    | RNone => negb (retry_flag p && (fp =? 0))
    | RThrow => false
    end
  | _ => false
  end.

Lemma retry_all : forallb (fun p => forallb (retry_cell p) [0; 1]) all_policies = true.
Proof. vm_compute. reflexivity. Qed.

Lemma retry_rule_partial : forall p fp, In p all_policies -> In fp [0; 1] -> retry_cell p fp = true.
Proof.
  intros p fp Hp Hf. pose proof retry_all as T. rewrite forallb_forall in T. specialize (T p Hp).
  rewrite forallb_forall in T. apply T. exact Hf.
Qed.

Example retry_rule_nonvacuous :
  exists s t e p2, closed_attempt (mkPolicy Prefer Allow false Allow) 0 = Failed s t e /\
                   retry_policy false (pol s) = RRetry p2 /\ hs_mode p2 = Deny.
Proof. vm_compute. repeat eexists. Qed.
