(* C06 — finite-domain theorems (negotiation table, retry table, alignment matrix) *)
From Coq Require Import NArith List Bool Arith Lia.
Import ListNotations.
From LTV.C06 Require Import ParamsGen Model.

Lemma params_ok_now : params_ok = true.
Proof. vm_compute. reflexivity. Qed.

(* ---------------------------------------------------------------- negotiation table *)
Definition pads2 : list nat := [0; 512].
Definition pads5 : list nat := [0; 1; 255; 511; 512].
Definition bools : list bool := [false; true].

(* the one cell of the table where the faithful model raises internal_error *)
Definition crash_cell (incoming : bool) (p : policy) (o : offer) : bool :=
  negb incoming && mode_eqb (hs_mode p) Prefer && mode_eqb (st_mode p) Require && match o with OPlain => true | _ => false end.

Definition table_row (strict : bool) (p : policy) : bool :=
  forallb (fun incoming => forallb (fun o =>
    crash_cell incoming p o ||
    forallb (fun pa => forallb (fun pb => forallb (fun ia =>
      spec_ok strict incoming p o (negotiate incoming p o pa pb ia 0)) bools) pads2) pads2) all_offers) bools.

Lemma table_all : forallb (table_row false) all_policies = true.
Proof. vm_compute. reflexivity. Qed.

Lemma negotiation_table :
  forall incoming p o pa pb ia,
    In p all_policies -> In o all_offers -> In pa pads2 -> In pb pads2 ->
    crash_cell incoming p o = false ->
    spec_ok false incoming p o (negotiate incoming p o pa pb ia 0) = true.
Proof.
  intros incoming p o pa pb ia Hp Ho Hpa Hpb Hc.
  pose proof table_all as T. rewrite forallb_forall in T. specialize (T p Hp).
  unfold table_row in T. rewrite forallb_forall in T.
  assert (Hi : In incoming bools) by (destruct incoming; simpl; auto).
  specialize (T incoming Hi). rewrite forallb_forall in T. specialize (T o Ho).
  rewrite Hc in T. rewrite orb_false_l in T.
  rewrite forallb_forall in T. specialize (T pa Hpa).
  rewrite forallb_forall in T. specialize (T pb Hpb).
  rewrite forallb_forall in T. apply T. destruct ia; simpl; auto.
Qed.

Example negotiation_table_nonvacuous :
  In (mkPolicy Prefer Prefer false Allow) all_policies /\ In (OMse 3) all_offers /\
  negotiate true (mkPolicy Prefer Prefer false Allow) (OMse 3) 512 512 true 0 = NSucc true 2 1 true 5.
Proof. vm_compute. repeat split; auto 20. Qed.

(* the faithful model (and the code) raise internal_error in the excluded cell *)
Lemma retry_internal_error_refuted :
  exists p o, In p all_policies /\ In o all_offers /\ compatible false p o = true /\
              negotiate false p o 0 0 false 0 = NCrash.
Proof. exists (mkPolicy Prefer Require false Allow), OPlain. vm_compute. repeat split; auto 20. Qed.

(* strict reading (stream policy also governs plain handshakes): false of the faithful model *)
Lemma strict_stream_policy_refuted :
  exists incoming p o, In p all_policies /\ In o all_offers /\ crash_cell incoming p o = false /\
    spec_ok true incoming p o (negotiate incoming p o 0 0 false 0) = false /\
    negotiate incoming p o 0 0 false 0 = NSucc false 1 1 true 5 /\ allow_plain_stream p = false.
Proof. exists true, (mkPolicy Allow Require false Allow), OPlain. vm_compute. repeat split; auto 20. Qed.

(* ---------------------------------------------------------------- keystream alignment over the matrix *)
Definition aligned_of (r : nres) : bool :=
  match r with NSucc _ _ _ al u => al && (u <=? PCBBUF) | NFail _ => true | NCrash => true | _ => false end.

Definition align_row (chunk : nat) (p : policy) : bool :=
  forallb (fun incoming => forallb (fun o =>
    forallb (fun pa => forallb (fun pb => forallb (fun ia =>
      aligned_of (negotiate incoming p o pa pb ia chunk)) bools) pads5) pads5) all_offers) bools.

Lemma align_whole : forallb (align_row 0) all_policies = true.
Proof. vm_compute. reflexivity. Qed.

Lemma keystream_aligned_partial :
  forall incoming p o pa pb ia,
    In p all_policies -> In o all_offers -> In pa pads5 -> In pb pads5 ->
    aligned_of (negotiate incoming p o pa pb ia 0) = true.
Proof.
  intros incoming p o pa pb ia Hp Ho Hpa Hpb.
  pose proof align_whole as T. rewrite forallb_forall in T. specialize (T p Hp).
  unfold align_row in T. rewrite forallb_forall in T.
  assert (Hi : In incoming bools) by (destruct incoming; simpl; auto).
  specialize (T incoming Hi). rewrite forallb_forall in T. specialize (T o Ho).
  rewrite forallb_forall in T. specialize (T pa Hpa).
  rewrite forallb_forall in T. specialize (T pb Hpb).
  rewrite forallb_forall in T. apply T. destruct ia; simpl; auto.
Qed.
