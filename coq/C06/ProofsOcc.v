(* C06 — occupancy bounds (unread data at success), write-flag invariant and the termination
   measure of the read state machine, for every input, segmentation and close timing. *)
From Coq Require Import NArith List Bool Arith Lia.
Import ListNotations.
From LTV.C06 Require Import ParamsProbe Model ProofsInv.

Definition Lmsg (s : hst) := N.to_nat (be (firstn 4 (vals s)) 0).
Definition wflag (s : hst) := wint s || wbf s.

Definition InvL (s : hst) : Prop :=
  match st s with
  | KEY => L s <= 628 /\ (inc s = true -> 20 <= L s -> list_eqb (firstn 20 (vals s)) bt_prefix = false)
  | SYNC | SKEY | NEGOT => L s <= 532
  | PAD => L s <= 518 /\ rpos s <= 512
  | IA => L s <= 518 /\ lenia s <= 68
  | INFO => L s <= 518
  | PEER => L s <= 470
  | MESSAGE | BITFIELD => L s <= 450 /\ wflag s = true
  | EXT | PORT => 5 <= L s /\ (L s <= 450 \/ L s < Lmsg s + 4) /\ wflag s = true
  | _ => True
  end.

Definition good2 (s : hst) (k : list cell) (a : aout) : Prop :=
  match a with
  | ANext s' k' => InvL s' /\ measure s' k' < measure s k /\ length k' <= length k
  | ABrk s' k' => InvL s' /\ st s' = st s /\ measure s' k' <= measure s k /\ length k' <= length k
  | ASuc s' k' => L s' <= 450 /\ wflag s' = true
  | AThr _ _ _ => True
  | AInt _ => True
  end.

Ltac prj2 :=
  unfold L, remaining, endp, wflag, vals in *;
  cbn [st pos buf rpos lenia rdone inc wint wbf dvalid didx
       consume move_unused set_obf add_cells set_st set_win set_rpos set_crypto set_lenia set_dec set_dl set_extp set_exti
       set_bfe set_aok add_w mark_recog set_w set_ghost start_dec] in *.

Lemma dr_wint : forall s a n, wint (dec_range s a n) = wint s. Proof. reflexivity. Qed.
Lemma dr_wbf : forall s a n, wbf (dec_range s a n) = wbf s. Proof. reflexivity. Qed.

Lemma firstn_app_le : forall (A : Type) n (l1 l2 : list A), n <= length l1 -> firstn n (l1 ++ l2) = firstn n l1.
Proof. intros. rewrite firstn_app. replace (n - length l1) with 0 by lia. rewrite firstn_O, app_nil_r. reflexivity. Qed.

(* a fill only appends to the window *)
Lemma fill_app : forall size s k eof s1 k1 b,
  fill size s k eof = FOk s1 k1 b ->
  exists X, buf s1 = buf s ++ X /\ length X + length k1 = length k /\
            wint s1 = wint s /\ wbf s1 = wbf s.
Proof.
  intros size s k eof s1 k1 b H. unfold fill in H.
  destruct (remaining s <? size).
  - destruct (BUF - endp s <? size - remaining s); [discriminate|].
    destruct (rd (size - remaining s) k eof) as [[c k']|] eqn:R; [|discriminate].
    apply rd_len in R. destruct R as [_ R].
    destruct (dvalid s); inversion H; subst; clear H.
    + unfold dec_range, remaining. cbn [buf add_cells set_win set_dec wint wbf didx].
      rewrite firstn_app, Nat.sub_diag, firstn_all, firstn_O, app_nil_r.
      eexists. split; [reflexivity|]. split; auto.
      rewrite app_length, dec_from_len, firstn_length, !skipn_length, app_length. lia.
    + cbn [buf add_cells wint wbf]. eexists. split; [reflexivity|]. auto.
  - inversion H; subst. exists []. rewrite app_nil_r. auto.
Qed.

Lemma rd_opt_len2 : forall (b : bool) n k eof c k',
  (if b then rd n k eof else Some ([], k)) = Some (c, k') ->
  length c + length k' = length k /\ (b = false -> c = []) /\ (b = true -> length c <= n).
Proof.
  intros. destruct b.
  - apply rd_len in H. repeat split; try lia; intro; discriminate.
  - inversion H; subst. repeat split; auto; intro; discriminate.
Qed.

Lemma act_key_good2 : forall s k eof, InvL s -> st s = KEY -> good2 s k (act_key s k eof).
Proof.
  intros s k eof I E. unfold InvL in I. rewrite E in I. destruct I as [L0 PF]. unfold L in *.
  unfold act_key.
  destruct (if inc s && (remaining s <? 20) then rd (20 - remaining s) k eof else Some ([], k)) as [[c1 k1]|] eqn:R1; [|exact Logic.I].
  apply rd_opt_len2 in R1. destruct R1 as (R1a & R1b & R1c).
  assert (B1 : length (buf s) + length c1 <= 628 /\ (inc s && (remaining s <? 20) = true -> length (buf s) + length c1 <= 20)).
  { destruct (inc s && (remaining s <? 20)) eqn:C.
    - apply andb_true_iff in C. destruct C as [_ C]. apply Nat.ltb_lt in C. unfold remaining in *. specialize (R1c eq_refl). lia.
    - rewrite (R1b eq_refl). simpl. split; [lia | discriminate]. }
  destruct B1 as [B1 B1'].
  destruct (inc s && (remaining (add_cells s c1) <? 20)) eqn:C1.
  { unfold good2, InvL, measure. prj2. rewrite E. rewrite app_length. repeat split; try lia.
    intros _ H20. apply andb_true_iff in C1. destruct C1 as [_ C1]. apply Nat.ltb_lt in C1. rewrite app_length in C1. lia. }
  destruct (inc s && list_eqb (firstn 20 (vals (add_cells s c1))) bt_prefix) eqn:C2.
  { destruct (require_enc_hs (pol (add_cells s c1))); [exact Logic.I|].
    apply andb_true_iff in C2. destruct C2 as [INC C2].
    assert (length (buf s) + length c1 <= 20).
    { destruct (remaining s <? 20) eqn:C.
      - apply B1'. rewrite INC. reflexivity.
      - exfalso. apply Nat.ltb_ge in C. unfold remaining in C.
        rewrite (R1b ltac:(rewrite INC; reflexivity)) in C2. unfold vals in *. cbn [buf add_cells] in C2. rewrite app_nil_r in C2.
        rewrite (PF INC C) in C2. discriminate. }
    unfold good2, InvL, measure. prj2. rewrite E. cbn [rank]. rewrite app_length. repeat split; lia. }
  destruct (if remaining (add_cells s c1) <? PADREAD then rd (PADREAD - remaining (add_cells s c1)) k1 eof else Some ([], k1)) as [[c2 k2]|] eqn:R2; [|exact Logic.I].
  apply rd_opt_len2 in R2. destruct R2 as (R2a & R2b & R2c).
  assert (B2 : length (buf s) + length c1 + length c2 <= 628).
  { destruct (remaining (add_cells s c1) <? PADREAD) eqn:C.
    - apply Nat.ltb_lt in C. specialize (R2c eq_refl). prj2. rewrite app_length in *. consts. lia.
    - rewrite (R2b eq_refl). simpl. lia. }
  destruct (endp (add_cells (add_cells s c1) c2) <? KEYLEN) eqn:C3.
  { unfold good2, InvL, measure. prj2. rewrite E. rewrite !app_length. repeat split; try lia.
    intros INC H20. rewrite INC in *. cbn [andb] in C1, C2.
    apply Nat.ltb_ge in C1. rewrite app_length in C1.
    rewrite map_app. rewrite firstn_app_le; [exact C2|]. rewrite map_length, app_length. lia. }
  apply Nat.ltb_ge in C3. prj2. rewrite !app_length in C3. consts.
  match goal with |- context [if negb ?x then _ else _] => destruct x end; cbn [negb]; [|exact Logic.I].
  destruct (inc s).
  - unfold good2, InvL, measure. prj2. cbn [rank]. rewrite E. cbn [rank]. rewrite skipn_len, !app_length. repeat split; lia.
  - match goal with |- context [match ?x with Some _ => _ | None => _ end] => destruct x eqn:Heqo end; [|exact Logic.I].
    unfold good2, InvL, measure. prj2. cbn [rank]. rewrite E. cbn [rank]. rewrite skipn_len, !app_length. repeat split; lia.
Qed.

Ltac fc size s k eof s1 k1 b :=
  let FS := fresh "FS" in let FE := fresh "FE" in
  pose proof (fill_spec size s k eof) as FS;
  destruct (fill size s k eof) as [s1 k1 b | ? | ?] eqn:FE; [ | exact Logic.I | exact Logic.I ];
  destruct FS as (F1 & F2 & F3 & F4 & F5 & F6 & F7 & F8 & F9 & F10);
  destruct (fill_app _ _ _ _ _ _ _ FE) as (X & A1 & A2 & A3 & A4); unfold L in *;
  assert (AL : length (buf s1) = length (buf s) + length X) by (rewrite A1, app_length; reflexivity).

Ltac fin2 := unfold good2, InvL, measure; prj2;
  rewrite ?dr_pos, ?dr_rpos, ?dr_lenia, ?dr_rdone, ?dr_st, ?dr_wint, ?dr_wbf, ?dec_range_len in *; prj2.

Lemma sync_found_good2 : forall s s0 k k0 o, st s = SYNC -> L s <= 532 -> o + (if inc s then 20 else 8) <= L s ->
  st s0 = SYNC -> L s + length k <= L s0 + length k0 -> length k <= length k0 -> good2 s0 k0 (sync_found s k o).
Proof.
  intros. unfold sync_found. destruct (inc s); fin2; rewrite ?H, ?H2; cbn [rank]; rewrite skipn_len; repeat split; lia.
Qed.

Lemma act_sync_good2 : forall s k eof, InvL s -> st s = SYNC -> good2 s k (act_sync s k eof).
Proof.
  intros s k eof I E. unfold InvL in I. rewrite E in I.
  unfold act_sync.
  destruct (find_sync (inc s) (buf s) 0) eqn:F.
  - apply find_sync_len in F. apply sync_found_good2; auto; unfold L in *; lia.
  - destruct (PADMAX + (if inc s then 20 else 8) <=? remaining s); [exact Logic.I|].
    destruct (rd (PADMAX + (if inc s then 20 else 8) - remaining s) k eof) as [[c k']|] eqn:R; [|exact Logic.I].
    apply rd_len in R. destruct R as [R R'].
    assert (B : L s + length c <= 532). { consts. unfold L, remaining in *. destruct (inc s); lia. }
    destruct (find_sync (inc s) (buf (add_cells s c)) 0) eqn:F2.
    + apply find_sync_len in F2.
      apply sync_found_good2; prj2; auto; rewrite ?app_length in *; unfold L in *; try lia.
    + fin2. rewrite E. rewrite app_length. unfold L in *. repeat split; lia.
Qed.

Lemma act_skey_good2 : forall s k eof, InvL s -> st s = SKEY -> good2 s k (act_skey s k eof).
Proof.
  intros s k eof I E. unfold InvL in I. rewrite E in I.
  unfold act_skey. fc 20 s k eof s1 k1 b.
  destruct b.
  - specialize (F9 eq_refl).
    destruct (skey_lookup (firstn 20 (buf s1))); [|exact Logic.I].
    destruct (is_active n); [|exact Logic.I].
    fin2. rewrite E. cbn [rank]. rewrite skipn_len. idtac. repeat split; lia.
  - fin2. rewrite F1, E. idtac. repeat split; lia.
Qed.

Lemma act_negot_good2 : forall s k eof, InvL s -> st s = NEGOT -> good2 s k (act_negot s k eof).
Proof.
  intros s k eof I E. unfold InvL in I. rewrite E in I.
  unfold act_negot. fc NEGO s k eof s1 k1 b.
  destruct b.
  - specialize (F9 eq_refl).
    set (s2 := if inc s then s1 else dec_range (start_dec s1 (encr s1)) 0 NEGO).
    assert (H2 : st s2 = st s1 /\ length (buf s2) = length (buf s1)).
    { subst s2. destruct (inc s); auto. rewrite dr_st, dec_range_len. prj2. auto. }
    destruct H2 as [H2a H2b]. clearbody s2.
    destruct (negb (forallb (N.eqb 0) (firstn VCLEN (firstn NEGO (vals s2))))); [exact Logic.I|].
    match goal with |- context [(N.of_nat PADMAX <? ?pl)%N] => destruct (N.of_nat PADMAX <? pl)%N eqn:PL; [exact Logic.I|] ; set (plv := pl) in * end.
    assert (RP : N.to_nat plv <= 512) by (apply N.ltb_ge in PL; consts; lia). clearbody plv.
    idtac. consts.
    destruct (inc s).
    + dm; [destruct p; exact Logic.I|]. fin2. rewrite E. cbn [rank]. rewrite skipn_len. repeat split; lia.
    + repeat dm; try exact Logic.I; fin2; rewrite E; cbn [rank]; rewrite skipn_len; repeat split; lia.
  - fin2. rewrite F1, E. idtac. consts. repeat split; lia.
Qed.

Lemma act_pad2_good2 : forall s s0 k k0 eof,
  st s = PAD -> L s <= 518 -> rpos s = 0 -> st s0 = PAD -> L s + length k <= L s0 + length k0 -> length k <= length k0 ->
  match act_pad2 s k eof with
  | ANext s' k' => InvL s' /\ measure s' k' < measure s0 k0 /\ length k' <= length k0
  | ABrk s' k' => InvL s' /\ st s' = st s0 /\ measure s' k' <= measure s0 k0 /\ length k' <= length k0
  | ASuc _ _ => False
  | _ => True end.
Proof.
  intros s s0 k k0 eof E B R0 E0 T K. unfold act_pad2.
  destruct (inc s).
  - fc 2 s k eof s1 k1 b. idtac. destruct b.
    + specialize (F9 eq_refl).
      set (iav := be (firstn 2 (vals s1)) 0) in *.
      destruct (N.of_nat HSIZE <? iav)%N eqn:IAV; [exact Logic.I|].
      assert (N.to_nat iav <= 68) by (apply N.ltb_ge in IAV; consts; lia). clearbody iav.
      fin2. rewrite E0. cbn [rank]. rewrite skipn_len. repeat split; lia.
    + fin2. rewrite F1, E, E0. repeat split; lia.
  - unfold L in *. destruct (N.eqb (crypto s) 1); fin2; rewrite E0; cbn [rank]; repeat split; lia.
Qed.

Lemma act_pad_good2 : forall s k eof, InvL s -> st s = PAD -> good2 s k (act_pad s k eof).
Proof.
  intros s k eof I E. unfold InvL in I. rewrite E in I.
  destruct I as [I I2].
  unfold act_pad. destruct (rpos s =? 0) eqn:R0.
  - apply Nat.eqb_eq in R0. pose proof (act_pad2_good2 s s k k eof E I R0 E) as H. unfold good2.
    destruct (act_pad2 s k eof); auto; try (apply H; lia). exfalso; apply H; lia.
  - set (d := if inc s then 2 else 0) in *.
    assert (D : d <= 2) by (subst d; destruct (inc s); lia). clearbody d.
    fc (rpos s + d) s k eof s1 k1 b. idtac.
    destruct b.
    + specialize (F9 eq_refl).
      pose proof (act_pad2_good2 (set_rpos (consume (rpos s1) s1) 0) s k1 k eof) as H. unfold good2.
      assert (LL : L s <= 2000) by (unfold L; lia). unfold L in H.
      destruct (act_pad2 (set_rpos (consume (rpos s1) s1) 0) k1 eof); auto; [apply H | apply H | exfalso; apply H]; prj2; auto; rewrite ?skipn_len; try lia; congruence.
    + fin2. rewrite F1, E. repeat split; lia.
Qed.

Lemma act_ia_good2 : forall s k eof, InvL s -> st s = IA -> good2 s k (act_ia s k eof).
Proof.
  intros s k eof I E. unfold InvL in I. rewrite E in I. destruct I as [I I2].
  unfold act_ia. destruct (0 <? lenia s).
  - fc (lenia s) s k eof s1 k1 b. idtac. destruct b.
    + specialize (F9 eq_refl). dm; [exact Logic.I|]. apply Nat.ltb_ge in Heqb.
      destruct (N.eqb (crypto s1) 1); fin2; rewrite E; cbn [rank]; rewrite ?app_length in *; repeat split; lia.
    + fin2. rewrite F1, E. repeat split; lia.
  - unfold L in *. dm; [exact Logic.I|]. destruct (N.eqb (crypto s) 1); fin2; rewrite E; cbn [rank]; repeat split; lia.
Qed.

Lemma act_info_good2 : forall s k eof, InvL s -> st s = INFO -> good2 s k (act_info s k eof).
Proof.
  intros s k eof I E. unfold InvL in I. rewrite E in I.
  unfold act_info. fc HSIZE s k eof s1 k1 b. idtac. consts.
  dm; [exact Logic.I|].
  destruct (remaining s1 <? 48) eqn:C.
  { fin2. rewrite F1, E. rewrite ?app_length in *. repeat split; lia. }
  apply Nat.ltb_ge in C. unfold remaining in C. rewrite AL in C.
  repeat dm; try exact Logic.I; fin2; rewrite E; cbn [rank]; rewrite !skipn_len; rewrite ?app_length in *; repeat split; lia.
Qed.

Lemma act_peer_good2 : forall s k eof, InvL s -> st s = PEER -> good2 s k (act_peer s k eof).
Proof.
  intros s k eof I E. unfold InvL in I. rewrite E in I.
  unfold act_peer. fc 20 s k eof s1 k1 b. idtac. destruct b.
  - specialize (F9 eq_refl). dm; [exact Logic.I|].
    destruct (extp (consume 20 s1)); fin2; rewrite E; cbn [rank]; rewrite !skipn_len; rewrite ?app_length in *; repeat split; lia.
  - fin2. rewrite F1, E. rewrite ?app_length in *. repeat split; lia.
Qed.

Lemma after_msg_good2 : forall s s0 k k0, L s <= 450 -> wflag s = true ->
  2 * (L s + length k) + 1 < measure s0 k0 -> length k <= length k0 -> good2 s0 k0 (after_msg s k).
Proof.
  intros. unfold after_msg. dm; fin2; cbn [rank]; repeat split; auto; lia.
Qed.

Lemma act_message_good2 : forall bfb s k eof, InvL s -> st s = MESSAGE -> good2 s k (act_message bfb s k eof).
Proof.
  intros bfb s k eof I E. unfold InvL in I. rewrite E in I. destruct I as [I W].
  unfold act_message.
  set (s0 := if BUF - endp s <? 5 then move_unused s else s).
  assert (H0 : st s0 = MESSAGE /\ buf s0 = buf s /\ wint s0 = wint s /\ wbf s0 = wbf s).
  { subst s0. destruct (BUF - endp s <? 5); prj2; auto. }
  destruct H0 as (H0a & H0b & H0c & H0d). clearbody s0.
  fc 5 s0 k eof s1 k1 b. rewrite H0b in *.
  assert (W1 : wint s1 || wbf s1 = true) by (rewrite A3, A4, H0c, H0d; exact W).
  dm; [fin2; rewrite skipn_len; split; [lia | exact W1]|].
  destruct (remaining s1 <? 5) eqn:C5; [fin2; rewrite ?F1, ?H0a, ?E; cbn [rank]; repeat split; auto; lia|].
  apply Nat.ltb_ge in C5. unfold remaining in C5.
  repeat dm; try exact Logic.I; fin2; rewrite ?F1, ?H0a, ?E; cbn [rank]; rewrite ?skipn_len; repeat split; auto; try lia.
Qed.

Lemma act_bitfield_good2 : forall bfb s k eof, InvL s -> st s = BITFIELD -> good2 s k (act_bitfield bfb s k eof).
Proof.
  intros bfb s k eof I E. unfold InvL in I. rewrite E in I. destruct I as [I W].
  unfold act_bitfield. destruct (rpos s <? bfb).
  - destruct (rd (bfb - rpos s) k eof) as [[c k1]|] eqn:R; [|exact Logic.I].
    apply rd_len in R. destruct R as [_ R].
    dm.
    + apply after_msg_good2; unfold measure; prj2; auto; try rewrite E; cbn [rank]; unfold L in *; try lia.
    + fin2. rewrite E. unfold L in *. repeat split; auto; lia.
  - apply after_msg_good2; auto; unfold measure, remaining; try rewrite E; cbn [rank]; unfold L in *; lia.
Qed.

Lemma Lmsg_app : forall s s1 X, buf s1 = buf s ++ X -> 4 <= length (buf s) -> Lmsg s1 = Lmsg s.
Proof.
  intros. unfold Lmsg, vals. rewrite H, map_app, firstn_app_le; auto. rewrite map_length. auto.
Qed.

(* front part shared by read_extension / read_port: result of the fill on the (possibly compacted) window *)
Lemma extport_fill : forall s k eof Ln, InvL s -> (st s = EXT \/ st s = PORT) -> Ln = Lmsg s ->
  let s0 := if over Ln s then move_unused s else s in
  match fill (Ln + 4) s0 k eof with
  | FOk s1 k1 b =>
      st s1 = st s /\ wflag s1 = true /\ L s1 + length k1 = L s + length k /\ length k1 <= length k /\ 5 <= L s1 /\
      (b = false -> InvL s1) /\
      (b = true -> Ln + 4 <= L s1 /\ L s1 - (Ln + 4) <= 450)
  | _ => True
  end.
Proof.
  intros s k eof Ln I ST LN s0.
  assert (I' : 5 <= L s /\ (L s <= 450 \/ L s < Lmsg s + 4) /\ wflag s = true).
  { unfold InvL in I. destruct ST as [E|E]; rewrite E in I; exact I. }
  destruct I' as (I5 & ID & W).
  assert (H0 : st s0 = st s /\ buf s0 = buf s /\ wint s0 = wint s /\ wbf s0 = wbf s).
  { subst s0. destruct (over Ln s); prj2; auto. }
  destruct H0 as (H0a & H0b & H0c & H0d). clearbody s0.
  pose proof (fill_spec (Ln + 4) s0 k eof) as FS.
  destruct (fill (Ln + 4) s0 k eof) as [s1 k1 b | ? | ?] eqn:FE; auto.
  destruct FS as (F1 & F2 & F3 & F4 & F5 & F6 & F7 & F8 & F9 & F10).
  destruct (fill_app _ _ _ _ _ _ _ FE) as (X & A1 & A2 & A3 & A4). unfold L in *.
  rewrite H0b in *.
  assert (AL : length (buf s1) = length (buf s) + length X) by (rewrite A1, app_length; reflexivity).
  assert (LM : Lmsg s1 = Lmsg s) by (apply (Lmsg_app s s1 X); auto; lia).
  assert (W1 : wflag s1 = true) by (unfold wflag in *; rewrite A3, A4, H0c, H0d; exact W).
  repeat split; try congruence; try lia.
  - intro Hb. specialize (F10 Hb). unfold InvL. rewrite F1, H0a.
    destruct ST as [E|E]; rewrite E; unfold L; rewrite LM; repeat split; auto; try lia.
  - apply F9. assumption.
Qed.

Lemma act_ext_good2 : forall s k eof, InvL s -> st s = EXT -> good2 s k (act_ext s k eof).
Proof.
  intros s k eof I E.
  unfold act_ext.
  destruct (N.of_nat BUF <? be (firstn 4 (vals s)) 0)%N; [exact Logic.I|].
  pose proof (extport_fill s k eof (N.to_nat (be (firstn 4 (vals s)) 0)) I (or_introl E) eq_refl) as EF. cbv zeta in EF.
  set (Ln := N.to_nat (be (firstn 4 (vals s)) 0)) in *. clearbody Ln.
  set (s0 := if over Ln s then move_unused s else s) in *. clearbody s0.
  destruct (over Ln s0); [exact Logic.I|].
  destruct (fill (Ln + 4) s0 k eof) as [s1 k1 b | ? | ?]; [ | exact Logic.I | exact Logic.I].
  destruct EF as (P1 & P2 & P3 & P4 & P5 & P6 & P7).
  destruct b.
  - destruct (P7 eq_refl) as [P7a P7b].
    destruct (Ln <? 2) eqn:L2; [exact Logic.I|]. apply Nat.ltb_ge in L2. cbn [orb].
    dm; [exact Logic.I|].
    apply after_msg_good2; unfold measure, remaining; try rewrite E; cbn [rank]; unfold L in *;
      destruct (N.eqb (nth 5 (vals s1) 0%N) 0); prj2; rewrite ?skipn_len; auto; try lia.
  - unfold good2. repeat split; auto; unfold measure, remaining; rewrite ?P1; unfold L in *; lia.
Qed.

Lemma act_port_good2 : forall s k eof, InvL s -> st s = PORT -> good2 s k (act_port s k eof).
Proof.
  intros s k eof I E.
  unfold act_port.
  destruct (N.of_nat BUF <? be (firstn 4 (vals s)) 0)%N; [exact Logic.I|].
  pose proof (extport_fill s k eof (N.to_nat (be (firstn 4 (vals s)) 0)) I (or_intror E) eq_refl) as EF. cbv zeta in EF.
  set (Ln := N.to_nat (be (firstn 4 (vals s)) 0)) in *. clearbody Ln.
  set (s0 := if over Ln s then move_unused s else s) in *. clearbody s0.
  destruct (over Ln s0); [exact Logic.I|].
  destruct (fill (Ln + 4) s0 k eof) as [s1 k1 b | ? | ?]; [ | exact Logic.I | exact Logic.I].
  destruct EF as (P1 & P2 & P3 & P4 & P5 & P6 & P7).
  destruct b.
  - destruct (P7 eq_refl) as [P7a P7b].
    destruct (Ln <? 1) eqn:L2; [exact Logic.I|]. apply Nat.ltb_ge in L2.
    apply after_msg_good2; unfold measure, remaining; try rewrite E; cbn [rank]; unfold L in *; prj2; rewrite ?skipn_len; auto; try lia.
  - unfold good2. repeat split; auto; unfold measure, remaining; rewrite ?P1; unfold L in *; lia.
Qed.

Theorem act_good2 : forall bfb s k eof, InvL s -> good2 s k (act bfb s k eof).
Proof.
  intros bfb s k eof I. unfold act.
  destruct (rdone s).
  - unfold good2. repeat split; auto.
  - destruct (st s) eqn:E; try exact Logic.I;
      [ apply act_key_good2 | apply act_sync_good2 | apply act_skey_good2 | apply act_negot_good2 | apply act_pad_good2
      | apply act_ia_good2 | apply act_info_good2 | apply act_peer_good2 | apply act_message_good2 | apply act_bitfield_good2
      | apply act_ext_good2 | apply act_port_good2 ]; auto.
Qed.
