(* C06 — keystream alignment: the read state machine only ever decrypts at the frontier. *)
From Coq Require Import NArith List Bool Arith Lia.
Import ListNotations.
From LTV.C06 Require Import ParamsProbe Model ProofsInv ProofsKs.

Definition Fr (s : hst) : Prop := dstart s + didx s = nread s.

Definition InvK (bfb : nat) (s : hst) : Prop :=
  KC s /\
  match st s with
  | KEY | SYNC => dvalid s = false /\ didx s = 0
  | SKEY => dvalid s = false /\ didx s = 0 /\ inc s = true
  | NEGOT => if inc s then dvalid s = true /\ Fr s else dvalid s = false /\ didx s = 0
  | PAD => dvalid s = true /\ (Fr s \/ (inc s = false /\ crypto s = 1%N /\ rpos s <= L s))
  | BITFIELD => (dvalid s = true -> Fr s) /\ (rpos s < bfb -> L s = 0)
  | _ => dvalid s = true -> Fr s
  end.

Definition post_negot (x : hstate) : bool :=
  match x with IA | INFO | PEER | MESSAGE | EXT | PORT | BITFIELD => true | _ => false end.

Definition goodK (bfb : nat) (a : aout) : Prop :=
  match a with
  | ANext s' k' | ABrk s' k' => InvK bfb s' /\ fresh k'
  | ASuc s' k' => InvK bfb s' /\ fresh k' /\ post_negot (st s') = true
  | _ => True
  end.

(* setters that do not touch the window, the counters or the cipher position *)
Lemma KC_eq : forall s s', buf s' = buf s -> nread s' = nread s -> dstart s' = dstart s -> didx s' = didx s -> KC s -> KC s'.
Proof. intros s s' A B C D K. unfold KC, K1, o0, L in *. rewrite A, B, C, D. exact K. Qed.

Lemma rd_fresh : forall n k eof c k', fresh k -> rd n k eof = Some (c, k') -> fresh c /\ fresh k'.
Proof.
  intros. unfold rd in H0. destruct k; [destruct eof; inversion H0; subst; split; constructor|].
  inversion H0; subst. split; [apply fresh_firstn | apply fresh_skipn]; auto.
Qed.

Ltac kcbn := cbn [st buf inc crypto rpos nread dstart didx dvalid
       consume move_unused set_obf add_cells set_st set_win set_rpos set_crypto set_lenia set_dec set_dl set_extp set_exti
       set_bfe set_aok add_w mark_recog set_w set_ghost start_dec] in *.

Lemma act_key_K : forall bfb s k eof, InvK bfb s -> fresh k -> st s = KEY -> goodK bfb (act_key s k eof).
Proof.
  intros bfb s k eof [K I] F E. rewrite E in I. destruct I as [DV DI]. unfold act_key.
  destruct (if inc s && (remaining s <? 20) then rd (20 - remaining s) k eof else Some ([], k)) as [[c1 k1]|] eqn:R1; [|exact Logic.I].
  assert (F1 : fresh c1 /\ fresh k1).
  { destruct (inc s && (remaining s <? 20)); [eapply rd_fresh; eauto | inversion R1; subst; split; [constructor | auto]]. }
  destruct F1 as [Fc1 Fk1]. pose proof (KC_add s c1 K Fc1) as K1'.
  dm; [unfold goodK, InvK; cbn [st add_cells]; rewrite E; auto|].
  dm; [dm; [exact Logic.I|]; unfold goodK, InvK; split; auto; split; [eapply KC_eq; [..|exact K1']; reflexivity|]; cbn [st set_st dvalid add_cells]; rewrite DV; intro; discriminate|].
  destruct (if remaining (add_cells s c1) <? PADREAD then rd (PADREAD - remaining (add_cells s c1)) k1 eof else Some ([], k1)) as [[c2 k2]|] eqn:R2; [|exact Logic.I].
  assert (F2 : fresh c2 /\ fresh k2).
  { destruct (remaining (add_cells s c1) <? PADREAD); [eapply rd_fresh; eauto | inversion R2; subst; split; [constructor | auto]]. }
  destruct F2 as [Fc2 Fk2]. pose proof (KC_add _ c2 K1' Fc2) as K2'.
  dm; [unfold goodK, InvK; cbn [st add_cells]; rewrite E; auto|].
  dm; [exact Logic.I|].
  assert (K3 : KC (consume KEYLEN (mark_recog (add_cells (add_cells s c1) c2)))).
  { apply KC_consume. eapply KC_eq; [..|exact K2']; reflexivity. }
  destruct (inc s).
  - unfold goodK, InvK. split; auto. split.
    + eapply KC_eq; [..|exact K3]; reflexivity.
    + kcbn. auto.
  - dm; [|exact Logic.I]. unfold goodK, InvK. split; auto. split.
    + eapply KC_eq; [..|exact K3]; reflexivity.
    + kcbn. auto.
Qed.

Lemma act_sync_K : forall bfb s k eof, InvK bfb s -> fresh k -> st s = SYNC -> goodK bfb (act_sync s k eof).
Proof.
  intros bfb s k eof [K I] F E. rewrite E in I. destruct I as [DV DI]. unfold act_sync.
  assert (G : forall s' k' o, KC s' -> dvalid s' = false -> didx s' = 0 -> fresh k' -> goodK bfb (sync_found s' k' o)).
  { intros s' k' o K' DV' DI' F'. unfold sync_found. destruct (inc s') eqn:INC; unfold goodK, InvK; (split; [|exact F']); split.
    - eapply KC_eq; [..|apply (KC_consume s' (o + 20) K')]; reflexivity.
    - kcbn. auto.
    - eapply KC_eq; [..|apply (KC_consume s' o K')]; reflexivity.
    - kcbn. rewrite INC. auto. }
  dm.
  - apply G; auto.
  - dm; [exact Logic.I|].
    destruct (rd _ k eof) as [[c k']|] eqn:R; [|exact Logic.I].
    destruct (rd_fresh _ _ _ _ _ F R) as [Fc Fk]. pose proof (KC_add s c K Fc) as K'.
    dm.
    + apply G; auto.
    + unfold goodK, InvK. cbn [st add_cells]. rewrite E. auto.
Qed.

Lemma o0_consume : forall s n, n <= L s -> L s <= nread s -> o0 (consume n s) = o0 s + n.
Proof. intros. unfold o0, L in *. cbn [buf nread consume set_aok set_win]. rewrite skipn_length. lia. Qed.
Lemma nread_o0 : forall s, L s <= nread s -> nread s = o0 s + L s.
Proof. intros. unfold o0. lia. Qed.
Lemma L_consume : forall s n, L (consume n s) = L s - n.
Proof. intros. unfold L. cbn [buf consume set_aok set_win]. apply skipn_length. Qed.
Lemma dr_dvalid : forall s a n, dvalid (dec_range s a n) = dvalid s. Proof. reflexivity. Qed.
Lemma dr_nread : forall s a n, nread (dec_range s a n) = nread s. Proof. reflexivity. Qed.
Lemma dr_dstart : forall s a n, dstart (dec_range s a n) = dstart s. Proof. reflexivity. Qed.
Lemma dr_inc : forall s a n, inc (dec_range s a n) = inc s. Proof. reflexivity. Qed.
Lemma dr_crypto : forall s a n, crypto (dec_range s a n) = crypto s. Proof. reflexivity. Qed.
Lemma dr_L : forall s a n, L (dec_range s a n) = L s. Proof. intros. unfold L. apply dec_range_len. Qed.

(* decrypt everything buffered, starting at position(), with the frontier at position() *)
Lemma dec_all : forall s, KC s -> dstart s + didx s = o0 s ->
  KC (dec_range s 0 (remaining s)) /\ Fr (dec_range s 0 (remaining s)).
Proof.
  intros s K H.
  destruct (KC_dec_range s 0 (remaining s) K ltac:(unfold L, remaining; lia) ltac:(lia)) as (K2 & F2 & O2).
  split; auto. unfold Fr. rewrite F2, dr_nread. destruct K as (A & _). unfold remaining. rewrite (nread_o0 s A). unfold L. lia.
Qed.

Lemma act_skey_K : forall bfb s k eof, InvK bfb s -> fresh k -> st s = SKEY -> goodK bfb (act_skey s k eof).
Proof.
  intros bfb s k eof [K I] F E. rewrite E in I. destruct I as (DV & DI & INC). unfold act_skey.
  destruct (fill 20 s k eof) as [s1 k1 b | ? | ?] eqn:FE; try exact Logic.I.
  destruct (fill_K 20 s k eof s1 k1 b K F ltac:(intro X; rewrite DV in X; discriminate) FE) as (K1' & F1 & DV1 & DS1 & O1 & DI1 & _ & _).
  pose proof (fill_spec 20 s k eof) as FS. rewrite FE in FS. destruct FS as (S1 & _ & _ & _ & IN1 & _).
  destruct b.
  - dm; [|exact Logic.I]. dm; [|exact Logic.I].
    set (s2 := set_dl (consume 20 s1) (Some n)).
    assert (K2 : KC s2) by (eapply KC_eq; [..|apply (KC_consume s1 20 K1')]; reflexivity).
    assert (D2 : didx s2 = 0) by (subst s2; kcbn; rewrite DI1; auto).
    destruct (KC_start s2 true K2 D2) as (K3 & DS3 & DI3).
    assert (H3 : dstart (start_dec s2 true) + didx (start_dec s2 true) = o0 (start_dec s2 true)).
    { rewrite DS3, DI3. unfold o0, L. cbn [buf nread start_dec]. lia. }
    destruct (dec_all _ K3 H3) as (K4 & F4).
    unfold goodK, InvK. split; auto. split.
    + eapply KC_eq; [..|exact K4]; reflexivity.
    + cbn [st inc set_st add_w]. rewrite dr_inc. subst s2. cbn [inc start_dec set_dl consume set_aok set_win].
      rewrite IN1, INC. split; [reflexivity | exact F4].
  - unfold goodK, InvK. rewrite S1, E. rewrite DV1, IN1. rewrite DI1 by auto. auto.
Qed.

Lemma act_negot_K : forall bfb s k eof, InvK bfb s -> fresh k -> st s = NEGOT -> goodK bfb (act_negot s k eof).
Proof.
  intros bfb s k eof [K I] F E. rewrite E in I. unfold act_negot.
  destruct (fill NEGO s k eof) as [s1 k1 b | ? | ?] eqn:FE; try exact Logic.I.
  assert (PRE : dvalid s = true -> L s < NEGO -> dstart s + didx s = nread s).
  { intros DV _. destruct (inc s); destruct I as [I1 I2]; [exact I2 | rewrite I1 in DV; discriminate]. }
  destruct (fill_K NEGO s k eof s1 k1 b K F PRE FE) as (K1' & F1 & DV1 & DS1 & O1 & DI1 & FR1 & _).
  pose proof (fill_spec NEGO s k eof) as FS. rewrite FE in FS. destruct FS as (S1 & _ & _ & _ & IN1 & _ & _ & _ & B1 & _).
  destruct b.
  2:{ unfold goodK, InvK. rewrite S1, E, IN1, DV1. split; auto. split; auto.
      destruct (inc s); destruct I as [I1 I2]; split; auto; [apply FR1; auto | rewrite DI1; auto]. }
  specialize (B1 eq_refl). consts.
  (* the state after the (outgoing) cipher start *)
  set (s2 := if inc s then s1 else dec_range (start_dec s1 (encr s1)) 0 14).
  assert (H2 : KC s2 /\ dvalid s2 = true /\ inc s2 = inc s /\ L s2 = L s1 /\ 14 <= L s2 /\
               (if inc s then Fr s2 else dstart s2 + didx s2 = o0 s2 + 14)).
  { subst s2. destruct (inc s) eqn:INC; destruct I as [I1 I2].
    - split; [exact K1'|]. repeat split; auto; try congruence. apply FR1; auto.
    - assert (D1 : didx s1 = 0) by (rewrite DI1; auto).
      destruct (KC_start s1 (encr s1) K1' D1) as (K3 & DS3 & DI3).
      assert (H3 : dstart (start_dec s1 (encr s1)) + didx (start_dec s1 (encr s1)) = o0 (start_dec s1 (encr s1)) + 0).
      { rewrite DS3, DI3. unfold o0, L. cbn [buf nread start_dec]. lia. }
      destruct (KC_dec_range _ 0 14 K3 ltac:(unfold L in *; cbn [buf start_dec]; lia) H3) as (K4 & F4 & O4).
      rewrite dr_L. split; [exact K4|]. repeat split; auto.
      rewrite F4, O4. lia. }
  destruct H2 as (K2 & DV2 & IN2 & L2 & L14 & FR2). clearbody s2.
  dm; [exact Logic.I|].
  match goal with |- context [set_crypto (consume 14 s2) ?c] => set (cr := c) in * end.
  match goal with |- context [(N.of_nat 512 <? ?pl)%N] => set (plv := pl) in * end.
  dm; [exact Logic.I|].
  set (s4 := set_rpos (set_crypto (consume 14 s2) cr) (N.to_nat plv)).
  assert (H4 : KC s4 /\ dvalid s4 = true /\ inc s4 = inc s /\ crypto s4 = cr /\ nread s4 = nread s2 /\
               dstart s4 = dstart s2 /\ didx s4 = didx s2 /\ o0 s4 = o0 s2 + 14).
  { subst s4. split; [|repeat split; auto].
    - eapply KC_eq; [..|apply (KC_consume s2 14 K2)]; reflexivity.
    - change (o0 (consume 14 s2) = o0 s2 + 14). apply o0_consume; auto. destruct K2 as (A & _). exact A. }
  destruct H4 as (K4 & DV4 & IN4 & CR4 & NR4 & DS4 & DI4 & O4). clearbody s4.
  destruct (inc s) eqn:INC.
  - dm; [destruct p; exact Logic.I|].
    unfold goodK, InvK. split; auto. split; [eapply KC_eq; [..|exact K4]; reflexivity|].
    kcbn. split; auto. left. unfold Fr in *. kcbn. congruence.
  - assert (H5 : dstart s4 + didx s4 = o0 s4) by lia.
    destruct (N.eqb cr 1) eqn:C1.
    + dm; [exact Logic.I|]. apply N.eqb_eq in C1.
      destruct (KC_dec_range s4 0 (Nat.min (rpos s4) (remaining s4)) K4 ltac:(unfold L, remaining; lia) ltac:(lia)) as (K5 & F5 & O5).
      unfold goodK, InvK. split; auto. split; [eapply KC_eq; [..|exact K5]; reflexivity|].
      cbn [st set_st dvalid]. rewrite dr_dvalid. split; auto.
      destruct (rpos s4 <=? remaining s4) eqn:RP.
      * apply Nat.leb_le in RP. right. cbn [inc crypto rpos set_st]. rewrite dr_inc, dr_crypto.
        repeat split; try congruence. change (rpos s4 <= L (dec_range s4 0 (Nat.min (rpos s4) (remaining s4)))).
        rewrite dr_L. unfold L, remaining in *. lia.
      * apply Nat.leb_gt in RP. left. unfold Fr. cbn [dstart didx nread set_st]. rewrite F5, dr_nread.
        destruct K4 as (A & _). rewrite (nread_o0 s4 A). unfold L, remaining in *. lia.
    + destruct (N.eqb cr 2); [|exact Logic.I]. dm; [exact Logic.I|].
      destruct (dec_all s4 K4 H5) as (K5 & F5).
      unfold goodK, InvK. split; auto. split; [eapply KC_eq; [..|exact K5]; reflexivity|].
      cbn [st set_st dvalid]. rewrite dr_dvalid. split; auto.
Qed.
