(* C06 — keystream alignment: remaining states of the read state machine, and runs. *)
From Coq Require Import NArith List Bool Arith Lia.
Import ListNotations.
From LTV.C06 Require Import ParamsProbe Model ProofsInv ProofsRun ProofsKs ProofsKs2.

Lemma Fr_eq : forall s s', nread s' = nread s -> dstart s' = dstart s -> didx s' = didx s -> Fr s -> Fr s'.
Proof. unfold Fr. intros. congruence. Qed.

Lemma act_pad2_K : forall bfb s k eof, KC s -> fresh k -> dvalid s = true -> st s = PAD ->
  (Fr s \/ (inc s = false /\ crypto s = 1%N)) -> goodK bfb (act_pad2 s k eof).
Proof.
  intros bfb s k eof K F DV E D. unfold act_pad2.
  destruct (inc s) eqn:INC.
  - assert (FRs : Fr s) by (destruct D as [D|[D _]]; [exact D | discriminate]).
    destruct (fill 2 s k eof) as [s1 k1 b | ? | ?] eqn:FE; try exact Logic.I.
    destruct (fill_K 2 s k eof s1 k1 b K F ltac:(intros; exact FRs) FE) as (K1' & F1 & DV1 & DS1 & O1 & DI1 & FR1 & _).
    pose proof (fill_spec 2 s k eof) as FS. rewrite FE in FS. destruct FS as (S1 & _).
    specialize (FR1 DV FRs).
    destruct b.
    + dm; [exact Logic.I|]. unfold goodK, InvK. split; auto. split.
      * eapply KC_eq; [..|apply (KC_consume s1 2 K1')]; reflexivity.
      * kcbn. intros _. eapply Fr_eq; [..|exact FR1]; reflexivity.
    + unfold goodK, InvK. rewrite S1, E. split; auto. split; auto. split; [congruence | left; exact FR1].
  - unfold goodK, InvK. split; auto.
    destruct (N.eqb (crypto s) 1) eqn:C.
    + split; [eapply KC_eq; [..|exact K]; reflexivity|]. kcbn. intro; discriminate.
    + split; [eapply KC_eq; [..|exact K]; reflexivity|]. kcbn. intros _.
      destruct D as [D|[_ D]]; [exact D | rewrite D in C; discriminate].
Qed.

Lemma act_pad_K : forall bfb s k eof, InvK bfb s -> fresh k -> st s = PAD -> goodK bfb (act_pad s k eof).
Proof.
  intros bfb s k eof [K I] F E. rewrite E in I. destruct I as [DV D]. unfold act_pad.
  destruct (rpos s =? 0).
  - apply act_pad2_K; auto. destruct D as [D|(D1 & D2 & _)]; auto.
  - set (d := if inc s then 2 else 0).
    assert (PRE : dvalid s = true -> L s < rpos s + d -> dstart s + didx s = nread s).
    { intros _ Hl. destruct D as [D|(D1 & D2 & D3)]; [exact D|]. subst d. rewrite D1 in Hl. lia. }
    destruct (fill (rpos s + d) s k eof) as [s1 k1 b | ? | ?] eqn:FE; try exact Logic.I.
    destruct (fill_K _ s k eof s1 k1 b K F PRE FE) as (K1' & F1 & DV1 & DS1 & O1 & DI1 & FR1 & SAME).
    pose proof (fill_spec (rpos s + d) s k eof) as FS. rewrite FE in FS. destruct FS as (S1 & _ & R1 & _ & IN1 & _).
    assert (D1 : Fr s1 \/ (inc s1 = false /\ crypto s1 = 1%N /\ rpos s1 <= L s1)).
    { destruct D as [D|(Da & Db & Dc)]; [left; apply FR1; auto|].
      right. assert (s1 = s) by (apply SAME; subst d; rewrite Da; lia). subst s1. auto. }
    destruct b.
    + apply act_pad2_K; auto.
      * eapply KC_eq; [..|apply (KC_consume s1 (rpos s1) K1')]; reflexivity.
      * kcbn. congruence.
      * kcbn. congruence.
      * destruct D1 as [D1|(Da & Db & _)]; [left; eapply Fr_eq; [..|exact D1]; reflexivity | right; kcbn; auto].
    + unfold goodK, InvK. rewrite S1, E. split; auto. split; auto. split; [congruence | exact D1].
Qed.

(* states after the negotiation: the cipher, if still valid, is positioned at the end of what was read *)
Definition NK (s : hst) : Prop := KC s /\ (dvalid s = true -> Fr s).

Lemma NK_consume : forall s n, NK s -> NK (consume n s).
Proof. intros s n [K D]. split; [apply KC_consume; auto|]. kcbn. intro H. eapply Fr_eq; [..|exact (D H)]; reflexivity. Qed.
Lemma NK_obf : forall s, NK s -> NK (set_obf s).
Proof. intros s [K D]. split; [eapply KC_eq; [..|exact K]; reflexivity|]. kcbn. intro; discriminate. Qed.
Lemma NK_eq : forall s s', buf s' = buf s -> nread s' = nread s -> dstart s' = dstart s -> didx s' = didx s ->
  dvalid s' = dvalid s -> NK s -> NK s'.
Proof.
  intros s s' A B C D E [K F]. split; [eapply KC_eq; eauto|]. rewrite E. intro H. eapply Fr_eq; [..|exact (F H)]; auto.
Qed.

Ltac nk :=
  match goal with
  | H : NK ?s |- NK ?s => exact H
  | |- NK (consume _ _) => apply NK_consume; nk
  | |- NK (set_obf _) => apply NK_obf; nk
  | |- NK (set_st ?x _) => apply (NK_eq x); [reflexivity..|nk]
  | |- NK (set_rpos ?x _) => apply (NK_eq x); [reflexivity..|nk]
  | |- NK (set_crypto ?x _) => apply (NK_eq x); [reflexivity..|nk]
  | |- NK (set_lenia ?x _) => apply (NK_eq x); [reflexivity..|nk]
  | |- NK (set_dl ?x _) => apply (NK_eq x); [reflexivity..|nk]
  | |- NK (set_extp ?x _) => apply (NK_eq x); [reflexivity..|nk]
  | |- NK (set_exti ?x _) => apply (NK_eq x); [reflexivity..|nk]
  | |- NK (set_bfe ?x _) => apply (NK_eq x); [reflexivity..|nk]
  | |- NK (add_w ?x _) => apply (NK_eq x); [reflexivity..|nk]
  | |- NK (mark_recog ?x) => apply (NK_eq x); [reflexivity..|nk]
  | |- NK (move_unused ?x) => apply (NK_eq x); [reflexivity..|nk]
  | |- NK (set_w ?x _ _ _) => apply (NK_eq x); [reflexivity..|nk]
  end.

Lemma normal_fill : forall size s k eof, NK s -> fresh k ->
  match fill size s k eof with
  | FOk s1 k1 _ => NK s1 /\ fresh k1 /\ st s1 = st s /\ rpos s1 = rpos s
  | _ => True
  end.
Proof.
  intros size s k eof [K D] F.
  destruct (fill size s k eof) as [s1 k1 b | ? | ?] eqn:FE; auto.
  destruct (fill_K size s k eof s1 k1 b K F ltac:(intros H _; exact (D H)) FE) as (K1' & F1 & DV1 & DS1 & O1 & DI1 & FR1 & _).
  pose proof (fill_spec size s k eof) as FS. rewrite FE in FS. destruct FS as (S1 & _ & R1 & _).
  split; [split; [exact K1' | rewrite DV1; intro H; apply FR1; auto; exact (D H)] | repeat split; auto].
Qed.

Definition normal_st (x : hstate) : bool :=
  match x with IA | INFO | PEER | MESSAGE | EXT | PORT => true | _ => false end.

Lemma NK_InvK : forall bfb s, NK s -> normal_st (st s) = true -> InvK bfb s.
Proof. intros bfb s [K D] N. split; auto. destruct (st s); try discriminate; exact D. Qed.

Ltac pfk F :=
  repeat match goal with
  | |- context [fill ?a ?b ?c ?d] =>
      let H := fresh "NKb" in let P := fresh "NF" in
      assert (H : NK b) by nk;
      pose proof (normal_fill a b c d H F) as P;
      destruct (fill a b c d) as [? ? ?| |]; [destruct P as (? & ? & ? & ?) | exact Logic.I | exact Logic.I]
  end.

Ltac stk E := cbn [st consume move_unused set_obf set_st set_win set_rpos set_crypto set_lenia set_dec set_dl set_extp set_exti set_bfe set_aok add_w mark_recog set_w set_ghost]; first [reflexivity | (repeat match goal with H : st _ = st _ |- _ => rewrite H; clear H end; rewrite ?E; reflexivity)].
Ltac leafK E := unfold goodK; first [ split; [apply NK_InvK; [nk | stk E] | assumption]
                                    | split; [apply NK_InvK; [nk | stk E] | split; [assumption | stk E]] ].

Lemma act_ia_K : forall bfb s k eof, InvK bfb s -> fresh k -> st s = IA -> goodK bfb (act_ia s k eof).
Proof.
  intros bfb s k eof [K I] F E. rewrite E in I. assert (N : NK s) by (split; auto). unfold act_ia.
  destruct (0 <? lenia s).
  - pfk F. repeat dm; try exact Logic.I; leafK E.
  - repeat dm; try exact Logic.I; leafK E.
Qed.

Lemma act_info_K : forall bfb s k eof, InvK bfb s -> fresh k -> st s = INFO -> goodK bfb (act_info s k eof).
Proof.
  intros bfb s k eof [K I] F E. rewrite E in I. assert (N : NK s) by (split; auto). unfold act_info.
  pfk F.
  match goal with |- context [if ?c then AThr _ 7 0 else _] => destruct c end; [exact Logic.I|].
  match goal with |- context [if ?c then ABrk _ _ else _] => destruct c end; [leafK E|].
  match goal with |- context [set_extp (consume 28 ?h) ?x] => set (s2 := set_extp (consume 28 h) x) in * end.
  assert (N2 : NK s2) by (subst s2; nk). clearbody s2.
  match goal with |- context [list_eqb ?h (hash_of _)] => generalize h; intro hh end.
  destruct (inc s).
  - destruct (dl s2).
    + repeat dm; try exact Logic.I; leafK E.
    + destruct (lookup_hash hh); [|exact Logic.I].
      set (s3 := set_dl s2 (Some n)). assert (N3 : NK s3) by (subst s3; nk). clearbody s3.
      repeat dm; try exact Logic.I; leafK E.
  - set (s3 := mark_recog s2). assert (N3 : NK s3) by (subst s3; nk). clearbody s3.
    repeat dm; try exact Logic.I; leafK E.
Qed.

Lemma act_peer_K : forall bfb s k eof, InvK bfb s -> fresh k -> st s = PEER -> goodK bfb (act_peer s k eof).
Proof.
  intros bfb s k eof [K I] F E. rewrite E in I. assert (N : NK s) by (split; auto). unfold act_peer.
  pfk F. repeat dm; try exact Logic.I; leafK E.
Qed.

Lemma after_msg_K : forall bfb s k, NK s -> fresh k -> goodK bfb (after_msg s k).
Proof. intros. unfold after_msg. dm; leafK I. Qed.


Lemma NK_InvK_bf : forall bfb s, NK s -> st s = BITFIELD -> (rpos s < bfb -> L s = 0) -> InvK bfb s.
Proof. intros bfb s [K D] E Z. split; auto. rewrite E. auto. Qed.

Lemma act_message_K : forall bfb s k eof, InvK bfb s -> fresh k -> st s = MESSAGE -> goodK bfb (act_message bfb s k eof).
Proof.
  intros bfb s k eof [K I] F E. rewrite E in I. assert (N : NK s) by (split; auto). unfold act_message.
  set (s0 := if BUF - endp s <? 5 then move_unused s else s).
  assert (N0 : NK s0 /\ st s0 = st s) by (subst s0; destruct (BUF - endp s <? 5); split; auto; nk).
  destruct N0 as [N0 S0]. clearbody s0.
  pfk F.
  match goal with |- context [if ?c then ASuc _ _ else _] => destruct c end; [leafK E|].
  match goal with |- context [if ?c then ABrk _ _ else _] => destruct c end; [leafK E|].
  match goal with |- context [set_rpos ?h 0] => set (s2 := set_rpos h 0) in *; assert (S2 : st s2 = st h) by reflexivity end.
  assert (N2 : NK s2) by (subst s2; nk). clearbody s2.
  match goal with |- context [N.eqb ?t 5] => generalize t; intro tt end.
  destruct (N.eqb tt 5).
  - dm; [exact Logic.I|].
    unfold goodK. split; [|assumption]. apply NK_InvK_bf; [nk | reflexivity |].
    kcbn. generalize (consume 5 s2). intros x Hx. unfold L, remaining in *.
    cbn [buf set_st set_rpos set_bfe consume set_aok set_win]. rewrite skipn_length. lia.
  - repeat dm; try exact Logic.I; leafK E.
Qed.

Lemma act_bitfield_K : forall bfb s k eof, InvK bfb s -> fresh k -> st s = BITFIELD -> goodK bfb (act_bitfield bfb s k eof).
Proof.
  intros bfb s k eof [K I] F E. rewrite E in I. destruct I as [D Z]. assert (N : NK s) by (split; auto). unfold act_bitfield.
  destruct (rpos s <? bfb) eqn:R; [|apply after_msg_K; auto].
  apply Nat.ltb_lt in R. specialize (Z R).
  destruct (rd (bfb - rpos s) k eof) as [[c k1]|] eqn:RD; [|exact Logic.I].
  destruct (rd_fresh _ _ _ _ _ F RD) as [Fc Fk].
  match goal with |- context [set_rpos ?h (rpos s + length c)] => set (s2 := set_rpos h (rpos s + length c)) in * end.
  assert (N2 : NK s2 /\ L s2 = 0 /\ st s2 = BITFIELD).
  { subst s2. destruct K as (A & B & C). unfold NK, KC, K1, Fr, o0, L in *. kcbn. rewrite Z in *.
    destruct (dvalid s) eqn:DV; (split; [split; [repeat split; try lia; intros j Hj; lia | ] | auto]).
    - intros _. specialize (D eq_refl). lia.
    - intro; discriminate. }
  destruct N2 as (N2 & L2 & S2). clearbody s2.
  dm.
  - apply after_msg_K; auto.
  - unfold goodK. split; auto. apply NK_InvK_bf; auto.
Qed.

Lemma act_ext_K : forall bfb s k eof, InvK bfb s -> fresh k -> st s = EXT -> goodK bfb (act_ext s k eof).
Proof.
  intros bfb s k eof [K I] F E. rewrite E in I. assert (N : NK s) by (split; auto). unfold act_ext.
  dm; [exact Logic.I|].
  match goal with |- context [over ?l s] => generalize l; intro Ln end.
  set (s0 := if over Ln s then move_unused s else s).
  assert (N0 : NK s0 /\ st s0 = st s) by (subst s0; destruct (over Ln s); split; auto; nk).
  destruct N0 as [N0 S0]. clearbody s0.
  dm; [exact Logic.I|].
  pfk F.
  match goal with |- context [FOk] => idtac | _ => idtac end.
  repeat dm; try exact Logic.I; try (apply after_msg_K; [nk | assumption]); leafK E.
Qed.

Lemma act_port_K : forall bfb s k eof, InvK bfb s -> fresh k -> st s = PORT -> goodK bfb (act_port s k eof).
Proof.
  intros bfb s k eof [K I] F E. rewrite E in I. assert (N : NK s) by (split; auto). unfold act_port.
  dm; [exact Logic.I|].
  match goal with |- context [over ?l s] => generalize l; intro Ln end.
  set (s0 := if over Ln s then move_unused s else s).
  assert (N0 : NK s0 /\ st s0 = st s) by (subst s0; destruct (over Ln s); split; auto; nk).
  destruct N0 as [N0 S0]. clearbody s0.
  dm; [exact Logic.I|].
  pfk F.
  repeat dm; try exact Logic.I; try (apply after_msg_K; [nk | assumption]); leafK E.
Qed.

Theorem act_K : forall bfb s k eof, InvK bfb s -> fresh k -> goodK bfb (act bfb s k eof).
Proof.
  intros bfb s k eof I F. unfold act.
  destruct (rdone s); [unfold goodK; auto|].
  destruct (st s) eqn:E; try exact Logic.I;
    [ apply act_key_K | apply act_sync_K | apply act_skey_K | apply act_negot_K | apply act_pad_K
    | apply act_ia_K | apply act_info_K | apply act_peer_K | apply act_message_K | apply act_bitfield_K
    | apply act_ext_K | apply act_port_K ]; auto.
Qed.

Lemma InvK_eq : forall bfb s s', st s' = st s -> inc s' = inc s -> crypto s' = crypto s -> rpos s' = rpos s ->
  buf s' = buf s -> nread s' = nread s -> dstart s' = dstart s -> didx s' = didx s -> dvalid s' = dvalid s ->
  InvK bfb s -> InvK bfb s'.
Proof.
  intros bfb s s' A B C D E F G H I [K R]. split; [eapply KC_eq; eauto|].
  unfold Fr, L in *. rewrite A, B, C, D, E, F, G, H, I. exact R.
Qed.

Lemma InvK_ewrite : forall bfb s, InvK bfb s -> InvK bfb (ewrite s).
Proof.
  intros. unfold ewrite. destruct (wint s); auto. destruct (st s) eqn:E; (eapply InvK_eq; [..|exact H]; reflexivity).
Qed.

Definition postK (bfb : nat) (o : out) : Prop :=
  match o with
  | Cont s k => InvK bfb s /\ fresh k
  | Done s k => InvK bfb s /\ fresh k /\ post_negot (st s) = true
  | _ => True
  end.

Lemma event_read_K : forall fuel bfb s k eof, InvK bfb s -> fresh k -> postK bfb (event_read fuel bfb s k eof).
Proof.
  induction fuel; intros; cbn [event_read]; [exact Logic.I|].
  pose proof (act_K bfb s k eof H H0) as G.
  destruct (act bfb s k eof) as [s' k' | s' k' | s' t e | s' | s' k']; cbn [goodK] in G; try exact Logic.I.
  - destruct G. apply IHfuel; auto.
  - destruct G. cbn [postK]. split; auto. apply InvK_ewrite. auto.
  - destruct G as (G1 & G2 & G3). destruct (wbf s' || wint s'); [destruct (PCBBUF <? remaining s')|]; cbn [postK]; auto.
Qed.

Lemma pump_K : forall n bfb s k, InvK bfb s -> fresh k -> postK bfb (pump n bfb s k).
Proof.
  induction n; intros; cbn [pump]; [exact Logic.I|].
  pose proof (event_read_K (fuel_of s k) bfb s k false H H0) as R.
  destruct (event_read (fuel_of s k) bfb s k false); auto.
  cbn [postK] in R. destruct R. match goal with |- context [if ?c then _ else _] => destruct c end; cbn [postK]; auto.
Qed.

Definition fresh_segs (segs : list (list cell * bool)) : Prop := Forall (fun g => fresh (fst g)) segs.

Lemma run_K : forall bfb segs o, fresh_segs segs -> postK bfb o -> postK bfb (run bfb o segs).
Proof.
  induction segs as [|[g cl] r IH]; intros o FS S; cbn [run]; auto.
  inversion FS; subst. cbn [fst] in *.
  destruct o; auto. apply IH; auto. cbn [postK] in S. destruct S as [S1 S2].
  assert (FK : fresh (k ++ g)) by (apply fresh_app; auto).
  destruct cl.
  - unfold feed_close. apply event_read_K; auto.
  - unfold feed. destruct (k ++ g) eqn:KG; [cbn [postK]; split; auto; constructor|]. rewrite <- KG in *. apply pump_K; auto.
Qed.

Lemma init_in_K : forall bfb p, InvK bfb (init_in p).
Proof.
  intros. unfold init_in, InvK, KC, K1, L. destruct (allow_enc_hs p); cbn; repeat split; auto; try lia; try (intros; lia); try (intro; discriminate).
Qed.
Lemma init_out_K : forall bfb p, InvK bfb (init_out p).
Proof.
  intros. unfold init_out, InvK, KC, K1, L. destruct (prefer_enc_hs p); cbn; repeat split; auto; try lia; try (intros; lia); try (intro; discriminate).
Qed.

(* keystream_aligned: for every policy, direction, input bytes (not yet decrypted by anyone),
   segmentation and close timing *)
Theorem keystream_aligned : forall bfb incoming p segs, fresh_segs segs ->
  postK bfb (run bfb (Cont (if (incoming : bool) then init_in p else init_out p) []) segs).
Proof.
  intros. apply run_K; auto. cbn [postK]. split; [destruct incoming; [apply init_in_K | apply init_out_K] | constructor].
Qed.

(* readable consequences *)
Corollary keystream_exactly_once : forall bfb incoming p segs s k, fresh_segs segs ->
  (run bfb (Cont (if (incoming : bool) then init_in p else init_out p) []) segs = Cont s k \/
   run bfb (Cont (if (incoming : bool) then init_in p else init_out p) []) segs = Done s k) ->
  forall j, j < length (buf s) ->
    dec (nth j (buf s) dcell) = expd (dstart s) (didx s) (nread s - length (buf s) + j).
Proof.
  intros bfb incoming p segs s k FS H j Hj.
  pose proof (keystream_aligned bfb incoming p segs FS) as P.
  destruct H as [H|H]; rewrite H in P; cbn [postK] in P; destruct P as [[(A & B & C) _] _]; apply C; exact Hj.
Qed.

Corollary keystream_handover : forall bfb incoming p segs s k, fresh_segs segs ->
  run bfb (Cont (if (incoming : bool) then init_in p else init_out p) []) segs = Done s k ->
  dvalid s = true -> dstart s + didx s = nread s.
Proof.
  intros bfb incoming p segs s k FS H DV.
  pose proof (keystream_aligned bfb incoming p segs FS) as P. rewrite H in P. cbn [postK] in P.
  destruct P as ([_ I] & _ & N). destruct (st s); try discriminate; try (exact (I DV)). destruct I as [I _]. exact (I DV).
Qed.

(* sender side: a byte the sender encrypted with index (offset - dstart) comes out right, a clear
   byte outside the decrypted range is left alone *)
Lemma sender_cells_ok : forall s j, KC s -> j < L s ->
  let c := nth j (buf s) dcell in let q := o0 s + j in
  (forall v, dstart s <= q -> q < dstart s + didx s -> ck c = Enc (q - dstart s) v -> cell_ok c = true) /\
  (q < dstart s \/ dstart s + didx s <= q -> is_clr c = true -> cell_ok c = true).
Proof.
  intros s j (A & B & C) Hj c q. subst c q. specialize (C j Hj). split.
  - intros v H1 H2 E. unfold cell_ok. rewrite E, C, expd_in by lia. apply Nat.eqb_refl.
  - intros H E. unfold cell_ok, is_clr in *. destruct (ck (nth j (buf s) dcell)); try discriminate.
    rewrite C. destruct H as [H|H].
    + unfold expd. assert (X : (dstart s <=? o0 s + j) = false) by (apply Nat.leb_gt; lia). rewrite X. reflexivity.
    + rewrite expd_out by lia. reflexivity.
Qed.
