(* C06 — the buffer invariant lifted to whole connections (any segmentation, any close timing) *)
From Coq Require Import NArith List Bool Arith Lia.
Import ListNotations.
From LTV.C06 Require Import ParamsProbe Model ProofsInv.

(* ---------------------------------------------------------------- runs *)
Definition safe_out (o : out) : Prop :=
  match o with
  | Cont s _ => InvB s
  | Done s _ => InvB s /\ L s <= 512
  | Failed _ _ _ => True
  | Crash s => InvB s /\ 512 < L s       (* the only internal_error left: receive_succeeded's unread check *)
  | OutOfFuel => True
  end.

Lemma InvB_set_w_done : forall s a b, InvB s -> InvB (set_w s a b true).
Proof. intros s a b I. unfold InvB in *. unfold L in *. prj. destruct (st s); auto. Qed.

Lemma InvB_ewrite : forall s, InvB s -> InvB (ewrite s).
Proof.
  intros s I. unfold ewrite. destruct (wint s); auto.
  destruct (st s) eqn:E; unfold InvB in *; prj; unfold L in *; prj; rewrite E in *; auto.
Qed.

Lemma event_read_safe : forall fuel bfb s k eof, InvB s -> safe_out (event_read fuel bfb s k eof).
Proof.
  induction fuel; intros bfb s k eof I; simpl; [exact Logic.I|].
  pose proof (act_good bfb s k eof I) as G.
  destruct (act bfb s k eof) as [s' k' | s' k' | s' t e | s' | s' k']; simpl in G.
  - apply IHfuel. exact G.
  - simpl. apply InvB_ewrite. exact G.
  - exact Logic.I.
  - contradiction.
  - destruct (wbf s' || wint s').
    + destruct (PCBBUF <? remaining s') eqn:C; simpl.
      * apply Nat.ltb_lt in C. revert C. consts. unfold remaining, L. auto.
      * apply Nat.ltb_ge in C. revert C. consts. unfold remaining, L. auto.
    + simpl. apply InvB_set_w_done. exact G.
Qed.

Lemma pump_safe : forall n bfb s k, InvB s -> safe_out (pump n bfb s k).
Proof.
  induction n; intros bfb s k I; [exact Logic.I|].
  cbn [pump].
  pose proof (event_read_safe (fuel_of s k) bfb s k false I) as G.
  destruct (event_read (fuel_of s k) bfb s k false) as [s' k' | | | |]; auto.
  cbn [safe_out] in G.
  match goal with |- context [if ?c then _ else _] => destruct c end; cbn [safe_out]; auto.
Qed.

Lemma feed_safe : forall bfb s k, InvB s -> safe_out (feed bfb s k).
Proof. intros. unfold feed. destruct k; [exact H|]. apply pump_safe. auto. Qed.

Lemma feed_close_safe : forall bfb s k, InvB s -> safe_out (feed_close bfb s k).
Proof. intros. unfold feed_close. apply event_read_safe. auto. Qed.

(* a whole connection: segments arriving one after the other, each optionally followed by the
   peer closing (the flag) *)
Fixpoint run (bfb : nat) (o : out) (segs : list (list cell * bool)) : out :=
  match segs with
  | [] => o
  | (g, cl) :: r =>
    match o with
    | Cont s k => run bfb (if (cl : bool) then feed_close bfb s (k ++ g) else feed bfb s (k ++ g)) r
    | _ => o
    end
  end.

Lemma run_safe : forall bfb segs o, safe_out o -> safe_out (run bfb o segs).
Proof.
  induction segs as [|[g cl] r IH]; intros o S; simpl; auto.
  destruct o; auto. apply IH. simpl in S. destruct cl; [apply feed_close_safe | apply feed_safe]; auto.
Qed.

Lemma init_in_inv : forall p, InvB (init_in p).
Proof. intro p. unfold init_in, InvB. destruct (allow_enc_hs p); cbn; lia. Qed.
Lemma init_out_inv : forall p, InvB (init_out p).
Proof. intro p. unfold init_out, InvB. destruct (prefer_enc_hs p); cbn; lia. Qed.

Theorem buffer_safe_partial : forall bfb incoming p segs,
  safe_out (run bfb (Cont (if (incoming : bool) then init_in p else init_out p) []) segs).
Proof.
  intros. apply run_safe. simpl. destruct incoming; [apply init_in_inv | apply init_out_inv].
Qed.

(* every handshake that fails ends in receive_failed of that handshake with a type/error pair;
   the state of the run is a function of this handshake's own state and input only *)
Theorem bad_handshake_closes_one : forall bfb incoming p segs,
  match run bfb (Cont (if (incoming : bool) then init_in p else init_out p) []) segs with
  | Crash s => 512 < L s
  | _ => True
  end.
Proof.
  intros. pose proof (buffer_safe_partial bfb incoming p segs) as H.
  destruct (run _ _ _); auto. simpl in H. tauto.
Qed.
