(* C02 proofs, part E: mark_completed of a valid, not yet set piece never raises
   (FileList::inc_completed always finds a file), for every reachable state. *)
From Coq Require Import List NArith ZArith Bool Lia ZifyBool ZifyNat ZifyN.
From LTV.C02 Require Import Model ProofsA ProofsB Proofs.
Import ListNotations.
Local Open Scope N_scope.

Arguments N.mul : simpl never.
Arguments N.add : simpl never.
Arguments N.sub : simpl never.
Arguments N.div : simpl never.
Arguments N.to_nat : simpl never.
Arguments N.of_nat : simpl never.

Lemma inc_phase_length : forall fs fc idx, length (inc_phase fs fc idx) = length fc.
Proof.
  induction fs; intros [|x fc] idx; simpl; auto.
  destruct (_ <? _); simpl; auto.
Qed.

Lemma inc_completed_length : forall fs fc idx fc', inc_completed fs fc idx = Some fc' ->
  length fc' = length fc.
Proof.
  induction fs; intros [|x fc] idx fc' H; simpl in H; try discriminate.
  destruct (idx <? f_r2 a).
  - inversion H; subst. apply (inc_phase_length (a :: fs) (x :: fc) idx).
  - destruct (inc_completed fs fc idx) eqn:E; simpl in H; inversion H; subst.
    simpl. f_equal. eapply IHfs; eauto.
Qed.

Lemma inc_completed_some : forall fs fc idx j f, length fc = length fs ->
  nth_error fs j = Some f -> idx < f_r2 f -> inc_completed fs fc idx <> None.
Proof.
  induction fs; intros [|x fc] idx j f Hlen Hj Hr; simpl in *; try discriminate.
  - destruct j; discriminate.
  - destruct (N.ltb_spec idx (f_r2 a)); [discriminate|].
    destruct j; simpl in Hj.
    + inversion Hj; subst. lia.
    + pose proof (IHfs fc idx j f ltac:(lia) Hj Hr) as K.
      destruct (inc_completed fs fc idx); [discriminate|congruence].
Qed.

Lemma laid_last_nonempty : forall a fs e, laid a fs e -> a < e ->
  exists j f, nth_error fs j = Some f /\ 0 < f_size f /\ f_off f + f_size f = e.
Proof.
  induction 1; intros Hlt; [lia|].
  pose proof (laid_le _ _ _ H).
  destruct (N.lt_ge_cases (f_off f + f_size f) e) as [Hin|Hge].
  - destruct (IHlaid Hin) as (j & g & G1 & G2 & G3). exists (S j), g. auto.
  - exists O, f. simpl. split; auto. split; lia.
Qed.

Lemma count_true_le' : forall d, count_true d <= N.of_nat (length d).
Proof. induction d; simpl; [lia|]. destruct a; lia. Qed.

Lemma count_true_lt : forall d i, nth i d false = false -> (i < length d)%nat ->
  count_true d < N.of_nat (length d).
Proof.
  induction d; intros [|i] H Hi; simpl in *; try lia.
  - subst a. pose proof (count_true_le' d). lia.
  - pose proof (IHd i H ltac:(lia)). destruct a; lia.
Qed.

Lemma inc_phase_pos_length : forall fs fc idx, length (fst (inc_phase_pos fs fc idx)) = length fc.
Proof.
  induction fs; intros [|x fc] idx; simpl; auto.
  destruct (_ <? _); simpl; auto.
Qed.

Lemma inc_completed_pos_length : forall fs fc idx r, inc_completed_pos fs fc idx = Some r ->
  length (fst r) = length fc.
Proof.
  induction fs; intros [|x fc] idx r H; simpl in H; try discriminate.
  destruct (idx <? f_r2 a).
  - inversion H; subst. apply (inc_phase_pos_length (a :: fs) (x :: fc) idx).
  - destruct (inc_completed_pos fs fc idx) eqn:E; simpl in H; inversion H; subst.
    simpl. f_equal. eapply IHfs; eauto.
Qed.

Lemma upd_loop_length : forall fs done fc k idx, length (fst (upd_loop fs fc k idx done)) = length fc.
Proof.
  induction done as [|b r IH]; intros fc k idx; simpl; auto.
  destruct b; auto.
  destruct (inc_completed_pos (skipn k fs) (skipn k fc) idx) as [[fc2 d]|] eqn:E; simpl; auto.
  rewrite IH. apply inc_completed_pos_length in E. simpl in E.
  rewrite app_length, E, firstn_length, skipn_length. lia.
Qed.

Lemma update_completed_length : forall c done fc, (length fc <= length (c_files c))%nat ->
  length (fst (update_completed c done fc)) = length fc.
Proof.
  intros c done fc H. unfold update_completed.
  destruct (_ =? _); simpl.
  - rewrite map_length, firstn_length. lia.
  - destruct (_ =? _); simpl; [apply map_length|]. rewrite upd_loop_length. apply map_length.
Qed.

(* update_completed recounts from the bitfield alone: whatever the counters held before
   (a previous session, a closed and re-opened torrent) does not survive *)
Theorem update_completed_fresh : forall c done fc fc', length fc = length fc' ->
  update_completed c done fc = update_completed c done fc'.
Proof.
  intros c done fc fc' H. unfold update_completed. rewrite H.
  assert (E : map (fun _ : N => 0) fc = map (fun _ : N => 0) fc').
  { clear -H. revert fc' H. induction fc; intros [|y fc'] H; simpl in *; try discriminate; auto.
    f_equal. apply IHfc. lia. }
  rewrite E. reflexivity.
Qed.

(* with nothing completed every per-file counter is 0 after update_completed / re-open *)
Theorem update_completed_none : forall c done fc, count_true done = 0 -> 0 < size_chunks c ->
  update_completed c done fc = (map (fun _ => 0) fc, true).
Proof.
  intros c done fc H Hn. unfold update_completed. rewrite H.
  destruct (N.eqb_spec 0 (size_chunks c)); [lia|]. reflexivity.
Qed.

Lemma step_fcomp_length : forall c s o, length (s_fcomp s) = length (c_files c) ->
  length (s_fcomp (fst (step c s o))) = length (c_files c).
Proof.
  intros c s o H. destruct o; simpl; auto.
  - unfold do_chunk. destruct (create_chunk _ _ _ _ _); simpl; auto.
    destruct w; [destruct (buffer_segs _ _ _)|]; simpl; auto.
  - unfold do_chunk. destruct (create_chunk _ _ _ _ _); simpl; auto.
    destruct w; [destruct (buffer_segs _ _ _)|]; simpl; auto.
  - destruct (_ || _); simpl; auto. destruct (nth _ _ _); simpl; auto.
    destruct (inc_completed _ _ _) eqn:E; simpl; auto.
    rewrite (inc_completed_length _ _ _ _ E). auto.
  - rewrite update_completed_length; auto. lia.
  - destruct (_ <? _); simpl; auto.
  - rewrite update_completed_length; auto. lia.
  - destruct (nth_error _ _); simpl; auto. destruct (f_pad _); simpl; auto.
  - destruct (create_chunk _ _ _ _ _); simpl; auto.
  - destruct (create_chunk _ _ _ _ _); simpl; auto.
    destruct (xfer _ _ _ _); simpl; auto. destruct w; simpl; auto.
Qed.

Lemma run_fcomp_length : forall c ops s, length (s_fcomp s) = length (c_files c) ->
  length (s_fcomp (fst (run c s ops))) = length (c_files c).
Proof. induction ops; intros; simpl; auto. apply IHops. apply step_fcomp_length. auto. Qed.

Theorem mark_completed_total : forall cs lay ops idx, cfg_ok cs lay ->
  let c := mk_cfg cs lay in
  let s := fst (run c (init_state c) ops) in
  idx < size_chunks c -> nth (N.to_nat idx) (s_done s) false = false ->
  snd (step c s (OpMark idx)) = OutMark true.
Proof.
  intros cs lay ops idx (H1 & H2 & H3 & H4 & H5) c s Hidx Hbit.
  assert (Hdl : N.of_nat (length (s_done s)) = size_chunks c).
  { unfold s. apply run_done_length. apply init_done_length. }
  assert (Hfl : length (s_fcomp s) = length (c_files c)).
  { unfold s. apply run_fcomp_length. simpl. rewrite map_length. reflexivity. }
  pose proof (count_true_lt (s_done s) (N.to_nat idx) Hbit ltac:(lia)) as Hcnt.
  simpl.
  destruct (N.leb_spec (size_chunks c) idx); [lia|].
  destruct (N.leb_spec (size_chunks c) (count_true (s_done s))); [lia|]. simpl.
  rewrite Hbit.
  destruct (laid_last_nonempty _ _ _ (cfg_laid cs lay) ltac:(simpl; lia)) as (j & f & F1 & F2 & F3).
  destruct (layout_offsets _ _ _ _ F1) as (sz & pad & _ & _ & Es & _ & Er).
  assert (Hr2 : f_r2 f = size_chunks c).
  { unfold set_range in Er. destruct (N.eqb_spec cs 0); [lia|]. destruct (N.eqb_spec sz 0); [lia|].
    assert (E2 : f_r2 f = u32 ((f_off f + sz + cs - 1) / cs)) by congruence.
    rewrite E2. unfold size_chunks. rewrite <- Es, F3. reflexivity. }
  pose proof (inc_completed_some (c_files c) (s_fcomp s) idx j f Hfl F1 ltac:(lia)) as K.
  simpl in K. destruct (inc_completed (split cs 0 lay) (s_fcomp s) idx); [reflexivity|congruence].
Qed.

Lemma count_true_repeat_false : forall n, count_true (repeat false n) = 0.
Proof. induction n; simpl; auto. Qed.

(* close + re-open without resume data: bitfield all clear, every per-file counter back to 0,
   file contents untouched *)
Theorem reopen_resets : forall cs lay s, cfg_ok cs lay ->
  let c := mk_cfg cs lay in
  step c s OpReopen =
  (mkState (s_store s) (repeat false (N.to_nat (size_chunks c))) (map (fun _ => 0) (s_fcomp s)),
   OutUpd true).
Proof.
  intros cs lay s (H1 & H2 & H3 & H4 & H5) c. simpl.
  rewrite update_completed_none.
  - reflexivity.
  - apply count_true_repeat_false.
  - apply (size_chunks_pos c); auto.
Qed.

