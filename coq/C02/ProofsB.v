(* C02 proofs, part B: FileList::create_chunk yields parts that cover exactly the requested
   window of the byte stream (parts_cover). *)
From Coq Require Import List NArith ZArith Bool Lia ZifyBool ZifyNat ZifyN.
From LTV.C02 Require Import Model ProofsA.
Import ListNotations.
Local Open Scope N_scope.

Arguments N.mul : simpl never.
Arguments N.add : simpl never.
Arguments N.sub : simpl never.
Arguments N.min : simpl never.
Arguments N.to_nat : simpl never.
Arguments N.of_nat : simpl never.

(* ------------------------------------------------------------------ list helpers *)

Lemma upd_length : forall A (l : list A) i x, length (upd l i x) = length l.
Proof. induction l; intros [|i] x; simpl; auto. Qed.

Lemma nth_upd_same : forall A (l : list A) i x d, (i < length l)%nat -> nth i (upd l i x) d = x.
Proof. induction l; intros [|i] x d H; simpl in *; try lia; auto. apply IHl. lia. Qed.

Lemma nth_upd_other : forall A (l : list A) i j x d, i <> j -> nth j (upd l i x) d = nth j l d.
Proof.
  induction l; intros [|i] [|j] x d H; simpl; auto; try congruence.
Qed.

Lemma zeros_length : forall n, length (zeros n) = n.
Proof. induction n; simpl; auto. Qed.

Lemma resize_length : forall l n, fi_len (f_resize l n) = n.
Proof. reflexivity. Qed.

Lemma nth_error_length : forall A (l : list A) i x, nth_error l i = Some x -> (i < length l)%nat.
Proof. intros. apply nth_error_Some. congruence. Qed.

Lemma laid_nil_inv : forall a e, laid a [] e -> a = e.
Proof. intros a e H. inversion H; auto. Qed.

Lemma laid_cons_inv : forall a f r e, laid a (f :: r) e -> a = f_off f /\ laid (f_off f + f_size f) r e.
Proof. intros a f r e H. inversion H; auto. Qed.

(* ------------------------------------------------------------------ create_chunk *)

Section Chunk.
  Variable files : list file.

  Definition hd_size (fs : list file) : N := match fs with [] => 0 | f :: _ => f_size f end.

  (* part p of a chunk that starts at stream position B: chunk bytes [p_pos, p_pos+p_size) are
     bytes [p_foff, p_foff+p_size) of file p_file, and that window sits at stream position
     B + p_pos: f_off + p_foff = B + p_pos *)
  Definition part_ok (B : N) (p : part) : Prop :=
    exists f, nth_error files (p_file p) = Some f /\ 0 < p_size p /\ p_pad p = f_pad f /\
              p_foff p + p_size p <= f_size f /\ f_off f + p_foff p = B + p_pos p.

  Fixpoint contig (cpos : N) (ps : list part) : Prop :=
    match ps with [] => True | p :: r => p_pos p = cpos /\ contig (cpos + p_size p) r end.

  (* what a create_chunk call may do to the store: nothing below index i, and elsewhere only
     the ftruncate of a non-padding file to its size, and only for a writable request *)
  Definition store_ext (w : bool) (i : nat) (s s' : list fimg) : Prop :=
    length s' = length s /\
    (forall j, (j < i)%nat -> nth j s' fempty = nth j s fempty) /\
    (forall j, nth j s' fempty = nth j s fempty \/
               (w = true /\ exists f, nth_error files j = Some f /\ f_pad f = false /\
                                      nth j s' fempty = f_resize (nth j s fempty) (f_size f))).

  (* the mapped window lies inside the file's current size; a writable request leaves the file
     at exactly its size *)
  Definition mapped (w : bool) (st : list fimg) (p : part) : Prop :=
    p_pad p = false ->
    p_foff p + p_size p <= fi_len (nth (p_file p) st fempty) /\
    (w = true -> exists f, nth_error files (p_file p) = Some f /\
                           fi_len (nth (p_file p) st fempty) = f_size f).

  Lemma store_ext_refl : forall w i s, store_ext w i s s.
  Proof. intros. repeat split; auto. Qed.

  Lemma store_ext_weaken : forall w i s s', store_ext w (S i) s s' -> store_ext w i s s'.
  Proof. intros w i s s' (H1 & H2 & H3). repeat split; auto. Qed.

  Lemma store_ext_weaken0 : forall w i s s', store_ext w i s s' -> store_ext w 0 s s'.
  Proof. intros w i s s' (H1 & H2 & H3). split; auto. split; auto. intros j Hj. lia. Qed.

  Lemma cc_walk_len0 : forall fs i st off w cpos acc,
    cc_walk fs i st off 0 w cpos acc = COk st (rev acc).
  Proof. destruct fs; reflexivity. Qed.

  Lemma chunk_size_app : forall a b, chunk_size (a ++ b) = chunk_size a + chunk_size b.
  Proof. induction a; intros; simpl; [lia|]. rewrite IHa. lia. Qed.

  Lemma cc_walk_ok : forall fs i store off len w cpos acc a e B,
    laid a fs e -> a <= off -> (off = a \/ off < a + hd_size fs) -> off + len <= e ->
    (forall j f, nth_error fs j = Some f -> nth_error files (i + j) = Some f) ->
    B + cpos = off -> length store = length files ->
    match cc_walk fs i store off len w cpos acc with
    | CErr => False
    | CNull st => store_ext w i store st /\ w = false
    | COk st ps => exists ps', ps = rev acc ++ ps' /\ contig cpos ps' /\ chunk_size ps' = len /\
                   Forall (part_ok B) ps' /\ store_ext w i store st /\
                   Forall (fun p => (i <= p_file p)%nat /\ mapped w st p) ps'
    end.
  Proof.
    induction fs as [|f fs IH]; intros i store off len w cpos acc a e B Hl Ha Hor He Hidx HB Hlen.
    - apply laid_nil_inv in Hl. subst e. simpl. destruct (N.eqb_spec len 0) as [E|E].
      + exists []. rewrite app_nil_r. simpl. repeat split; auto.
      + simpl in Hor. lia.
    - destruct (laid_cons_inv _ _ _ _ Hl) as [-> H3]. cbn [cc_walk]. destruct (N.eqb_spec len 0) as [E|E].
      { exists []. rewrite app_nil_r. simpl. repeat split; auto. }
      assert (Hidx' : forall j g, nth_error fs j = Some g -> nth_error files (S i + j) = Some g).
      { intros j g Hj. replace (S i + j)%nat with (i + S j)%nat by lia. apply Hidx. exact Hj. }
      assert (Hf : nth_error files i = Some f).
      { replace i with (i + 0)%nat by lia. apply Hidx. reflexivity. }
      destruct (N.eqb_spec (f_size f) 0) as [Ez|Ez].
      { (* zero-length file: skipped *)
        simpl in Hor.
        specialize (IH (S i) store off len w cpos acc (f_off f + f_size f) e B H3
                       ltac:(lia) ltac:(left; lia) He Hidx' HB Hlen).
        destruct (cc_walk fs (S i) store off len w cpos acc); auto.
        - destruct IH as [IH1 IH2]. split; auto. apply store_ext_weaken; auto.
        - destruct IH as (ps' & E1 & E2 & E3 & E4 & E5 & E6). exists ps'.
          split; [auto|]. split; [auto|]. split; [auto|]. split; [auto|].
          split; [apply store_ext_weaken; auto|].
          eapply Forall_impl; [|exact E6]. intros p [P1 P2]. split; [lia|auto]. }
      simpl in Hor.
      set (o := off - f_off f). set (l := N.min len (f_size f - o)).
      assert (Ho : o < f_size f) by (unfold o; lia).
      assert (Hlpos : 0 < l) by (unfold l; lia).
      assert (Hlo : o + l <= f_size f) by (unfold l; lia).
      (* the recursive call, for any store and accumulator *)
      assert (REC : forall store1 pt, length store1 = length files ->
                p_pos pt = cpos -> p_size pt = l -> part_ok B pt ->
                match cc_walk fs (S i) store1 (off + l) (len - l) w (cpos + l) (pt :: acc) with
                | CErr => False
                | CNull st => store_ext w (S i) store1 st /\ w = false
                | COk st ps => exists ps', ps = rev acc ++ pt :: ps' /\ contig (cpos + l) ps' /\
                     chunk_size ps' = len - l /\ Forall (part_ok B) ps' /\
                     store_ext w (S i) store1 st /\
                     Forall (fun p => (S i <= p_file p)%nat /\ mapped w st p) ps'
                end).
      { intros store1 pt Hl1 Hp1 Hp2 Hp3.
        destruct (N.le_gt_cases len (f_size f - o)) as [Hfit|Hmore].
        - (* the chunk ends inside this file *)
          assert (len - l = 0) by (unfold l; lia). rewrite H. rewrite cc_walk_len0.
          exists []. split; [reflexivity|]. split; [exact I|]. split; [simpl; lia|].
          split; [constructor|]. split; [apply store_ext_refl|constructor].
        - assert (El : l = f_size f - o) by (unfold l; lia).
          specialize (IH (S i) store1 (off + l) (len - l) w (cpos + l) (pt :: acc)
                         (f_off f + f_size f) e B H3 ltac:(unfold o in *; lia)
                         ltac:(left; unfold o in *; lia) ltac:(lia) Hidx' ltac:(lia) Hl1).
          destruct (cc_walk fs (S i) store1 (off + l) (len - l) w (cpos + l) (pt :: acc)); auto.
          destruct IH as (ps' & E1 & E2 & E3 & E4 & E5 & E6). exists ps'.
          simpl in E1. rewrite <- app_assoc in E1. simpl in E1.
          split; [auto|]. split; [auto|]. split; [auto|]. split; [auto|]. split; auto. }
      destruct (f_pad f) eqn:Epad.
      { (* padding entry: anonymous memory, no file window *)
        fold o. fold l.
        set (pt := mkPart cpos l i o true).
        assert (Hpt : part_ok B pt).
        { exists f. unfold pt; simpl. repeat split; auto. unfold o. lia. }
        specialize (REC store pt Hlen eq_refl eq_refl Hpt).
        fold pt. destruct (cc_walk fs (S i) store (off + l) (len - l) w (cpos + l) (pt :: acc)); auto.
        - destruct REC as [R1 R2]. split; auto. apply store_ext_weaken; auto.
        - destruct REC as (ps' & E1 & E2 & E3 & E4 & E5 & E6). exists (pt :: ps').
          split; [exact E1|]. split; [simpl; auto|]. split; [simpl; lia|].
          split; [constructor; auto|]. split; [apply store_ext_weaken; auto|].
          constructor.
          + split; [simpl; lia|]. intros Hp. discriminate.
          + eapply Forall_impl; [|exact E6]. intros p [P1 P2]. split; [lia|auto]. }
      (* regular file *)
      fold o. fold l.
      set (store1 := if w then upd store i (f_resize (nth i store fempty) (f_size f)) else store).
      assert (Hi : (i < length store)%nat) by (rewrite Hlen; eapply nth_error_length; eauto).
      assert (Hl1 : length store1 = length files).
      { unfold store1. destruct w; auto. rewrite upd_length. auto. }
      assert (Hext1 : store_ext w i store store1).
      { unfold store1. destruct w; [|apply store_ext_refl].
        split; [apply upd_length|]. split.
        - intros j Hj. apply nth_upd_other. lia.
        - intros j. destruct (Nat.eq_dec i j) as [<-|Hne].
          + right. split; auto. exists f. rewrite nth_upd_same by auto. auto.
          + left. apply nth_upd_other. auto. }
      assert (Hcur : w = true -> fi_len (nth i store1 fempty) = f_size f).
      { intros ->. unfold store1. rewrite nth_upd_same by auto. apply resize_length. }
      set (cur := fi_len (nth i store1 fempty)) in *.
      destruct ((l =? 0) || (cur <? o) || (cur <? o + l)) eqn:Echk.
      { split; auto. destruct w; auto. specialize (Hcur eq_refl).
        rewrite !orb_true_iff, N.eqb_eq, !N.ltb_lt in Echk. lia. }
      rewrite !orb_false_iff, N.eqb_neq, !N.ltb_ge in Echk. destruct Echk as [[_ _] Hwin].
      set (pt := mkPart cpos l i o false).
      assert (Hpt : part_ok B pt).
      { exists f. unfold pt; simpl. repeat split; auto. unfold o. lia. }
      specialize (REC store1 pt Hl1 eq_refl eq_refl Hpt).
      destruct (cc_walk fs (S i) store1 (off + l) (len - l) w (cpos + l) (pt :: acc)); auto.
      + destruct REC as [R1 R2]. split; auto.
        destruct Hext1 as (X1 & X2 & X3). destruct R1 as (Y1 & Y2 & Y3).
        split; [congruence|]. split.
        * intros j Hj. rewrite Y2 by lia. apply X2. auto.
        * intros j. destruct (Nat.eq_dec i j) as [<-|Hne].
          -- rewrite Y2 by lia. apply X3.
          -- destruct (Y3 j) as [Z|Z].
             ++ rewrite Z. apply X3.
             ++ subst w. discriminate (proj1 Z).
      + destruct REC as (ps' & E1 & E2 & E3 & E4 & E5 & E6). exists (pt :: ps').
        destruct Hext1 as (X1 & X2 & X3). destruct E5 as (Y1 & Y2 & Y3).
        assert (Hsame : nth i st fempty = nth i store1 fempty) by (apply Y2; lia).
        assert (Hother : forall j, j <> i -> nth j store1 fempty = nth j store fempty).
        { intros j Hj. unfold store1. destruct w; auto. apply nth_upd_other. auto. }
        split; [exact E1|]. split; [simpl; auto|]. split; [simpl; lia|].
        split; [constructor; auto|]. split.
        * split; [congruence|]. split.
          -- intros j Hj. rewrite Y2 by lia. apply X2. auto.
          -- intros j. destruct (Nat.eq_dec i j) as [<-|Hne].
             ++ rewrite Hsame. apply X3.
             ++ rewrite <- (Hother j) by auto. apply Y3.
        * constructor.
          -- split; [simpl; lia|]. intros _. simpl. rewrite Hsame. fold cur. split; [lia|].
             intros Hw. exists f. auto.
          -- eapply Forall_impl; [|exact E6]. intros p [P1 P2]. split; [lia|auto].
  Qed.

  Lemma find_start_ok : forall fs i a e off, laid a fs e -> a <= off -> off < e ->
    (forall j f, nth_error fs j = Some f -> nth_error files (i + j) = Some f) ->
    exists a', laid a' (fst (find_start fs i off)) e /\ a' <= off /\
               off < a' + hd_size (fst (find_start fs i off)) /\
               (forall j f, nth_error (fst (find_start fs i off)) j = Some f ->
                            nth_error files (snd (find_start fs i off) + j) = Some f).
  Proof.
    induction fs as [|f fs IH]; intros i a e off Hl Ha He Hidx.
    - apply laid_nil_inv in Hl. lia.
    - destruct (laid_cons_inv _ _ _ _ Hl) as [-> H3]. simpl.
      destruct ((f_off f <=? off) && (off <? f_off f + f_size f)) eqn:Ec.
      + rewrite andb_true_iff, N.leb_le, N.ltb_lt in Ec. simpl.
        exists (f_off f). repeat split; auto. lia.
      + rewrite andb_false_iff, N.leb_gt, N.ltb_ge in Ec.
        apply (IH (S i) (f_off f + f_size f) e off H3); try lia.
        intros j g Hj. replace (S i + j)%nat with (i + S j)%nat by lia. apply Hidx. exact Hj.
  Qed.

  (* ---------------------------------------------------------------- parts_cover *)

  Variable c : cfg.
  Hypothesis Hfiles : files = c_files c.
  Hypothesis Hlaid : laid 0 files (c_tot c).

  Theorem create_chunk_ok : forall store off len w, length store = length files ->
    match create_chunk c store off len w with
    | CErr => c_tot c < off + len
    | CNull st => off + len <= c_tot c /\ store_ext w 0 store st /\ (len = 0 \/ w = false)
    | COk st ps => off + len <= c_tot c /\ 0 < len /\ contig 0 ps /\ chunk_size ps = len /\
                   Forall (part_ok off) ps /\ store_ext w 0 store st /\ Forall (mapped w st) ps
    end.
  Proof.
    intros store off len w Hlen. unfold create_chunk.
    destruct (N.ltb_spec (c_tot c) (off + len)) as [Hout|Hin]; [exact Hout|].
    destruct (N.eq_dec len 0) as [->|Hne].
    { rewrite cc_walk_len0. simpl. split; [lia|]. split; [apply store_ext_refl|auto]. }
    rewrite <- Hfiles.
    destruct (find_start_ok files O 0 (c_tot c) off Hlaid ltac:(lia) ltac:(lia) ltac:(auto))
      as (a' & L1 & L2 & L3 & L4).
    pose proof (cc_walk_ok (fst (find_start files 0 off)) (snd (find_start files 0 off)) store off len w 0 []
                           a' (c_tot c) off L1 L2 ltac:(right; exact L3) Hin L4 ltac:(lia) Hlen) as W.
    destruct (cc_walk _ _ store off len w 0 []) as [|st|st ps]; [contradiction| |].
    - destruct W as [W1 W4]. split; [lia|]. split; auto. eapply store_ext_weaken0; eauto.
    - destruct W as (ps' & E1 & E2 & E3 & E4 & W1 & E6). simpl in E1. subst ps'.
      destruct ps as [|p ps]; [simpl in E3; lia|].
      split; [lia|]. split; [lia|]. split; [auto|]. split; [auto|]. split; [auto|].
      split; [eapply store_ext_weaken0; eauto|].
      eapply Forall_impl; [|exact E6]. intros q [_ Q]. exact Q.
  Qed.

  Lemma contig_lower : forall ps cpos q, contig cpos ps -> In q ps -> cpos <= p_pos q.
  Proof.
    induction ps; intros cpos q Hc Hin; simpl in *; [contradiction|].
    destruct Hc as [Hp Hc]. destruct Hin as [->|Hin]; [lia|].
    apply IHps with (q := q) in Hc; auto. lia.
  Qed.

  Lemma contig_cover : forall ps cpos k, contig cpos ps -> cpos <= k -> k < cpos + chunk_size ps ->
    exists p, In p ps /\ p_pos p <= k /\ k < p_pos p + p_size p.
  Proof.
    induction ps; intros cpos k Hc H1 H2; simpl in *; [lia|].
    destruct Hc as [Hp Hc].
    destruct (N.lt_ge_cases k (cpos + p_size a)) as [Hk|Hk].
    - exists a. split; auto. lia.
    - destruct (IHps _ k Hc Hk ltac:(lia)) as (p & P1 & P2). exists p. auto.
  Qed.

  Lemma contig_unique : forall ps cpos k p q, contig cpos ps -> In p ps -> In q ps ->
    p_pos p <= k < p_pos p + p_size p -> p_pos q <= k < p_pos q + p_size q -> p = q.
  Proof.
    induction ps; intros cpos k p q Hc Hp Hq Kp Kq; simpl in *; [contradiction|].
    destruct Hc as [Ha Hc].
    destruct Hp as [->|Hp], Hq as [->|Hq]; auto.
    - pose proof (contig_lower _ _ _ Hc Hq). lia.
    - pose proof (contig_lower _ _ _ Hc Hp). lia.
    - eapply IHps; eauto.
  Qed.

  (* byte k of the chunk is byte locate(off + k) of the files; one part holds it; no
     zero-length file and no zero-length part appears *)
  Theorem parts_cover : forall store off len w st ps, length store = length files ->
    create_chunk c store off len w = COk st ps ->
    chunk_size ps = len /\
    (forall p, In p ps -> 0 < p_size p /\
               exists f, nth_error files (p_file p) = Some f /\ 0 < f_size f /\ p_pad p = f_pad f) /\
    forall k, k < len ->
      exists p, In p ps /\ p_pos p <= k < p_pos p + p_size p /\
                located files (off + k) (p_file p) (p_foff p + (k - p_pos p)) /\
                (forall q, In q ps -> p_pos q <= k < p_pos q + p_size q -> q = p).
  Proof.
    intros store off len w st ps Hlen Hc.
    pose proof (create_chunk_ok store off len w Hlen) as H. rewrite Hc in H.
    destruct H as (H1 & H2 & H3 & H4 & H5 & H6 & H7).
    split; [exact H4|]. split.
    - intros p Hp. rewrite Forall_forall in H5. destruct (H5 p Hp) as (f & F1 & F2 & F3 & F4 & F5).
      split; auto. exists f. repeat split; auto. lia.
    - intros k Hk. destruct (contig_cover ps 0 k H3 ltac:(lia) ltac:(lia)) as (p & P1 & P2 & P3).
      exists p. split; auto. split; [lia|]. split.
      + rewrite Forall_forall in H5. destruct (H5 p P1) as (f & F1 & F2 & F3 & F4 & F5).
        exists f. repeat split; auto; lia.
      + intros q Hq Kq. eapply contig_unique; eauto.
  Qed.
End Chunk.
