(* C02 proofs, part F: per-file completed counters (File::completed_chunks) are exactly the number
   of set pieces inside the file's piece range — after mark_completed and after update_completed
   (whose loop re-uses the iterator returned by inc_completed) — hence never above size_chunks. *)
From Coq Require Import List NArith ZArith Bool Lia ZifyBool ZifyNat ZifyN.
From LTV.C02 Require Import Model ProofsA ProofsB Proofs ProofsE.
Import ListNotations.
Local Open Scope N_scope.

Arguments N.mul : simpl never.
Arguments N.add : simpl never.
Arguments N.sub : simpl never.
Arguments N.div : simpl never.
Arguments N.to_nat : simpl never.
Arguments N.of_nat : simpl never.

(* ------------------------------------------------------------------ counting bits in a window *)

(* number of set bits of [done] at positions a .. a+b-1 *)
Definition cnt (done : list bool) (a b : nat) : N := count_true (firstn b (skipn a done)).

Lemma cnt_set : forall d a b i, nth i d false = false -> (i < length d)%nat ->
  cnt (set_nth d i) a b = cnt d a b + (if (a <=? i)%nat && (i <? a + b)%nat then 1 else 0).
Proof.
  unfold cnt. induction d as [|x d IH]; intros a b i Hn Hi; simpl in Hi; [lia|].
  destruct a as [|a]; destruct i as [|i].
  - simpl in Hn. subst x. destruct b as [|b]; simpl; [reflexivity|].
    destruct (Nat.ltb_spec 0 (S b)); [|lia]. lia.
  - simpl in Hn. destruct b as [|b].
    + simpl. destruct (Nat.ltb_spec (S i) 0); [lia|]. lia.
    + specialize (IH O b i Hn ltac:(lia)). simpl in IH. simpl. rewrite IH.
      destruct (Nat.ltb_spec i b); destruct (Nat.ltb_spec (S i) (S b)); try lia.
  - simpl. lia.
  - simpl in Hn. specialize (IH a b i Hn ltac:(lia)). simpl. rewrite IH.
    destruct (Nat.leb_spec a i); destruct (Nat.leb_spec (S a) (S i)); try lia;
      destruct (Nat.ltb_spec i (a + b)); destruct (Nat.ltb_spec (S i) (S (a + b))); simpl; lia.
Qed.

Lemma count_true_firstn_le : forall l b, count_true (firstn b l) <= N.of_nat b.
Proof. induction l; intros [|b]; simpl; try lia. specialize (IHl b). destruct a; lia. Qed.

Lemma count_true_firstn_mono : forall l b, count_true (firstn b l) <= count_true l.
Proof. induction l; intros [|b]; simpl; try lia. specialize (IHl b). lia. Qed.

Lemma count_true_skipn_mono : forall l k, count_true (skipn k l) <= count_true l.
Proof. induction l as [|x l IH]; intros [|k]; simpl; try lia. specialize (IH k). lia. Qed.

Lemma cnt_le : forall d a b, cnt d a b <= N.of_nat b.
Proof. intros. apply count_true_firstn_le. Qed.

Lemma cnt_le_total : forall d a b, cnt d a b <= count_true d.
Proof.
  intros. unfold cnt. pose proof (count_true_firstn_mono (skipn a d) b).
  pose proof (count_true_skipn_mono d a). lia.
Qed.

Lemma count_true_le'' : forall d, count_true d <= N.of_nat (length d).
Proof. induction d; simpl; [lia|]. destruct a; lia. Qed.

Lemma all_true_cnt : forall d a b, count_true d = N.of_nat (length d) -> (a + b <= length d)%nat ->
  cnt d a b = N.of_nat b.
Proof.
  unfold cnt. induction d as [|x d IH]; intros a b H Hab; simpl in *.
  - assert (b = O) by lia. subst. destruct a; reflexivity.
  - pose proof (count_true_le'' d).
    destruct x; [|lia]. assert (Hd : count_true d = N.of_nat (length d)) by lia.
    destruct a as [|a]; simpl.
    + destruct b as [|b]; simpl; [reflexivity|]. specialize (IH O b Hd ltac:(lia)). simpl in IH. lia.
    + apply IH; auto. lia.
Qed.

(* ------------------------------------------------------------------ the walk = bump every file *)

Definition cir (done : list bool) (f : file) : N :=
  cnt done (N.to_nat (f_r1 f)) (N.to_nat (f_r2 f - f_r1 f)).

Fixpoint bump_all (fs : list file) (fc : list N) (idx : N) : list N :=
  match fs, fc with
  | f :: fs', x :: fc' => bump f idx x :: bump_all fs' fc' idx
  | _, _ => fc
  end.

(* piece ranges along the file list: a later file starts at most one piece before an earlier
   file's end (they may share the boundary piece) *)
Fixpoint rsorted (fs : list file) : Prop :=
  match fs with
  | [] => True
  | f :: r => Forall (fun g => f_r2 f <= f_r1 g + 1) r /\ rsorted r
  end.

Lemma bump_all_id : forall fs fc idx, Forall (fun g => idx < f_r1 g) fs -> bump_all fs fc idx = fc.
Proof.
  induction fs; intros [|x fc] idx H; simpl; auto. inversion H; subst.
  rewrite IHfs by auto. unfold bump. destruct (N.leb_spec (f_r1 a) idx); [lia|reflexivity].
Qed.

Lemma bump_all_id_r2 : forall fs fc idx, Forall (fun g => f_r2 g <= idx) fs -> bump_all fs fc idx = fc.
Proof.
  induction fs; intros [|x fc] idx H; simpl; auto. inversion H; subst.
  rewrite IHfs by auto. unfold bump. destruct (N.ltb_spec idx (f_r2 a)); [lia|].
  rewrite andb_false_r. reflexivity.
Qed.

Lemma inc_phase_pos_spec : forall fs fc idx, rsorted fs -> idx + 1 < two32 ->
  fst (inc_phase_pos fs fc idx) = bump_all fs fc idx /\
  Forall (fun g => f_r2 g <= idx + 1) (firstn (snd (inc_phase_pos fs fc idx)) fs).
Proof.
  induction fs as [|f fs IH]; intros [|x fc] idx Hs H32; simpl; auto.
  destruct Hs as [Hf Hs]. rewrite u32_small by auto.
  destruct (N.ltb_spec (idx + 1) (f_r2 f)) as [Hlt|Hge]; simpl.
  - split; auto. f_equal. symmetry. apply bump_all_id.
    eapply Forall_impl; [|exact Hf]. intros g Hg. simpl in Hg. lia.
  - destruct (IH fc idx Hs H32) as [I1 I2]. rewrite I1. split; auto.
Qed.

Lemma inc_phase_spec : forall fs fc idx, rsorted fs -> idx + 1 < two32 ->
  inc_phase fs fc idx = bump_all fs fc idx.
Proof.
  induction fs as [|f fs IH]; intros [|x fc] idx Hs H32; simpl; auto.
  destruct Hs as [Hf Hs]. rewrite u32_small by auto. f_equal.
  destruct (N.ltb_spec (idx + 1) (f_r2 f)) as [Hlt|Hge].
  - symmetry. apply bump_all_id. eapply Forall_impl; [|exact Hf]. intros g Hg. simpl in Hg. lia.
  - apply IH; auto.
Qed.

Lemma bump_skip : forall f idx x, f_r2 f <= idx -> bump f idx x = x.
Proof.
  intros. unfold bump. destruct (N.ltb_spec idx (f_r2 f)); [lia|]. rewrite andb_false_r. reflexivity.
Qed.

Lemma inc_completed_spec : forall fs fc idx fc', rsorted fs -> idx + 1 < two32 ->
  inc_completed fs fc idx = Some fc' -> fc' = bump_all fs fc idx.
Proof.
  induction fs as [|f fs IH]; intros [|x fc] idx fc' Hs H32 H; simpl in H; try discriminate.
  destruct (N.ltb_spec idx (f_r2 f)) as [Hlt|Hge].
  - inversion H; subst. apply (inc_phase_spec (f :: fs) (x :: fc) idx Hs H32).
  - destruct (inc_completed fs fc idx) eqn:E; simpl in H; inversion H; subst.
    simpl. rewrite bump_skip by auto. f_equal. apply IH; auto. apply Hs.
Qed.

Lemma inc_completed_pos_spec : forall fs fc idx r, rsorted fs -> idx + 1 < two32 ->
  inc_completed_pos fs fc idx = Some r ->
  fst r = bump_all fs fc idx /\ Forall (fun g => f_r2 g <= idx + 1) (firstn (snd r) fs).
Proof.
  induction fs as [|f fs IH]; intros [|x fc] idx r Hs H32 H; simpl in H; try discriminate.
  destruct (N.ltb_spec idx (f_r2 f)) as [Hlt|Hge].
  - inversion H; subst. apply (inc_phase_pos_spec (f :: fs) (x :: fc) idx Hs H32).
  - destruct (inc_completed_pos fs fc idx) as [r'|] eqn:E; simpl in H; inversion H; subst.
    destruct (IH fc idx r' (proj2 Hs) H32 E) as [I1 I2]. simpl.
    rewrite bump_skip by auto. rewrite I1. split; auto. constructor; auto. lia.
Qed.

Lemma inc_completed_pos_some : forall fs fc idx j f, length fc = length fs ->
  nth_error fs j = Some f -> idx < f_r2 f -> inc_completed_pos fs fc idx <> None.
Proof.
  induction fs; intros [|x fc] idx j f Hlen Hj Hr; simpl in *; try discriminate.
  - destruct j; discriminate.
  - destruct (N.ltb_spec idx (f_r2 a)); [discriminate|].
    destruct j; simpl in Hj.
    + inversion Hj; subst. lia.
    + pose proof (IHfs fc idx j f ltac:(lia) Hj Hr) as K.
      destruct (inc_completed_pos fs fc idx); [discriminate|congruence].
Qed.

(* ------------------------------------------------------------------ the recount loop *)

(* what the loop should compute: every set bit bumps every file, bits in increasing order *)
Fixpoint bump_bits (fs : list file) (fc : list N) (idx : N) (dn : list bool) : list N :=
  match dn with
  | [] => fc
  | b :: r => bump_bits fs (if b then bump_all fs fc idx else fc) (idx + 1) r
  end.

Lemma rsorted_skipn : forall k fs, rsorted fs -> rsorted (skipn k fs).
Proof.
  induction k; intros [|f fs] H; simpl; auto. apply IHk. apply H.
Qed.

Lemma bump_all_length : forall fs fc idx, length (bump_all fs fc idx) = length fc.
Proof. induction fs; intros [|x fc] idx; simpl; auto. Qed.

Lemma bump_all_split : forall k fs fc idx, length fc = length fs ->
  bump_all fs fc idx = bump_all (firstn k fs) (firstn k fc) idx ++ bump_all (skipn k fs) (skipn k fc) idx.
Proof.
  induction k; intros [|f fs] [|x fc] idx H; simpl in *; auto; try lia.
  f_equal. apply IHk. lia.
Qed.

Lemma nth_error_in_firstn : forall A (l : list A) k j x, (j < k)%nat -> nth_error l j = Some x ->
  In x (firstn k l).
Proof.
  induction l; intros [|k] [|j] x H Hn; simpl in *; try discriminate; try lia.
  - inversion Hn. auto.
  - right. eapply IHl; eauto. lia.
Qed.

Lemma in_firstn_in : forall A (l : list A) k x, In x (firstn k l) -> In x l.
Proof.
  induction l; intros [|k] x H; simpl in *; try contradiction.
  destruct H; auto. right. eapply IHl; eauto.
Qed.

Lemma nth_error_skipn' : forall A (l : list A) k j, nth_error (skipn k l) j = nth_error l (k + j).
Proof. induction l; intros [|k] j; simpl; auto. destruct j; reflexivity. Qed.

Lemma upd_loop_spec : forall fs dn fc k idx, rsorted fs -> length fc = length fs ->
  Forall (fun g => f_r2 g <= idx) (firstn k fs) ->
  idx + N.of_nat (length dn) < two32 ->
  (* a set bit always finds a file: some file ends beyond every listed piece *)
  (exists j f, nth_error fs j = Some f /\ idx + N.of_nat (length dn) <= f_r2 f) ->
  upd_loop fs fc k idx dn = (bump_bits fs fc idx dn, true).
Proof.
  induction dn as [|b dn IH]; intros fc k idx Hs Hlen Hk H32 Hlast; simpl; auto.
  simpl in H32, Hlast.
  assert (Hk' : forall k', Forall (fun g => f_r2 g <= idx + 1) (firstn k' fs) ->
                Forall (fun g : file => f_r2 g <= idx + 1) (firstn k' fs)) by auto.
  destruct b.
  - destruct Hlast as (j & f & Hj & Hf).
    (* the file that ends last is not before position k *)
    assert (Hjk : (k <= j)%nat).
    { destruct (Nat.le_gt_cases k j); auto. exfalso.
      rewrite Forall_forall in Hk. assert (In f (firstn k fs)).
      { eapply nth_error_in_firstn; eauto. }
      specialize (Hk f H0). lia. }
    assert (Hj' : nth_error (skipn k fs) (j - k) = Some f).
    { rewrite nth_error_skipn'. replace (k + (j - k))%nat with j by lia. auto. }
    pose proof (inc_completed_pos_some (skipn k fs) (skipn k fc) idx (j - k) f
                  ltac:(rewrite !skipn_length; lia) Hj' ltac:(lia)) as Hsome.
    destruct (inc_completed_pos (skipn k fs) (skipn k fc) idx) as [[fc2 d]|] eqn:E; [|congruence].
    assert (H32' : idx + 1 < two32) by lia.
    destruct (inc_completed_pos_spec _ _ _ _ (rsorted_skipn k fs Hs) H32' E) as [S1 S2].
    simpl in S1, S2.
    assert (Eb : firstn k fc ++ fc2 = bump_all fs fc idx).
    { rewrite (bump_all_split k fs fc idx Hlen). rewrite S1. f_equal.
      symmetry. apply bump_all_id_r2. auto. }
    rewrite Eb. apply IH; auto.
    + rewrite bump_all_length. auto.
    + (* files before k + d end at or before idx + 1 *)
      rewrite <- (firstn_skipn k fs) at 1. rewrite firstn_app, firstn_length.
      apply Forall_app. split.
      * apply Forall_forall. intros g Hg. apply in_firstn_in in Hg.
        rewrite Forall_forall in Hk. specialize (Hk g Hg). lia.
      * destruct (Nat.le_gt_cases k (length fs)).
        -- replace (k + d - Init.Nat.min k (length fs))%nat with d by lia. auto.
        -- rewrite skipn_all2 by lia. rewrite firstn_nil. constructor.
    + lia.
    + exists j, f. split; auto. lia.
  - apply IH; auto.
    + eapply Forall_impl; [|exact Hk]. intros g Hg. simpl in Hg. lia.
    + lia.
    + destruct Hlast as (j & f & Hj & Hf). exists j, f. split; auto. lia.
Qed.

(* ------------------------------------------------------------------ bump_bits = recount *)

Lemma count_true_repeat_false' : forall n, count_true (repeat false n) = 0.
Proof. induction n; simpl; auto. Qed.

Lemma set_nth_app : forall pre post, set_nth (pre ++ false :: post) (length pre) = pre ++ true :: post.
Proof. induction pre; intros; simpl; auto. f_equal. apply IHpre. Qed.

Lemma bump_all_map : forall fs (g : file -> N) idx,
  bump_all fs (map g fs) idx = map (fun f => bump f idx (g f)) fs.
Proof. induction fs; intros; simpl; auto. f_equal. apply IHfs. Qed.

Lemma bump_cir : forall d f idx, nth (N.to_nat idx) d false = false -> (N.to_nat idx < length d)%nat ->
  bump f idx (cir d f) = cir (set_nth d (N.to_nat idx)) f.
Proof.
  intros d f idx Hn Hi. unfold cir. rewrite cnt_set by auto. unfold bump.
  destruct (N.leb_spec (f_r1 f) idx); destruct (N.ltb_spec idx (f_r2 f));
    destruct (Nat.leb_spec (N.to_nat (f_r1 f)) (N.to_nat idx));
    destruct (Nat.ltb_spec (N.to_nat idx) (N.to_nat (f_r1 f) + N.to_nat (f_r2 f - f_r1 f))); simpl; lia.
Qed.

Lemma bump_bits_cir : forall fs dn pre,
  bump_bits fs (map (cir (pre ++ repeat false (length dn))) fs) (N.of_nat (length pre)) dn =
  map (cir (pre ++ dn)) fs.
Proof.
  induction dn as [|b dn IH]; intros pre; simpl.
  - reflexivity.
  - replace (N.of_nat (length pre) + 1) with (N.of_nat (length (pre ++ [b])))
      by (rewrite app_length; simpl; lia).
    replace (pre ++ b :: dn) with ((pre ++ [b]) ++ dn) by (rewrite <- app_assoc; reflexivity).
    rewrite <- IH. f_equal.
    destruct b.
    + rewrite bump_all_map. apply map_ext. intros f.
      rewrite bump_cir.
      * replace (N.to_nat (N.of_nat (length pre))) with (length pre) by lia.
        rewrite set_nth_app. rewrite <- app_assoc. reflexivity.
      * replace (N.to_nat (N.of_nat (length pre))) with (length pre) by lia.
        rewrite app_nth2 by lia. rewrite Nat.sub_diag. reflexivity.
      * rewrite app_length. simpl. lia.
    + rewrite <- app_assoc. reflexivity.
Qed.

Lemma cir_all_false : forall n f, cir (repeat false n) f = 0.
Proof.
  intros. unfold cir. pose proof (cnt_le_total (repeat false n) (N.to_nat (f_r1 f)) (N.to_nat (f_r2 f - f_r1 f))).
  rewrite count_true_repeat_false' in H. lia.
Qed.

(* ------------------------------------------------------------------ layouts are range-sorted *)

Definition ranged (cs : N) (f : file) : Prop := (f_r1 f, f_r2 f) = set_range cs (f_off f) (f_size f).

Lemma split_ranged : forall cs lay off, Forall (ranged cs) (split cs off lay).
Proof.
  induction lay as [|[sz pad] r IH]; intros off; simpl; constructor; auto.
  unfold ranged. simpl. destruct (set_range cs off sz); reflexivity.
Qed.

Lemma laid_order : forall a fs e, laid a fs e -> Forall (fun g => a <= f_off g) fs.
Proof.
  induction 1; constructor; [lia|].
  eapply Forall_impl; [|exact IHlaid]. intros g Hg. simpl in Hg. lia.
Qed.

Lemma ceil_step : forall y cs, 0 < cs -> (y + cs - 1) / cs <= y / cs + 1.
Proof.
  intros y cs Hcs. pose proof (N.div_mod y cs ltac:(lia)). pose proof (N.mod_lt y cs ltac:(lia)).
  assert ((y + cs - 1) / cs < y / cs + 2); [|lia].
  apply N.div_lt_upper_bound; lia.
Qed.

Section Sorted.
  Variable cs : N.
  Variable tot : N.
  Hypothesis Hcs : 0 < cs.
  Hypothesis Hn32 : ceil_div tot cs < two32.

  Lemma range_values : forall f, ranged cs f -> f_off f + f_size f <= tot ->
    f_r1 f = f_off f / cs /\
    f_r2 f = (if f_size f =? 0 then f_off f / cs else (f_off f + f_size f + cs - 1) / cs) /\
    f_r1 f <= f_r2 f /\ f_r2 f <= ceil_div tot cs.
  Proof.
    intros f Hr Hb. unfold ranged, set_range in Hr.
    destruct (N.eqb_spec cs 0); [lia|].
    assert (B1 : f_off f / cs <= ceil_div tot cs).
    { unfold ceil_div. apply N.div_le_mono; lia. }
    assert (B2 : (f_off f + f_size f + cs - 1) / cs <= ceil_div tot cs).
    { unfold ceil_div. apply N.div_le_mono; lia. }
    assert (B3 : f_off f / cs <= (f_off f + f_size f + cs - 1) / cs) by (apply N.div_le_mono; lia).
    rewrite !u32_small in Hr by lia.
    destruct (N.eqb_spec (f_size f) 0); inversion Hr as [[E1 E2]]; lia.
  Qed.

  Lemma laid_rsorted : forall a fs e, laid a fs e -> e <= tot -> Forall (ranged cs) fs -> rsorted fs.
  Proof.
    induction 1; intros He Hr; simpl; auto. inversion Hr; subst.
    split; [|apply IHlaid; auto].
    pose proof (laid_le _ _ _ H) as Hle.
    destruct (range_values f H2 ltac:(lia)) as (F1 & F2 & _).
    pose proof (laid_order _ _ _ H) as Ho. rewrite Forall_forall in *.
    intros g Hg. specialize (Ho g Hg). simpl in Ho.
    destruct (In_nth_error _ _ Hg) as [j Hj].
    pose proof (laid_bounds _ _ _ H _ _ Hj) as [_ Hgb].
    destruct (range_values g (H3 g Hg) ltac:(lia)) as (G1 & _).
    rewrite F2, G1.
    destruct (N.eqb_spec (f_size f) 0).
    - assert (f_off f / cs <= f_off g / cs) by (apply N.div_le_mono; lia). lia.
    - assert ((f_off f + f_size f + cs - 1) / cs <= (f_off g + cs - 1) / cs) by (apply N.div_le_mono; lia).
      pose proof (ceil_step (f_off g) cs Hcs). lia.
  Qed.
End Sorted.

(* ------------------------------------------------------------------ the counters, for all runs *)

Section Counters.
  Variable cs : N.
  Variable lay : list (N * bool).
  Hypothesis Hok : cfg_ok cs lay.
  Let c := mk_cfg cs lay.
  Let files := c_files c.

  Definition synced (s : state) : Prop := s_fcomp s = map (cir (s_done s)) files.

  Lemma files_rsorted : rsorted files.
  Proof.
    destruct Hok as (H1 & H2 & H3 & H4 & H5).
    apply (laid_rsorted cs (total lay) H1 H5 0 files (total lay) (cfg_laid cs lay) ltac:(lia)).
    apply split_ranged.
  Qed.

  Lemma files_range_bounds : forall f, In f files -> f_r1 f <= f_r2 f /\ f_r2 f <= size_chunks c.
  Proof.
    destruct Hok as (H1 & H2 & H3 & H4 & H5). intros f Hf.
    destruct (In_nth_error _ _ Hf) as [j Hj].
    pose proof (laid_bounds _ _ _ (cfg_laid cs lay) _ _ Hj) as [_ Hb].
    pose proof (split_ranged cs lay 0) as Hr. rewrite Forall_forall in Hr.
    destruct (range_values cs (total lay) H1 H5 f (Hr f Hf) Hb) as (_ & _ & R1 & R2).
    rewrite (size_chunks_exact c H5). auto.
  Qed.

  Lemma last_file_r2 : exists j f, nth_error files j = Some f /\ f_r2 f = size_chunks c.
  Proof.
    destruct Hok as (H1 & H2 & H3 & H4 & H5).
    destruct (laid_last_nonempty _ _ _ (cfg_laid cs lay) ltac:(simpl; lia)) as (j & f & F1 & F2 & F3).
    exists j, f. split; auto.
    destruct (layout_offsets _ _ _ _ F1) as (sz & pad & _ & _ & Es & _ & Er).
    unfold set_range in Er. destruct (N.eqb_spec cs 0); [lia|]. destruct (N.eqb_spec sz 0); [lia|].
    assert (E2 : f_r2 f = u32 ((f_off f + sz + cs - 1) / cs)) by congruence.
    rewrite E2. unfold size_chunks. rewrite <- Es, F3. reflexivity.
  Qed.

  Lemma map_zero_eq : forall (fc : list N) (fs : list file), length fc = length fs ->
    map (fun _ : N => 0) fc = map (fun _ : file => 0) fs.
  Proof. induction fc; intros [|f fs] H; simpl in *; try discriminate; auto. f_equal. apply IHfc. lia. Qed.

  Lemma update_completed_exact : forall done fc, length fc = length files ->
    N.of_nat (length done) = size_chunks c ->
    update_completed c done fc = (map (cir done) files, true).
  Proof.
    intros done fc Hfl Hdl. destruct Hok as (H1 & H2 & H3 & H4 & H5).
    pose proof (size_chunks_exact c H5) as Hn. simpl in Hn.
    unfold update_completed.
    destruct (N.eqb_spec (count_true done) (size_chunks c)) as [Eall|Enall].
    - f_equal. rewrite Hfl. rewrite firstn_all. apply map_ext_in. intros f Hf.
      destruct (files_range_bounds f Hf) as [B1 B2].
      unfold cir. rewrite all_true_cnt; try lia.
    - rewrite (map_zero_eq fc files Hfl).
      destruct (N.eqb_spec (count_true done) 0) as [E0|En0].
      + f_equal. apply map_ext. intros f.
        pose proof (cnt_le_total done (N.to_nat (f_r1 f)) (N.to_nat (f_r2 f - f_r1 f))). unfold cir. lia.
      + destruct last_file_r2 as (j & f & Fj & Fr).
        rewrite (upd_loop_spec files done _ O 0 files_rsorted).
        * f_equal.
          rewrite (map_ext _ (cir ([] ++ repeat false (length done)))) by (intros; simpl; symmetry; apply cir_all_false).
          apply (bump_bits_cir files done []).
        * rewrite map_length. reflexivity.
        * simpl. constructor.
        * rewrite Hdl, Hn. unfold two32 in *. lia.
        * exists j, f. split; auto. lia.
  Qed.

  Lemma synced_step : forall s o, synced s -> length (s_fcomp s) = length files ->
    N.of_nat (length (s_done s)) = size_chunks c -> (forall i, o <> OpSetBit i) ->
    synced (fst (step c s o)).
  Proof.
    intros s o Hs Hfl Hdl Hno. destruct Hok as (H1 & H2 & H3 & H4 & H5).
    pose proof (size_chunks_exact c H5) as Hn. simpl in Hn.
    unfold synced in *. destruct o; simpl.
    - unfold do_chunk. destruct (create_chunk _ _ _ _ _); simpl; auto.
      destruct w; [destruct (buffer_segs _ _ _)|]; simpl; auto.
    - unfold do_chunk. destruct (create_chunk _ _ _ _ _); simpl; auto.
      destruct w; [destruct (buffer_segs _ _ _)|]; simpl; auto.
    - destruct (N.leb_spec (size_chunks c) idx); simpl; auto.
      destruct (N.leb_spec (size_chunks c) (count_true (s_done s))); simpl; auto.
      destruct (nth (N.to_nat idx) (s_done s) false) eqn:Eb; simpl; auto.
      destruct last_file_r2 as (j & f & Fj & Fr).
      pose proof (inc_completed_some files (s_fcomp s) idx j f Hfl Fj ltac:(lia)) as Ksome.
      change (split cs 0 lay) with files. destruct (inc_completed files (s_fcomp s) idx) as [fc'|] eqn:E; [|congruence]. simpl.
      rewrite (inc_completed_spec files (s_fcomp s) idx fc' files_rsorted ltac:(unfold two32 in *; lia) E).
      rewrite Hs. rewrite bump_all_map. apply map_ext. intros g. apply bump_cir; auto. lia.
    - auto.
    - auto.
    - auto.
    - fold files. rewrite update_completed_exact; auto. rewrite repeat_length. lia.
    - exfalso. apply (Hno idx). reflexivity.
    - fold files. rewrite update_completed_exact; auto.
    - destruct (nth_error _ _); simpl; auto. destruct (f_pad _); simpl; auto.
    - destruct (create_chunk _ _ _ _ _); simpl; auto.
    - destruct (create_chunk _ _ _ _ _); simpl; auto.
      destruct (xfer _ _ _ _); simpl; auto. destruct w; simpl; auto.
  Qed.

  Lemma run_app : forall ops1 ops2 s,
    fst (run c s (ops1 ++ ops2)) = fst (run c (fst (run c s ops1)) ops2).
  Proof. induction ops1; intros; simpl; auto. Qed.

  Lemma synced_run : forall ops s, synced s -> length (s_fcomp s) = length files ->
    N.of_nat (length (s_done s)) = size_chunks c ->
    Forall (fun o => forall i, o <> OpSetBit i) ops -> synced (fst (run c s ops)).
  Proof.
    induction ops as [|o ops IH]; intros s Hs Hfl Hdl Hno; simpl; auto.
    inversion Hno; subst. apply IH; auto.
    - apply synced_step; auto.
    - apply step_fcomp_length. auto.
    - destruct (step_done_length c s o) as [E|[_ E]]; rewrite E; auto. rewrite repeat_length. lia.
  Qed.

  Lemma synced_init : synced (init_state c).
  Proof.
    unfold synced. simpl. fold files. apply map_ext. intros f. symmetry. apply cir_all_false.
  Qed.

  Lemma synced_bound : forall s, synced s ->
    Forall2 (fun f x => x <= f_r2 f - f_r1 f) files (s_fcomp s).
  Proof.
    intros s Hs. rewrite Hs. clear Hs. induction files; simpl; constructor; auto.
    pose proof (cnt_le (s_done s) (N.to_nat (f_r1 a)) (N.to_nat (f_r2 a - f_r1 a))). unfold cir. lia.
  Qed.

  (* File::completed_chunks of every file = number of set pieces inside the file's piece range, and
     so never above File::size_chunks: in the initial state and after every operation list in which
     raw bitfield edits (OpSetBit: resume / hash bookkeeping) are followed by update_completed or a
     re-open before the counters are looked at *)
  Theorem file_completed_exact : forall ops1 ops2,
    (ops1 = [] \/ exists ops0, ops1 = ops0 ++ [OpUpdate] \/ ops1 = ops0 ++ [OpReopen]) ->
    Forall (fun o => forall i, o <> OpSetBit i) ops2 ->
    let s := fst (run c (init_state c) (ops1 ++ ops2)) in
    s_fcomp s = map (cir (s_done s)) files /\
    Forall2 (fun f x => x <= f_r2 f - f_r1 f) files (s_fcomp s).
  Proof.
    intros ops1 ops2 H1 H2 s.
    assert (Hs : synced s).
    { unfold s. rewrite run_app.
      assert (Hl1 : length (s_fcomp (fst (run c (init_state c) ops1))) = length files).
      { apply run_fcomp_length. simpl. rewrite map_length. reflexivity. }
      assert (Hl2 : N.of_nat (length (s_done (fst (run c (init_state c) ops1)))) = size_chunks c).
      { apply run_done_length. apply init_done_length. }
      apply synced_run; auto.
      destruct H1 as [->|(ops0 & [->| ->])].
      - simpl. apply synced_init.
      - rewrite run_app. simpl. unfold synced. simpl. fold files.
        rewrite update_completed_exact; auto.
        + apply run_fcomp_length. simpl. rewrite map_length. reflexivity.
        + apply run_done_length. apply init_done_length.
      - rewrite run_app. simpl. unfold synced. simpl. fold files.
        rewrite update_completed_exact; auto.
        + apply run_fcomp_length. simpl. rewrite map_length. reflexivity.
        + rewrite repeat_length. lia. }
    split; [exact Hs|apply synced_bound; exact Hs].
  Qed.
End Counters.

Example file_completed_exact_ex :
  s_fcomp (fst (run (mk_cfg 1 [(1, false); (1, false); (1, false)])
                    (init_state (mk_cfg 1 [(1, false); (1, false); (1, false)])) [OpMark 1; OpMark 2])) = [0; 1; 1].
Proof. vm_compute. reflexivity. Qed.
