(* C02 proofs, part A: layout arithmetic — offsets, locate, piece count and sizes, per-file piece
   ranges, is_valid_piece, completed/left bytes. *)
From Coq Require Import List NArith ZArith Bool Lia ZifyBool ZifyNat ZifyN.
From LTV.C02 Require Import Model.
Import ListNotations.
Local Open Scope N_scope.
Ltac Zify.zify_post_hook ::= Z.div_mod_to_equations.

Arguments N.mul : simpl never.
Arguments N.add : simpl never.
Arguments N.sub : simpl never.
Arguments N.div : simpl never.
Arguments N.modulo : simpl never.
Arguments N.min : simpl never.
Arguments N.to_nat : simpl never.
Arguments N.of_nat : simpl never.

(* ------------------------------------------------------------------ files laid end to end *)

(* [laid a fs e]: the files of fs occupy consecutive windows of the byte stream from a to e *)
Inductive laid : N -> list file -> N -> Prop :=
| laid_nil : forall a, laid a [] a
| laid_cons : forall f r e, laid (f_off f + f_size f) r e -> laid (f_off f) (f :: r) e.

Lemma split_laid : forall cs lay off, laid off (split cs off lay) (off + total lay).
Proof.
  induction lay as [|[sz pad] r IH]; intros off; simpl.
  - rewrite N.add_0_r. constructor.
  - apply (laid_cons (mkFile off sz pad _ _)). simpl. rewrite N.add_assoc. apply IH.
Qed.

Lemma laid_le : forall a fs e, laid a fs e -> a <= e.
Proof. induction 1; lia. Qed.

Lemma laid_bounds : forall a fs e, laid a fs e ->
  forall j f, nth_error fs j = Some f -> a <= f_off f /\ f_off f + f_size f <= e.
Proof.
  induction 1; intros j g Hj.
  - destruct j; discriminate.
  - destruct j; simpl in Hj.
    + inversion Hj; subst. apply laid_le in H. lia.
    + apply IHlaid in Hj. lia.
Qed.

(* byte g of the stream is byte o of file number i *)
Definition located (fs : list file) (g : N) (i : nat) (o : N) : Prop :=
  exists f, nth_error fs i = Some f /\ f_off f <= g /\ g < f_off f + f_size f /\ o = g - f_off f.

Lemma locate_unique_laid : forall a fs e, laid a fs e -> forall g, a <= g -> g < e ->
  exists i o, located fs g i o /\ forall i' o', located fs g i' o' -> i' = i /\ o' = o.
Proof.
  induction 1; intros g Ha He.
  - lia.
  - destruct (N.ltb_spec g (f_off f + f_size f)) as [Hin|Hout].
    + exists O, (g - f_off f). split.
      * exists f. simpl. repeat split; auto.
      * intros i' o' (f' & Hn & H1 & H2 & H3). destruct i'; simpl in Hn.
        -- inversion Hn; subst. auto.
        -- exfalso. pose proof (laid_bounds _ _ _ H _ _ Hn). lia.
    + destruct (IHlaid g Hout He) as (i & o & Hl & Hu).
      exists (S i), o. split.
      * destruct Hl as (f' & Hn & H'). exists f'. simpl. auto.
      * intros i' o' (f' & Hn & H1 & H2 & H3). destruct i'; simpl in Hn.
        -- inversion Hn; subst. lia.
        -- destruct (Hu i' o') as [-> ->]; auto. exists f'. auto.
Qed.

(* offsets are the running sums of the sizes, in list (= torrent) order *)
Lemma split_nth : forall cs lay off i f, nth_error (split cs off lay) i = Some f ->
  exists sz pad, nth_error lay i = Some (sz, pad) /\
    f_off f = off + total (firstn i lay) /\ f_size f = sz /\ f_pad f = pad /\
    (f_r1 f, f_r2 f) = set_range cs (f_off f) sz.
Proof.
  induction lay as [|[sz pad] r IH]; intros off i f H.
  - destruct i; discriminate.
  - destruct i; simpl in H.
    + inversion H; subst; simpl. exists sz, pad. rewrite N.add_0_r.
      repeat split; auto. destruct (set_range cs off sz); reflexivity.
    + apply IH in H. destruct H as (sz' & pad' & H1 & H2 & H3). exists sz', pad'.
      simpl. split; auto. split; [lia|auto].
Qed.

Lemma split_length : forall cs lay off, length (split cs off lay) = length lay.
Proof. induction lay as [|[sz pad] r IH]; intros; simpl; auto. Qed.

(* ------------------------------------------------------------------ piece count and sizes *)

Definition ceil_div (t cs : N) : N := (t + cs - 1) / cs.

(* size of piece i by the specification: a full piece, or what is left of the stream *)
Definition psz (t cs i : N) : N := N.min cs (t - i * cs).

Lemma ceil_div_spec : forall t cs, 0 < cs ->
  ceil_div t cs = t / cs + (if t mod cs =? 0 then 0 else 1).
Proof.
  intros t cs Hcs. unfold ceil_div.
  pose proof (N.div_mod t cs ltac:(lia)) as Hdm.
  pose proof (N.mod_lt t cs ltac:(lia)) as Hlt.
  destruct (N.eqb_spec (t mod cs) 0) as [E|E].
  - symmetry. apply N.div_unique with (r := cs - 1); lia.
  - symmetry. apply N.div_unique with (r := t mod cs - 1); lia.
Qed.

Lemma ceil_div_ge : forall t cs, 0 < cs -> t <= cs * ceil_div t cs.
Proof.
  intros t cs Hcs. rewrite ceil_div_spec by auto.
  pose proof (N.div_mod t cs ltac:(lia)). pose proof (N.mod_lt t cs ltac:(lia)).
  destruct (N.eqb_spec (t mod cs) 0); lia.
Qed.

Lemma ceil_div_lt : forall t cs, 0 < cs -> 0 < t -> cs * (ceil_div t cs - 1) < t.
Proof.
  intros t cs Hcs Ht. rewrite ceil_div_spec by auto.
  pose proof (N.div_mod t cs ltac:(lia)). pose proof (N.mod_lt t cs ltac:(lia)).
  destruct (N.eqb_spec (t mod cs) 0) as [E|E].
  - assert (t / cs <> 0) by (intro Z; rewrite Z, E in H; lia).
    rewrite N.add_0_r, N.mul_sub_distr_l, N.mul_1_r. lia.
  - rewrite N.add_sub. lia.
Qed.

Lemma u32_small : forall x, x < two32 -> u32 x = x.
Proof. intros. unfold u32. apply N.mod_small. auto. Qed.

Section Pieces.
  Variable c : cfg.
  Hypothesis Hcs : 0 < c_cs c.
  Hypothesis Hn32 : ceil_div (c_tot c) (c_cs c) < two32.

  Lemma size_chunks_exact : size_chunks c = ceil_div (c_tot c) (c_cs c).
  Proof. unfold size_chunks. apply u32_small. exact Hn32. Qed.

  Lemma chunk_index_size_exact : forall i, i < size_chunks c ->
    chunk_index_size c i = psz (c_tot c) (c_cs c) i /\ 0 < chunk_index_size c i.
  Proof.
    intros i Hi. rewrite size_chunks_exact in Hi. unfold chunk_index_size, psz.
    rewrite size_chunks_exact.
    assert (Hi32 : u32 (i + 1) = i + 1) by (apply u32_small; unfold two32 in *; lia).
    rewrite Hi32.
    pose proof (ceil_div_spec (c_tot c) (c_cs c) Hcs) as Hc.
    pose proof (N.div_mod (c_tot c) (c_cs c) ltac:(lia)) as Hdm.
    pose proof (N.mod_lt (c_tot c) (c_cs c) ltac:(lia)) as Hlt.
    set (q := c_tot c / c_cs c) in *. set (r := c_tot c mod c_cs c) in *.
    set (cs := c_cs c) in *. set (t := c_tot c) in *.
    destruct (N.eqb_spec r 0) as [E|E].
    - rewrite orb_true_r.
      assert (cs * (i + 1) <= cs * q) by (apply N.mul_le_mono_l; lia).
      rewrite N.mul_comm. lia.
    - destruct (N.eqb_spec (i + 1) (ceil_div t cs)) as [E2|E2]; simpl.
      + assert (i = q) by lia. subst i. rewrite N.mul_comm. lia.
      + assert (cs * (i + 1) <= cs * q) by (apply N.mul_le_mono_l; lia).
        rewrite N.mul_comm. lia.
  Qed.

  Definition sumN (l : list N) : N := fold_right N.add 0 l.

  Lemma sum_psz : forall m start,
    sumN (map (psz (c_tot c) (c_cs c)) (nseq start m)) =
    N.min ((start + N.of_nat m) * c_cs c) (c_tot c) - N.min (start * c_cs c) (c_tot c).
  Proof.
    induction m; intros start; simpl.
    - rewrite N.add_0_r. lia.
    - rewrite IHm. unfold psz.
      replace ((start + 1 + N.of_nat m) * c_cs c) with ((start + N.of_nat (S m)) * c_cs c)
        by (f_equal; lia).
      replace ((start + 1) * c_cs c) with (start * c_cs c + c_cs c) by lia.
      assert ((start + 1) * c_cs c <= (start + N.of_nat (S m)) * c_cs c)
        by (apply N.mul_le_mono_r; lia).
      lia.
  Qed.

  Lemma in_nseq : forall m start x, In x (nseq start m) -> start <= x < start + N.of_nat m.
  Proof.
    induction m; intros start x H; simpl in H.
    - contradiction.
    - destruct H as [->|H]. lia. apply IHm in H. lia.
  Qed.

  (* the piece sizes tile the stream exactly *)
  Lemma piece_sizes_sum :
    sumN (map (chunk_index_size c) (nseq 0 (N.to_nat (size_chunks c)))) = c_tot c.
  Proof.
    rewrite (map_ext_in _ (psz (c_tot c) (c_cs c))).
    - rewrite sum_psz. rewrite size_chunks_exact.
      pose proof (ceil_div_ge (c_tot c) (c_cs c) Hcs).
      replace (0 + N.of_nat (N.to_nat (ceil_div (c_tot c) (c_cs c)))) with (ceil_div (c_tot c) (c_cs c)) by lia.
      rewrite (N.mul_comm (ceil_div _ _)). lia.
    - intros x Hx. apply in_nseq in Hx. apply chunk_index_size_exact. lia.
  Qed.

  (* ---------------------------------------------------------------- is_valid_piece *)

  Hypothesis Hcs32 : c_cs c < two32.

  Lemma chunk_index_size_le : forall i, chunk_index_size c i <= c_cs c.
  Proof.
    intros. unfold chunk_index_size.
    pose proof (N.mod_lt (c_tot c) (c_cs c) ltac:(lia)).
    destruct (_ || _); lia.
  Qed.

  Lemma valid_piece_sound : forall idx off len, idx < two32 -> off < two32 -> len < two32 ->
    (is_valid_piece c idx off len = true <->
     idx < size_chunks c /\ len <> 0 /\ off + len <= chunk_index_size c idx).
  Proof.
    intros idx off len Hi Ho Hl. unfold is_valid_piece.
    pose proof (chunk_index_size_le idx) as Hle.
    set (k := chunk_index_size c idx) in *.
    rewrite !andb_true_iff, negb_true_iff, N.ltb_lt, N.eqb_neq, !N.leb_le.
    unfold u32, two32 in *.
    destruct (N.lt_ge_cases (off + len) 4294967296) as [Hs|Hs].
    - rewrite N.mod_small by auto. lia.
    - assert ((off + len) mod 4294967296 = off + len - 4294967296).
      { symmetry. apply N.mod_unique with (q := 1); lia. }
      lia.
  Qed.

  (* ---------------------------------------------------------------- per-file piece ranges *)

  (* piece p is the byte interval [p*cs, (p+1)*cs); a file touches it iff the intervals meet *)
  Definition touches (f : file) (p : N) : Prop :=
    f_off f < (p + 1) * c_cs c /\ p * c_cs c < f_off f + f_size f.

  Lemma range_exact_one : forall off sz, off + sz <= c_tot c -> 0 < sz ->
    forall p, (fst (set_range (c_cs c) off sz) <= p < snd (set_range (c_cs c) off sz)) <->
              (off < (p + 1) * c_cs c /\ p * c_cs c < off + sz).
  Proof.
    intros off sz Hfit Hsz p. unfold set_range.
    destruct (N.eqb_spec (c_cs c) 0); [lia|]. destruct (N.eqb_spec sz 0); [lia|]. simpl.
    assert (Hb : (off + sz + c_cs c - 1) / c_cs c <= ceil_div (c_tot c) (c_cs c)).
    { unfold ceil_div. apply N.div_le_mono; lia. }
    assert (Ha : off / c_cs c <= (off + sz + c_cs c - 1) / c_cs c) by (apply N.div_le_mono; lia).
    rewrite !u32_small by lia.
    set (cs := c_cs c) in *.
    split.
    - intros [H1 H2]. split.
      + destruct (N.lt_ge_cases off ((p + 1) * cs)) as [|Hge]; auto.
        exfalso. assert (p + 1 <= off / cs) by (apply N.div_le_lower_bound; lia). lia.
      + destruct (N.lt_ge_cases (p * cs) (off + sz)) as [|Hge]; auto.
        exfalso. assert ((off + sz + cs - 1) / cs < p + 1).
        { apply N.div_lt_upper_bound; lia. } lia.
    - intros [H1 H2]. split.
      + assert (off / cs < p + 1) by (apply N.div_lt_upper_bound; lia). lia.
      + assert (p + 1 <= (off + sz + cs - 1) / cs) by (apply N.div_le_lower_bound; lia). lia.
  Qed.

  (* ---------------------------------------------------------------- completed bytes *)

  (* sum of the sizes of the set pieces, piece numbers starting at i *)
  Fixpoint done_sum (i : N) (done : list bool) : N :=
    match done with
    | [] => 0
    | b :: r => (if b then chunk_index_size c i else 0) + done_sum (i + 1) r
    end.

  Lemma done_sum_app : forall d1 d2 i,
    done_sum i (d1 ++ d2) = done_sum i d1 + done_sum (i + N.of_nat (length d1)) d2.
  Proof.
    induction d1; intros; simpl.
    - rewrite N.add_0_r. lia.
    - rewrite IHd1. replace (i + 1 + N.of_nat (length d1)) with (i + N.of_nat (S (length d1))) by lia. lia.
  Qed.

  Lemma count_true_app : forall d1 d2, count_true (d1 ++ d2) = count_true d1 + count_true d2.
  Proof. induction d1; intros; simpl; [lia|]. rewrite IHd1. lia. Qed.

  Lemma done_sum_full : forall d i, i + N.of_nat (length d) + 1 <= size_chunks c ->
    done_sum i d = count_true d * c_cs c.
  Proof.
    induction d; intros i H; simpl in *.
    - lia.
    - rewrite IHd by lia.
      assert (chunk_index_size c i = c_cs c).
      { unfold chunk_index_size. rewrite size_chunks_exact in *.
        rewrite u32_small by (unfold two32 in *; lia).
        destruct (N.eqb_spec (i + 1) (ceil_div (c_tot c) (c_cs c))); [lia|reflexivity]. }
      destruct a; lia.
  Qed.

  Lemma count_true_le : forall d, count_true d <= N.of_nat (length d).
  Proof. induction d; simpl; [lia|]. destruct a; lia. Qed.

  Lemma last_split : forall (d : list bool), d <> [] -> exists d' b, d = d' ++ [b].
  Proof.
    intros d H. destruct (exists_last H) as (d' & b & ->). eauto.
  Qed.

  Hypothesis Htot : 0 < c_tot c.
  Hypothesis Htot60 : c_tot c <= two60.

  Lemma size_chunks_pos : 0 < size_chunks c.
  Proof.
    rewrite size_chunks_exact. pose proof (ceil_div_ge (c_tot c) (c_cs c) Hcs).
    destruct (N.eq_0_gt_0_cases (ceil_div (c_tot c) (c_cs c))) as [E|]; auto. rewrite E in H. lia.
  Qed.

  Lemma completed_bytes_exact : forall done, N.of_nat (length done) = size_chunks c ->
    completed_bytes c done = Some (done_sum 0 done) /\
    left_bytes c done = Some (c_tot c - done_sum 0 done) /\
    done_sum 0 done <= c_tot c.
  Proof.
    intros done Hlen. pose proof size_chunks_pos as Hpos.
    assert (Hne : done <> []) by (intro E; subst; simpl in Hlen; lia).
    destruct (last_split done Hne) as (d' & b & ->).
    rewrite app_length in Hlen. simpl in Hlen.
    assert (Hd' : N.of_nat (length d') = size_chunks c - 1) by lia.
    assert (Hcb : completed_bytes c (d' ++ [b]) = Some (done_sum 0 (d' ++ [b]))).
    { unfold completed_bytes. rewrite <- Hd'.
      replace (N.to_nat (N.of_nat (length d'))) with (length d') by lia.
      rewrite app_nth2 by lia. rewrite Nat.sub_diag. simpl nth.
      rewrite done_sum_app, count_true_app. simpl.
      rewrite done_sum_full by lia.
      destruct (chunk_index_size_exact (size_chunks c - 1) ltac:(lia)) as [He Hp].
      replace (0 + N.of_nat (length d')) with (size_chunks c - 1) by lia.
      destruct b; simpl.
      - unfold chunk_index_size in *.
        replace (u32 (size_chunks c - 1 + 1)) with (size_chunks c) in *
          by (replace (size_chunks c - 1 + 1) with (size_chunks c) by lia;
              symmetry; apply u32_small; rewrite size_chunks_exact; auto).
        rewrite N.eqb_refl in *. simpl in *.
        destruct (N.eqb_spec (c_tot c mod c_cs c) 0).
        + f_equal. lia.
        + destruct (N.eqb_spec (count_true d' + (1 + 0)) 0); [lia|].
          f_equal. replace (count_true d' + (1 + 0) - 1) with (count_true d') by lia. lia.
      - f_equal. lia. }
    assert (Hle : done_sum 0 (d' ++ [b]) <= c_tot c).
    { rewrite done_sum_app. simpl. rewrite done_sum_full by lia.
      destruct (chunk_index_size_exact (size_chunks c - 1) ltac:(lia)) as [He Hp].
      replace (0 + N.of_nat (length d')) with (size_chunks c - 1) by lia.
      pose proof (count_true_le d').
      pose proof (ceil_div_lt (c_tot c) (c_cs c) Hcs Htot) as Hlt.
      rewrite <- size_chunks_exact in Hlt.
      assert (count_true d' * c_cs c <= (size_chunks c - 1) * c_cs c) by (apply N.mul_le_mono_r; lia).
      destruct b.
      - rewrite He. unfold psz. lia.
      - lia. }
    split; [exact Hcb|]. split; [|exact Hle].
    unfold left_bytes. rewrite Hcb.
    set (cb := done_sum 0 (d' ++ [b])) in *.
    assert (Hleft : (c_tot c + two64 - cb) mod two64 = c_tot c - cb).
    { symmetry. apply N.mod_unique with (q := 1); unfold two64, two60 in *; lia. }
    rewrite Hleft.
    destruct (N.ltb_spec two60 (c_tot c - cb)); [unfold two60 in *; lia|].
    destruct (N.eqb_spec (count_true (d' ++ [b])) (size_chunks c)) as [Eall|]; [|reflexivity].
    simpl. destruct (N.eqb_spec (c_tot c - cb) 0); [reflexivity|]. exfalso.
    (* all bits set: the sum is the whole stream *)
    rewrite count_true_app in Eall. simpl in Eall. pose proof (count_true_le d').
    assert (b = true) by (destruct b; auto; lia). subst b.
    unfold cb in *. rewrite done_sum_app in *. simpl in *. rewrite done_sum_full in * by lia.
    destruct (chunk_index_size_exact (size_chunks c - 1) ltac:(lia)) as [He Hp].
    replace (0 + N.of_nat (length d')) with (size_chunks c - 1) in * by lia.
    rewrite He in *. unfold psz in *.
    pose proof (ceil_div_ge (c_tot c) (c_cs c) Hcs) as Hge. rewrite <- size_chunks_exact in Hge.
    replace (count_true d') with (size_chunks c - 1) in * by lia.
    replace (c_cs c * size_chunks c) with ((size_chunks c - 1) * c_cs c + c_cs c) in Hge by lia.
    lia.
  Qed.
End Pieces.
