From Coq Require Import List NArith Bool.
From LTV.C02 Require Import Model Proofs.

Theorem placeholder_true : True.
Proof. exact Proofs.placeholder_true. Qed.
Print Assumptions placeholder_true.
