(* C02 — property theorems (statements in full; proofs in Proofs*.v). *)
From Coq Require Import List NArith Bool.
From LTV.C02 Require Import Model ProofsA ProofsB ProofsC Proofs ProofsD ProofsE ProofsF ProofsG ProofsH.
Import ListNotations.
Local Open Scope N_scope.

Theorem params_ok_now : Proofs.params_ok = true.
Proof. exact Proofs.params_ok_now. Qed.
Print Assumptions params_ok_now.

(* the side condition evaluated at run time on the constants PROBED from the compiled code *)
Theorem probed_ok_sound : forall p, probed_ok p = true ->
  two60 <= 2 ^ pr_left_shift p /\
  forall cs, pr_pl_min_excl p < cs -> cs <= pr_pl_max p -> 0 < cs /\ cs < two32.
Proof. exact Proofs.probed_ok_sound. Qed.
Print Assumptions probed_ok_sound.

(* file i starts at the sum of the sizes before it, in torrent order *)
Theorem layout_offsets : forall cs lay i f, nth_error (c_files (mk_cfg cs lay)) i = Some f ->
  exists sz pad, nth_error lay i = Some (sz, pad) /\
    f_off f = total (firstn i lay) /\ f_size f = sz /\ f_pad f = pad /\
    (f_r1 f, f_r2 f) = set_range cs (f_off f) sz.
Proof. exact Proofs.layout_offsets. Qed.
Print Assumptions layout_offsets.

(* every stream byte belongs to exactly one (file, offset); empty files and padding entries
   do not shift it *)
Theorem locate_unique : forall cs lay g, g < total lay ->
  exists i o, located (c_files (mk_cfg cs lay)) g i o /\
    forall i' o', located (c_files (mk_cfg cs lay)) g i' o' -> i' = i /\ o' = o.
Proof. exact Proofs.locate_unique. Qed.
Print Assumptions locate_unique.

(* create_chunk: byte k of the chunk is byte locate(off+k); parts tile the chunk; no empty part,
   no empty file; padding parts are flagged *)
Theorem parts_cover : forall cs lay store off len w st ps,
  let c := mk_cfg cs lay in
  length store = length (c_files c) ->
  create_chunk c store off len w = COk st ps ->
  off + len <= total lay /\ chunk_size ps = len /\
  (forall p, In p ps -> 0 < p_size p /\
     exists f, nth_error (c_files c) (p_file p) = Some f /\ 0 < f_size f /\ p_pad p = f_pad f) /\
  forall k, k < len ->
    exists p, In p ps /\ p_pos p <= k < p_pos p + p_size p /\
              located (c_files c) (off + k) (p_file p) (p_foff p + (k - p_pos p)) /\
              (forall q, In q ps -> p_pos q <= k < p_pos q + p_size q -> q = p).
Proof. exact Proofs.parts_cover. Qed.
Print Assumptions parts_cover.

Theorem create_chunk_total : forall cs lay store off len w,
  let c := mk_cfg cs lay in
  length store = length (c_files c) ->
  (create_chunk c store off len w = CErr <-> total lay < off + len) /\
  (w = true -> 0 < len -> off + len <= total lay ->
   exists st ps, create_chunk c store off len w = COk st ps).
Proof. exact Proofs.create_chunk_total. Qed.
Print Assumptions create_chunk_total.

(* piece count = ceil(total/cs); the piece sizes sum to the total; each is min(cs, rest) > 0 *)
Theorem piece_sizes_sum : forall cs lay, cfg_ok cs lay ->
  let c := mk_cfg cs lay in
  size_chunks c = ceil_div (total lay) cs /\
  sumN (map (chunk_index_size c) (nseq 0 (N.to_nat (size_chunks c)))) = total lay /\
  forall i, i < size_chunks c ->
    chunk_index_size c i = N.min cs (total lay - i * cs) /\ 0 < chunk_index_size c i.
Proof. exact Proofs.piece_count_and_sizes. Qed.
Print Assumptions piece_sizes_sum.

(* File::range() of a non-empty file is exactly the set of pieces whose byte interval meets the
   file's; an empty file has an empty range *)
Theorem range_exact : forall cs lay, cfg_ok cs lay ->
  forall i f, nth_error (c_files (mk_cfg cs lay)) i = Some f -> 0 < f_size f ->
  forall p, (f_r1 f <= p < f_r2 f) <-> touches (mk_cfg cs lay) f p.
Proof. exact Proofs.range_exact. Qed.
Print Assumptions range_exact.

Theorem empty_file_range : forall cs lay i f, nth_error (c_files (mk_cfg cs lay)) i = Some f ->
  f_size f = 0 -> f_r1 f = f_r2 f.
Proof. exact Proofs.empty_file_range. Qed.
Print Assumptions empty_file_range.

(* is_valid_piece, with its uint32 wrap-around guard, accepts exactly the in-range blocks *)
Theorem valid_piece_sound : forall cs lay, cfg_ok cs lay ->
  forall idx off len, idx < two32 -> off < two32 -> len < two32 ->
  (is_valid_piece (mk_cfg cs lay) idx off len = true <->
   idx < size_chunks (mk_cfg cs lay) /\ len <> 0 /\
   off + len <= chunk_index_size (mk_cfg cs lay) idx).
Proof. exact Proofs.valid_piece_sound. Qed.
Print Assumptions valid_piece_sound.

(* after any operation list: completed_bytes = sum of the sizes of the set pieces,
   left_bytes = total - completed, no internal_error *)
Theorem completed_bytes_exact : forall cs lay ops, cfg_ok cs lay ->
  let c := mk_cfg cs lay in
  let s := fst (run c (init_state c) ops) in
  completed_bytes c (s_done s) = Some (done_sum c 0 (s_done s)) /\
  left_bytes c (s_done s) = Some (total lay - done_sum c 0 (s_done s)) /\
  done_sum c 0 (s_done s) <= total lay.
Proof. exact Proofs.completed_bytes_exact. Qed.
Print Assumptions completed_bytes_exact.

Theorem mark_completed_exact : forall c s idx s',
  step c s (OpMark idx) = (s', OutMark true) ->
  idx < size_chunks c /\ nth (N.to_nat idx) (s_done s) false = false /\
  s_done s' = set_nth (s_done s) (N.to_nat idx) /\ s_store s' = s_store s.
Proof. exact Proofs.mark_completed_exact. Qed.
Print Assumptions mark_completed_exact.

(* a store always has one entry per file after any operation list *)
Theorem reachable_store_length : forall cs lay ops,
  length (s_store (fst (run (mk_cfg cs lay) (init_state (mk_cfg cs lay)) ops))) =
  length (c_files (mk_cfg cs lay)).
Proof. exact ProofsD.reachable_store_length. Qed.
Print Assumptions reachable_store_length.

(* [raw st i o] = byte o of file i on disk (0 beyond the current end: sparse / not yet resized).
   A successful from_buffer through a chunk [off, off+len) at position pos changes exactly the
   bytes of non-padding files located at stream positions [off+pos, off+pos+|data|), to data in
   order, and no other byte of any file. *)
Theorem write_frame : forall cs lay s off len pos data rpos rn s' ps rd cmp,
  let c := mk_cfg cs lay in
  length (s_store s) = length (c_files c) -> len < two32 ->
  pos + N.of_nat (length data) < two32 ->
  do_chunk c s off len true pos data rpos rn = (s', OutChunk ps WOk rd cmp) ->
  length (s_store s') = length (c_files c) /\
  pos + N.of_nat (length data) <= len /\ off + len <= total lay /\
  forall i f o, nth_error (c_files c) i = Some f -> o < f_size f ->
    raw (s_store s') i o =
      if negb (f_pad f) && (off + pos <=? f_off f + o) &&
         (f_off f + o <? off + pos + N.of_nat (length data))
      then nth (N.to_nat (f_off f + o - (off + pos))) data 0
      else raw (s_store s) i o.
Proof. exact ProofsD.write_frame. Qed.
Print Assumptions write_frame.

(* to_buffer returns, per position, the byte written through this chunk if any, otherwise the
   byte of the file located at that stream position (0 for padding entries) *)
Theorem read_exact : forall cs lay s off len w pos data rpos rn s' ps wr bs cmp,
  let c := mk_cfg cs lay in
  length (s_store s) = length (c_files c) -> len < two32 ->
  pos + N.of_nat (length data) < two32 -> rpos + rn < two32 -> wr <> WErr ->
  do_chunk c s off len w pos data rpos rn = (s', OutChunk ps wr (Some bs) cmp) ->
  length bs = N.to_nat rn /\ rpos + rn <= len /\
  forall k i f o, k < rn -> located (c_files c) (off + rpos + k) i o ->
    nth_error (c_files c) i = Some f ->
    nth (N.to_nat k) bs 0 =
      if (match wr with WOk => true | _ => false end) && (pos <=? rpos + k) &&
         (rpos + k <? pos + N.of_nat (length data))
      then nth (N.to_nat (rpos + k - pos)) data 0
      else if f_pad f then 0 else raw (s_store s) i o.
Proof. exact ProofsD.read_exact. Qed.
Print Assumptions read_exact.

Theorem read_after_write : forall cs lay s off len pos data s' ps bs cmp,
  let c := mk_cfg cs lay in
  length (s_store s) = length (c_files c) -> len < two32 ->
  pos + N.of_nat (length data) < two32 ->
  do_chunk c s off len true pos data pos (N.of_nat (length data)) =
    (s', OutChunk ps WOk (Some bs) cmp) ->
  bs = data.
Proof. exact ProofsD.read_after_write. Qed.
Print Assumptions read_after_write.

(* two writes to non-overlapping stream ranges leave the same file bytes in either order *)
Theorem order_independent :
  forall cs lay s offA lenA posA dataA offB lenB posB dataB
         sA sAB sB sBA psA psB psA' psB' rdA rdB rdA' rdB' cA cB cA' cB' ra rb rc rd re rf rg rh,
  let c := mk_cfg cs lay in
  length (s_store s) = length (c_files c) -> lenA < two32 -> lenB < two32 ->
  posA + N.of_nat (length dataA) < two32 -> posB + N.of_nat (length dataB) < two32 ->
  (offA + posA + N.of_nat (length dataA) <= offB + posB \/
   offB + posB + N.of_nat (length dataB) <= offA + posA) ->
  do_chunk c s offA lenA true posA dataA ra rb = (sA, OutChunk psA WOk rdA cA) ->
  do_chunk c sA offB lenB true posB dataB rc rd = (sAB, OutChunk psB WOk rdB cB) ->
  do_chunk c s offB lenB true posB dataB re rf = (sB, OutChunk psB' WOk rdB' cB') ->
  do_chunk c sB offA lenA true posA dataA rg rh = (sBA, OutChunk psA' WOk rdA' cA') ->
  forall i f o, nth_error (c_files c) i = Some f -> o < f_size f ->
    raw (s_store sAB) i o = raw (s_store sBA) i o.
Proof. exact ProofsD.order_independent. Qed.
Print Assumptions order_independent.

(* marking a valid, not yet completed piece never raises, in any reachable state *)
Theorem mark_completed_total : forall cs lay ops idx, cfg_ok cs lay ->
  let c := mk_cfg cs lay in
  let s := fst (run c (init_state c) ops) in
  idx < size_chunks c -> nth (N.to_nat idx) (s_done s) false = false ->
  snd (step c s (OpMark idx)) = OutMark true.
Proof. exact ProofsE.mark_completed_total. Qed.
Print Assumptions mark_completed_total.

(* FileList::update_completed recounts from the bitfield alone: stale per-file counters (from a
   previous session of a closed and re-opened torrent) never survive it *)
Theorem update_completed_fresh : forall c done fc fc', length fc = length fc' ->
  update_completed c done fc = update_completed c done fc'.
Proof. exact ProofsE.update_completed_fresh. Qed.
Print Assumptions update_completed_fresh.

(* close + re-open without resume data (bitfield allocate + unset_all + update_completed):
   nothing completed, every per-file counter 0, file bytes untouched *)
Theorem reopen_resets : forall cs lay s, cfg_ok cs lay ->
  let c := mk_cfg cs lay in
  step c s OpReopen =
  (mkState (s_store s) (repeat false (N.to_nat (size_chunks c))) (map (fun _ => 0) (s_fcomp s)),
   OutUpd true).
Proof. exact ProofsE.reopen_resets. Qed.
Print Assumptions reopen_resets.


(* per-file accounting (File::completed_chunks), after the repair 17569a5 of FileList::inc_completed:
   [cir done f] = number of set bits of the completed bitfield inside f's piece range [f_r1, f_r2).
   For every operation list in which raw bitfield edits (OpSetBit) are followed by update_completed /
   re-open before the counters are read: every file's counter is exactly that number, hence never
   above File::size_chunks = f_r2 - f_r1 (0 for empty files). Both paths agree: mark_completed's
   inc_completed walk and update_completed's recount loop with its re-used iterator. *)
Theorem file_completed_exact : forall cs lay, cfg_ok cs lay -> forall ops1 ops2,
  (ops1 = [] \/ exists ops0, ops1 = ops0 ++ [OpUpdate] \/ ops1 = ops0 ++ [OpReopen]) ->
  Forall (fun o => forall i, o <> OpSetBit i) ops2 ->
  let c := mk_cfg cs lay in
  let s := fst (run c (init_state c) (ops1 ++ ops2)) in
  s_fcomp s = map (cir (s_done s)) (c_files c) /\
  Forall2 (fun f x => x <= f_r2 f - f_r1 f) (c_files c) (s_fcomp s).
Proof. exact ProofsF.file_completed_exact. Qed.
Print Assumptions file_completed_exact.

(* update_completed from ANY counters: exactly the recount, never an internal_error *)
Theorem update_completed_exact : forall cs lay, cfg_ok cs lay -> forall done fc,
  length fc = length (c_files (mk_cfg cs lay)) ->
  N.of_nat (length done) = size_chunks (mk_cfg cs lay) ->
  update_completed (mk_cfg cs lay) done fc = (map (cir done) (c_files (mk_cfg cs lay)), true).
Proof. exact ProofsF.update_completed_exact. Qed.
Print Assumptions update_completed_exact.

(* SocketFile::create_chunk: align = off % page; mmap(len + align, off - align); begin = ptr + align.
   The mapping starts on a page, and the MemoryChunk denotes file bytes [off, off+len) for EVERY page size. *)
Theorem mmap_window_exact : forall page off len, 0 < page ->
  let w := sf_window page off len in
  w_moff w mod page = 0 /\ w_moff w + w_begin w = off /\ w_mlen w = w_begin w + len /\
  w_begin w < page /\ w_begin w = off mod page.
Proof. exact ProofsG.sf_window_exact. Qed.
Print Assumptions mmap_window_exact.

Theorem mmap_bytes_page_independent : forall page im off len, 0 < page ->
  sf_bytes page im off len = f_slice im off len.
Proof. exact ProofsG.sf_bytes_page_independent. Qed.
Print Assumptions mmap_bytes_page_independent.

(* what the model reads for a file part = that window of the part's page-aligned mapping *)
Theorem seg_read_via_mmap : forall page store cm p o k, 0 < page -> p_pad p = false ->
  o + k <= p_size p ->
  seg_read store cm p o k =
  firstn (N.to_nat k) (skipn (N.to_nat o)
    (sf_bytes page (nth (p_file p) store fempty) (p_foff p) (p_size p))).
Proof. exact ProofsG.seg_read_via_mmap. Qed.
Print Assumptions seg_read_via_mmap.

(* Chunk::compare_buffer (memcmp per segment, early exit) = "to_buffer would return the buffer" *)
Theorem compare_buffer_exact : forall cs lay s off len w pos data s' ps wr bs b,
  let c := mk_cfg cs lay in
  length (s_store s) = length (c_files c) -> len < two32 ->
  pos + N.of_nat (length data) < two32 ->
  do_chunk c s off len w pos data pos (N.of_nat (length data)) = (s', OutChunk ps wr (Some bs) (Some b)) ->
  (b = true <-> bs = data).
Proof. exact ProofsG.compare_buffer_exact. Qed.
Print Assumptions compare_buffer_exact.

(* HashChunk::perform, any schedule of perform(l) calls: SHA-1 receives exactly the piece's bytes
   in order, each once (file byte located at idx*cs + k; 0 in padding); final position = piece size *)
Theorem hash_piece_exact : forall cs lay s idx steps s' fed pos,
  let c := mk_cfg cs lay in
  length (s_store s) = length (c_files c) -> chunk_index_size c idx < two32 ->
  step c s (OpHash idx steps) = (s', OutHash fed pos) ->
  pos = chunk_index_size c idx /\
  exists bs, fed = Some bs /\ length bs = N.to_nat pos /\
    forall k i f o, k < pos -> located (c_files c) (idx * cs + k) i o ->
      nth_error (c_files c) i = Some f ->
      nth (N.to_nat k) bs 0 = if f_pad f then 0 else raw (s_store s) i o.
Proof. exact ProofsG.hash_piece_exact. Qed.
Print Assumptions hash_piece_exact.

(* the ChunkIterator loop of PeerConnectionBase::down_chunk / up_chunk over a block [first,last) of
   piece idx, for EVERY schedule of short transfers (steps): *)
(* download: the bytes received so far land at stream positions idx*cs+first, +1, ... in order, never
   beyond last; no other file byte changes; Chunk::preload accepts the range *)
Theorem xfer_down_frame : forall cs lay s idx first last steps data s' pre r,
  let c := mk_cfg cs lay in
  length (s_store s) = length (c_files c) -> chunk_index_size c idx < two32 ->
  first < last -> last <= chunk_index_size c idx -> last - first <= N.of_nat (length data) ->
  step c s (OpXfer idx true first last steps data) = (s', OutXfer pre r) ->
  exists wins total, r = Some (wins, total, []) /\ pre = true /\ total <= last - first /\
    length (s_store s') = length (c_files c) /\
    forall i f o, nth_error (c_files c) i = Some f -> o < f_size f ->
      raw (s_store s') i o =
        if negb (f_pad f) && (idx * cs + first <=? f_off f + o) && (f_off f + o <? idx * cs + first + total)
        then nth (N.to_nat (f_off f + o - (idx * cs + first))) data 0
        else raw (s_store s) i o.
Proof. exact ProofsH.xfer_down_frame. Qed.
Print Assumptions xfer_down_frame.

(* upload: the bytes handed to the stream are the located file bytes of the block, in order *)
Theorem xfer_up_exact : forall cs lay s idx first last steps s' pre wins total sent,
  let c := mk_cfg cs lay in
  length (s_store s) = length (c_files c) -> chunk_index_size c idx < two32 ->
  first < last -> last <= chunk_index_size c idx ->
  step c s (OpXfer idx false first last steps []) = (s', OutXfer pre (Some (wins, total, sent))) ->
  pre = true /\ total <= last - first /\ length sent = N.to_nat total /\
  forall k i f o, k < total -> located (c_files c) (idx * cs + first + k) i o ->
    nth_error (c_files c) i = Some f ->
    nth (N.to_nat k) sent 0 = if f_pad f then 0 else raw (s_store s) i o.
Proof. exact ProofsH.xfer_up_exact. Qed.
Print Assumptions xfer_up_exact.
