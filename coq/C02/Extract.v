From Coq Require Import Extraction ExtrOcamlBasic NArith ZArith.
From LTV.C02 Require Import Model.
Set Extraction Optimize.
Extraction Language OCaml.
(* Z.of_N only so that the shared ocaml/conv.ml (which mentions type z) compiles *)
Extraction "extracted/c02_model.ml" run_case part_align probed_ok Z.of_N.
