From Coq Require Import List NArith Bool Lia.
From LTV.C02 Require Import Model.
Import ListNotations.
Local Open Scope N_scope.

Lemma placeholder_true : True. Proof. exact I. Qed.
