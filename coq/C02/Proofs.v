(* C02: the theorems of DESIGN.md, stated for the configuration FileList::initialize + split
   builds from an arbitrary layout (mk_cfg cs lay) and for arbitrary operation lists. *)
From Coq Require Import List NArith ZArith Bool Lia ZifyBool ZifyNat ZifyN.
From LTV.C02 Require Import Model ProofsA ProofsB.
Import ListNotations.
Local Open Scope N_scope.

Arguments N.mul : simpl never.
Arguments N.add : simpl never.
Arguments N.sub : simpl never.
Arguments N.to_nat : simpl never.
Arguments N.of_nat : simpl never.

(* side conditions on the machine-integer ranges: piece length fits uint32 and is not 0 (the
   loader enforces 1024 < cs <= 512 MiB), the piece count fits uint32, the stream is non-empty
   and not larger than the 2^60 sanity bound of left_bytes *)
Definition cfg_ok (cs : N) (lay : list (N * bool)) : Prop :=
  0 < cs /\ cs < two32 /\ 0 < total lay /\ total lay <= two60 /\ ceil_div (total lay) cs < two32.

(* today's constants satisfy the side condition; the same boolean is evaluated at run time on the
   values probed from the compiled implementation *)
Definition params_ok : bool := probed_ok default_probed.
Lemma params_ok_now : params_ok = true.
Proof. vm_compute. reflexivity. Qed.

(* what the side condition buys: every piece length the loader accepts is a legal cs of cfg_ok, and
   left_bytes' sanity bound is not below the 2^60 the theorems assume *)
Lemma probed_ok_sound : forall p, probed_ok p = true ->
  two60 <= 2 ^ pr_left_shift p /\
  forall cs, pr_pl_min_excl p < cs -> cs <= pr_pl_max p -> 0 < cs /\ cs < two32.
Proof.
  intros p H. unfold probed_ok in H. rewrite andb_true_iff, N.leb_le, N.ltb_lt in H. destruct H as [H1 H2].
  split.
  - unfold two60. change 1152921504606846976 with (2 ^ 60). apply N.pow_le_mono_r; lia.
  - intros cs Ha Hb. lia.
Qed.

Lemma cfg_laid : forall cs lay, laid 0 (c_files (mk_cfg cs lay)) (c_tot (mk_cfg cs lay)).
Proof. intros. simpl. apply (split_laid cs lay 0). Qed.

(* offsets are running sums in torrent order; sizes, padding flags and ranges are the entry's *)
Lemma layout_offsets : forall cs lay i f, nth_error (c_files (mk_cfg cs lay)) i = Some f ->
  exists sz pad, nth_error lay i = Some (sz, pad) /\
    f_off f = total (firstn i lay) /\ f_size f = sz /\ f_pad f = pad /\
    (f_r1 f, f_r2 f) = set_range cs (f_off f) sz.
Proof.
  intros cs lay i f H. simpl in H. apply split_nth in H.
  destruct H as (sz & pad & H1 & H2 & H3). exists sz, pad. rewrite N.add_0_l in H2. auto.
Qed.

Lemma locate_unique : forall cs lay g, g < total lay ->
  exists i o, located (c_files (mk_cfg cs lay)) g i o /\
    forall i' o', located (c_files (mk_cfg cs lay)) g i' o' -> i' = i /\ o' = o.
Proof.
  intros cs lay g Hg. apply (locate_unique_laid 0 _ (total lay)).
  - apply cfg_laid.
  - lia.
  - exact Hg.
Qed.

Lemma piece_count_and_sizes : forall cs lay, cfg_ok cs lay ->
  let c := mk_cfg cs lay in
  size_chunks c = ceil_div (total lay) cs /\
  sumN (map (chunk_index_size c) (nseq 0 (N.to_nat (size_chunks c)))) = total lay /\
  forall i, i < size_chunks c ->
    chunk_index_size c i = N.min cs (total lay - i * cs) /\ 0 < chunk_index_size c i.
Proof.
  intros cs lay (H1 & H2 & H3 & H4 & H5) c.
  split; [apply (size_chunks_exact c); auto|].
  split; [apply (piece_sizes_sum c); auto|].
  intros i Hi. apply (chunk_index_size_exact c); auto.
Qed.

Lemma range_exact : forall cs lay, cfg_ok cs lay ->
  forall i f, nth_error (c_files (mk_cfg cs lay)) i = Some f -> 0 < f_size f ->
  forall p, (f_r1 f <= p < f_r2 f) <-> touches (mk_cfg cs lay) f p.
Proof.
  intros cs lay (H1 & H2 & H3 & H4 & H5) i f Hf Hsz p.
  pose proof (laid_bounds _ _ _ (cfg_laid cs lay) _ _ Hf) as [_ Hb].
  destruct (layout_offsets _ _ _ _ Hf) as (sz & pad & _ & _ & Es & _ & Er).
  pose proof (range_exact_one (mk_cfg cs lay) H1 H5 H2 (f_off f) (f_size f) Hb Hsz p) as R.
  simpl in R. rewrite Es in *. rewrite <- Er in R. simpl in R. unfold touches. simpl. rewrite Es. exact R.
Qed.

Lemma empty_file_range : forall cs lay i f, nth_error (c_files (mk_cfg cs lay)) i = Some f ->
  f_size f = 0 -> f_r1 f = f_r2 f.
Proof.
  intros cs lay i f Hf Hz. destruct (layout_offsets _ _ _ _ Hf) as (sz & pad & _ & _ & Es & _ & Er).
  rewrite <- Es, Hz in Er. unfold set_range in Er. destruct (cs =? 0); simpl in Er; congruence.
Qed.

Lemma valid_piece_sound : forall cs lay, cfg_ok cs lay ->
  forall idx off len, idx < two32 -> off < two32 -> len < two32 ->
  (is_valid_piece (mk_cfg cs lay) idx off len = true <->
   idx < size_chunks (mk_cfg cs lay) /\ len <> 0 /\
   off + len <= chunk_index_size (mk_cfg cs lay) idx).
Proof.
  intros cs lay (H1 & H2 & H3 & H4 & H5). apply (ProofsA.valid_piece_sound (mk_cfg cs lay)); auto.
Qed.

(* ------------------------------------------------------------------ runs *)

Lemma set_nth_length : forall l i, length (set_nth l i) = length l.
Proof. induction l; intros [|i]; simpl; auto. Qed.

Lemma do_chunk_done : forall c s off len w pos data rpos rn,
  s_done (fst (do_chunk c s off len w pos data rpos rn)) = s_done s.
Proof.
  intros. unfold do_chunk. destruct (create_chunk c (s_store s) off len w); simpl; auto.
  destruct w; [destruct (buffer_segs ps pos _)|]; simpl; auto.
Qed.

Lemma step_done_length : forall c s o, length (s_done (fst (step c s o))) = length (s_done s) \/
  (o = OpReopen /\ s_done (fst (step c s o)) = repeat false (N.to_nat (size_chunks c))).
Proof.
  intros c s o. destruct o; simpl; try rewrite do_chunk_done; auto.
  - destruct (_ || _); simpl; auto.
    destruct (nth _ _ _); simpl; auto.
    destruct (inc_completed _ _ _); simpl; left; apply set_nth_length.
  - destruct (_ <? _); simpl; auto. left. apply set_nth_length.
  - destruct (nth_error _ _); simpl; auto. destruct (f_pad _); simpl; auto.
  - destruct (create_chunk _ _ _ _ _); simpl; auto.
  - destruct (create_chunk _ _ _ _ _); simpl; auto.
    destruct (xfer _ _ _ _); simpl; auto. destruct w; simpl; auto.
Qed.

(* the bitfield always has one bit per piece *)
Lemma run_done_length : forall c ops s, N.of_nat (length (s_done s)) = size_chunks c ->
  N.of_nat (length (s_done (fst (run c s ops)))) = size_chunks c.
Proof.
  induction ops; intros s H; simpl; auto. apply IHops.
  destruct (step_done_length c s a) as [E|[_ E]]; rewrite E; auto.
  rewrite repeat_length. lia.
Qed.

Lemma init_done_length : forall c, N.of_nat (length (s_done (init_state c))) = size_chunks c.
Proof. intros. simpl. rewrite repeat_length. lia. Qed.

(* after ANY operation list, completed_bytes is exactly the sum of the sizes of the set pieces,
   left_bytes is the rest of the stream, and neither raises *)
Lemma completed_bytes_exact : forall cs lay ops, cfg_ok cs lay ->
  let c := mk_cfg cs lay in
  let s := fst (run c (init_state c) ops) in
  completed_bytes c (s_done s) = Some (done_sum c 0 (s_done s)) /\
  left_bytes c (s_done s) = Some (total lay - done_sum c 0 (s_done s)) /\
  done_sum c 0 (s_done s) <= total lay.
Proof.
  intros cs lay ops (H1 & H2 & H3 & H4 & H5) c s.
  apply (ProofsA.completed_bytes_exact c); auto.
  unfold s. apply run_done_length. apply init_done_length.
Qed.

(* mark_completed sets exactly the requested bit, only when it is a valid unset piece *)
Lemma mark_completed_exact : forall c s idx s',
  step c s (OpMark idx) = (s', OutMark true) ->
  idx < size_chunks c /\ nth (N.to_nat idx) (s_done s) false = false /\
  s_done s' = set_nth (s_done s) (N.to_nat idx) /\ s_store s' = s_store s.
Proof.
  intros c s idx s' H. simpl in H.
  destruct (N.leb_spec (size_chunks c) idx); simpl in H; [inversion H|].
  destruct (N.leb_spec (size_chunks c) (count_true (s_done s))); simpl in H; [inversion H|].
  destruct (nth (N.to_nat idx) (s_done s) false) eqn:E; [inversion H|].
  destruct (inc_completed (c_files c) (s_fcomp s) idx); inversion H; subst; simpl. auto.
Qed.

(* ------------------------------------------------------------------ parts_cover *)

Lemma parts_cover : forall cs lay store off len w st ps,
  let c := mk_cfg cs lay in
  length store = length (c_files c) ->
  create_chunk c store off len w = COk st ps ->
  off + len <= total lay /\ chunk_size ps = len /\
  (forall p, In p ps -> 0 < p_size p /\
     exists f, nth_error (c_files c) (p_file p) = Some f /\ 0 < f_size f /\ p_pad p = f_pad f) /\
  forall k, k < len ->
    exists p, In p ps /\ p_pos p <= k < p_pos p + p_size p /\
              located (c_files c) (off + k) (p_file p) (p_foff p + (k - p_pos p)) /\
              (forall q, In q ps -> p_pos q <= k < p_pos q + p_size q -> q = p).
Proof.
  intros cs lay store off len w st ps c Hlen Hc.
  pose proof (create_chunk_ok (c_files c) c eq_refl (cfg_laid cs lay) store off len w Hlen) as K.
  rewrite Hc in K. destruct K as (K1 & _).
  split; [exact K1|].
  exact (ProofsB.parts_cover (c_files c) c eq_refl (cfg_laid cs lay) store off len w st ps Hlen Hc).
Qed.

(* a request inside the stream is never refused with an error, one outside always is; a
   writable request for a non-empty range always yields a chunk *)
Lemma create_chunk_total : forall cs lay store off len w,
  let c := mk_cfg cs lay in
  length store = length (c_files c) ->
  (create_chunk c store off len w = CErr <-> total lay < off + len) /\
  (w = true -> 0 < len -> off + len <= total lay ->
   exists st ps, create_chunk c store off len w = COk st ps).
Proof.
  intros cs lay store off len w c Hlen.
  pose proof (create_chunk_ok (c_files c) c eq_refl (cfg_laid cs lay) store off len w Hlen) as K.
  split.
  - split.
    + intros E. rewrite E in K. exact K.
    + intros Hout. unfold create_chunk. simpl c_tot.
      destruct (N.ltb_spec (total lay) (off + len)); [reflexivity|lia].
  - intros Hw Hpos Hin. destruct (create_chunk c store off len w) as [|st|st ps].
    + simpl in K. lia.
    + destruct K as (_ & _ & [K|K]); [lia|congruence].
    + eauto.
Qed.

(* ------------------------------------------------------------------ non-vacuity *)

Example cfg_ok_ex : cfg_ok 3 [(2, false); (0, false); (5, false); (1, true); (0, false); (4, false)].
Proof. unfold cfg_ok, ceil_div, two32, two60. simpl. repeat split; try lia; reflexivity. Qed.

Example run_ex :
  run_case 3 [(2, false); (0, false); (5, false); (1, true); (0, false); (4, false)]
           [OpPiece 2 true 0 [17; 18] 0 3; OpMark 2; OpQuery; OpDump] =
  [OutChunk [mkPart 0 1 2%nat 4 false; mkPart 1 1 3%nat 0 true; mkPart 2 1 5%nat 0 false]
            WOk (Some [17; 18; 0]) (Some true);
   OutMark true;
   OutQuery 4 [3; 3; 3; 3]
     [(mkFile 0 2 false 0 1, 0); (mkFile 2 0 false 0 0, 0); (mkFile 2 5 false 0 3, 1);
      (mkFile 7 1 true 2 3, 1); (mkFile 8 0 false 2 2, 0); (mkFile 8 4 false 2 4, 1)]
     1 (Some 3) (Some 9);
   OutDump [Some []; Some []; Some [0; 0; 0; 0; 17]; None; Some []; Some [0; 0; 0; 0]]].
Proof. vm_compute. reflexivity. Qed.
