(* C02 proofs, part H: the ChunkIterator loop of PeerConnectionBase::down_chunk / up_chunk
   (data() / forward(n) with arbitrary short transfers) moves exactly the chunk positions
   first, first+1, ... in order, never beyond last, for every transfer schedule. *)
From Coq Require Import List NArith ZArith Bool Lia ZifyBool ZifyNat ZifyN.
From LTV.C02 Require Import Model ProofsA ProofsB ProofsC Proofs ProofsD ProofsG.
Import ListNotations.
Local Open Scope N_scope.

Arguments N.mul : simpl never.
Arguments N.add : simpl never.
Arguments N.sub : simpl never.
Arguments N.min : simpl never.
Arguments N.modulo : simpl never.
Arguments N.to_nat : simpl never.
Arguments N.of_nat : simpl never.

Section Xfer.
  Variable files : list file.
  Variable ps : list part.
  Variable B : N.
  Hypothesis Hparts : Forall (part_ok files B) ps.
  Hypothesis Hcontig : contig 0 ps.
  Hypothesis H32 : chunk_size ps < two32.

  Lemma fwd_is_at_position : forall suf c x, contig c suf -> c <= x -> fwd_suf suf x = at_position suf x.
  Proof.
    induction suf as [|p r IH]; intros c x Hc Hx; simpl; auto.
    simpl in Hc. destruct Hc as [Hp Hc].
    destruct (N.leb_spec (p_pos p) x); [|lia]. simpl.
    destruct (N.ltb_spec x (p_pos p + p_size p)); auto.
    apply (IH (c + p_size p)); auto. lia.
  Qed.

  Lemma xfer_loop_ok : forall steps p r first last,
    contig (p_pos p) (p :: r) -> (forall q, In q (p :: r) -> In q ps) ->
    p_pos p + chunk_size (p :: r) = chunk_size ps ->
    p_pos p <= first < p_pos p + p_size p -> first < last -> last <= chunk_size ps ->
    exists sg wins, xfer_loop steps (p :: r) first last = XOk sg wins /\
      segs_from ps first sg (first + segs_total sg) /\ first + segs_total sg <= last.
  Proof.
    induction steps as [|s steps IH]; intros p r first last Hc Hin Hend Hp Hfl Hlast.
    - cbn [xfer_loop].
      destruct (N.leb_spec (p_pos p) first); [|lia]. destruct (N.ltb_spec first (p_pos p + p_size p)); [|lia].
      simpl. do 2 eexists. split; [reflexivity|]. simpl. rewrite N.add_0_r. split; [constructor|lia].
    - cbn [xfer_loop].
      destruct (N.leb_spec (p_pos p) first); [|lia]. destruct (N.ltb_spec first (p_pos p + p_size p)); [|lia].
      cbn [negb andb].
      assert (Eu : u32 (last + two32 - first) = last - first).
      { unfold u32. symmetry. apply N.mod_unique with (q := 1); unfold two32 in *; lia. }
      rewrite Eu.
      set (o := first - p_pos p). set (k := N.min (p_size p - o) (last - first)).
      set (n := N.min s k).
      destruct (N.eqb_spec n 0) as [En|En].
      { do 2 eexists. split; [reflexivity|]. simpl. rewrite N.add_0_r. split; [constructor|lia]. }
      assert (Hn : 0 < n /\ o + n <= p_size p /\ first + n <= last) by (unfold n, k, o in *; lia).
      destruct Hn as (Hn1 & Hn2 & Hn3).
      rewrite (u32_small (first + n)) by (unfold two32 in *; lia).
      assert (Hone : segs_from ps first [(p, o, n)] (first + segs_total [(p, o, n)])).
      { simpl. rewrite N.add_0_r. apply sf_cons; auto; unfold o; try lia.
        - apply Hin. left. reflexivity.
        - constructor. }
      destruct (N.leb_spec last (first + n)) as [Hfin|Hmore].
      { do 2 eexists. split; [reflexivity|]. split; [exact Hone|]. simpl. lia. }
      rewrite (fwd_is_at_position (p :: r) (p_pos p) (first + n) Hc ltac:(lia)).
      destruct (at_position_ok ps (p :: r) (p_pos p) (first + n) Hc Hin ltac:(lia) ltac:(lia))
        as (q & r' & A1 & A2 & A3 & A4 & A5).
      rewrite A1.
      destruct (IH q r' (first + n) last A2 A3 ltac:(lia) A4 Hmore Hlast) as (sg' & wins' & E' & S' & T').
      rewrite E'. simpl. do 2 eexists. split; [reflexivity|]. split.
      + apply sf_cons; auto; unfold o; try lia.
        * apply Hin. left. reflexivity.
        * unfold segs_total; cbn [fold_right snd]; fold (segs_total sg').
          replace (first + (n + segs_total sg')) with (first + n + segs_total sg') by lia. exact S'.
      + unfold segs_total in *. cbn [fold_right snd] in *. lia.
  Qed.

  Lemma xfer_ok : forall steps first last, first < last -> last <= chunk_size ps ->
    exists sg wins, xfer ps first last steps = XOk sg wins /\
      segs_from ps first sg (first + segs_total sg) /\ first + segs_total sg <= last.
  Proof.
    intros steps first last Hfl Hlast. unfold xfer.
    destruct (N.leb_spec (chunk_size ps) first); [lia|].
    destruct (at_position_ok ps ps 0 first Hcontig ltac:(auto) ltac:(lia) ltac:(lia))
      as (p & r & A1 & A2 & A3 & A4 & A5).
    rewrite A1. apply xfer_loop_ok; auto; lia.
  Qed.

  (* data longer than what the segments consume is simply not touched *)
  Lemma write_segs_firstn : forall first sg last, segs_from ps first sg last ->
    forall data store cm, last - first <= N.of_nat (length data) ->
    write_segs sg data store cm = write_segs sg (firstn (N.to_nat (last - first)) data) store cm.
  Proof.
    induction 1 as [x0|p o k r first last Hin Hpos Hk Hok Hrest IH]; intros data store cm Hd.
    - reflexivity.
    - pose proof (segs_from_le _ _ _ _ Hrest) as Hle.
      cbn [write_segs].
      assert (E1 : firstn (N.to_nat k) (firstn (N.to_nat (last - first)) data) = firstn (N.to_nat k) data).
      { rewrite firstn_firstn. f_equal. lia. }
      assert (E2 : skipn (N.to_nat k) (firstn (N.to_nat (last - first)) data) =
                   firstn (N.to_nat (last - (first + k))) (skipn (N.to_nat k) data)).
      { rewrite skipn_firstn_comm. f_equal. lia. }
      rewrite E1, E2.
      destruct (p_pad p); apply IH; rewrite skipn_length; lia.
  Qed.
End Xfer.

Section OpsH.
  Variable cs : N.
  Variable lay : list (N * bool).
  Let c := mk_cfg cs lay.
  Let files := c_files c.

  (* download direction: whatever the sequence of short reads, the bytes received so far land at
     the stream positions idx*cs + first, +1, ... in order; nothing else changes *)
  Theorem xfer_down_frame : forall s idx first last steps data s' pre r,
    length (s_store s) = length files -> chunk_index_size c idx < two32 ->
    first < last -> last <= chunk_index_size c idx -> last - first <= N.of_nat (length data) ->
    step c s (OpXfer idx true first last steps data) = (s', OutXfer pre r) ->
    exists wins total, r = Some (wins, total, []) /\ pre = true /\ total <= last - first /\
      length (s_store s') = length files /\
      forall i f o, nth_error files i = Some f -> o < f_size f ->
        raw (s_store s') i o =
          if negb (f_pad f) && (idx * cs + first <=? f_off f + o) && (f_off f + o <? idx * cs + first + total)
          then nth (N.to_nat (f_off f + o - (idx * cs + first))) data 0
          else raw (s_store s) i o.
  Proof.
    intros s idx first last steps data s' pre r Hlen H32 Hfl Hlast Hd H. simpl in H.
    destruct (create_chunk c (s_store s) (idx * cs) (chunk_index_size c idx) true) as [|st|st ps] eqn:Ec;
      try discriminate.
    destruct (chunk_facts cs lay _ _ _ _ _ _ Hlen Ec) as (F1 & F2 & F3 & F4 & F5 & F6 & F7 & F8 & F9).
    destruct (xfer_ok ps F3 ltac:(lia) steps first last Hfl ltac:(lia)) as (sg & wins & Ex & Sx & Tx).
    rewrite Ex in H. inversion H; subst. clear H.
    set (total := segs_total sg) in *.
    exists wins, total. split; [reflexivity|]. split; [unfold preload_ok; apply N.ltb_lt; lia|].
    split; [lia|].
    set (cm0 := zeros (N.to_nat (chunk_size ps))).
    rewrite (write_segs_firstn ps ltac:(lia) first sg (first + total) Sx data st cm0 ltac:(lia)).
    replace (first + total - first) with total by lia.
    set (d := firstn (N.to_nat total) data).
    assert (Hdl : N.of_nat (length d) = first + total - first).
    { unfold d. rewrite firstn_length. lia. }
    destruct (write_segs_frame files _ (cfg_laid cs lay) ps (idx * cs) F5 first sg (first + total) Sx d st cm0
                Hdl (F8 eq_refl) F9) as (L1 & L2 & L3).
    simpl. split; [unfold files, c in *; rewrite L1; exact F9|].
    intros i f o Hi Ho. rewrite (L3 i f o Hi Ho).
    rewrite (store_ext_raw files true 0 (s_store s) st i f o F6 Hi Ho).
    replace (idx * cs + (first + total)) with (idx * cs + first + total) by lia.
    destruct (negb (f_pad f) && (idx * cs + first <=? f_off f + o) && (f_off f + o <? idx * cs + first + total)) eqn:Eb;
      [|reflexivity].
    rewrite !andb_true_iff, N.leb_le, N.ltb_lt in Eb. unfold d. apply nth_firstn_lt. lia.
  Qed.

  (* upload direction: the bytes handed to the stream are the located file bytes of the block, in
     order (0 in padding), for every schedule of short writes *)
  Theorem xfer_up_exact : forall s idx first last steps s' pre wins total sent,
    length (s_store s) = length files -> chunk_index_size c idx < two32 ->
    first < last -> last <= chunk_index_size c idx ->
    step c s (OpXfer idx false first last steps []) = (s', OutXfer pre (Some (wins, total, sent))) ->
    pre = true /\ total <= last - first /\ length sent = N.to_nat total /\
    forall k i f o, k < total -> located files (idx * cs + first + k) i o -> nth_error files i = Some f ->
      nth (N.to_nat k) sent 0 = if f_pad f then 0 else raw (s_store s) i o.
  Proof.
    intros s idx first last steps s' pre wins total sent Hlen H32 Hfl Hlast H. simpl in H.
    destruct (create_chunk c (s_store s) (idx * cs) (chunk_index_size c idx) false) as [|st|st ps] eqn:Ec;
      try discriminate.
    destruct (chunk_facts cs lay _ _ _ _ _ _ Hlen Ec) as (F1 & F2 & F3 & F4 & F5 & F6 & F7 & F8 & F9).
    destruct (xfer_ok ps F3 ltac:(lia) steps first last Hfl ltac:(lia)) as (sg & wins' & Ex & Sx & Tx).
    rewrite Ex in H. inversion H; subst. clear H.
    set (total := segs_total sg) in *.
    set (cm0 := zeros (N.to_nat (chunk_size ps))).
    assert (Hcm0 : chunk_size ps <= N.of_nat (length cm0)) by (unfold cm0; rewrite zeros_length; lia).
    rewrite (read_segs_spec ps F3 first sg (first + total) Sx st cm0 F7 Hcm0).
    replace (first + total - first) with total by lia.
    split; [unfold preload_ok; apply N.ltb_lt; lia|]. split; [lia|].
    split; [rewrite map_length, nseq_length; reflexivity|].
    intros k i f o Hk Hloc Hi.
    rewrite (nth_indep _ 0 (cbyte ps st cm0 0)) by (rewrite map_length, nseq_length; lia).
    rewrite map_nth, nth_nseq by lia.
    replace (first + N.of_nat (N.to_nat k)) with (first + k) by lia.
    apply (cbyte_fresh cs lay (s_store s) (idx * cs) (chunk_index_size c idx) false st ps (first + k) i f o
             Hlen Ec ltac:(lia)); auto.
    replace (idx * cs + (first + k)) with (idx * cs + first + k) by lia. exact Hloc.
  Qed.
End OpsH.

Example xfer_ex :
  snd (run (mk_cfg 3 lay_ex) (init_state (mk_cfg 3 lay_ex))
           [OpXfer 2 true 0 3 [1; 5; 1] [17; 18; 19]; OpXfer 2 false 0 3 [2; 2; 2] []]) =
  [OutXfer true (Some ([1; 1; 1], 3, [])); OutXfer true (Some ([1; 1; 1], 3, [17; 0; 19]))].
Proof. vm_compute. reflexivity. Qed.
