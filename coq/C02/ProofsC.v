(* C02 proofs, part C: the frame property of writing through a chunk. For every list of
   iterator segments that walks chunk positions [first, last) (segs_from), write_segs changes
   exactly the file bytes located at stream positions [B+first, B+last) of non-padding files
   — to the given data, in order — and no other byte of any file; file lengths are kept. *)
From Coq Require Import List NArith ZArith Bool Lia ZifyBool ZifyNat ZifyN.
From LTV.C02 Require Import Model ProofsA ProofsB.
Import ListNotations.
Local Open Scope N_scope.

Arguments N.mul : simpl never.
Arguments N.add : simpl never.
Arguments N.sub : simpl never.
Arguments N.min : simpl never.
Arguments N.to_nat : simpl never.
Arguments N.of_nat : simpl never.

(* ------------------------------------------------------------------ byte-list lemmas *)

Lemma nth_firstn_lt : forall (l : bytes) n x d, (x < n)%nat -> nth x (firstn n l) d = nth x l d.
Proof.
  induction l; intros [|n] [|x] d H; simpl; auto; try lia. apply IHl. lia.
Qed.

Lemma nth_skipn_add : forall (l : bytes) n x d, nth x (skipn n l) d = nth (n + x) l d.
Proof.
  induction l; intros [|n] x d; simpl; auto. destruct x; auto.
Qed.

Lemma splice_length : forall l o d, (N.to_nat o + length d <= length l)%nat ->
  length (splice l o d) = length l.
Proof.
  intros. unfold splice. rewrite !app_length, firstn_length, skipn_length. lia.
Qed.

Lemma nth_splice : forall l o d x, (N.to_nat o + length d <= length l)%nat ->
  nth x (splice l o d) 0 =
  if ((N.to_nat o <=? x) && (x <? N.to_nat o + length d))%nat then nth (x - N.to_nat o) d 0
  else nth x l 0.
Proof.
  intros l o d x H. unfold splice. set (on := N.to_nat o) in *.
  assert (Hf : length (firstn on l) = on) by (rewrite firstn_length; lia).
  destruct (Nat.leb_spec on x) as [H1|H1]; simpl.
  - rewrite app_nth2 by lia. rewrite Hf.
    destruct (Nat.ltb_spec x (on + length d)) as [H2|H2].
    + rewrite app_nth1 by lia. reflexivity.
    + rewrite app_nth2 by lia. rewrite nth_skipn_add. f_equal. lia.
  - rewrite app_nth1 by lia. apply nth_firstn_lt. lia.
Qed.

(* ------------------------------------------------------------------ sparse file images *)

Lemma lookup_app : forall x a b,
  lookup x (a ++ b) = match lookup x a with Some v => Some v | None => lookup x b end.
Proof.
  induction a as [|[k v] a IH]; intros b; simpl; auto. destruct (k =? x); auto.
Qed.

Lemma lookup_zip : forall d o x,
  lookup x (zipcells o d) =
  if (o <=? x) && (x <? o + N.of_nat (length d)) then Some (nth (N.to_nat (x - o)) d 0) else None.
Proof.
  induction d as [|b d IH]; intros o x; simpl.
  - destruct (N.leb_spec o x); destruct (N.ltb_spec x (o + N.of_nat 0)); simpl; auto; lia.
  - destruct (N.eqb_spec o x) as [->|Hne].
    + replace (N.to_nat (x - x)) with O by lia.
      destruct (N.leb_spec x x); destruct (N.ltb_spec x (x + N.of_nat (S (length d)))); simpl; auto; lia.
    + rewrite IH.
      destruct (N.leb_spec (o + 1) x); destruct (N.leb_spec o x);
        destruct (N.ltb_spec x (o + 1 + N.of_nat (length d)));
        destruct (N.ltb_spec x (o + N.of_nat (S (length d)))); simpl; auto; try lia.
      replace (N.to_nat (x - o)) with (S (N.to_nat (x - (o + 1)))) by lia. reflexivity.
Qed.

Lemma raw_splice : forall l o d x, o + N.of_nat (length d) <= fi_len l ->
  f_raw (f_splice l o d) x =
  if (o <=? x) && (x <? o + N.of_nat (length d)) then nth (N.to_nat (x - o)) d 0 else f_raw l x.
Proof.
  intros l o d x H. unfold f_raw, f_splice. simpl. rewrite lookup_app, lookup_zip.
  destruct (N.leb_spec o x); destruct (N.ltb_spec x (o + N.of_nat (length d))); simpl; auto.
  destruct (N.ltb_spec x (fi_len l)); [reflexivity|lia].
Qed.

Lemma map_nseq_ext : forall (g1 g2 : N -> N) n a b,
  (forall x, x < N.of_nat n -> g1 (a + x) = g2 (b + x)) -> map g1 (nseq a n) = map g2 (nseq b n).
Proof.
  induction n; intros a b H; simpl; auto. f_equal.
  - specialize (H 0 ltac:(lia)). rewrite !N.add_0_r in H. exact H.
  - apply IHn. intros x Hx. specialize (H (1 + x) ltac:(lia)).
    replace (a + 1 + x) with (a + (1 + x)) by lia. replace (b + 1 + x) with (b + (1 + x)) by lia. exact H.
Qed.

(* ------------------------------------------------------------------ frame *)

Section Frame.
  Variable files : list file.
  Variable tot : N.
  Hypothesis Hlaid : laid 0 files tot.
  Variable ps : list part.
  Variable B : N.
  Hypothesis Hparts : Forall (part_ok files B) ps.
  Hypothesis Hcontig : contig 0 ps.

  (* segments that walk the chunk positions first .. last in order, each inside one part *)
  Inductive segs_from : N -> list (part * N * N) -> N -> Prop :=
  | sf_nil : forall x, segs_from x [] x
  | sf_cons : forall p o k r first last,
      In p ps -> p_pos p + o = first -> 0 < k -> o + k <= p_size p ->
      segs_from (first + k) r last -> segs_from first ((p, o, k) :: r) last.

  Lemma segs_from_le : forall first sg last, segs_from first sg last -> first <= last.
  Proof. induction 1; lia. Qed.

  Definition raw (store : list fimg) (i : nat) (o : N) : N := f_raw (nth i store fempty) o.

  (* every non-padding file the chunk maps has its full size on disk (what create_chunk with
     write permission establishes: ProofsB.mapped) *)
  Definition sized (store : list fimg) : Prop :=
    forall p, In p ps -> p_pad p = false ->
      exists f, nth_error files (p_file p) = Some f /\
                fi_len (nth (p_file p) store fempty) = f_size f.

  Lemma file_inj : forall i f o i' f' o',
    nth_error files i = Some f -> nth_error files i' = Some f' ->
    o < f_size f -> o' < f_size f' -> f_off f + o = f_off f' + o' -> i = i' /\ o = o'.
  Proof.
    intros i f o i' f' o' Hi Hi' Ho Ho' E.
    pose proof (laid_bounds _ _ _ Hlaid _ _ Hi) as [_ Hb].
    destruct (locate_unique_laid _ _ _ Hlaid (f_off f + o) ltac:(lia) ltac:(lia)) as (i0 & o0 & _ & Hu).
    destruct (Hu i o) as [-> ->]. { exists f. repeat split; auto; lia. }
    destruct (Hu i' o') as [-> ->]. { exists f'. repeat split; auto; lia. }
    auto.
  Qed.

  Lemma write_segs_frame : forall first sg last, segs_from first sg last ->
    forall data store cm,
    N.of_nat (length data) = last - first -> sized store -> length store = length files ->
    let st' := fst (write_segs sg data store cm) in
    length st' = length store /\
    (forall j, fi_len (nth j st' fempty) = fi_len (nth j store fempty)) /\
    forall i f o, nth_error files i = Some f -> o < f_size f ->
      raw st' i o =
      if negb (f_pad f) && (B + first <=? f_off f + o) && (f_off f + o <? B + last)
      then nth (N.to_nat (f_off f + o - (B + first))) data 0
      else raw store i o.
  Proof.
    induction 1 as [x|p o k r first last Hin Hpos Hk Hok Hrest IH]; intros data store cm Hd Hsz Hlen.
    - simpl. split; auto. split; auto. intros i f o Hi Ho.
      destruct (negb (f_pad f) && (B + x <=? f_off f + o) && (f_off f + o <? B + x)) eqn:E; auto.
      rewrite !andb_true_iff, N.leb_le, N.ltb_lt in E. lia.
    - pose proof (segs_from_le _ _ _ Hrest) as Hle.
      rewrite Forall_forall in Hparts.
      destruct (Hparts p Hin) as (fp & Fp1 & Fp2 & Fp3 & Fp4 & Fp5).
      set (d := firstn (N.to_nat k) data). set (rest := skipn (N.to_nat k) data).
      assert (Hdl : length d = N.to_nat k) by (unfold d; rewrite firstn_length; lia).
      assert (Hrl : N.of_nat (length rest) = last - (first + k)) by (unfold rest; rewrite skipn_length; lia).
      assert (Hnth : forall y, (N.to_nat k <= y)%nat -> nth y data 0 = nth (y - N.to_nat k) rest 0).
      { intros y Hy. unfold rest. rewrite nth_skipn_add. f_equal. lia. }
      cbn [write_segs]. fold d. fold rest.
      destruct (p_pad p) eqn:Epad.
      + (* padding part: nothing reaches a file *)
        specialize (IH rest store (splice cm (p_pos p + o) d) Hrl Hsz Hlen).
        destruct IH as (I1 & I2 & I3). split; auto. split; auto.
        intros i f oo Hi Hoo. rewrite (I3 i f oo Hi Hoo).
        destruct (f_pad f) eqn:Ef; simpl; auto.
        (* a non-padding byte cannot sit in the window of the padding part *)
        assert (Hnot : ~ (B + first <= f_off f + oo < B + first + k)).
        { intros Hr.
          destruct (file_inj i f oo (p_file p) fp (f_off f + oo - f_off fp) Hi Fp1 Hoo ltac:(lia) ltac:(lia)) as [-> _].
          congruence. }
        destruct (N.leb_spec (B + (first + k)) (f_off f + oo)) as [L1|L1];
          destruct (N.leb_spec (B + first) (f_off f + oo)) as [L2|L2]; simpl; try lia; auto.
        destruct (N.ltb_spec (f_off f + oo) (B + last)); auto.
        rewrite Hnth by lia. f_equal. lia.
      + (* file part *)
        destruct (Hsz p Hin Epad) as (fp' & Fq1 & Fq2). rewrite Fp1 in Fq1. inversion Fq1; subst fp'.
        set (pf := p_file p) in *. set (L := nth pf store fempty) in *.
        assert (Hpf : (pf < length store)%nat) by (rewrite Hlen; eapply nth_error_length; eauto).
        assert (Hfit : p_foff p + o + N.of_nat (length d) <= fi_len L) by lia.
        set (store1 := upd store pf (f_splice L (p_foff p + o) d)).
        assert (Hlen1 : length store1 = length files) by (unfold store1; rewrite upd_length; auto).
        assert (Hlens : forall j, fi_len (nth j store1 fempty) = fi_len (nth j store fempty)).
        { intros j. unfold store1. destruct (Nat.eq_dec pf j) as [<-|Hne].
          - rewrite nth_upd_same by auto. reflexivity.
          - rewrite nth_upd_other by auto. reflexivity. }
        assert (Hsz1 : sized store1).
        { intros q Hq Hqp. destruct (Hsz q Hq Hqp) as (fq & Q1 & Q2). exists fq. rewrite Hlens. auto. }
        specialize (IH rest store1 cm Hrl Hsz1 Hlen1).
        destruct IH as (I1 & I2 & I3).
        split; [rewrite I1; unfold store1; apply upd_length|].
        split; [intros j; rewrite I2; apply Hlens|].
        intros i f oo Hi Hoo. rewrite (I3 i f oo Hi Hoo).
        (* the byte of store1 *)
        assert (Hraw1 : raw store1 i oo =
                        if (Nat.eqb i pf && (p_foff p + o <=? oo) && (oo <? p_foff p + o + k))%bool
                        then nth (N.to_nat (oo - (p_foff p + o))) d 0 else raw store i oo).
        { unfold raw, store1. destruct (Nat.eqb_spec i pf) as [->|Hne]; simpl.
          - rewrite nth_upd_same by auto. rewrite raw_splice by auto. fold L.
            replace (p_foff p + o + N.of_nat (length d)) with (p_foff p + o + k) by lia. reflexivity.
          - rewrite nth_upd_other by auto. reflexivity. }
        rewrite Hraw1. clear Hraw1.
        destruct (Nat.eqb_spec i pf) as [->|Hne]; simpl.
        * (* the written file: stream position = B + p_pos p + (oo - p_foff p) *)
          assert (Eff : f = fp) by congruence. rewrite Eff in *. clear Eff.
          replace (f_pad fp) with false by congruence. simpl.
          destruct (N.leb_spec (p_foff p + o) oo) as [A1|A1];
            destruct (N.ltb_spec oo (p_foff p + o + k)) as [A2|A2];
            destruct (N.leb_spec (B + (first + k)) (f_off fp + oo)) as [L1|L1];
            destruct (N.leb_spec (B + first) (f_off fp + oo)) as [L2|L2];
            destruct (N.ltb_spec (f_off fp + oo) (B + last)) as [L3|L3]; simpl; try lia; auto.
          -- unfold d. rewrite nth_firstn_lt by lia. f_equal. lia.
          -- rewrite Hnth by lia. f_equal. lia.
        * (* another file: its bytes are not in the window of this part *)
          destruct (f_pad f) eqn:Ef; simpl; auto.
          assert (Hnot : ~ (B + first <= f_off f + oo < B + first + k)).
          { intros Hr.
            destruct (file_inj i f oo pf fp (f_off f + oo - f_off fp) Hi Fp1 Hoo ltac:(lia) ltac:(lia)) as [E _].
            auto. }
          destruct (N.leb_spec (B + (first + k)) (f_off f + oo)) as [L1|L1];
            destruct (N.leb_spec (B + first) (f_off f + oo)) as [L2|L2]; simpl; try lia; auto.
          destruct (N.ltb_spec (f_off f + oo) (B + last)); auto.
          rewrite Hnth by lia. f_equal. lia.
  Qed.

  (* ---------------------------------------------------------------- ChunkIterator walk *)

  Lemma parts_pos : forall p, In p ps -> 0 < p_size p.
  Proof.
    intros p Hp. rewrite Forall_forall in Hparts. destruct (Hparts p Hp) as (f & _ & H & _). exact H.
  Qed.

  Lemma segs_nil_after : forall suf first last, last <= first ->
    (forall p, In p suf -> 0 < p_size p) -> segs suf first last = [].
  Proof.
    induction suf; intros first last Hle Hpos; simpl; auto.
    pose proof (Hpos a (or_introl eq_refl)).
    destruct (N.eqb_spec (p_size a) 0); [lia|]. destruct (N.ltb_spec first last); [lia|auto].
  Qed.

  Definition hd_psize (l : list part) : N := match l with [] => 0 | p :: _ => p_size p end.

  Lemma segs_ok : forall suf c first last, contig c suf -> (forall p, In p suf -> In p ps) ->
    c <= first -> (first = c \/ first < c + hd_psize suf) -> first <= last ->
    last <= c + chunk_size suf -> segs_from first (segs suf first last) last.
  Proof.
    induction suf as [|p r IH]; intros c first last Hc Hin Hcf Hor Hfl Hlast.
    - simpl in *. assert (first = last) by lia. subst. constructor.
    - simpl in Hc. destruct Hc as [Hp Hc]. simpl in Hor, Hlast.
      pose proof (parts_pos p (Hin p (or_introl eq_refl))) as Hsz.
      cbn [segs]. destruct (N.eqb_spec (p_size p) 0); [lia|].
      destruct (N.ltb_spec first last) as [Hlt|Hge].
      + set (o := first - p_pos p). set (k := N.min (p_size p - o) (last - first)).
        assert (o < p_size p) by (unfold o; lia).
        apply sf_cons.
        * apply Hin. left. reflexivity.
        * unfold o. lia.
        * unfold k. lia.
        * unfold k. lia.
        * destruct (N.le_gt_cases last (c + p_size p)) as [Hin1|Hmore].
          -- rewrite segs_nil_after.
             ++ replace (first + k) with last by (unfold k, o; lia). constructor.
             ++ lia.
             ++ intros q Hq. apply parts_pos. apply Hin. right. exact Hq.
          -- replace (first + k) with (p_pos p + p_size p) by (unfold k, o; lia).
             apply (IH (c + p_size p)); auto; try lia.
             intros q Hq. apply Hin. right. exact Hq.
      + assert (first = last) by lia. subst. constructor.
  Qed.

  Lemma at_position_ok : forall l c pos, contig c l -> (forall p, In p l -> In p ps) ->
    c <= pos -> pos < c + chunk_size l ->
    exists p r, at_position l pos = Some (p :: r) /\ contig (p_pos p) (p :: r) /\
                (forall q, In q (p :: r) -> In q ps) /\
                p_pos p <= pos < p_pos p + p_size p /\
                p_pos p + chunk_size (p :: r) = c + chunk_size l.
  Proof.
    induction l as [|a l IH]; intros c pos Hc Hin H1 H2; simpl in *; [lia|].
    destruct Hc as [Ha Hc].
    destruct ((p_pos a <=? pos) && (pos <? p_pos a + p_size a)) eqn:E.
    - rewrite andb_true_iff, N.leb_le, N.ltb_lt in E. exists a, l. simpl.
      split; auto. split; [split; [auto|rewrite Ha; exact Hc]|]. split; auto. split; lia.
    - rewrite andb_false_iff, N.leb_gt, N.ltb_ge in E.
      destruct (IH (c + p_size a) pos Hc ltac:(intros; apply Hin; right; auto) ltac:(lia) ltac:(lia))
        as (p & r & A1 & A2 & A3 & A4 & A5).
      exists p, r. split; auto. split; auto. split; auto. split; auto. lia.
  Qed.

  Lemma buffer_segs_ok : forall pos n, chunk_size ps < two32 -> pos + n <= chunk_size ps ->
    exists sg, buffer_segs ps pos n = Some sg /\ segs_from pos sg (pos + n).
  Proof.
    intros pos n H32 Hfit. unfold buffer_segs.
    rewrite u32_small by lia.
    destruct (N.ltb_spec (chunk_size ps) (pos + n)); [lia|].
    destruct (N.eqb_spec n 0) as [->|Hn].
    { exists []. split; auto. rewrite N.add_0_r. constructor. }
    destruct (N.leb_spec (chunk_size ps) pos); [lia|].
    destruct (at_position_ok ps 0 pos Hcontig ltac:(auto) ltac:(lia) ltac:(lia))
      as (p & r & A1 & A2 & A3 & A4 & A5).
    rewrite A1. eexists. split; [reflexivity|].
    apply (segs_ok (p :: r) (p_pos p)); auto; try lia.
    right. simpl. lia.
  Qed.

  (* ---------------------------------------------------------------- chunk memory *)

  Definition find_part (x : N) : option part :=
    find (fun p => (p_pos p <=? x) && (x <? p_pos p + p_size p)) ps.

  Lemma find_part_in : forall p x, In p ps -> p_pos p <= x < p_pos p + p_size p ->
    find_part x = Some p.
  Proof.
    intros p x Hp Hx. unfold find_part.
    destruct (find _ ps) as [q|] eqn:E.
    - apply find_some in E. destruct E as [Hq Hq2].
      rewrite andb_true_iff, N.leb_le, N.ltb_lt in Hq2.
      f_equal. eapply contig_unique; eauto.
    - pose proof (find_none _ _ E p Hp) as Hn. simpl in Hn.
      rewrite andb_false_iff, N.leb_gt, N.ltb_ge in Hn. lia.
  Qed.

  Lemma find_part_some : forall x, x < chunk_size ps -> exists p, In p ps /\
    p_pos p <= x < p_pos p + p_size p /\ find_part x = Some p.
  Proof.
    intros x Hx. destruct (contig_cover ps 0 x Hcontig ltac:(lia) ltac:(lia)) as (p & P1 & P2 & P3).
    exists p. split; auto. split; [lia|]. apply find_part_in; auto.
  Qed.

  Lemma contig_upper : forall l c p, contig c l -> In p l -> p_pos p + p_size p <= c + chunk_size l.
  Proof.
    induction l; intros c p Hc Hp; simpl in *; [contradiction|].
    destruct Hc as [Ha Hc]. destruct Hp as [->|Hp]; [lia|].
    pose proof (IHl _ _ Hc Hp). lia.
  Qed.

  (* byte x of the chunk's memory: padding parts live in cm, file parts alias the store *)
  Definition cbyte (store : list fimg) (cm : bytes) (x : N) : N :=
    match find_part x with
    | Some p => if p_pad p then nth (N.to_nat x) cm 0
                else raw store (p_file p) (p_foff p + (x - p_pos p))
    | None => 0
    end.

  Definition pad_at (x : N) : bool :=
    match find_part x with Some p => p_pad p | None => false end.

  Lemma write_segs_cm : forall first sg last, segs_from first sg last ->
    forall data store cm,
    N.of_nat (length data) = last - first -> chunk_size ps <= N.of_nat (length cm) ->
    let cm' := snd (write_segs sg data store cm) in
    length cm' = length cm /\
    forall x, nth (N.to_nat x) cm' 0 =
              if pad_at x && (first <=? x) && (x <? last) then nth (N.to_nat (x - first)) data 0
              else nth (N.to_nat x) cm 0.
  Proof.
    induction 1 as [x0|p o k r first last Hin Hpos Hk Hok Hrest IH]; intros data store cm Hd Hcm.
    - simpl. split; auto. intros x.
      destruct (pad_at x && (x0 <=? x) && (x <? x0)) eqn:E; auto.
      rewrite !andb_true_iff, N.leb_le, N.ltb_lt in E. lia.
    - pose proof (segs_from_le _ _ _ Hrest) as Hle.
      set (d := firstn (N.to_nat k) data). set (rest := skipn (N.to_nat k) data).
      assert (Hdl : length d = N.to_nat k) by (unfold d; rewrite firstn_length; lia).
      assert (Hrl : N.of_nat (length rest) = last - (first + k)) by (unfold rest; rewrite skipn_length; lia).
      assert (Hnth : forall y, (N.to_nat k <= y)%nat -> nth y data 0 = nth (y - N.to_nat k) rest 0).
      { intros y Hy. unfold rest. rewrite nth_skipn_add. f_equal. lia. }
      pose proof (contig_upper ps 0 p Hcontig Hin) as Hup.
      assert (Hfind : forall x, first <= x < first + k -> find_part x = Some p).
      { intros x Hx. apply find_part_in; auto. lia. }
      cbn [write_segs]. fold d. fold rest.
      destruct (p_pad p) eqn:Epad.
      + assert (Hfit : (N.to_nat (p_pos p + o) + length d <= length cm)%nat) by lia.
        specialize (IH rest store (splice cm (p_pos p + o) d) Hrl
                       ltac:(rewrite splice_length by auto; auto)).
        destruct IH as [I1 I2]. split; [rewrite I1; apply splice_length; auto|].
        intros x. rewrite I2. rewrite nth_splice by auto.
        destruct (N.leb_spec (first + k) x) as [L1|L1]; destruct (N.leb_spec first x) as [L2|L2];
          destruct (N.ltb_spec x last) as [L3|L3];
          destruct (Nat.leb_spec (N.to_nat (p_pos p + o)) (N.to_nat x));
          destruct (Nat.ltb_spec (N.to_nat x) (N.to_nat (p_pos p + o) + length d));
          rewrite ?andb_true_r, ?andb_false_r; simpl; try lia; auto.
        * destruct (pad_at x); simpl; auto. rewrite Hnth by lia. f_equal. lia.
        * unfold pad_at. rewrite Hfind by lia. rewrite Epad. simpl.
          unfold d. rewrite nth_firstn_lt by lia. f_equal. lia.
      + specialize (IH rest (upd store (p_file p) (f_splice (nth (p_file p) store fempty) (p_foff p + o) d)) cm Hrl Hcm).
        destruct IH as [I1 I2]. split; auto.
        intros x. rewrite I2.
        destruct (N.leb_spec (first + k) x) as [L1|L1]; destruct (N.leb_spec first x) as [L2|L2];
          destruct (N.ltb_spec x last) as [L3|L3];
          rewrite ?andb_true_r, ?andb_false_r; simpl; try lia; auto.
        * destruct (pad_at x); simpl; auto. rewrite Hnth by lia. f_equal. lia.
        * unfold pad_at. rewrite Hfind by lia. rewrite Epad. reflexivity.
  Qed.

  (* lengths needed for reading: every mapped window lies inside its file *)
  Definition windows_ok (store : list fimg) : Prop :=
    forall p, In p ps -> p_pad p = false ->
      p_foff p + p_size p <= fi_len (nth (p_file p) store fempty).

  Lemma nseq_length : forall n s, length (nseq s n) = n.
  Proof. induction n; intros; simpl; auto. Qed.

  Lemma nth_nseq : forall n s j, (j < n)%nat -> nth j (nseq s n) 0 = s + N.of_nat j.
  Proof.
    induction n; intros s j H; [lia|]. destruct j; simpl.
    - lia.
    - rewrite IHn by lia. lia.
  Qed.

  Lemma nseq_app : forall a b s, nseq s (a + b) = nseq s a ++ nseq (s + N.of_nat a) b.
  Proof.
    induction a; intros b s; simpl.
    - f_equal. lia.
    - rewrite IHa. do 3 f_equal. lia.
  Qed.

  Lemma slice_eq_map : forall (l : bytes) o k (g : N -> N) first,
    (N.to_nat o + N.to_nat k <= length l)%nat ->
    (forall x, x < k -> g (first + x) = nth (N.to_nat (o + x)) l 0) ->
    slice l o k = map g (nseq first (N.to_nat k)).
  Proof.
    intros l o k g first Hfit Hg. unfold slice.
    apply nth_ext with (d := 0) (d' := g 0).
    - rewrite firstn_length, skipn_length, map_length, nseq_length. lia.
    - intros j Hj. rewrite firstn_length, skipn_length in Hj.
      rewrite nth_firstn_lt by lia. rewrite nth_skipn_add.
      rewrite map_nth. rewrite nth_nseq by lia. rewrite Hg by lia. f_equal. lia.
  Qed.

  Lemma read_segs_spec : forall first sg last, segs_from first sg last ->
    forall store cm, windows_ok store -> chunk_size ps <= N.of_nat (length cm) ->
    read_segs sg store cm = map (cbyte store cm) (nseq first (N.to_nat (last - first))).
  Proof.
    induction 1 as [x0|p o k r first last Hin Hpos Hk Hok Hrest IH]; intros store cm Hw Hcm.
    - simpl. rewrite N.sub_diag. reflexivity.
    - pose proof (segs_from_le _ _ _ Hrest) as Hle.
      pose proof (contig_upper ps 0 p Hcontig Hin) as Hup.
      cbn [read_segs]. unfold seg_read. rewrite (IH store cm Hw Hcm).
      replace (N.to_nat (last - first)) with (N.to_nat k + N.to_nat (last - (first + k)))%nat by lia.
      rewrite nseq_app, map_app. f_equal.
      + assert (Hfind : forall x, x < k -> find_part (first + x) = Some p).
        { intros x Hx. apply find_part_in; auto. lia. }
        destruct (p_pad p) eqn:Epad.
        * apply slice_eq_map; [lia|]. intros x Hx. unfold cbyte. rewrite Hfind by auto.
          rewrite Epad. f_equal. lia.
        * unfold f_slice. apply map_nseq_ext. intros x Hx.
          unfold cbyte. rewrite Hfind by lia. rewrite Epad. unfold raw. f_equal. lia.
      + do 2 f_equal. lia.
  Qed.

  (* what the chunk memory holds after from_buffer *)
  Lemma cbyte_after_write : forall first sg last, segs_from first sg last ->
    forall data store cm,
    N.of_nat (length data) = last - first -> sized store -> length store = length files ->
    chunk_size ps <= N.of_nat (length cm) ->
    forall x, x < chunk_size ps ->
      cbyte (fst (write_segs sg data store cm)) (snd (write_segs sg data store cm)) x =
      if (first <=? x) && (x <? last) then nth (N.to_nat (x - first)) data 0
      else cbyte store cm x.
  Proof.
    intros first sg last Hs data store cm Hd Hsz Hlen Hcm x Hx.
    destruct (write_segs_frame _ _ _ Hs data store cm Hd Hsz Hlen) as (_ & _ & F).
    destruct (write_segs_cm _ _ _ Hs data store cm Hd Hcm) as (_ & C).
    destruct (find_part_some x Hx) as (p & P1 & P2 & P3).
    unfold cbyte. rewrite P3.
    destruct (p_pad p) eqn:Epad.
    - rewrite C. unfold pad_at. rewrite P3, Epad. simpl. reflexivity.
    - rewrite Forall_forall in Hparts. destruct (Hparts p P1) as (f & F1 & F2 & F3 & F4 & F5).
      rewrite (F (p_file p) f (p_foff p + (x - p_pos p)) F1 ltac:(lia)).
      replace (f_pad f) with false by congruence. simpl.
      replace (f_off f + (p_foff p + (x - p_pos p))) with (B + x) by lia.
      destruct (N.leb_spec (B + first) (B + x)); destruct (N.leb_spec first x);
        destruct (N.ltb_spec (B + x) (B + last)); destruct (N.ltb_spec x last); simpl; try lia; auto.
      f_equal. lia.
  Qed.
End Frame.
