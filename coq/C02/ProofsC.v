(* C02 proofs, part C: the frame property of writing through a chunk. For every list of
   iterator segments that walks chunk positions [first, last) (segs_from), write_segs changes
   exactly the file bytes located at stream positions [B+first, B+last) of non-padding files
   — to the given data, in order — and no other byte of any file; file lengths are kept. *)
From Coq Require Import List NArith ZArith Bool Lia ZifyBool ZifyNat ZifyN.
From LTV.C02 Require Import Model ProofsA ProofsB.
Import ListNotations.
Local Open Scope N_scope.

Arguments N.mul : simpl never.
Arguments N.add : simpl never.
Arguments N.sub : simpl never.
Arguments N.min : simpl never.
Arguments N.to_nat : simpl never.
Arguments N.of_nat : simpl never.

(* ------------------------------------------------------------------ byte-list lemmas *)

Lemma nth_firstn_lt : forall (l : bytes) n x d, (x < n)%nat -> nth x (firstn n l) d = nth x l d.
Proof.
  induction l; intros [|n] [|x] d H; simpl; auto; try lia. apply IHl. lia.
Qed.

Lemma nth_skipn_add : forall (l : bytes) n x d, nth x (skipn n l) d = nth (n + x) l d.
Proof.
  induction l; intros [|n] x d; simpl; auto. destruct x; auto.
Qed.

Lemma splice_length : forall l o d, (N.to_nat o + length d <= length l)%nat ->
  length (splice l o d) = length l.
Proof.
  intros. unfold splice. rewrite !app_length, firstn_length, skipn_length. lia.
Qed.

Lemma nth_splice : forall l o d x, (N.to_nat o + length d <= length l)%nat ->
  nth x (splice l o d) 0 =
  if ((N.to_nat o <=? x) && (x <? N.to_nat o + length d))%nat then nth (x - N.to_nat o) d 0
  else nth x l 0.
Proof.
  intros l o d x H. unfold splice. set (on := N.to_nat o) in *.
  assert (Hf : length (firstn on l) = on) by (rewrite firstn_length; lia).
  destruct (Nat.leb_spec on x) as [H1|H1]; simpl.
  - rewrite app_nth2 by lia. rewrite Hf.
    destruct (Nat.ltb_spec x (on + length d)) as [H2|H2].
    + rewrite app_nth1 by lia. reflexivity.
    + rewrite app_nth2 by lia. rewrite nth_skipn_add. f_equal. lia.
  - rewrite app_nth1 by lia. apply nth_firstn_lt. lia.
Qed.

(* ------------------------------------------------------------------ frame *)

Section Frame.
  Variable files : list file.
  Variable tot : N.
  Hypothesis Hlaid : laid 0 files tot.
  Variable ps : list part.
  Variable B : N.
  Hypothesis Hparts : Forall (part_ok files B) ps.

  (* segments that walk the chunk positions first .. last in order, each inside one part *)
  Inductive segs_from : N -> list (part * N * N) -> N -> Prop :=
  | sf_nil : forall x, segs_from x [] x
  | sf_cons : forall p o k r first last,
      In p ps -> p_pos p + o = first -> 0 < k -> o + k <= p_size p ->
      segs_from (first + k) r last -> segs_from first ((p, o, k) :: r) last.

  Lemma segs_from_le : forall first sg last, segs_from first sg last -> first <= last.
  Proof. induction 1; lia. Qed.

  Definition raw (store : list bytes) (i : nat) (o : N) : N :=
    nth (N.to_nat o) (nth i store []) 0.

  (* every non-padding file the chunk maps has its full size on disk (what create_chunk with
     write permission establishes: ProofsB.mapped) *)
  Definition sized (store : list bytes) : Prop :=
    forall p, In p ps -> p_pad p = false ->
      exists f, nth_error files (p_file p) = Some f /\
                N.of_nat (length (nth (p_file p) store [])) = f_size f.

  Lemma file_inj : forall i f o i' f' o',
    nth_error files i = Some f -> nth_error files i' = Some f' ->
    o < f_size f -> o' < f_size f' -> f_off f + o = f_off f' + o' -> i = i' /\ o = o'.
  Proof.
    intros i f o i' f' o' Hi Hi' Ho Ho' E.
    pose proof (laid_bounds _ _ _ Hlaid _ _ Hi) as [_ Hb].
    destruct (locate_unique_laid _ _ _ Hlaid (f_off f + o) ltac:(lia) ltac:(lia)) as (i0 & o0 & _ & Hu).
    destruct (Hu i o) as [-> ->]. { exists f. repeat split; auto; lia. }
    destruct (Hu i' o') as [-> ->]. { exists f'. repeat split; auto; lia. }
    auto.
  Qed.

  Lemma write_segs_frame : forall first sg last, segs_from first sg last ->
    forall data store cm,
    N.of_nat (length data) = last - first -> sized store -> length store = length files ->
    let st' := fst (write_segs sg data store cm) in
    length st' = length store /\
    (forall j, length (nth j st' []) = length (nth j store [])) /\
    forall i f o, nth_error files i = Some f -> o < f_size f ->
      raw st' i o =
      if negb (f_pad f) && (B + first <=? f_off f + o) && (f_off f + o <? B + last)
      then nth (N.to_nat (f_off f + o - (B + first))) data 0
      else raw store i o.
  Proof.
    induction 1 as [x|p o k r first last Hin Hpos Hk Hok Hrest IH]; intros data store cm Hd Hsz Hlen.
    - simpl. split; auto. split; auto. intros i f o Hi Ho.
      destruct (negb (f_pad f) && (B + x <=? f_off f + o) && (f_off f + o <? B + x)) eqn:E; auto.
      rewrite !andb_true_iff, N.leb_le, N.ltb_lt in E. lia.
    - pose proof (segs_from_le _ _ _ Hrest) as Hle.
      rewrite Forall_forall in Hparts.
      destruct (Hparts p Hin) as (fp & Fp1 & Fp2 & Fp3 & Fp4 & Fp5).
      set (d := firstn (N.to_nat k) data). set (rest := skipn (N.to_nat k) data).
      assert (Hdl : length d = N.to_nat k) by (unfold d; rewrite firstn_length; lia).
      assert (Hrl : N.of_nat (length rest) = last - (first + k)) by (unfold rest; rewrite skipn_length; lia).
      assert (Hnth : forall y, (N.to_nat k <= y)%nat -> nth y data 0 = nth (y - N.to_nat k) rest 0).
      { intros y Hy. unfold rest. rewrite nth_skipn_add. f_equal. lia. }
      cbn [write_segs]. fold d. fold rest.
      destruct (p_pad p) eqn:Epad.
      + (* padding part: nothing reaches a file *)
        specialize (IH rest store (splice cm (p_pos p + o) d) Hrl Hsz Hlen).
        destruct IH as (I1 & I2 & I3). split; auto. split; auto.
        intros i f oo Hi Hoo. rewrite (I3 i f oo Hi Hoo).
        destruct (f_pad f) eqn:Ef; simpl; auto.
        (* a non-padding byte cannot sit in the window of the padding part *)
        assert (Hnot : ~ (B + first <= f_off f + oo < B + first + k)).
        { intros Hr.
          destruct (file_inj i f oo (p_file p) fp (f_off f + oo - f_off fp) Hi Fp1 Hoo ltac:(lia) ltac:(lia)) as [-> _].
          congruence. }
        destruct (N.leb_spec (B + (first + k)) (f_off f + oo)) as [L1|L1];
          destruct (N.leb_spec (B + first) (f_off f + oo)) as [L2|L2]; simpl; try lia; auto.
        destruct (N.ltb_spec (f_off f + oo) (B + last)); auto.
        rewrite Hnth by lia. f_equal. lia.
      + (* file part *)
        destruct (Hsz p Hin Epad) as (fp' & Fq1 & Fq2). rewrite Fp1 in Fq1. inversion Fq1; subst fp'.
        set (pf := p_file p) in *. set (L := nth pf store []) in *.
        assert (Hpf : (pf < length store)%nat) by (rewrite Hlen; eapply nth_error_length; eauto).
        assert (Hfit : (N.to_nat (p_foff p + o) + length d <= length L)%nat) by lia.
        set (store1 := upd store pf (splice L (p_foff p + o) d)).
        assert (Hlen1 : length store1 = length files) by (unfold store1; rewrite upd_length; auto).
        assert (Hlens : forall j, length (nth j store1 []) = length (nth j store [])).
        { intros j. unfold store1. destruct (Nat.eq_dec pf j) as [<-|Hne].
          - rewrite nth_upd_same by auto. apply splice_length. auto.
          - rewrite nth_upd_other by auto. reflexivity. }
        assert (Hsz1 : sized store1).
        { intros q Hq Hqp. destruct (Hsz q Hq Hqp) as (fq & Q1 & Q2). exists fq. rewrite Hlens. auto. }
        specialize (IH rest store1 cm Hrl Hsz1 Hlen1).
        destruct IH as (I1 & I2 & I3).
        split; [rewrite I1; unfold store1; apply upd_length|].
        split; [intros j; rewrite I2; apply Hlens|].
        intros i f oo Hi Hoo. rewrite (I3 i f oo Hi Hoo).
        (* the byte of store1 *)
        assert (Hraw1 : raw store1 i oo =
                        if (Nat.eqb i pf && (p_foff p + o <=? oo) && (oo <? p_foff p + o + k))%bool
                        then nth (N.to_nat (oo - (p_foff p + o))) d 0 else raw store i oo).
        { unfold raw, store1. destruct (Nat.eqb_spec i pf) as [->|Hne]; simpl.
          - rewrite nth_upd_same by auto. rewrite nth_splice by auto. fold L.
            destruct (N.leb_spec (p_foff p + o) oo); destruct (N.ltb_spec oo (p_foff p + o + k)); simpl;
              destruct (Nat.leb_spec (N.to_nat (p_foff p + o)) (N.to_nat oo));
              destruct (Nat.ltb_spec (N.to_nat oo) (N.to_nat (p_foff p + o) + length d)); simpl; try lia; auto.
            f_equal. lia.
          - rewrite nth_upd_other by auto. reflexivity. }
        rewrite Hraw1. clear Hraw1.
        destruct (Nat.eqb_spec i pf) as [->|Hne]; simpl.
        * (* the written file: stream position = B + p_pos p + (oo - p_foff p) *)
          assert (Eff : f = fp) by congruence. rewrite Eff in *. clear Eff.
          replace (f_pad fp) with false by congruence. simpl.
          destruct (N.leb_spec (p_foff p + o) oo) as [A1|A1];
            destruct (N.ltb_spec oo (p_foff p + o + k)) as [A2|A2];
            destruct (N.leb_spec (B + (first + k)) (f_off fp + oo)) as [L1|L1];
            destruct (N.leb_spec (B + first) (f_off fp + oo)) as [L2|L2];
            destruct (N.ltb_spec (f_off fp + oo) (B + last)) as [L3|L3]; simpl; try lia; auto.
          -- unfold d. rewrite nth_firstn_lt by lia. f_equal. lia.
          -- rewrite Hnth by lia. f_equal. lia.
        * (* another file: its bytes are not in the window of this part *)
          destruct (f_pad f) eqn:Ef; simpl; auto.
          assert (Hnot : ~ (B + first <= f_off f + oo < B + first + k)).
          { intros Hr.
            destruct (file_inj i f oo pf fp (f_off f + oo - f_off fp) Hi Fp1 Hoo ltac:(lia) ltac:(lia)) as [E _].
            auto. }
          destruct (N.leb_spec (B + (first + k)) (f_off f + oo)) as [L1|L1];
            destruct (N.leb_spec (B + first) (f_off f + oo)) as [L2|L2]; simpl; try lia; auto.
          destruct (N.ltb_spec (f_off f + oo) (B + last)); auto.
          rewrite Hnth by lia. f_equal. lia.
  Qed.
End Frame.
