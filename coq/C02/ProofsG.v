(* C02 proofs, part G: (a) SocketFile::create_chunk's page alignment arithmetic never changes which
   file bytes a part denotes; (b) Chunk::compare_buffer (memcmp per segment, early exit) is exactly
   "the chunk's bytes equal the buffer"; (c) HashChunk::perform hands SHA-1 the chunk's bytes in
   order, each exactly once, however the work is split into perform() calls. *)
From Coq Require Import List NArith ZArith Bool Lia ZifyBool ZifyNat ZifyN.
From LTV.C02 Require Import Model ProofsA ProofsB ProofsC Proofs ProofsD.
Import ListNotations.
Local Open Scope N_scope.
Ltac Zify.zify_post_hook ::= Z.div_mod_to_equations.

Arguments N.mul : simpl never.
Arguments N.add : simpl never.
Arguments N.sub : simpl never.
Arguments N.min : simpl never.
Arguments N.modulo : simpl never.
Arguments N.to_nat : simpl never.
Arguments N.of_nat : simpl never.

(* ------------------------------------------------------------------ (a) mmap window *)

Lemma sf_window_exact : forall page off len, 0 < page ->
  let w := sf_window page off len in
  w_moff w mod page = 0 /\ w_moff w + w_begin w = off /\ w_mlen w = w_begin w + len /\
  w_begin w < page /\ w_begin w = off mod page.
Proof.
  intros page off len Hp. unfold sf_window. simpl.
  assert (Hne : page <> 0) by lia.
  pose proof (N.mod_lt off page Hne) as Hlt. pose proof (N.div_mod off page Hne) as Hdm.
  assert (E : off - off mod page = (off / page) * page).
  { rewrite N.mul_comm. set (q := off / page) in *. set (r := off mod page) in *. clearbody q r. lia. }
  split; [rewrite E; apply N.mod_mul; auto|].
  set (q := off / page) in *. set (r := off mod page) in *. clearbody q r.
  repeat split; lia.
Qed.

Lemma skipn_map_nseq : forall (g : N -> N) a n start,
  skipn a (map g (nseq start (a + n))) = map g (nseq (start + N.of_nat a) n).
Proof.
  induction a; intros n start; simpl.
  - f_equal. f_equal. lia.
  - rewrite IHa. do 2 f_equal. lia.
Qed.

Lemma firstn_map_nseq : forall (g : N -> N) k n start,
  firstn k (map g (nseq start (k + n))) = map g (nseq start k).
Proof. induction k; intros; simpl; auto. f_equal. apply IHk. Qed.

(* whatever the page size, the MemoryChunk denotes exactly the file bytes [off, off+len) *)
Theorem sf_bytes_page_independent : forall page im off len, 0 < page ->
  sf_bytes page im off len = f_slice im off len.
Proof.
  intros page im off len Hp. unfold sf_bytes, f_slice.
  destruct (sf_window_exact page off len Hp) as (_ & W2 & W3 & _ & _).
  set (w := sf_window page off len) in *.
  rewrite W3. replace (N.to_nat (w_begin w + len)) with (N.to_nat (w_begin w) + N.to_nat len)%nat by lia.
  rewrite skipn_map_nseq. do 2 f_equal. lia.
Qed.

Corollary sf_bytes_any_two_pages : forall p1 p2 im off len, 0 < p1 -> 0 < p2 ->
  sf_bytes p1 im off len = sf_bytes p2 im off len.
Proof. intros. rewrite !sf_bytes_page_independent; auto. Qed.

(* a segment of a file part read through the part's mapping = the model's direct window *)
Theorem seg_read_via_mmap : forall page store cm p o k, 0 < page -> p_pad p = false ->
  o + k <= p_size p ->
  seg_read store cm p o k =
  firstn (N.to_nat k) (skipn (N.to_nat o)
    (sf_bytes page (nth (p_file p) store fempty) (p_foff p) (p_size p))).
Proof.
  intros page store cm p o k Hp Hpad Hfit. unfold seg_read. rewrite Hpad.
  rewrite sf_bytes_page_independent by auto. unfold f_slice.
  replace (N.to_nat (p_size p)) with (N.to_nat o + (N.to_nat k + N.to_nat (p_size p - o - k)))%nat by lia.
  rewrite skipn_map_nseq, firstn_map_nseq. do 2 f_equal. lia.
Qed.

Lemma part_align_lt : forall page p, 0 < page -> part_align page p < page.
Proof.
  intros. unfold part_align. destruct (p_pad p); [lia|]. apply N.mod_lt. lia.
Qed.

Example sf_window_ex : sf_window 4096 10000 5000 = mkWin 8192 6808 1808.
Proof. vm_compute. reflexivity. Qed.

(* ------------------------------------------------------------------ (b) compare_buffer *)

Lemma beq_bytes_app : forall a b d,
  beq_bytes (a ++ b) d = beq_bytes a (firstn (length a) d) && beq_bytes b (skipn (length a) d).
Proof.
  induction a as [|x a IH]; intros b d; simpl.
  - destruct b, d; reflexivity.
  - destruct d as [|y d]; simpl; [reflexivity|]. rewrite IH. rewrite andb_assoc. reflexivity.
Qed.

Lemma beq_bytes_true_iff : forall a b, beq_bytes a b = true <-> a = b.
Proof.
  induction a as [|x a IH]; intros [|y b]; simpl; split; intros H; try discriminate; auto.
  - rewrite andb_true_iff, N.eqb_eq in H. destruct H as [-> H]. f_equal. apply IH. auto.
  - inversion H; subst. rewrite N.eqb_refl. simpl. apply IH. reflexivity.
Qed.

Section Compare.
  Variable ps : list part.
  Hypothesis Hcontig : contig 0 ps.

  Lemma seg_read_length : forall store cm p o k, In p ps -> o + k <= p_size p ->
    chunk_size ps <= N.of_nat (length cm) -> length (seg_read store cm p o k) = N.to_nat k.
  Proof.
    intros store cm p o k Hin Hok Hcm. unfold seg_read.
    pose proof (contig_upper ps 0 p Hcontig Hin) as Hup.
    destruct (p_pad p).
    - unfold slice. rewrite firstn_length, skipn_length. lia.
    - unfold f_slice. rewrite map_length, nseq_length. reflexivity.
  Qed.

  Lemma compare_segs_exact : forall first sg last, segs_from ps first sg last ->
    forall data store cm, N.of_nat (length data) = last - first ->
    chunk_size ps <= N.of_nat (length cm) ->
    compare_segs sg data store cm = beq_bytes (read_segs sg store cm) data.
  Proof.
    induction 1 as [x0|p o k r first last Hin Hpos Hk Hok Hrest IH]; intros data store cm Hd Hcm.
    - simpl. destruct data; [reflexivity|simpl in Hd; lia].
    - pose proof (segs_from_le _ _ _ _ Hrest) as Hle.
      cbn [compare_segs read_segs]. rewrite beq_bytes_app.
      rewrite (seg_read_length store cm p o k Hin Hok Hcm).
      rewrite (IH (skipn (N.to_nat k) data) store cm ltac:(rewrite skipn_length; lia) Hcm).
      destruct (beq_bytes (seg_read store cm p o k) (firstn (N.to_nat k) data)); reflexivity.
  Qed.
End Compare.

(* ------------------------------------------------------------------ (c) HashChunk::perform *)

Lemma contig_app : forall a b c, contig c (a ++ b) <-> contig c a /\ contig (c + chunk_size a) b.
Proof.
  induction a as [|p a IH]; intros b c; simpl.
  - rewrite N.add_0_r. tauto.
  - rewrite IH. replace (c + p_size p + chunk_size a) with (c + (p_size p + chunk_size a)) by lia. tauto.
Qed.

Lemma contig_start : forall l c p r, contig c (l ++ p :: r) -> p_pos p = c + chunk_size l.
Proof. intros l c p r H. apply contig_app in H. destruct H as [_ H]. simpl in H. tauto. Qed.

Lemma hash_feed_zero : forall fuel ps pos, hash_feed fuel ps pos 0 = HOk [].
Proof. destruct fuel; reflexivity. Qed.

Section Hash.
  Variable ps : list part.
  Hypothesis Hcontig : contig 0 ps.
  Hypothesis Hpos : forall p, In p ps -> 0 < p_size p.

  Lemma at_part_find : forall l x,
    at_part l x = find (fun p => (p_pos p <=? x) && (x <? p_pos p + p_size p)) l.
  Proof. induction l; intros; simpl; auto. destruct (_ && _); auto. Qed.

  Lemma hash_feed_ok : forall post pre p pos l fuel, ps = pre ++ p :: post ->
    p_pos p <= pos < p_pos p + p_size p -> (length post < fuel)%nat -> pos + l <= chunk_size ps ->
    exists sg, hash_feed fuel ps pos l = HOk sg /\ segs_from ps pos sg (pos + l).
  Proof.
    induction post as [|q post IH]; intros pre p pos l fuel Eps Hin Hfuel Hfit.
    - (* p is the last part *)
      destruct (N.eq_dec l 0) as [->|Hl].
      { rewrite hash_feed_zero, N.add_0_r. eexists; split; [reflexivity|constructor]. }
      destruct fuel as [|fu]; [lia|]. cbn [hash_feed].
      destruct (N.eqb_spec l 0); [lia|].
      assert (Hp : In p ps) by (rewrite Eps; apply in_elt).
      rewrite at_part_find. fold (find_part ps pos). rewrite (find_part_in ps Hcontig p pos Hp Hin).
      assert (Hsz : chunk_size ps = p_pos p + p_size p).
      { rewrite Eps in Hcontig. pose proof (contig_start _ _ _ _ Hcontig).
        rewrite Eps, chunk_size_app. simpl. lia. }
      assert (Ek : N.min l (p_size p - (pos - p_pos p)) = l) by lia. rewrite Ek.
      replace (l - l) with 0 by lia. rewrite hash_feed_zero. simpl.
      eexists; split; [reflexivity|].
      apply sf_cons; auto; try lia. constructor.
    - destruct (N.eq_dec l 0) as [->|Hl].
      { rewrite hash_feed_zero, N.add_0_r. eexists; split; [reflexivity|constructor]. }
      destruct fuel as [|fu]; [simpl in Hfuel; lia|]. cbn [hash_feed].
      destruct (N.eqb_spec l 0); [lia|].
      assert (Hp : In p ps) by (rewrite Eps; apply in_elt).
      rewrite at_part_find. fold (find_part ps pos). rewrite (find_part_in ps Hcontig p pos Hp Hin).
      set (o := pos - p_pos p). set (k := N.min l (p_size p - o)).
      destruct (N.le_gt_cases l (p_size p - o)) as [Hle|Hgt].
      + assert (Ek : k = l) by (unfold k; lia). rewrite Ek.
        replace (l - l) with 0 by lia. rewrite hash_feed_zero. simpl.
        eexists; split; [reflexivity|].
        apply sf_cons; auto; unfold o; try lia. constructor.
      + assert (Ek : k = p_size p - o) by (unfold k; lia).
        assert (Eps' : ps = (pre ++ [p]) ++ q :: post) by (rewrite <- app_assoc; exact Eps).
        assert (Hq : In q ps) by (rewrite Eps'; apply in_elt).
        pose proof (Hpos q Hq) as Hqs.
        assert (Hqpos : p_pos q = p_pos p + p_size p).
        { pose proof Hcontig as C1. rewrite Eps' in C1. apply contig_start in C1.
          pose proof Hcontig as C2. rewrite Eps in C2. apply contig_start in C2.
          rewrite chunk_size_app in C1. simpl in C1. lia. }
        destruct (IH (pre ++ [p]) q (pos + k) (l - k) fu Eps' ltac:(unfold o in *; lia)
                     ltac:(simpl in Hfuel; lia) ltac:(lia)) as (sg' & E' & S').
        rewrite E'. simpl. eexists; split; [reflexivity|].
        apply sf_cons; auto; unfold o in *; try lia.
        replace (pos + k + (l - k)) with (pos + l) in S' by lia. exact S'.
  Qed.

  Lemma hash_perform_ok : forall pos len, pos <= chunk_size ps -> chunk_size ps < two32 ->
    exists sg, hash_perform ps pos len = HOk sg /\
               segs_from ps pos sg (pos + N.min len (chunk_size ps - pos)).
  Proof.
    intros pos len Hp H32. unfold hash_perform.
    set (l := N.min len (chunk_size ps - pos)).
    rewrite u32_small by lia.
    destruct (N.ltb_spec (chunk_size ps) (pos + l)); [lia|].
    destruct (N.eq_dec l 0) as [E|Hl].
    { rewrite E, hash_feed_zero, N.add_0_r. eexists; split; [reflexivity|constructor]. }
    destruct (contig_cover ps 0 pos Hcontig ltac:(lia) ltac:(lia)) as (p & P1 & P2 & P3).
    destruct (in_split _ _ P1) as (pre & post & Eps).
    apply (hash_feed_ok post pre p pos l (S (length ps)) Eps ltac:(lia)); [|lia].
    rewrite Eps, app_length. simpl. lia.
  Qed.

  (* however perform() is called, SHA-1 is fed the chunk's bytes from the current position to the
     end, in order, each once; the final position is the chunk size *)
  Theorem hash_steps_exact : forall store cm, windows_ok ps store ->
    chunk_size ps <= N.of_nat (length cm) -> chunk_size ps < two32 ->
    forall steps pos, pos <= chunk_size ps ->
    hash_steps ps store cm pos steps =
    (Some (map (cbyte ps store cm) (nseq pos (N.to_nat (chunk_size ps - pos)))), chunk_size ps).
  Proof.
    intros store cm Hw Hcm H32. induction steps as [|l steps IH]; intros pos Hp; cbn [hash_steps].
    - destruct (hash_perform_ok pos (chunk_size ps - pos) Hp H32) as (sg & E & S). rewrite E.
      rewrite (read_segs_spec ps Hcontig pos sg _ S store cm Hw Hcm).
      rewrite N.min_id. replace (pos + (chunk_size ps - pos) - pos) with (chunk_size ps - pos) by lia. reflexivity.
    - destruct (hash_perform_ok pos l Hp H32) as (sg & E & S). rewrite E.
      set (m := N.min l (chunk_size ps - pos)) in *.
      rewrite (IH (pos + m) ltac:(unfold m; lia)). simpl.
      rewrite (read_segs_spec ps Hcontig pos sg _ S store cm Hw Hcm).
      rewrite <- map_app.
      replace (N.to_nat (chunk_size ps - pos)) with (N.to_nat (pos + m - pos) + N.to_nat (chunk_size ps - (pos + m)))%nat
        by (unfold m; lia).
      rewrite nseq_app.
      replace (pos + N.of_nat (N.to_nat (pos + m - pos))) with (pos + m) by lia. reflexivity.
  Qed.
End Hash.

(* ------------------------------------------------------------------ operation level *)

Section OpsG.
  Variable cs : N.
  Variable lay : list (N * bool).
  Let c := mk_cfg cs lay.
  Let files := c_files c.

  (* a byte of a freshly created chunk is the located file byte, 0 in padding *)
  Lemma cbyte_fresh : forall store off len w st ps x i f o, length store = length files ->
    create_chunk c store off len w = COk st ps -> x < len ->
    located files (off + x) i o -> nth_error files i = Some f ->
    cbyte ps st (zeros (N.to_nat (chunk_size ps))) x = if f_pad f then 0 else raw store i o.
  Proof.
    intros store off len w st ps x i f o Hlen Ec Hx Hloc Hi.
    destruct (chunk_facts cs lay _ _ _ _ _ _ Hlen Ec) as (F1 & F2 & F3 & F4 & F5 & F6 & F7 & F8 & F9).
    destruct (find_part_some ps F3 x ltac:(lia)) as (p & P1 & P2 & P3).
    unfold cbyte. rewrite P3.
    rewrite Forall_forall in F5. destruct (F5 p P1) as (fp & G1 & G2 & G3 & G4 & G5).
    destruct Hloc as (f' & Hf' & Hl1 & Hl2 & Hl3).
    rewrite Hi in Hf'. inversion Hf'; subst f'.
    destruct (file_inj files _ (cfg_laid cs lay) (p_file p) fp (p_foff p + (x - p_pos p)) i f o
                G1 Hi ltac:(lia) ltac:(lia) ltac:(lia)) as [Ei Eo].
    subst i. assert (fp = f) by (unfold files, c in *; congruence). subst fp.
    rewrite G3. destruct (f_pad f).
    - apply nth_zeros.
    - rewrite Eo. apply (store_ext_raw files w 0 store st (p_file p) f o F6 Hi). lia.
  Qed.

  (* compare_buffer(data, pos, |data|) is true exactly when to_buffer(pos, |data|) returns data *)
  Theorem compare_buffer_exact : forall s off len w pos data s' ps wr bs b,
    length (s_store s) = length files -> len < two32 ->
    pos + N.of_nat (length data) < two32 ->
    do_chunk c s off len w pos data pos (N.of_nat (length data)) = (s', OutChunk ps wr (Some bs) (Some b)) ->
    (b = true <-> bs = data).
  Proof.
    intros s off len w pos data s' ps wr bs b Hlen H32 Hn32 H.
    destruct (do_chunk_inv cs lay _ _ _ _ _ _ _ _ _ _ _ _ _ Hlen H)
      as (st & st1 & cm1 & Ec & E1 & _ & _ & Erd & Ecmp & W).
    destruct (chunk_facts cs lay _ _ _ _ _ _ Hlen Ec) as (F1 & F2 & F3 & F4 & F5 & F6 & F7 & F8 & F9).
    set (n := N.of_nat (length data)) in *.
    destruct (buffer_segs ps pos n) as [sg|] eqn:Eb; [|discriminate]. simpl in Erd, Ecmp.
    assert (Hfit : pos + n <= len).
    { unfold buffer_segs in Eb. rewrite u32_small in Eb by auto. rewrite F4 in Eb.
      destruct (N.ltb_spec len (pos + n)); [discriminate|lia]. }
    destruct (buffer_segs_ok files ps off F5 F3 pos n ltac:(lia) ltac:(lia)) as (sg' & Eb' & Hs).
    rewrite Eb in Eb'. inversion Eb'; subst sg'.
    assert (Hcm1 : chunk_size ps <= N.of_nat (length cm1)).
    { destruct W as [(_ & _ & _ & ->)|[(_ & _ & _ & -> & _)|(_ & _ & sg2 & Eb2 & _ & ->)]];
        try (rewrite zeros_length; lia).
      inversion Eb2; subst sg2.
      destruct (write_segs_cm ps F3 pos sg (pos + n) Hs data st (zeros (N.to_nat (chunk_size ps)))
                  ltac:(lia) ltac:(rewrite zeros_length; lia)) as (C1 & _).
      rewrite C1, zeros_length. lia. }
    inversion Erd; inversion Ecmp; subst.
    rewrite (compare_segs_exact ps F3 pos sg (pos + n) Hs data _ cm1 ltac:(lia) Hcm1).
    apply beq_bytes_true_iff.
  Qed.

  (* HashChunk over piece idx: SHA-1 is fed exactly the piece's bytes (file bytes located at
     idx*cs + k, zeros in padding), in order, whatever the perform() schedule; the final position
     is the piece size *)
  Theorem hash_piece_exact : forall s idx steps s' fed pos,
    length (s_store s) = length files -> chunk_index_size c idx < two32 ->
    step c s (OpHash idx steps) = (s', OutHash fed pos) ->
    pos = chunk_index_size c idx /\
    exists bs, fed = Some bs /\ length bs = N.to_nat pos /\
      forall k i f o, k < pos -> located files (idx * cs + k) i o -> nth_error files i = Some f ->
        nth (N.to_nat k) bs 0 = if f_pad f then 0 else raw (s_store s) i o.
  Proof.
    intros s idx steps s' fed pos Hlen H32 H. simpl in H.
    destruct (create_chunk c (s_store s) (idx * cs) (chunk_index_size c idx) false) as [|st|st ps] eqn:Ec;
      try discriminate.
    destruct (chunk_facts cs lay _ _ _ _ _ _ Hlen Ec) as (F1 & F2 & F3 & F4 & F5 & F6 & F7 & F8 & F9).
    assert (Hpos : forall p, In p ps -> 0 < p_size p).
    { intros p Hp. rewrite Forall_forall in F5. destruct (F5 p Hp) as (f & _ & G & _). exact G. }
    set (cm0 := zeros (N.to_nat (chunk_size ps))) in *.
    assert (Hcm0 : chunk_size ps <= N.of_nat (length cm0)) by (unfold cm0; rewrite zeros_length; lia).
    rewrite (hash_steps_exact ps F3 Hpos st cm0 F7 Hcm0 ltac:(lia) steps 0 ltac:(lia)) in H.
    simpl in H. inversion H; subst. split; [auto|].
    eexists. split; [reflexivity|]. rewrite N.sub_0_r. split.
    - rewrite map_length, nseq_length. reflexivity.
    - intros k i f o Hk Hloc Hi.
      rewrite (nth_indep _ 0 (cbyte ps st cm0 0)) by (rewrite map_length, nseq_length; lia).
      rewrite map_nth, nth_nseq by lia.
      replace (0 + N.of_nat (N.to_nat k)) with k by lia.
      apply (cbyte_fresh (s_store s) (idx * cs) (chunk_index_size c idx) false st ps k i f o Hlen Ec ltac:(lia) Hloc Hi).
  Qed.
End OpsG.

Example hash_piece_ex :
  snd (run (mk_cfg 3 lay_ex) (init_state (mk_cfg 3 lay_ex))
           [OpPiece 2 true 0 [17; 18; 19] 0 0; OpHash 2 [1; 1]]) =
  [OutChunk [mkPart 0 1 2%nat 4 false; mkPart 1 1 3%nat 0 true; mkPart 2 1 5%nat 0 false]
            WOk (Some []) (Some true);
   OutHash (Some [17; 0; 19]) 3].
Proof. vm_compute. reflexivity. Qed.
