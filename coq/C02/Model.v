(* C02 — executable model of the piece-space -> file-bytes mapping of libtorrent.

   Modelled code (as it is):
     torrent/data/file_list.cc : FileList::initialize, split, chunk_index_size, is_valid_piece,
                                 create_chunk, create_chunk_part, create_chunk_index,
                                 completed_bytes, left_bytes, mark_completed, inc_completed (as repaired
                                 by 17569a5: only files whose range contains the index are counted),
                                 update_completed
     torrent/data/file.{h,cc}  : File::set_range, is_valid_position, prepare (create/resize queued)
     data/chunk.{h,cc}         : Chunk::push_back, at_position, to_buffer, from_buffer, compare_buffer
     data/chunk_iterator.h     : ChunkIterator ctor / data / next
     data/socket_file.cc       : create_chunk  = a window [o, o+l) of the file, invalid when it
                                 reaches beyond the file's CURRENT size; create_padding_chunk =
                                 anonymous zero memory private to the Chunk object
   Not modelled: page alignment of mmap, msync, paths, descriptors, priorities/wanted_chunks.

   A store is one file image per file = the file's current content on disk (FileList::open with
   flag_create_queued creates every non-padding file empty; the first prepare() with write
   permission ftruncates it to its size: flag_resize_queued). A file image is SPARSE (current
   length + the cells written so far, everything else reads 0), so that files above 4 GiB, whose
   offsets do not fit 32 bits, are ordinary inputs of the model.                                 *)
From Coq Require Import List NArith Bool.
Import ListNotations.
Local Open Scope N_scope.

Definition bytes := list N.

Definition two32 : N := 4294967296.
Definition two60 : N := 1152921504606846976.
Definition two64 : N := 18446744073709551616.
Definition u32 (x : N) : N := x mod two32.

(* ------------------------------------------------------------------ probed constants *)

(* constants of the compiled code the theorems' side conditions mention; the harness probes them
   behaviourally (--params: bisection over download_add for the accepted piece lengths, FileList::
   left_bytes around powers of two) and the extracted [probed_ok] is evaluated on them every run *)
Record probed := mkProbed { pr_left_shift : N; pr_pl_min_excl : N; pr_pl_max : N }.

Definition default_probed : probed := mkProbed 60 1024 536870912.

(* left_bytes must not refuse streams up to 2^60; every loadable piece length fits uint32 *)
Definition probed_ok (p : probed) : bool :=
  (60 <=? pr_left_shift p) && (pr_pl_max p <? two32).

(* ------------------------------------------------------------------ layout *)

Record file := mkFile { f_off : N; f_size : N; f_pad : bool; f_r1 : N; f_r2 : N }.

(* File::set_range (uint64 arithmetic, the pair members are uint32) *)
Definition set_range (cs off size : N) : N * N :=
  if cs =? 0 then (0, 0)
  else if size =? 0 then (u32 (off / cs), u32 (off / cs))
  else (u32 (off / cs), u32 ((off + size + cs - 1) / cs)).

(* FileList::split over the single file made by initialize(): offsets accumulate in list order *)
Fixpoint split (cs off : N) (lay : list (N * bool)) : list file :=
  match lay with
  | [] => []
  | (sz, pad) :: r =>
      let rg := set_range cs off sz in
      mkFile off sz pad (fst rg) (snd rg) :: split cs (off + sz) r
  end.

Fixpoint total (lay : list (N * bool)) : N :=
  match lay with [] => 0 | (sz, _) :: r => sz + total r end.

Record cfg := mkCfg { c_cs : N; c_tot : N; c_files : list file }.

Definition mk_cfg (cs : N) (lay : list (N * bool)) : cfg :=
  mkCfg cs (total lay) (split cs 0 lay).

(* FileList::initialize: bitfield size = (size_bytes + chunk_size - 1) / chunk_size, as uint32 *)
Definition size_chunks (c : cfg) : N := u32 ((c_tot c + c_cs c - 1) / c_cs c).

(* FileList::chunk_index_size *)
Definition chunk_index_size (c : cfg) (idx : N) : N :=
  if negb (u32 (idx + 1) =? size_chunks c) || (c_tot c mod c_cs c =? 0)
  then c_cs c else c_tot c mod c_cs c.

(* FileList::is_valid_piece; index/offset/length are uint32, the sum wraps *)
Definition is_valid_piece (c : cfg) (idx off len : N) : bool :=
  (idx <? size_chunks c) && negb (len =? 0) &&
  (off <=? u32 (off + len)) && (u32 (off + len) <=? chunk_index_size c idx).

(* ------------------------------------------------------------------ store *)

Fixpoint zeros (n : nat) : bytes := match n with O => [] | S k => 0 :: zeros k end.

Fixpoint nseq (start : N) (n : nat) : list N :=
  match n with O => [] | S k => start :: nseq (start + 1) k end.

(* sparse file image: fi_len = st_size; the first cell with a given offset wins *)
Record fimg := mkImg { fi_len : N; fi_cells : list (N * N) }.

Definition fempty : fimg := mkImg 0 [].

Fixpoint lookup (o : N) (cells : list (N * N)) : option N :=
  match cells with
  | [] => None
  | (k, b) :: r => if k =? o then Some b else lookup o r
  end.

(* byte o of the file as pread would return it; 0 beyond the end *)
Definition f_raw (im : fimg) (o : N) : N :=
  if o <? fi_len im then match lookup o (fi_cells im) with Some b => b | None => 0 end else 0.

(* ftruncate: cut, or extend with zeros (cells at or beyond the old or new end are dropped) *)
Definition f_resize (im : fimg) (n : N) : fimg :=
  mkImg n (filter (fun kb => fst kb <? N.min n (fi_len im)) (fi_cells im)).

Fixpoint zipcells (o : N) (d : bytes) : list (N * N) :=
  match d with [] => [] | b :: r => (o, b) :: zipcells (o + 1) r end.

(* memcpy of d into the mapped file at offset o (o + |d| <= fi_len where it is used) *)
Definition f_splice (im : fimg) (o : N) (d : bytes) : fimg :=
  mkImg (fi_len im) (zipcells o d ++ fi_cells im).

Definition f_slice (im : fimg) (o k : N) : bytes := map (f_raw im) (nseq o (N.to_nat k)).

(* SocketFile::create_chunk(offset, length): align = offset % page_size;
   mmap(NULL, length + align, prot, flags, fd, offset - align); MemoryChunk(ptr, ptr + align,
   ptr + align + length). w_moff/w_mlen = what the kernel is asked to map, w_begin = begin - ptr. *)
Record mwin := mkWin { w_moff : N; w_mlen : N; w_begin : N }.

Definition sf_window (page off len : N) : mwin :=
  let align := off mod page in mkWin (off - align) (len + align) align.

(* page_size < 4096 || page_size >= (1 << 18) -> internal_error *)
Definition sf_page_ok (page : N) : bool := (4096 <=? page) && (page <? 262144).

(* the bytes MemoryChunk::begin() .. end() denote: the mapped file bytes after the alignment gap *)
Definition sf_bytes (page : N) (im : fimg) (off len : N) : bytes :=
  let w := sf_window page off len in
  skipn (N.to_nat (w_begin w)) (f_slice im (w_moff w) (w_mlen w)).

Record state := mkState { s_store : list fimg; s_done : list bool; s_fcomp : list N }.

Fixpoint upd {A} (l : list A) (i : nat) (x : A) : list A :=
  match l, i with
  | [], _ => []
  | _ :: r, O => x :: r
  | y :: r, S j => y :: upd r j x
  end.

(* chunk-private memory (padding parts): memcpy of d into l at offset o *)
Definition splice (l : bytes) (o : N) (d : bytes) : bytes :=
  firstn (N.to_nat o) l ++ d ++ skipn (N.to_nat o + length d) l.

Definition slice (l : bytes) (o k : N) : bytes := firstn (N.to_nat k) (skipn (N.to_nat o) l).

Definition init_state (c : cfg) : state :=
  mkState (map (fun _ => fempty) (c_files c))
          (repeat false (N.to_nat (size_chunks c)))
          (map (fun _ => 0) (c_files c)).

(* ------------------------------------------------------------------ create_chunk *)

Record part := mkPart { p_pos : N; p_size : N; p_file : nat; p_foff : N; p_pad : bool }.

Inductive cres :=
| CErr                                            (* internal_error *)
| CNull (st : list fimg)                          (* nullptr *)
| COk (st : list fimg) (ps : list part).

(* the for loop of FileList::create_chunk together with create_chunk_part.
   fs = files from itr on, i = index of the head of fs, cpos = Chunk::m_chunkSize so far.
   [off - f_off f] is truncated subtraction; Proofs shows f_off f <= off on every path. *)
Fixpoint cc_walk (fs : list file) (i : nat) (store : list fimg) (off len : N) (w : bool)
         (cpos : N) (acc : list part) : cres :=
  if len =? 0 then COk store (rev acc)
  else match fs with
  | [] => CErr
  | f :: fs' =>
      if f_size f =? 0 then cc_walk fs' (S i) store off len w cpos acc
      else
        let o := off - f_off f in
        let l := N.min len (f_size f - o) in
        if f_pad f then
          cc_walk fs' (S i) store (off + l) (len - l) w (cpos + l) (mkPart cpos l i o true :: acc)
        else
          (* File::prepare: first writable request resizes the file (flag_resize_queued) *)
          let store1 := if w then upd store i (f_resize (nth i store fempty) (f_size f)) else store in
          let cur := fi_len (nth i store1 fempty) in
          (* SocketFile::create_chunk validity test *)
          if (l =? 0) || (cur <? o) || (cur <? o + l) then CNull store1
          else cc_walk fs' (S i) store1 (off + l) (len - l) w (cpos + l)
                       (mkPart cpos l i o false :: acc)
  end.

(* std::find_if(begin, end, is_valid_position(offset)) *)
Fixpoint find_start (fs : list file) (i : nat) (off : N) : list file * nat :=
  match fs with
  | [] => ([], i)
  | f :: fs' =>
      if (f_off f <=? off) && (off <? f_off f + f_size f) then (fs, i)
      else find_start fs' (S i) off
  end.

Definition create_chunk (c : cfg) (store : list fimg) (off len : N) (w : bool) : cres :=
  if c_tot c <? off + len then CErr
  else
    let st := find_start (c_files c) O off in
    match cc_walk (fst st) (snd st) store off len w 0 [] with
    | COk s [] => CNull s
    | r => r
    end.

(* MemoryChunk::page_align() of a part's mapping (anonymous padding memory starts on a page) *)
Definition part_align (page : N) (p : part) : N := if p_pad p then 0 else p_foff p mod page.

Definition chunk_size (ps : list part) : N := fold_right (fun p a => p_size p + a) 0 ps.

(* ------------------------------------------------------------------ Chunk / ChunkIterator *)

(* Chunk::at_position(pos): the suffix of the part vector starting at the first part that
   contains pos; None = internal_error *)
Fixpoint at_position (ps : list part) (pos : N) : option (list part) :=
  match ps with
  | [] => None
  | p :: r => if (p_pos p <=? pos) && (pos <? p_pos p + p_size p) then Some ps
              else at_position r pos
  end.

(* do { data() ... } while (next()) : the (part, offset in part, length) segments visited *)
Fixpoint segs (ps : list part) (first last : N) : list (part * N * N) :=
  match ps with
  | [] => []
  | p :: r =>
      if p_size p =? 0 then segs r first last
      else if first <? last then
        let o := first - p_pos p in
        let k := N.min (p_size p - o) (last - first) in
        (p, o, k) :: segs r (p_pos p + p_size p) last
      else []
  end.

(* memory of a Chunk: file parts alias the store (MAP_SHARED), padding parts are anonymous
   memory private to the chunk, kept here as one buffer [cm] indexed by chunk position *)
Fixpoint write_segs (sg : list (part * N * N)) (data : bytes) (store : list fimg) (cm : bytes)
  : list fimg * bytes :=
  match sg with
  | [] => (store, cm)
  | (p, o, k) :: r =>
      let d := firstn (N.to_nat k) data in
      let rest := skipn (N.to_nat k) data in
      if p_pad p then write_segs r rest store (splice cm (p_pos p + o) d)
      else write_segs r rest
             (upd store (p_file p) (f_splice (nth (p_file p) store fempty) (p_foff p + o) d)) cm
  end.

Definition seg_read (store : list fimg) (cm : bytes) (p : part) (o k : N) : bytes :=
  if p_pad p then slice cm (p_pos p + o) k else f_slice (nth (p_file p) store fempty) (p_foff p + o) k.

Fixpoint read_segs (sg : list (part * N * N)) (store : list fimg) (cm : bytes) : bytes :=
  match sg with
  | [] => []
  | (p, o, k) :: r =>
      seg_read store cm p o k ++ read_segs r store cm
  end.

Fixpoint beq_bytes (a b : bytes) : bool :=
  match a, b with
  | [], [] => true
  | x :: a', y :: b' => (x =? y) && beq_bytes a' b'
  | _, _ => false
  end.

(* Chunk::compare_buffer: memcmp segment by segment, false at the first differing segment *)
Fixpoint compare_segs (sg : list (part * N * N)) (data : bytes) (store : list fimg) (cm : bytes) : bool :=
  match sg with
  | [] => true
  | (p, o, k) :: r =>
      if beq_bytes (seg_read store cm p o k) (firstn (N.to_nat k) data)
      then compare_segs r (skipn (N.to_nat k) data) store cm
      else false
  end.

(* HashChunk::perform(length, force = true) starting at m_position = pos: the segments handed to
   Sha1::update, in order. while (l) { node = at_position(m_position); l -= perform_part(node, l); } *)
Inductive hres := HErr | HFuel | HOk (sg : list (part * N * N)).

Definition hcons (x : part * N * N) (r : hres) : hres :=
  match r with HOk sg => HOk (x :: sg) | e => e end.

Fixpoint at_part (ps : list part) (pos : N) : option part :=
  match ps with
  | [] => None
  | p :: r => if (p_pos p <=? pos) && (pos <? p_pos p + p_size p) then Some p else at_part r pos
  end.

Fixpoint hash_feed (fuel : nat) (ps : list part) (pos l : N) : hres :=
  if l =? 0 then HOk []
  else match fuel with
  | O => HFuel
  | S fu =>
      match at_part ps pos with
      | None => HErr                                   (* Chunk::at_position throws *)
      | Some p =>
          let o := pos - p_pos p in
          let k := N.min l (p_size p - o) in
          hcons (p, o, k) (hash_feed fu ps (pos + k) (l - k))
      end
  end.

Definition hash_perform (ps : list part) (pos len : N) : hres :=
  let l := N.min len (chunk_size ps - pos) in
  if chunk_size ps <? u32 (pos + l) then HErr
  else hash_feed (S (length ps)) ps pos l.

(* PeerConnectionBase::down_chunk / up_chunk:
     ChunkIterator itr(chunk, first, last);
     do { data = itr.data(); n = stream_io(data.first, data.second); total += n; }
     while (n != 0 && itr.forward(n));
   The stream moves n_i = min(step_i, data.second) bytes at iteration i (short reads/writes are the
   schedule; an exhausted schedule is a 0-byte transfer). Result: the (part, offset, n) segments
   moved, the window sizes data() offered, XErr = internal_error (Chunk::at_memory). *)
Fixpoint fwd_suf (suf : list part) (x : N) : option (list part) :=
  match suf with
  | [] => None
  | p :: r => if x <? p_pos p + p_size p then Some suf else fwd_suf r x
  end.

Inductive xres := XErr | XOk (sg : list (part * N * N)) (wins : list N).

Definition xcons (seg : part * N * N) (win : N) (r : xres) : xres :=
  match r with XOk sg w => XOk (seg :: sg) (win :: w) | e => e end.

Fixpoint xfer_loop (steps : list N) (suf : list part) (first last : N) : xres :=
  match suf with
  | [] => XErr                                            (* at_memory: part == end() *)
  | p :: _ =>
      if negb ((p_pos p <=? first) && (first <? p_pos p + p_size p)) then XErr   (* out of range *)
      else
        let o := first - p_pos p in
        let k := N.min (p_size p - o) (u32 (last + two32 - first)) in
        match steps with
        | [] => XOk [] [k]                                 (* the stream gives 0 bytes *)
        | s :: steps' =>
            let n := N.min s k in
            if n =? 0 then XOk [] [k]
            else
              let first' := u32 (first + n) in
              if last <=? first' then XOk [(p, o, n)] [k]   (* forward: m_first >= m_last *)
              else match fwd_suf suf first' with
                   | None => XOk [(p, o, n)] [k]            (* forward ran off the parts *)
                   | Some suf' => xcons (p, o, n) k (xfer_loop steps' suf' first' last)
                   end
        end
  end.

(* ChunkIterator ctor = Chunk::at_position(first) *)
Definition xfer (ps : list part) (first last : N) (steps : list N) : xres :=
  if chunk_size ps <=? first then XErr
  else match at_position ps first with
       | None => XErr
       | Some suf => xfer_loop steps suf first last
       end.

Definition segs_total (sg : list (part * N * N)) : N := fold_right (fun x a => snd x + a) 0 sg.

(* Chunk::preload(position, length, useAdvise): only its argument check is observable *)
Definition preload_ok (ps : list part) (pos : N) : bool := pos <? chunk_size ps.

(* common prologue of to_buffer / from_buffer / compare_buffer:
   None = internal_error, Some [] = length 0 (return true at once), Some segs otherwise *)
Definition buffer_segs (ps : list part) (pos n : N) : option (list (part * N * N)) :=
  if chunk_size ps <? u32 (pos + n) then None
  else if n =? 0 then Some []
  else if chunk_size ps <=? pos then None
  else match at_position ps pos with
       | None => None
       | Some suf => Some (segs suf pos (pos + n))
       end.

(* ------------------------------------------------------------------ completed accounting *)

Fixpoint count_true (l : list bool) : N :=
  match l with [] => 0 | b :: r => (if b then 1 else 0) + count_true r end.

(* a file is counted for piece idx only if its piece range contains idx *)
Definition bump (f : file) (idx x : N) : N :=
  if (f_r1 f <=? idx) && (idx <? f_r2 f) then x + 1 else x.

Fixpoint inc_phase (fs : list file) (fc : list N) (idx : N) : list N :=
  match fs, fc with
  | f :: fs', x :: fc' =>
      bump f idx x :: (if u32 (idx + 1) <? f_r2 f then fc' else inc_phase fs' fc' idx)
  | _, _ => fc
  end.

(* FileList::inc_completed(begin(), index); None = internal_error *)
Fixpoint inc_completed (fs : list file) (fc : list N) (idx : N) : option (list N) :=
  match fs, fc with
  | f :: fs', x :: fc' =>
      if idx <? f_r2 f then Some (inc_phase fs fc idx)
      else option_map (cons x) (inc_completed fs' fc' idx)
  | _, _ => None
  end.

(* the same, from an iterator position on (the suffixes fs/fc), also giving the offset of the
   returned lastItr from the head of the suffix (= length of the suffix for end()) *)
Fixpoint inc_phase_pos (fs : list file) (fc : list N) (idx : N) : list N * nat :=
  match fs, fc with
  | f :: fs', x :: fc' =>
      if u32 (idx + 1) <? f_r2 f then (bump f idx x :: fc', O)
      else let r := inc_phase_pos fs' fc' idx in (bump f idx x :: fst r, S (snd r))
  | _, _ => (fc, O)
  end.

Fixpoint inc_completed_pos (fs : list file) (fc : list N) (idx : N) : option (list N * nat) :=
  match fs, fc with
  | f :: fs', x :: fc' =>
      if idx <? f_r2 f then Some (inc_phase_pos fs fc idx)
      else option_map (fun r => (x :: fst r, S (snd r))) (inc_completed_pos fs' fc' idx)
  | _, _ => None
  end.

(* the for loop of FileList::update_completed: entryItr = inc_completed(entryItr, index) for every
   set bit; k = position of entryItr; false = internal_error (counters stay as far as they got) *)
Fixpoint upd_loop (fs : list file) (fc : list N) (k : nat) (idx : N) (done : list bool)
  : list N * bool :=
  match done with
  | [] => (fc, true)
  | b :: r =>
      if b then
        match inc_completed_pos (skipn k fs) (skipn k fc) idx with
        | None => (fc, false)
        | Some (fc2, d) => upd_loop fs (firstn k fc ++ fc2) (k + d) (idx + 1) r
        end
      else upd_loop fs fc k (idx + 1) r
  end.

(* FileList::update_completed: all set -> File::size_chunks() each; otherwise reset to 0 and
   recount from the bitfield. The old counters only give the length. *)
Definition update_completed (c : cfg) (done : list bool) (fc : list N) : list N * bool :=
  if count_true done =? size_chunks c then
    (map (fun f => f_r2 f - f_r1 f) (firstn (length fc) (c_files c)), true)
  else
    let z := map (fun _ => 0) fc in
    if count_true done =? 0 then (z, true) else upd_loop (c_files c) z O 0 done.

(* FileList::completed_bytes with an allocated bitfield; None = internal_error *)
Definition completed_bytes (c : cfg) (done : list bool) : option N :=
  let cc := count_true done in
  if negb (nth (N.to_nat (size_chunks c - 1)) done false) || (c_tot c mod c_cs c =? 0)
  then Some (cc * c_cs c)
  else if cc =? 0 then None
  else Some ((cc - 1) * c_cs c + c_tot c mod c_cs c).

Definition left_bytes (c : cfg) (done : list bool) : option N :=
  match completed_bytes c done with
  | None => None
  | Some cb =>
      let left := (c_tot c + two64 - cb) mod two64 in
      if two60 <? left then None
      else if (count_true done =? size_chunks c) && negb (left =? 0) then None
      else Some left
  end.

(* ------------------------------------------------------------------ operations *)

Inductive op :=
| OpChunk (off len : N) (w : bool) (pos : N) (data : bytes) (rpos rn : N)
| OpPiece (idx : N) (w : bool) (pos : N) (data : bytes) (rpos rn : N)
| OpMark (idx : N)
| OpValid (idx off len : N)
| OpQuery
| OpDump
| OpReopen                       (* close; open; bitfield allocate + unset_all; update_completed *)
| OpSetBit (idx : N)             (* Bitfield::set(idx) only (resume / hash-check bookkeeping) *)
| OpUpdate                       (* FileList::update_completed *)
| OpPread (i : nat) (off len : N)   (* plain pread of file i *)
| OpHash (idx : N) (steps : list N)  (* HashChunk over piece idx: perform(l) per step, then perform(remaining) *)
| OpXfer (idx : N) (w : bool) (first last : N) (steps : list N) (data : bytes).
    (* preload(first, last-first); the down_chunk (w) / up_chunk loop over [first,last) with short transfers *)

Inductive wres := WSkip | WErr | WOk.

Inductive out :=
| OutErr
| OutNull
| OutChunk (ps : list part) (wr : wres) (rd : option bytes) (cmp : option bool)
| OutMark (ok : bool)
| OutValid (b : bool)
| OutQuery (nchunks : N) (sizes : list N) (files : list (file * N)) (cc : N)
           (cb : option N) (left : option N)
| OutDump (imgs : list (option bytes))        (* None = padding entry: no file *)
| OutUpd (ok : bool)
| OutSet (ok : bool)
| OutPread (size : option N) (bs : bytes)     (* None = no such file (padding / index) *)
| OutHash (fed : option bytes) (pos : N)      (* bytes handed to SHA-1 in order; None = internal_error *)
| OutXfer (pre : bool) (r : option (list N * N * bytes)).
    (* preload ok; windows offered, bytes moved, bytes sent (up) ; None = internal_error *)

(* create_chunk; from_buffer(data, pos) when writable; to_buffer(rpos, rn);
   compare_buffer(data, pos); the chunk is then synced and destroyed *)
Definition do_chunk (c : cfg) (s : state) (off len : N) (w : bool) (pos : N) (data : bytes)
           (rpos rn : N) : state * out :=
  match create_chunk c (s_store s) off len w with
  | CErr => (s, OutErr)
  | CNull st => (mkState st (s_done s) (s_fcomp s), OutNull)
  | COk st ps =>
      let n := N.of_nat (length data) in
      let cm0 := zeros (N.to_nat (chunk_size ps)) in
      let '(st1, cm1, wr) :=
        if w then
          match buffer_segs ps pos n with
          | None => (st, cm0, WErr)
          | Some sg => let r := write_segs sg data st cm0 in (fst r, snd r, WOk)
          end
        else (st, cm0, WSkip) in
      let rd := option_map (fun sg => read_segs sg st1 cm1) (buffer_segs ps rpos rn) in
      let cmp := option_map (fun sg => compare_segs sg data st1 cm1) (buffer_segs ps pos n) in
      (mkState st1 (s_done s) (s_fcomp s), OutChunk ps wr rd cmp)
  end.

Fixpoint set_nth (l : list bool) (i : nat) : list bool :=
  match l, i with
  | [], _ => []
  | _ :: r, O => true :: r
  | b :: r, S j => b :: set_nth r j
  end.

Definition f_dump (im : fimg) : bytes := f_slice im 0 (fi_len im).

(* a HashChunk driven by perform(l1), perform(l2), ..., perform(remaining()) *)
Fixpoint hash_steps (ps : list part) (store : list fimg) (cm : bytes) (pos : N) (steps : list N)
  : option bytes * N :=
  match steps with
  | [] =>
      match hash_perform ps pos (chunk_size ps - pos) with
      | HOk sg => (Some (read_segs sg store cm), chunk_size ps)
      | _ => (None, pos)
      end
  | l :: r =>
      match hash_perform ps pos l with
      | HOk sg =>
          let pos' := pos + N.min l (chunk_size ps - pos) in
          let rr := hash_steps ps store cm pos' r in
          (option_map (app (read_segs sg store cm)) (fst rr), snd rr)
      | _ => (None, pos)
      end
  end.

Definition step (c : cfg) (s : state) (o : op) : state * out :=
  match o with
  | OpChunk off len w pos data rpos rn => do_chunk c s off len w pos data rpos rn
  | OpPiece idx w pos data rpos rn =>
      do_chunk c s (idx * c_cs c) (chunk_index_size c idx) w pos data rpos rn
  | OpMark idx =>
      let cc := count_true (s_done s) in
      if (size_chunks c <=? idx) || (size_chunks c <=? cc) then (s, OutMark false)
      else if nth (N.to_nat idx) (s_done s) false then (s, OutMark false)
      else
        let done' := set_nth (s_done s) (N.to_nat idx) in
        match inc_completed (c_files c) (s_fcomp s) idx with
        | None => (mkState (s_store s) done' (s_fcomp s), OutMark false)
        | Some fc' => (mkState (s_store s) done' fc', OutMark true)
        end
  | OpValid idx off len => (s, OutValid (is_valid_piece c idx off len))
  | OpQuery =>
      (s, OutQuery (size_chunks c)
                   (map (chunk_index_size c) (nseq 0 (N.to_nat (size_chunks c))))
                   (combine (c_files c) (s_fcomp s))
                   (count_true (s_done s))
                   (completed_bytes c (s_done s)) (left_bytes c (s_done s)))
  | OpDump =>
      (s, OutDump (map (fun fb => if f_pad (fst fb) then None else Some (f_dump (snd fb)))
                       (combine (c_files c) (s_store s))))
  | OpReopen =>
      let done' := repeat false (N.to_nat (size_chunks c)) in
      let r := update_completed c done' (s_fcomp s) in
      (mkState (s_store s) done' (fst r), OutUpd (snd r))
  | OpSetBit idx =>
      if idx <? size_chunks c
      then (mkState (s_store s) (set_nth (s_done s) (N.to_nat idx)) (s_fcomp s), OutSet true)
      else (s, OutSet false)
  | OpUpdate =>
      let r := update_completed c (s_done s) (s_fcomp s) in
      (mkState (s_store s) (s_done s) (fst r), OutUpd (snd r))
  | OpPread i off len =>
      match nth_error (c_files c) i with
      | Some f =>
          if f_pad f then (s, OutPread None [])
          else let im := nth i (s_store s) fempty in
               (s, OutPread (Some (fi_len im)) (f_slice im off (N.min len (fi_len im - off))))
      | None => (s, OutPread None [])
      end
  | OpHash idx steps =>
      (* create_hashing_chunk_index(idx, prot_read) *)
      match create_chunk c (s_store s) (idx * c_cs c) (chunk_index_size c idx) false with
      | CErr => (s, OutErr)
      | CNull st => (mkState st (s_done s) (s_fcomp s), OutNull)
      | COk st ps =>
          let r := hash_steps ps st (zeros (N.to_nat (chunk_size ps))) 0 steps in
          (mkState st (s_done s) (s_fcomp s), OutHash (fst r) (snd r))
      end
  | OpXfer idx w first last steps data =>
      match create_chunk c (s_store s) (idx * c_cs c) (chunk_index_size c idx) w with
      | CErr => (s, OutErr)
      | CNull st => (mkState st (s_done s) (s_fcomp s), OutNull)
      | COk st ps =>
          let cm0 := zeros (N.to_nat (chunk_size ps)) in
          let pre := preload_ok ps first in
          match xfer ps first last steps with
          | XErr => (mkState st (s_done s) (s_fcomp s), OutXfer pre None)
          | XOk sg wins =>
              if w then
                let r := write_segs sg data st cm0 in
                (mkState (fst r) (s_done s) (s_fcomp s), OutXfer pre (Some (wins, segs_total sg, [])))
              else
                (mkState st (s_done s) (s_fcomp s), OutXfer pre (Some (wins, segs_total sg, read_segs sg st cm0)))
          end
      end
  end.

Fixpoint run (c : cfg) (s : state) (ops : list op) : state * list out :=
  match ops with
  | [] => (s, [])
  | o :: r => let so := step c s o in
              let rr := run c (fst so) r in
              (fst rr, snd so :: snd rr)
  end.

Definition run_case (cs : N) (lay : list (N * bool)) (ops : list op) : list out :=
  let c := mk_cfg cs lay in snd (run c (init_state c) ops).
