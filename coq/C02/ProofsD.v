(* C02 proofs, part D: operation-level theorems — write_frame, read_exact (incl. read after
   write), order_independent, store-length invariant of runs. *)
From Coq Require Import List NArith ZArith Bool Lia ZifyBool ZifyNat ZifyN.
From LTV.C02 Require Import Model ProofsA ProofsB ProofsC Proofs.
Import ListNotations.
Local Open Scope N_scope.

Arguments N.mul : simpl never.
Arguments N.add : simpl never.
Arguments N.sub : simpl never.
Arguments N.min : simpl never.
Arguments N.to_nat : simpl never.
Arguments N.of_nat : simpl never.

(* ------------------------------------------------------------------ raw bytes and ftruncate *)

Lemma nth_zeros : forall n j, nth j (zeros n) 0 = 0.
Proof. induction n; intros [|j]; simpl; auto. Qed.

Lemma lookup_filter : forall m o cells,
  lookup o (filter (fun kb : N * N => fst kb <? m) cells) = if o <? m then lookup o cells else None.
Proof.
  induction cells as [|[k v] r IH]; simpl.
  - destruct (o <? m); reflexivity.
  - destruct (N.ltb_spec k m); simpl.
    + destruct (N.eqb_spec k o) as [->|]; auto.
      destruct (N.ltb_spec o m); [reflexivity|lia].
    + rewrite IH. destruct (N.eqb_spec k o) as [->|]; auto.
      destruct (N.ltb_spec o m); [lia|reflexivity].
Qed.

(* reading beyond the current end of a file gives 0, which is what the zero-extension of
   ftruncate stores there: resizing never changes [f_raw] inside the new size *)
Lemma raw_resize : forall l n o, o < n -> f_raw (f_resize l n) o = f_raw l o.
Proof.
  intros l n o Ho. unfold f_raw, f_resize. simpl. rewrite lookup_filter.
  destruct (N.ltb_spec o n); [|lia].
  destruct (N.ltb_spec o (N.min n (fi_len l))); destruct (N.ltb_spec o (fi_len l)); auto; lia.
Qed.

Lemma store_ext_raw : forall files w i s s' j f o, store_ext files w i s s' ->
  nth_error files j = Some f -> o < f_size f -> raw s' j o = raw s j o.
Proof.
  intros files w i s s' j f o (_ & _ & H) Hj Ho. unfold raw.
  destruct (H j) as [E|(_ & f' & Hf' & _ & E)]; rewrite E; auto.
  assert (f' = f) by congruence. subst. apply raw_resize. auto.
Qed.

Lemma write_segs_length : forall sg data st cm, length (fst (write_segs sg data st cm)) = length st.
Proof.
  induction sg as [|[[p o] k] r IH]; intros; simpl; auto.
  destruct (p_pad p); rewrite IH; auto. apply upd_length.
Qed.

(* ------------------------------------------------------------------ unpacking do_chunk *)

Section Ops.
  Variable cs : N.
  Variable lay : list (N * bool).
  Let c := mk_cfg cs lay.
  Let files := c_files c.

  Lemma do_chunk_inv : forall s off len w pos data rpos rn s' ps wr rd cmp,
    length (s_store s) = length files ->
    do_chunk c s off len w pos data rpos rn = (s', OutChunk ps wr rd cmp) ->
    exists st st1 cm1,
      create_chunk c (s_store s) off len w = COk st ps /\
      s_store s' = st1 /\ s_done s' = s_done s /\ s_fcomp s' = s_fcomp s /\
      rd = option_map (fun sg => read_segs sg st1 cm1) (buffer_segs ps rpos rn) /\
      cmp = option_map (fun sg => compare_segs sg data st1 cm1)
                       (buffer_segs ps pos (N.of_nat (length data))) /\
      ((w = false /\ wr = WSkip /\ st1 = st /\ cm1 = zeros (N.to_nat (chunk_size ps))) \/
       (w = true /\ wr = WErr /\ st1 = st /\ cm1 = zeros (N.to_nat (chunk_size ps)) /\
        buffer_segs ps pos (N.of_nat (length data)) = None) \/
       (w = true /\ wr = WOk /\ exists sg,
          buffer_segs ps pos (N.of_nat (length data)) = Some sg /\
          st1 = fst (write_segs sg data st (zeros (N.to_nat (chunk_size ps)))) /\
          cm1 = snd (write_segs sg data st (zeros (N.to_nat (chunk_size ps)))))).
  Proof.
    intros s off len w pos data rpos rn s' ps wr rd cmp Hlen H. unfold do_chunk in H.
    destruct (create_chunk c (s_store s) off len w) as [|st|st ps0] eqn:Ec; try discriminate.
    destruct w.
    - destruct (buffer_segs ps0 pos (N.of_nat (length data))) as [sg|] eqn:Eb.
      + inversion H; subst. exists st. eexists. eexists. split; [reflexivity|]. simpl. rewrite Eb.
        split; [reflexivity|]. split; [reflexivity|]. split; [reflexivity|]. split; [reflexivity|].
        split; [reflexivity|]. right. right.
        split; auto. split; auto. exists sg. auto.
      + inversion H; subst. exists st, st. eexists. split; [reflexivity|]. simpl. rewrite Eb.
        split; [reflexivity|]. split; [reflexivity|]. split; [reflexivity|]. split; [reflexivity|].
        split; [reflexivity|]. right. left. auto.
    - inversion H; subst. exists st, st. eexists. split; [reflexivity|]. simpl.
      split; [reflexivity|]. split; [reflexivity|]. split; [reflexivity|]. split; [reflexivity|].
      split; [reflexivity|]. left. auto.
  Qed.

  Lemma chunk_facts : forall store off len w st ps, length store = length files ->
    create_chunk c store off len w = COk st ps ->
    off + len <= total lay /\ 0 < len /\ contig 0 ps /\ chunk_size ps = len /\
    Forall (part_ok files off) ps /\ store_ext files w 0 store st /\
    windows_ok ps st /\ (w = true -> sized files ps st) /\ length st = length files.
  Proof.
    intros store off len w st ps Hlen Hc.
    pose proof (create_chunk_ok files c eq_refl (cfg_laid cs lay) store off len w Hlen) as K.
    rewrite Hc in K. destruct K as (K1 & K2 & K3 & K4 & K5 & K6 & K7).
    rewrite Forall_forall in K7.
    split; [exact K1|]. split; auto. split; auto. split; auto. split; auto. split; auto.
    split; [|split].
    - intros p Hp Hpad. destruct (K7 p Hp Hpad). auto.
    - intros Hw p Hp Hpad. destruct (K7 p Hp Hpad) as [_ H]. auto.
    - destruct K6 as (E & _). congruence.
  Qed.

  (* ---------------------------------------------------------------- write_frame *)

  Theorem write_frame : forall s off len pos data rpos rn s' ps rd cmp,
    length (s_store s) = length files -> len < two32 ->
    pos + N.of_nat (length data) < two32 ->
    do_chunk c s off len true pos data rpos rn = (s', OutChunk ps WOk rd cmp) ->
    length (s_store s') = length files /\
    pos + N.of_nat (length data) <= len /\ off + len <= total lay /\
    forall i f o, nth_error files i = Some f -> o < f_size f ->
      raw (s_store s') i o =
        if negb (f_pad f) && (off + pos <=? f_off f + o) &&
           (f_off f + o <? off + pos + N.of_nat (length data))
        then nth (N.to_nat (f_off f + o - (off + pos))) data 0
        else raw (s_store s) i o.
  Proof.
    intros s off len pos data rpos rn s' ps rd cmp Hlen H32 Hn32 H.
    destruct (do_chunk_inv _ _ _ _ _ _ _ _ _ _ _ _ _ Hlen H)
      as (st & st1 & cm1 & Ec & E1 & _ & _ & _ & _ & W).
    destruct W as [(W & _)|[(_ & W & _)|(_ & _ & sg & Eb & Es & _)]]; try discriminate.
    destruct (chunk_facts _ _ _ _ _ _ Hlen Ec) as (F1 & F2 & F3 & F4 & F5 & F6 & F7 & F8 & F9).
    set (n := N.of_nat (length data)) in *.
    assert (Hfit : pos + n <= len).
    { unfold buffer_segs in Eb. rewrite u32_small in Eb by auto. rewrite F4 in Eb.
      destruct (N.ltb_spec len (pos + n)); [discriminate|lia]. }
    destruct (buffer_segs_ok files ps off F5 F3 pos n ltac:(lia) ltac:(lia)) as (sg' & Eb' & Hs).
    rewrite Eb in Eb'. inversion Eb'; subst sg'.
    destruct (write_segs_frame files _ (cfg_laid cs lay) ps off F5 pos sg (pos + n) Hs data st
                (zeros (N.to_nat (chunk_size ps))) ltac:(lia) (F8 eq_refl) F9) as (L1 & L2 & L3).
    rewrite E1, Es. split; [congruence|]. split; auto. split; auto.
    intros i f o Hi Ho. rewrite (L3 i f o Hi Ho).
    rewrite (store_ext_raw files true 0 (s_store s) st i f o F6 Hi Ho).
    replace (off + (pos + n)) with (off + pos + n) by lia. reflexivity.
  Qed.

  (* ---------------------------------------------------------------- read_exact *)

  (* to_buffer returns, for every position, the byte just written through this chunk if it was
     written, otherwise the file byte located at that stream position (0 for padding) *)
  Theorem read_exact : forall s off len w pos data rpos rn s' ps wr bs cmp,
    length (s_store s) = length files -> len < two32 ->
    pos + N.of_nat (length data) < two32 -> rpos + rn < two32 -> wr <> WErr ->
    do_chunk c s off len w pos data rpos rn = (s', OutChunk ps wr (Some bs) cmp) ->
    length bs = N.to_nat rn /\ rpos + rn <= len /\
    forall k i f o, k < rn -> located files (off + rpos + k) i o -> nth_error files i = Some f ->
      nth (N.to_nat k) bs 0 =
        if (match wr with WOk => true | _ => false end) && (pos <=? rpos + k) &&
           (rpos + k <? pos + N.of_nat (length data))
        then nth (N.to_nat (rpos + k - pos)) data 0
        else if f_pad f then 0 else raw (s_store s) i o.
  Proof.
    intros s off len w pos data rpos rn s' ps wr bs cmp Hlen H32 Hn32 Hr32 Hwr H.
    destruct (do_chunk_inv _ _ _ _ _ _ _ _ _ _ _ _ _ Hlen H)
      as (st & st1 & cm1 & Ec & E1 & _ & _ & Erd & _ & W).
    destruct (chunk_facts _ _ _ _ _ _ Hlen Ec) as (F1 & F2 & F3 & F4 & F5 & F6 & F7 & F8 & F9).
    set (n := N.of_nat (length data)) in *.
    set (cm0 := zeros (N.to_nat (chunk_size ps))) in *.
    destruct (buffer_segs ps rpos rn) as [sg2|] eqn:Eb2; [|discriminate]. simpl in Erd.
    inversion Erd as [Ebs]. clear Erd.
    assert (Hfit2 : rpos + rn <= len).
    { unfold buffer_segs in Eb2. rewrite u32_small in Eb2 by auto. rewrite F4 in Eb2.
      destruct (N.ltb_spec len (rpos + rn)); [discriminate|lia]. }
    destruct (buffer_segs_ok files ps off F5 F3 rpos rn ltac:(lia) ltac:(lia)) as (sg' & Eb' & Hs2).
    rewrite Eb2 in Eb'. inversion Eb'; subst sg'.
    assert (Hcm0 : chunk_size ps <= N.of_nat (length cm0)) by (unfold cm0; rewrite zeros_length; lia).
    (* the memory the read sees *)
    assert (MEM : windows_ok ps st1 /\ chunk_size ps <= N.of_nat (length cm1) /\
                  forall x, x < chunk_size ps ->
                    cbyte ps st1 cm1 x =
                    if (match wr with WOk => true | _ => false end) && (pos <=? x) && (x <? pos + n)
                    then nth (N.to_nat (x - pos)) data 0 else cbyte ps st cm0 x).
    { destruct W as [(_ & -> & -> & ->)|[(_ & -> & _)|(-> & -> & sg & Eb & -> & ->)]].
      - split; auto.
      - congruence.
      - assert (Hfit : pos + n <= len).
        { unfold buffer_segs in Eb. rewrite u32_small in Eb by auto. rewrite F4 in Eb.
          destruct (N.ltb_spec len (pos + n)); [discriminate|lia]. }
        destruct (buffer_segs_ok files ps off F5 F3 pos n ltac:(lia) ltac:(lia)) as (sg3 & Eb3 & Hs).
        rewrite Eb in Eb3. inversion Eb3; subst sg3.
        destruct (write_segs_frame files _ (cfg_laid cs lay) ps off F5 pos sg (pos + n) Hs data st
                    cm0 ltac:(lia) (F8 eq_refl) F9) as (L1 & L2 & L3).
        destruct (write_segs_cm ps F3 pos sg (pos + n) Hs data st cm0 ltac:(lia) Hcm0) as (C1 & _).
        split; [|split].
        + intros p Hp Hpad. rewrite L2. apply F7; auto.
        + rewrite C1. exact Hcm0.
        + intros x Hx. simpl.
          apply (cbyte_after_write files _ (cfg_laid cs lay) ps off F5 F3 pos sg (pos + n) Hs data st
                   cm0 ltac:(lia) (F8 eq_refl) F9 Hcm0 x Hx). }
    destruct MEM as (M1 & M2 & M3).
    pose proof (read_segs_spec ps F3 rpos sg2 (rpos + rn) Hs2 st1 cm1 M1 M2) as R.
    replace (rpos + rn - rpos) with rn in R by lia.
    split; [rewrite ?Ebs, R, map_length, nseq_length; reflexivity|]. split; [exact Hfit2|].
    intros k i f o Hk Hloc Hi.
    rewrite ?Ebs, R.
    rewrite (nth_indep _ 0 (cbyte ps st1 cm1 0)) by (rewrite map_length, nseq_length; lia).
    rewrite map_nth. rewrite nth_nseq by lia.
    replace (rpos + N.of_nat (N.to_nat k)) with (rpos + k) by lia.
    rewrite M3 by lia.
    destruct ((match wr with WOk => true | _ => false end) && (pos <=? rpos + k) && (rpos + k <? pos + n));
      [reflexivity|].
    (* untouched memory: the located file byte, or 0 in padding *)
    destruct (find_part_some ps F3 (rpos + k) ltac:(lia)) as (p & P1 & P2 & P3).
    unfold cbyte. rewrite P3.
    rewrite Forall_forall in F5. destruct (F5 p P1) as (fp & G1 & G2 & G3 & G4 & G5).
    destruct Hloc as (f' & Hf' & Hl1 & Hl2 & Hl3). assert (f' = f) by (unfold files in *; congruence). subst f'.
    destruct (file_inj files _ (cfg_laid cs lay) (p_file p) fp (p_foff p + (rpos + k - p_pos p)) i f o
                G1 Hi ltac:(lia) ltac:(lia) ltac:(lia)) as [Ei Eo].
    subst i. assert (fp = f) by congruence. subst fp.
    rewrite G3. destruct (f_pad f).
    - unfold cm0. apply nth_zeros.
    - rewrite Eo. apply (store_ext_raw files w 0 (s_store s) st (p_file p) f o F6 Hi). lia.
  Qed.

  (* reading back the range just written returns the written bytes, also across padding *)
  Corollary read_after_write : forall s off len pos data s' ps bs cmp,
    length (s_store s) = length files -> len < two32 ->
    pos + N.of_nat (length data) < two32 ->
    do_chunk c s off len true pos data pos (N.of_nat (length data)) = (s', OutChunk ps WOk (Some bs) cmp) ->
    bs = data.
  Proof.
    intros s off len pos data s' ps bs cmp Hlen H32 Hn32 H.
    assert (Hne : WOk <> WErr) by discriminate.
    destruct (read_exact s off len true pos data pos (N.of_nat (length data)) s' ps WOk bs cmp
                         Hlen H32 Hn32 Hn32 Hne H) as (R1 & R2 & R3).
    apply nth_ext with (d := 0) (d' := 0); [lia|].
    intros j Hj.
    assert (Hk : N.of_nat j < N.of_nat (length data)) by lia.
    (* the stream position off+pos+j is inside the torrent, hence located somewhere *)
    destruct (do_chunk_inv _ _ _ _ _ _ _ _ _ _ _ _ _ Hlen H) as (st & _ & _ & Ec & _).
    destruct (chunk_facts _ _ _ _ _ _ Hlen Ec) as (F1 & _).
    destruct (Proofs.locate_unique cs lay (off + pos + N.of_nat j) ltac:(lia)) as (i & o & (f & Hf & Hl) & _).
    specialize (R3 (N.of_nat j) i f o Hk ltac:(exists f; auto) Hf).
    replace (N.to_nat (N.of_nat j)) with j in R3 by lia. rewrite R3.
    destruct (N.leb_spec pos (pos + N.of_nat j)); [|lia].
    destruct (N.ltb_spec (pos + N.of_nat j) (pos + N.of_nat (length data))); [|lia].
    simpl. f_equal. lia.
  Qed.

  (* ---------------------------------------------------------------- order independence *)

  Theorem order_independent :
    forall s offA lenA posA dataA offB lenB posB dataB
           sA sAB sB sBA psA psB psA' psB' rdA rdB rdA' rdB' cA cB cA' cB' ra rb rc rd re rf rg rh,
    length (s_store s) = length files -> lenA < two32 -> lenB < two32 ->
    posA + N.of_nat (length dataA) < two32 -> posB + N.of_nat (length dataB) < two32 ->
    (* the two written stream ranges do not overlap *)
    (offA + posA + N.of_nat (length dataA) <= offB + posB \/
     offB + posB + N.of_nat (length dataB) <= offA + posA) ->
    do_chunk c s offA lenA true posA dataA ra rb = (sA, OutChunk psA WOk rdA cA) ->
    do_chunk c sA offB lenB true posB dataB rc rd = (sAB, OutChunk psB WOk rdB cB) ->
    do_chunk c s offB lenB true posB dataB re rf = (sB, OutChunk psB' WOk rdB' cB') ->
    do_chunk c sB offA lenA true posA dataA rg rh = (sBA, OutChunk psA' WOk rdA' cA') ->
    forall i f o, nth_error files i = Some f -> o < f_size f ->
      raw (s_store sAB) i o = raw (s_store sBA) i o.
  Proof.
    intros s offA lenA posA dataA offB lenB posB dataB sA sAB sB sBA psA psB psA' psB'
           rdA rdB rdA' rdB' cA cB cA' cB' ra rb rc rd re rf rg rh
           Hlen HA32 HB32 HnA HnB Hdisj H1 H2 H3 H4 i f o Hi Ho.
    destruct (write_frame _ _ _ _ _ _ _ _ _ _ _ Hlen HA32 HnA H1) as (LA & _ & _ & WA).
    destruct (write_frame _ _ _ _ _ _ _ _ _ _ _ LA HB32 HnB H2) as (_ & _ & _ & WAB).
    destruct (write_frame _ _ _ _ _ _ _ _ _ _ _ Hlen HB32 HnB H3) as (LB & _ & _ & WB).
    destruct (write_frame _ _ _ _ _ _ _ _ _ _ _ LB HA32 HnA H4) as (_ & _ & _ & WBA).
    rewrite (WAB i f o Hi Ho), (WA i f o Hi Ho), (WBA i f o Hi Ho), (WB i f o Hi Ho).
    destruct (negb (f_pad f)); simpl; auto.
    destruct (N.leb_spec (offA + posA) (f_off f + o)); destruct (N.leb_spec (offB + posB) (f_off f + o));
      destruct (N.ltb_spec (f_off f + o) (offA + posA + N.of_nat (length dataA)));
      destruct (N.ltb_spec (f_off f + o) (offB + posB + N.of_nat (length dataB))); simpl; auto; lia.
  Qed.

  (* ---------------------------------------------------------------- runs keep one store entry per file *)

  Lemma do_chunk_store_length : forall s off len w pos data rpos rn,
    length (s_store s) = length files ->
    length (s_store (fst (do_chunk c s off len w pos data rpos rn))) = length files.
  Proof.
    intros s off len w pos data rpos rn Hlen. unfold do_chunk.
    pose proof (create_chunk_ok files c eq_refl (cfg_laid cs lay) (s_store s) off len w Hlen) as K.
    destruct (create_chunk c (s_store s) off len w) as [|st|st ps]; simpl; auto.
    - destruct K as (_ & (E & _) & _). congruence.
    - destruct K as (_ & _ & _ & _ & _ & (E & _) & _).
      destruct w; [destruct (buffer_segs ps pos _)|]; simpl; try rewrite write_segs_length; congruence.
  Qed.

  Lemma step_store_length : forall s o, length (s_store s) = length files ->
    length (s_store (fst (step c s o))) = length files.
  Proof.
    intros s o Hlen. destruct o; simpl; try apply do_chunk_store_length; auto.
    - destruct (_ || _); simpl; auto. destruct (nth _ _ _); simpl; auto.
      destruct (inc_completed _ _ _); simpl; auto.
    - destruct (_ <? _); simpl; auto.
    - destruct (nth_error _ _); simpl; auto. destruct (f_pad _); simpl; auto.
    - pose proof (create_chunk_ok files c eq_refl (cfg_laid cs lay) (s_store s) (idx * cs)
                                  (chunk_index_size c idx) false Hlen) as K.
      destruct (create_chunk c (s_store s) (idx * cs) (chunk_index_size c idx) false) as [|st|st ps]; simpl; auto.
      + destruct K as (_ & (E & _) & _). congruence.
      + destruct K as (_ & _ & _ & _ & _ & (E & _) & _). congruence.
    - pose proof (create_chunk_ok files c eq_refl (cfg_laid cs lay) (s_store s) (idx * cs)
                                  (chunk_index_size c idx) w Hlen) as K.
      destruct (create_chunk c (s_store s) (idx * cs) (chunk_index_size c idx) w) as [|st|st ps]; simpl; auto.
      + destruct K as (_ & (E & _) & _). congruence.
      + destruct K as (_ & _ & _ & _ & _ & (E & _) & _).
        destruct (xfer _ _ _ _); simpl; [congruence|]. destruct w; simpl; [rewrite write_segs_length|]; congruence.
  Qed.

  Theorem run_store_length : forall ops s, length (s_store s) = length files ->
    length (s_store (fst (run c s ops))) = length files.
  Proof.
    induction ops; intros s Hlen; simpl; auto. apply IHops. apply step_store_length. auto.
  Qed.

  Corollary reachable_store_length : forall ops,
    length (s_store (fst (run c (init_state c) ops))) = length files.
  Proof. intros. apply run_store_length. simpl. rewrite map_length. reflexivity. Qed.
End Ops.

(* ------------------------------------------------------------------ non-vacuity *)

Definition lay_ex : list (N * bool) := [(2, false); (0, false); (5, false); (1, true); (0, false); (4, false)].

(* a write through piece 2 (spanning a file, a padding entry and another file after an empty one) *)
Example write_frame_ex : exists s' ps rd cmp,
  do_chunk (mk_cfg 3 lay_ex) (init_state (mk_cfg 3 lay_ex)) 6 3 true 0 [17; 18; 19] 0 3 =
  (s', OutChunk ps WOk rd cmp) /\ rd = Some [17; 18; 19] /\
  map f_dump (s_store s') = [[]; []; [0; 0; 0; 0; 17]; []; []; [19; 0; 0; 0]].
Proof. do 4 eexists. vm_compute. repeat split; reflexivity. Qed.

(* two non-overlapping writes, both orders, as order_independent requires *)
Example order_independent_ex :
  let c := mk_cfg 3 lay_ex in let s := init_state c in
  exists sA sAB sB sBA psA psB rdA rdB cA cB rdA' rdB' cA' cB',
    do_chunk c s 0 3 true 1 [7; 8] 0 0 = (sA, OutChunk psA WOk rdA cA) /\
    do_chunk c sA 3 6 true 0 [9; 10; 11; 12] 0 0 = (sAB, OutChunk psB WOk rdB cB) /\
    do_chunk c s 3 6 true 0 [9; 10; 11; 12] 0 0 = (sB, OutChunk psB WOk rdB' cB') /\
    do_chunk c sB 0 3 true 1 [7; 8] 0 0 = (sBA, OutChunk psA WOk rdA' cA') /\
    map f_dump (s_store sAB) = map f_dump (s_store sBA).
Proof. do 14 eexists. vm_compute. repeat split; reflexivity. Qed.
