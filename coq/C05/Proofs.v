(* C05 proofs. Part A: constants; Part B: the wire invariant (what the peer has received plus what
   the writer still owes is exactly the encoding of the messages placed in the write buffer),
   for every op list and every sequence of socket budgets. *)
From Coq Require Import List NArith ZArith Bool Lia Arith ZifyBool ZifyNat ZifyN.
Ltac Zify.zify_post_hook ::= Z.div_mod_to_equations.
From LTV.C05 Require Import Model.
Import ListNotations.
Local Open Scope N_scope.

(* side conditions on the PROBED policy under which all theorems hold; evaluated on the probed values at
   run time by the extracted checker (ocaml driver, case "PARAMS q ll") *)
Definition params_ok (P : policy) : bool := lenlimit P <=? 131072.
Lemma params_ok_default : params_ok (mkPolicy 2048 131072 false false) = true.
Proof. reflexivity. Qed.

Section Proofs.
  Variable L : layout.
  Variable content : N -> N -> N.
  Variable enc : bool.
  Variable ks : N -> N.
  Variable P : policy.

  Notation slice := (slice content).
  Notation crypt := (crypt enc ks).
  Notation fill := (fill L enc ks).
  Notation buffered := (buffered enc ks).
  Notation put := (put enc ks).
  Notation keepalive := (keepalive enc ks).
  Notation ew := (ew L content enc ks).
  Notation step := (step L content enc ks P).
  Notation run := (run L content enc ks P).
  Notation wire := (wire content).
  Notation pend_payload := (pend_payload content).
  Notation enc_msg := (enc_msg content).
  Notation enc_refill := (enc_refill content enc ks).
  Notation up_chunk := (up_chunk content enc ks).

  (* ---------- slices ---------- *)
  Lemma slice_fuel_app : forall a b i off,
    slice_fuel content (a + b) i off = slice_fuel content a i off ++ slice_fuel content b i (off + N.of_nat a).
  Proof.
    induction a as [|a IH]; intros b i off.
    - cbn [plus slice_fuel app]. rewrite N.add_0_r. reflexivity.
    - cbn [plus slice_fuel app]. rewrite IH. f_equal. f_equal. f_equal. lia.
  Qed.

  Lemma slice_split : forall i off n len, n <= len ->
    slice i off len = slice i off n ++ slice i (off + n) (len - n).
  Proof.
    intros i off n len H. unfold Model.slice.
    replace (N.to_nat len) with (N.to_nat n + N.to_nat (len - n))%nat by lia.
    rewrite slice_fuel_app. rewrite N2Nat.id. reflexivity.
  Qed.

  Lemma slice_zero : forall i off, slice i off 0 = [].
  Proof. reflexivity. Qed.

  Lemma slice_length : forall i off n, length (slice i off n) = N.to_nat n.
  Proof.
    intros i off n. unfold Model.slice. generalize (N.to_nat n) as f. intro f. revert off.
    induction f; intro off; cbn [slice_fuel length]; [reflexivity | now rewrite IHf].
  Qed.

  Lemma len_slice : forall i off n, len (slice i off n) = n.
  Proof. intros. unfold len. rewrite slice_length. lia. Qed.

  Lemma len_app : forall a b : list N, len (a ++ b) = len a + len b.
  Proof. intros. unfold len. rewrite app_length. lia. Qed.

  (* ---------- the stream cipher ---------- *)
  Lemma xor_from_app : forall a b p, xor_from ks p (a ++ b) = xor_from ks p a ++ xor_from ks (p + len a) b.
  Proof.
    induction a as [|x a IH]; intros b p; cbn [app xor_from].
    - unfold len. cbn [length]. now rewrite N.add_0_r.
    - rewrite IH. f_equal. f_equal. f_equal. unfold len. cbn [length]. lia.
  Qed.

  Lemma xor_from_length : forall a p, length (xor_from ks p a) = length a.
  Proof. induction a; intro p; cbn [xor_from length]; [reflexivity | now rewrite IHa]. Qed.

  Lemma crypt_app : forall a b p, crypt p (a ++ b) = crypt p a ++ crypt (p + len a) b.
  Proof. intros. unfold Model.crypt. destruct enc; [apply xor_from_app | reflexivity]. Qed.

  Lemma crypt_nil : forall p, crypt p [] = [].
  Proof. intros. unfold Model.crypt. destruct enc; reflexivity. Qed.

  Lemma len_crypt : forall a p, len (crypt p a) = len a.
  Proof. intros. unfold Model.crypt, len. destruct enc; [now rewrite xor_from_length | reflexivity]. Qed.

  Lemma crypt_ne : forall a p, a <> [] -> crypt p a <> [].
  Proof. intros a p H E. apply H. destruct a; [reflexivity|]. unfold Model.crypt in E. destruct enc; discriminate E. Qed.

  (* ---------- stream / wire bookkeeping ---------- *)
  Lemma stream_cons : forall (c : list N) (o : list (list N)), concat (rev (c :: o)) = concat (rev o) ++ c.
  Proof. intros. cbn [rev]. rewrite concat_app. cbn [concat]. now rewrite app_nil_r. Qed.

  Lemma wire_cons : forall m ms, wire (m :: ms) = wire ms ++ enc_msg m.
  Proof.
    intros. unfold Model.wire. cbn [rev]. rewrite map_app, concat_app. cbn [map concat]. now rewrite app_nil_r.
  Qed.

  (* The invariant. P1 is the plaintext that has already passed through the cipher: it is followed
     in wire(msgs) by exactly the payload still to be read from the chunk; its image under the
     keystream, from position 0 on, is what was sent plus what sits in the two buffers; the
     encryptor stands at position |P1|. *)
  Definition Inv (s : st) : Prop :=
    (ws s = WPiece -> obuf s = []) /\
    (ws s <> WPiece -> ebuf s = []) /\
    (enc = false -> ebuf s = []) /\
    len (ebuf s) <= p_len (cur s) + (match ws s with WPiece => 0 | _ => len (ebuf s) end) /\
    (ws s = Idle -> obuf s <> [] -> last_piece s = false) /\
    exists P1, wire (msgs s) = P1 ++ pend_payload s /\
               stream s ++ obuf s ++ ebuf s = crypt 0 P1 /\
               kpos s = len P1.

  Ltac sel := cbn [set_ws set_tq choked queue obuf msgs out last_piece cur closed ws send_choked ebuf eb_end kpos upc tq load_chunk].
  Ltac inv_destruct H := destruct H as (Ho & He & Hp & Hl & Hk6 & P1 & Hw & Hs & Hk).

  Lemma len_nil : len (@nil N) = 0.
  Proof. reflexivity. Qed.

  Lemma inv_init : Inv init.
  Proof.
    unfold Inv, init; sel. split; [intro H; discriminate H|]. split; [reflexivity|]. split; [reflexivity|].
    split; [rewrite len_nil; lia|]. split; [intros _ H; exfalso; apply H; reflexivity|].
    exists []. unfold Model.pend_payload, stream; sel. cbn [rev concat app]. repeat split. now rewrite crypt_nil.
  Qed.

  Lemma enc_choke_ne : forall c (t : list N), enc_choke c ++ t <> [].
  Proof. intros c t. unfold enc_choke, be32. cbn [app]. discriminate. Qed.
  Lemma enc_hdr_ne : forall p, enc_piece_hdr p <> [].
  Proof. intros p. unfold enc_piece_hdr, be32. cbn [app]. discriminate. Qed.

  Lemma app_ne_r : forall (a b : list N), b <> [] -> a ++ b <> [].
  Proof. intros a b H E. apply app_eq_nil in E. tauto. Qed.

  (* fill appended plaintext B (possibly nothing) to the buffer of an idle writer *)
  Lemma buffered_inv : forall s (B : list N) (lp : bool) c q sc ms u,
    Inv s -> ws s = Idle ->
    ((B = [] /\ ms = msgs s /\ lp = last_piece s) \/
     (B <> [] /\ wire ms = wire (msgs s) ++ B ++ (if lp then slice (p_index c) (p_off c) (p_len c) else []))) ->
    Inv (buffered s B lp c q sc ms u).
  Proof.
    intros s B lp c q sc ms u HI Hws Hcase. inv_destruct HI.
    assert (Heb : ebuf s = []) by (apply He; rewrite Hws; discriminate).
    unfold Model.pend_payload in Hw. rewrite Hws in Hw. rewrite app_nil_r in Hw.
    unfold Model.buffered.
    set (ob := obuf s ++ crypt (kpos s) B).
    assert (Hstream : stream s ++ ob ++ [] = crypt 0 (P1 ++ B)).
    { subst ob. rewrite crypt_app, <- Hs, Heb, Hk, !app_nil_r, <- app_assoc. cbn [N.add]. reflexivity. }
    unfold Inv; sel. rewrite Heb.
    destruct ob as [|x ob'] eqn:Hob.
    - (* the buffer is empty: idle *)
      assert (HB : B = []).
      { destruct Hcase as [[E _]|[Hne _]]; [exact E|]. exfalso.
        apply (app_ne_r (obuf s) (crypt (kpos s) B)); [apply crypt_ne; exact Hne | exact Hob]. }
      destruct Hcase as [(_ & Ems & _)|(Hne & _)]; [|contradiction]. subst ms.
      repeat split; try (intros; first [reflexivity | discriminate]); try (rewrite len_nil; lia).
      + intros _ H. exfalso. apply H. reflexivity.
      + exists P1. unfold Model.pend_payload, stream in *; sel. rewrite HB, app_nil_r in Hstream. rewrite HB, len_nil, N.add_0_r.
        repeat split; try assumption; [now rewrite app_nil_r | cbn [app]; rewrite app_nil_r; rewrite app_nil_r in Hstream; exact Hstream].
    - repeat split; try (intros; first [reflexivity | discriminate]); try (rewrite len_nil; lia).
      exists (P1 ++ B). unfold Model.pend_payload, stream in *; sel. repeat split.
      + destruct Hcase as [(EB & Ems & Elp)|(Hne & Hms)].
        * subst B ms lp. rewrite app_nil_r.
          assert (Hobne : obuf s <> []).
          { subst ob. rewrite crypt_nil, app_nil_r in Hob. rewrite Hob. discriminate. }
          rewrite (Hk6 Hws Hobne). rewrite app_nil_r. exact Hw.
        * rewrite Hms, Hw, <- app_assoc. reflexivity.
      + exact Hstream.
      + rewrite len_app, Hk. reflexivity.
  Qed.

  (* the connection is closed by fill: nothing of this call is kept *)
  Lemma closed_inv : forall s ch c q sc u,
    Inv s -> ws s = Idle ->
    Inv (mkSt ch sc q Idle (obuf s) (last_piece s) c true (out s) (msgs s) (ebuf s) (eb_end s) (kpos s) u (tq s)).
  Proof.
    intros s ch c q sc u HI Hws. inv_destruct HI.
    assert (Heb : ebuf s = []) by (apply He; rewrite Hws; discriminate).
    unfold Inv; sel. rewrite Heb. repeat split; try (intros; first [reflexivity | discriminate]); try (rewrite len_nil; lia).
    - intros _. apply Hk6. exact Hws.
    - exists P1. unfold Model.pend_payload, stream in *; sel. rewrite Hws, Heb in *. repeat split; assumption.
  Qed.

  Lemma fill_inv : forall s, ws s = Idle -> Inv s -> Inv (fill s).
  Proof.
    intros s Hws HI. unfold Model.fill. cbv zeta.
    destruct (send_choked s && (5 <=? room s)) eqn:Hdc; cbn [andb negb];
      destruct (choked s) eqn:Hc; cbn [andb];
      try (destruct (queue s) as [|p q'] eqn:Hq); cbn [andb];
      try (destruct (13 <=? _));
      try (destruct (servable L p));
      try (apply closed_inv; assumption);
      (apply buffered_inv; try assumption);
      try (left; repeat split; reflexivity);
      right; (split;
          [ first [ apply enc_choke_ne | rewrite <- (app_nil_r (enc_choke _)); apply enc_choke_ne | apply enc_hdr_ne
                  | cbn [app]; apply enc_hdr_ne ]
          | rewrite ?wire_cons; cbn [Model.enc_msg app]; rewrite <- ?app_assoc, ?app_nil_r; try reflexivity ]).
  Qed.

  Lemma keepalive_inv : forall s, Inv s -> Inv (keepalive s).
  Proof.
    intros s HI. unfold Model.keepalive. destruct (closed s); [exact HI|].
    destruct (ws s) eqn:Hws; try exact HI. destruct (4 <=? room s); [|exact HI].
    inv_destruct HI.
    assert (Heb : ebuf s = []) by (apply He; rewrite Hws; discriminate).
    unfold Model.pend_payload in Hw. rewrite Hws in Hw. rewrite app_nil_r in Hw.
    unfold Inv, Model.put; sel. rewrite ?Hws, ?Heb.
    repeat split; try (intros; first [reflexivity | discriminate]); try (rewrite len_nil; lia).
    exists (P1 ++ enc_keep). unfold Model.pend_payload, stream in *; sel. rewrite ?Hws. repeat split.
    - rewrite wire_cons, Hw, app_nil_r. reflexivity.
    - rewrite crypt_app, <- Hs, Heb, Hk, !app_nil_r, <- app_assoc. cbn [N.add]. reflexivity.
    - rewrite len_app, Hk. reflexivity.
  Qed.

  Lemma len_firstn_skipn : forall (l : list N) n, len (firstn n l) + len (skipn n l) = len l.
  Proof. intros. rewrite <- len_app, firstn_skipn. reflexivity. Qed.

  Lemma write_buf_inv : forall s n, Inv s -> ws s = Msg -> Inv (write_buf s n).
  Proof.
    intros s n HI Hws. inv_destruct HI.
    assert (Heb : ebuf s = []) by (apply He; rewrite Hws; discriminate).
    unfold Inv, write_buf; sel. rewrite Hws in *. repeat split; try (intros; first [assumption | discriminate]); try lia.
    exists P1. unfold Model.pend_payload, stream in *; sel. rewrite Hws in *. repeat split; try assumption.
    rewrite stream_cons, <- Hs. rewrite <- (firstn_skipn (N.to_nat n) (obuf s)) at 3.
    rewrite <- !app_assoc. reflexivity.
  Qed.

  Lemma msg_to_next : forall s w, Inv s -> ws s = Msg -> obuf s = [] ->
    w = (if last_piece s then WPiece else Idle) -> Inv (set_ws s w).
  Proof.
    intros s w HI Hws Hob ->. inv_destruct HI.
    assert (Heb : ebuf s = []) by (apply He; rewrite Hws; discriminate).
    unfold Inv, set_ws; sel. unfold Model.pend_payload, stream in *; sel. rewrite Hws in *.
    rewrite Heb in *. rewrite Hob in *. unfold len in *. cbn [length N.of_nat] in *.
    destruct (last_piece s); repeat split; try (intros; first [assumption|reflexivity]); try (intro H; discriminate H); try lia.
    all: exists P1; rewrite ?N.add_0_r, ?N.sub_0_r; repeat split; assumption.
  Qed.

  Lemma write_payload_inv : forall s n, Inv s -> ws s = WPiece -> enc = false -> n <= p_len (cur s) ->
    Inv (write_payload content s n).
  Proof.
    intros s n HI Hws Henc Hn. inv_destruct HI.
    assert (Hob : obuf s = []) by (apply Ho; exact Hws).
    assert (Heb : ebuf s = []) by (apply Hp; exact Henc).
    unfold Inv, write_payload; sel. unfold Model.pend_payload, stream in *; sel. rewrite Hws in *.
    rewrite Heb in *. rewrite len_nil in *. rewrite N.add_0_r, N.sub_0_r in Hw.
    repeat split; try (intros; first [assumption | reflexivity | discriminate]); try lia.
    exists (P1 ++ slice (p_index (cur s)) (p_off (cur s)) n). cbn [p_index p_off p_len]. repeat split.
    - rewrite Hw, (slice_split _ _ n _ Hn), <- app_assoc, N.add_0_r, N.sub_0_r. reflexivity.
    - rewrite stream_cons, Hob, crypt_app, <- Hs, Hob, !app_nil_r. cbn [app].
      unfold Model.crypt. rewrite Henc. reflexivity.
    - rewrite len_app, len_slice, Hk. reflexivity.
  Qed.

  Lemma enc_refill_ws : forall s q, ws (enc_refill s q) = ws s /\ cur (enc_refill s q) = cur s /\ closed (enc_refill s q) = closed s.
  Proof. intros s q. unfold Model.enc_refill. destruct (q <=? len (ebuf s)); auto. Qed.

  Lemma enc_refill_inv : forall s q, Inv s -> ws s = WPiece -> enc = true -> q <= p_len (cur s) -> Inv (enc_refill s q).
  Proof.
    intros s q HI Hws Henc Hq. unfold Model.enc_refill.
    destruct (q <=? len (ebuf s)) eqn:Hle; [exact HI|]. apply N.leb_gt in Hle.
    inv_destruct HI.
    assert (Hob : obuf s = []) by (apply Ho; exact Hws).
    set (r := len (ebuf s)) in *.
    set (n := if r =? 0 then N.min q eb_size else N.min (q - r) (eb_size - (if r =? 0 then 0 else eb_end s))).
    assert (Hn : n <= p_len (cur s) - r) by (subst n; destruct (r =? 0) eqn:E; [apply N.eqb_eq in E|]; lia).
    unfold Inv; sel. unfold Model.pend_payload, stream in *; sel. rewrite Hws in *. fold r in Hw.
    repeat split.
    - intros _. exact Hob.
    - intro H. exfalso. apply H. reflexivity.
    - intro H. congruence.
    - rewrite len_app, len_crypt, len_slice. fold r. lia.
    - intro H. discriminate H.
    - exists (P1 ++ slice (p_index (cur s)) (p_off (cur s) + r) n). repeat split.
      + rewrite Hw, (slice_split _ _ n _ Hn), <- app_assoc. rewrite len_app, len_crypt, len_slice. fold r.
        replace (p_off (cur s) + (r + n)) with (p_off (cur s) + r + n) by lia.
        replace (p_len (cur s) - (r + n)) with (p_len (cur s) - r - n) by lia. reflexivity.
      + rewrite crypt_app, <- Hs, <- Hk, Hob. cbn [app]. rewrite <- !app_assoc. reflexivity.
      + rewrite len_app, len_slice, Hk. reflexivity.
  Qed.

  Lemma write_ebuf_inv : forall s n, Inv s -> ws s = WPiece -> n <= len (ebuf s) -> n <= p_len (cur s) ->
    Inv (write_ebuf s n).
  Proof.
    intros s n HI Hws Hne Hnp. inv_destruct HI.
    assert (Hob : obuf s = []) by (apply Ho; exact Hws).
    pose proof (len_firstn_skipn (ebuf s) (N.to_nat n)) as Hfs.
    assert (Hf : len (firstn (N.to_nat n) (ebuf s)) = n).
    { unfold len in *. rewrite firstn_length. lia. }
    unfold Inv, write_ebuf; sel. unfold Model.pend_payload, stream in *; sel. rewrite Hws in *.
    cbn [p_index p_off p_len]. repeat split.
    - intros _. exact Hob.
    - intro H. exfalso. apply H. reflexivity.
    - intro H. rewrite (Hp H). destruct (N.to_nat n); reflexivity.
    - lia.
    - intro H. discriminate H.
    - exists P1. repeat split; try assumption.
      + rewrite Hw. f_equal; f_equal; lia.
      + rewrite stream_cons, <- Hs, Hob. cbn [app].
        rewrite <- (firstn_skipn (N.to_nat n) (ebuf s)) at 3. rewrite <- !app_assoc. reflexivity.
  Qed.

  Lemma wpiece_to_idle : forall s, Inv s -> ws s = WPiece -> p_len (cur s) = 0 -> Inv (set_ws s Idle).
  Proof.
    intros s HI Hws Hz. inv_destruct HI.
    assert (Hob : obuf s = []) by (apply Ho; exact Hws).
    rewrite Hws in Hl.
    assert (Heb : ebuf s = []) by (destruct (ebuf s); [reflexivity | unfold len in Hl; cbn [length] in Hl; lia]).
    unfold Inv, set_ws; sel. unfold Model.pend_payload, stream in *; sel. rewrite Hws in *.
    repeat split; try (intros; first [assumption | discriminate]). { rewrite Heb. rewrite len_nil. lia. }
    { intros _ H. contradiction. }
    exists P1. rewrite Hz, Heb in Hw. rewrite len_nil in Hw. rewrite slice_zero in Hw.
    repeat split; assumption.
  Qed.

  Lemma if_true_eq : forall (A : Type) (b : bool) (x y : A), b = true -> (if b then x else y) = x.
  Proof. intros A b x y H. now rewrite H. Qed.
  Lemma if_false_eq : forall (A : Type) (b : bool) (x y : A), b = false -> (if b then x else y) = y.
  Proof. intros A b x y H. now rewrite H. Qed.

  Lemma up_chunk_inv : forall s k, Inv s -> ws s = WPiece ->
    Inv (fst (up_chunk s k)) /\ ws (fst (up_chunk s k)) = WPiece /\ closed (fst (up_chunk s k)) = closed s.
  Proof.
    intros s k HI Hws. unfold Model.up_chunk.
    destruct (node_quota (tq s) =? 0); [cbn [fst]; auto|].
    set (quota := N.min (node_quota (tq s)) (p_len (cur s))).
    assert (Hq : quota <= p_len (cur s)) by (subst quota; lia).
    destruct (Bool.bool_dec enc true) as [Henc|Henc].
    - rewrite (if_true_eq _ enc _ _ Henc).
      pose proof (enc_refill_inv s quota HI Hws Henc Hq) as HI0.
      destruct (enc_refill_ws s quota) as (Hw0 & Hc0 & Hcl0).
      destruct (N.min k (N.min quota (len (ebuf (enc_refill s quota)))) =? 0); cbn [fst].
      + rewrite Hw0. auto.
      + split; [|split].
        * apply write_ebuf_inv; [exact HI0 | congruence | lia | rewrite Hc0; lia].
        * unfold write_ebuf; sel; congruence.
        * unfold write_ebuf; sel; exact Hcl0.
    - apply Bool.not_true_is_false in Henc. rewrite (if_false_eq _ enc _ _ Henc).
      destruct (N.min k quota =? 0); cbn [fst]; [auto|].
      split; [|split]; [apply write_payload_inv; try assumption; lia | unfold write_payload; sel; exact Hws | reflexivity].
  Qed.

  Lemma ew_inv : forall f k s, closed s = false -> Inv s -> Inv (ew f k s).
  Proof.
    induction f as [|f IH]; intros k s Hcl HI; cbn [Model.ew]; [exact HI|].
    destruct (ws s) eqn:Hws.
    - (* IDLE *)
      pose proof (fill_inv s Hws HI) as HF.
      destruct (closed (fill s)) eqn:Hcf; [exact HF|].
      destruct (ws (fill s)); try exact HF. apply IH; assumption.
    - (* MSG *)
      destruct (N.min k (N.of_nat (length (obuf s))) =? 0) eqn:Hn; [exact HI|].
      set (n := N.min k (N.of_nat (length (obuf s)))) in *.
      pose proof (write_buf_inv s n HI Hws) as HI1.
      destruct (obuf (write_buf s n)) eqn:Hob; [|exact HI1].
      assert (Hws1 : ws (write_buf s n) = Msg) by (unfold write_buf; sel; exact Hws).
      destruct (last_piece (write_buf s n)) eqn:Hlp.
      + apply IH; [unfold write_buf; sel; exact Hcl|].
        change (Inv (set_ws (write_buf s n) WPiece)).
        apply msg_to_next; try assumption. rewrite Hlp. reflexivity.
      + apply IH; [unfold write_buf; sel; exact Hcl|].
        apply msg_to_next; try assumption. rewrite Hlp. reflexivity.
    - (* WRITE_PIECE *)
      destruct (up_chunk_inv s k HI Hws) as (HI1 & Hws1 & Hc1).
      destruct (up_chunk s k) as [s1 n]. cbn [fst] in *.
      destruct (n =? 0); [exact HI1|].
      destruct (p_len (cur s1) =? 0) eqn:Hz.
      + apply IH; [sel; congruence|]. apply wpiece_to_idle; try assumption. apply N.eqb_eq. exact Hz.
      + apply IH; [congruence | exact HI1].
  Qed.

  Definition run_from (s : st) (ops : list op) : st := fold_left step ops s.

  Lemma run_from_app : forall a b s, run_from s (a ++ b) = run_from (run_from s a) b.
  Proof. intros. unfold run_from. apply fold_left_app. Qed.

  Lemma step_inv : forall s o, Inv s -> Inv (step s o).
  Proof.
    intros s o HI. destruct o as [p|p|c|k|t|]; cbn [Model.step].
    - unfold recv_request. destruct (closed s); [exact HI|].
      destruct (choked s || _ || _); [exact HI|]. destruct (eager_drop L P p); [exact HI|].
      destruct (existsb _ _); exact HI.
    - unfold recv_cancel. destruct (closed s); exact HI.
    - unfold decide. destruct (closed s); [exact HI|]. destruct (Bool.eqb c (choked s)); exact HI.
    - destruct (closed s) eqn:Hc; [exact HI|]. apply ew_inv; assumption.
    - destruct (closed s); exact HI.
    - apply keepalive_inv. exact HI.
  Qed.

  Lemma run_from_inv : forall ops s, Inv s -> Inv (run_from s ops).
  Proof.
    induction ops as [|o ops IH]; intros s HI; [exact HI|]. cbn [run_from fold_left]. apply IH, step_inv, HI.
  Qed.

  (* piece_bytes_exact, plain and RC4 at once. For every op list (hence every segmentation of the
     writes, every partial write, every refill of the encrypt buffer): the plaintext wire(msgs) --
     each PIECE header (i,b,l) followed by content i [b, b+l) and nothing else -- splits into P1,
     which has passed through the cipher, and the payload still to be read from the chunk; what the
     peer has received followed by the contents of the two buffers is crypt 0 P1: byte j of it is
     byte j of P1 combined with keystream position j (each position used once, in order), and the
     encryptor stands at |P1|. *)
  Theorem piece_bytes_exact : forall ops,
    let s := run ops in
    exists P1, wire (msgs s) = P1 ++ pend_payload s /\
               stream s ++ obuf s ++ ebuf s = crypt 0 P1 /\
               kpos s = len P1.
  Proof. intros ops. pose proof (run_from_inv ops init inv_init) as HI. inv_destruct HI. exists P1. auto. Qed.

  Theorem piece_bytes_exact_idle : forall ops,
    ws (run ops) = Idle -> obuf (run ops) = [] -> stream (run ops) = crypt 0 (wire (msgs (run ops))).
  Proof.
    intros ops Hws Hob. pose proof (run_from_inv ops init inv_init) as HI. change (run_from init ops) with (run ops) in HI.
    inv_destruct HI. unfold Model.pend_payload in Hw. rewrite Hws in Hw. rewrite app_nil_r in Hw.
    rewrite Hob in Hs. rewrite He in Hs by (rewrite Hws; discriminate).
    rewrite !app_nil_r in Hs. rewrite Hw. exact Hs.
  Qed.

  (* plain stream: the cipher is the identity *)
  Corollary piece_bytes_exact_plain : forall ops, enc = false ->
    let s := run ops in stream s ++ obuf s ++ pend_payload s = wire (msgs s).
  Proof.
    intros ops Henc. cbn zeta. pose proof (run_from_inv ops init inv_init) as HI. change (run_from init ops) with (run ops) in HI.
    inv_destruct HI. rewrite (Hp Henc), app_nil_r in Hs. unfold Model.crypt in Hs. rewrite (if_false_eq _ enc _ _ Henc) in Hs.
    rewrite Hw, <- Hs, <- !app_assoc. reflexivity.
  Qed.

  (* RC4 stream: what the peer received is the plaintext XOR the keystream at consecutive positions *)
  Corollary piece_bytes_exact_rc4 : forall ops, enc = true -> ws (run ops) = Idle -> obuf (run ops) = [] ->
    stream (run ops) = xor_from ks 0 (wire (msgs (run ops))).
  Proof.
    intros ops Henc Hws Hob. rewrite (piece_bytes_exact_idle ops Hws Hob). unfold Model.crypt. rewrite (if_true_eq _ enc _ _ Henc). reflexivity.
  Qed.

  Lemma xor_from_nth : forall l p j, (j < length l)%nat ->
    nth j (xor_from ks p l) 0 = N.lxor (nth j l 0) (ks (p + N.of_nat j)).
  Proof.
    induction l as [|x l IH]; intros p j Hj; cbn [length] in Hj; [lia|].
    destruct j as [|j]; cbn [xor_from nth].
    - now rewrite N.add_0_r.
    - rewrite IH by lia. f_equal. f_equal. lia.
  Qed.

  (* ---------- message-level invariants ---------- *)
  Lemma piece_eqb_eq : forall a b, piece_eqb a b = true <-> a = b.
  Proof.
    intros [a1 a2 a3] [b1 b2 b3]. unfold piece_eqb. cbn [p_index p_off p_len].
    rewrite !andb_true_iff, !N.eqb_eq. split; [intros [[-> ->] ->]; reflexivity | intro H; inversion H; auto].
  Qed.

  Lemma existsb_piece : forall p q, existsb (piece_eqb p) q = false -> ~ In p q.
  Proof.
    intros p q H Hin. assert (existsb (piece_eqb p) q = true); [|congruence].
    apply existsb_exists. exists p. split; [exact Hin|]. apply piece_eqb_eq. reflexivity.
  Qed.

  Lemma remove_first_sub : forall p q x, In x (remove_first p q) -> In x q.
  Proof.
    induction q as [|y q IH]; intros x; cbn [remove_first]; [tauto|].
    destruct (piece_eqb y p); cbn [In]; [tauto|]. intros [->|H]; [tauto|right; auto].
  Qed.

  Lemma remove_first_nodup : forall p q, NoDup q -> NoDup (remove_first p q).
  Proof.
    induction q as [|y q IH]; intros Hnd; cbn [remove_first]; [constructor|].
    inversion Hnd; subst. destruct (piece_eqb y p); [assumption|].
    constructor; [intro Hin; apply remove_first_sub in Hin; contradiction | apply IH; assumption].
  Qed.

  Lemma remove_first_length : forall p q, (length (remove_first p q) <= length q)%nat.
  Proof.
    induction q as [|y q IH]; cbn [remove_first length]; [lia|]. destruct (piece_eqb y p); cbn [length]; lia.
  Qed.

  (* a CANCEL removes the request: with no duplicates in the queue nothing equal remains *)
  Lemma remove_first_gone : forall p q, NoDup q -> ~ In p (remove_first p q).
  Proof.
    induction q as [|y q IH]; intros Hnd; cbn [remove_first]; [tauto|].
    inversion Hnd; subst. destruct (piece_eqb y p) eqn:E.
    - apply piece_eqb_eq in E. subst y. assumption.
    - cbn [In]. intros [->|Hin]; [|apply IH; assumption].
      assert (piece_eqb p p = true) by (apply piece_eqb_eq; reflexivity). congruence.
  Qed.

  Lemma nodup_snoc : forall (q : list piece) p, NoDup q -> ~ In p q -> NoDup (q ++ [p]).
  Proof.
    induction q as [|y q IH]; intros p Hnd Hni; cbn [app]; [constructor; [tauto|constructor]|].
    inversion Hnd; subst. constructor.
    - rewrite in_app_iff. cbn [In]. intros [H|[H|[]]]; [contradiction|]. subst. apply Hni. left. reflexivity.
    - apply IH; [assumption|]. intro H. apply Hni. right. exact H.
  Qed.

  Definition len_ok (p : piece) : Prop := p_len p <= lenlimit P.
  Definition msg_ok (m : msg) : Prop :=
    match m with
    | MChoke _ => True
    | MPiece p => is_valid_piece L p = true /\ l_completed L (p_index p) = true /\ len_ok p
    | MKeep => True
    end.

  Definition Inv2 (s : st) : Prop :=
    Forall len_ok (queue s) /\
    N.of_nat (length (queue s)) <= qlimit P /\
    NoDup (queue s) /\
    Forall msg_ok (msgs s).

  Lemma inv2_init : Inv2 init.
  Proof. unfold Inv2, init; sel. cbn [length]. repeat split; try constructor. apply N.le_0_l. Qed.

  Ltac fill_cases s :=
    unfold Model.fill; cbv zeta;
    destruct (send_choked s && (5 <=? room s)) eqn:Hdc; cbn [andb negb];
    destruct (choked s) eqn:Hc; cbn [andb];
    try (destruct (queue s) as [|p q'] eqn:Hq); cbn [andb];
    try (destruct (13 <=? _) eqn:H13);
    try (match goal with |- context [servable L ?x] => destruct (servable L x) eqn:Hv end);
    unfold Model.buffered; sel.

  Lemma fill_inv2 : forall s, Inv2 s -> Inv2 (fill s).
  Proof.
    intros s (Hl & Hn & Hd & Hm). unfold Inv2. fill_cases s;
      cbn [length] in *;
      repeat match goal with
      | H : Forall _ (_ :: _) |- _ => inversion H; subst; clear H
      | H : NoDup (_ :: _) |- _ => inversion H; subst; clear H
      end;
      repeat split; try assumption; try constructor; try assumption; try (cbn [msg_ok]; exact I);
      try (apply N.le_0_l); try lia;
      try (unfold servable in Hv; apply andb_true_iff in Hv; destruct Hv; cbn [msg_ok]; repeat split; assumption);
      try (constructor; [cbn [msg_ok]; exact I | assumption]);
      try (rewrite Hq; cbn [length]; first [constructor | apply N.le_0_l]).
  Qed.

  Lemma up_chunk_same : forall s k,
    queue (fst (up_chunk s k)) = queue s /\ msgs (fst (up_chunk s k)) = msgs s /\
    choked (fst (up_chunk s k)) = choked s /\ send_choked (fst (up_chunk s k)) = send_choked s /\
    closed (fst (up_chunk s k)) = closed s /\ ws (fst (up_chunk s k)) = ws s.
  Proof.
    intros s k. unfold Model.up_chunk, Model.enc_refill, write_ebuf, write_payload.
    destruct (node_quota (tq s) =? 0); [cbn; auto 10|].
    destruct enc; [destruct (_ <=? len (ebuf s))|];
      match goal with |- context [if ?c then _ else _] => destruct c end; cbn; auto 10.
  Qed.

  Lemma keepalive_qm : forall s, queue (keepalive s) = queue s /\ choked (keepalive s) = choked s /\
    send_choked (keepalive s) = send_choked s /\ closed (keepalive s) = closed s /\ upc (keepalive s) = upc s /\
    (msgs (keepalive s) = msgs s \/ msgs (keepalive s) = MKeep :: msgs s).
  Proof.
    intro s. unfold Model.keepalive.
    destruct (closed s) eqn:Hcl; [|destruct (ws s); [destruct (4 <=? room s)| |]]; unfold Model.put; sel;
      repeat split; try reflexivity; try assumption; try (left; reflexivity); try (right; reflexivity).
  Qed.

  Lemma ew_inv2 : forall f k s, Inv2 s -> Inv2 (ew f k s).
  Proof.
    induction f as [|f IH]; intros k s HI; cbn [Model.ew]; [exact HI|].
    destruct (ws s).
    - pose proof (fill_inv2 s HI) as HF. destruct (closed (fill s)); [exact HF|].
      destruct (ws (fill s)); try exact HF. apply IH. exact HF.
    - destruct (N.min k (N.of_nat (length (obuf s))) =? 0); [exact HI|].
      destruct (obuf (write_buf s _)); [|exact HI].
      destruct (last_piece (write_buf s _)); apply IH; exact HI.
    - pose proof (up_chunk_same s k) as (Q & M & _). destruct (up_chunk s k) as [s1 n]. cbn [fst] in *.
      assert (H1 : Inv2 s1) by (unfold Inv2 in *; rewrite Q, M; exact HI).
      destruct (n =? 0); [exact H1|]. destruct (p_len (cur s1) =? 0); apply IH; exact H1.
  Qed.

  Lemma step_inv2 : forall s o, Inv2 s -> Inv2 (step s o).
  Proof.
    intros s o HI. destruct o as [p|p|c|k|t|]; cbn [Model.step].
    - unfold recv_request. destruct (closed s); [exact HI|].
      destruct (choked s || (qlimit P <=? N.of_nat (length (queue s)))
                || (lenlimit P <? p_len p)) eqn:Hg; [exact HI|].
      destruct (eager_drop L P p); [exact HI|].
      destruct (existsb (piece_eqb p) (queue s)) eqn:He; [exact HI|].
      apply orb_false_iff in Hg. destruct Hg as [Hg Hlen]. apply orb_false_iff in Hg. destruct Hg as [_ Hq].
      apply N.leb_gt in Hq. apply N.ltb_ge in Hlen.
      destruct HI as (Hl & Hn & Hd & Hm). unfold Inv2; sel. repeat split.
      + apply Forall_app. split; [assumption|]. constructor; [exact Hlen|constructor].
      + rewrite app_length. cbn [length]. lia.
      + apply nodup_snoc; [assumption|]. apply existsb_piece. exact He.
      + assumption.
    - unfold recv_cancel. destruct (closed s); [exact HI|].
      destruct HI as (Hl & Hn & Hd & Hm). unfold Inv2; sel. repeat split.
      + apply Forall_forall. intros x Hx. apply remove_first_sub in Hx. revert x Hx. apply Forall_forall. assumption.
      + pose proof (remove_first_length p (queue s)). lia.
      + apply remove_first_nodup. assumption.
      + assumption.
    - unfold decide. destruct (closed s); [exact HI|]. destruct (Bool.eqb c (choked s)); exact HI.
    - destruct (closed s); [exact HI|]. apply ew_inv2. exact HI.
    - destruct (closed s); exact HI.
    - destruct (keepalive_qm s) as (Q & _ & _ & _ & _ & M). destruct HI as (Hl & Hn & Hd & Hm).
      unfold Inv2. rewrite Q. repeat split; try assumption.
      destruct M as [M|M]; rewrite M; [assumption|]. constructor; [exact I|assumption].
  Qed.

  Lemma run_from_inv2 : forall ops s, Inv2 s -> Inv2 (run_from s ops).
  Proof.
    induction ops as [|o ops IH]; intros s HI; [exact HI|]. cbn [run_from fold_left]. apply IH, step_inv2, HI.
  Qed.

  Lemma run_inv2 : forall ops, Inv2 (run ops).
  Proof. intro ops. exact (run_from_inv2 ops init inv2_init). Qed.

  Lemma msgs_ok : forall ops p, In (MPiece p) (msgs (run ops)) ->
    is_valid_piece L p = true /\ l_completed L (p_index p) = true /\ len_ok p.
  Proof.
    intros ops p Hin. destruct (run_inv2 ops) as (_ & _ & _ & Hm).
    rewrite Forall_forall in Hm. exact (Hm _ Hin).
  Qed.

  Lemma limit_lt_two32 : params_ok P = true -> lenlimit P < two32.
  Proof. unfold params_ok, two32. intro H. apply N.leb_le in H. lia. Qed.

  (* is_valid_piece with the uint32 sum means what it should, given a uint32 length *)
  Lemma valid_spec : forall p, p_len p < two32 -> is_valid_piece L p = true ->
    p_index p < n_pieces L /\ 0 < p_len p /\ p_off p + p_len p <= piece_size L (p_index p) /\
    p_off p + p_len p < two32.
  Proof.
    intros p Hlen Hv. unfold is_valid_piece in Hv.
    rewrite !andb_true_iff in Hv. destruct Hv as [[[H1 H2] H3] H4].
    apply N.ltb_lt in H1. apply negb_true_iff in H2. apply N.eqb_neq in H2.
    apply N.leb_le in H3. apply N.leb_le in H4.
    unfold two32 in *.
    assert (p_off p + p_len p < 4294967296).
    { destruct (N.lt_ge_cases (p_off p + p_len p) 4294967296) as [Hlt|Hge]; [exact Hlt|exfalso].
      assert (Hm : (p_off p + p_len p) mod 4294967296 < 4294967296) by (apply N.mod_lt; discriminate).
      destruct (N.lt_ge_cases (p_off p) 4294967296) as [Ho|Ho]; [|lia].
      assert ((p_off p + p_len p) mod 4294967296 = p_off p + p_len p - 4294967296).
      { symmetry. apply N.mod_unique with (q := 1); lia. }
      lia. }
    rewrite N.mod_small in H3, H4 by assumption. repeat split; try assumption; lia.
  Qed.

  (* never_unverified *)
  Theorem never_unverified : forall ops p, In (MPiece p) (msgs (run ops)) -> l_completed L (p_index p) = true.
  Proof. intros ops p H. apply (msgs_ok ops p H). Qed.

  (* never_out_of_range (no uint32 wrap) + length part of length_limit *)
  Theorem never_out_of_range : forall ops p, params_ok P = true -> In (MPiece p) (msgs (run ops)) ->
    p_index p < n_pieces L /\ 0 < p_len p /\ p_len p <= lenlimit P /\ p_len p <= 131072 /\
    p_off p + p_len p <= piece_size L (p_index p).
  Proof.
    intros ops p HP H. destruct (msgs_ok ops p H) as (Hv & _ & Hl).
    assert (H17 : lenlimit P <= 131072) by (unfold params_ok in HP; apply N.leb_le in HP; exact HP).
    assert (Hlt : p_len p < two32) by (unfold len_ok in Hl; pose proof (limit_lt_two32 HP); lia).
    destruct (valid_spec p Hlt Hv) as (A & B & C & _). unfold len_ok in Hl. repeat split; try assumption; lia.
  Qed.

  (* length_limit: queue bound, no duplicate requests queued, every queued length within the limit *)
  Theorem length_limit : forall ops,
    N.of_nat (length (queue (run ops))) <= qlimit P /\
    NoDup (queue (run ops)) /\
    (forall p, In p (queue (run ops)) -> p_len p <= lenlimit P).
  Proof.
    intro ops. destruct (run_inv2 ops) as (Hl & Hn & Hd & _). repeat split; try assumption.
    intros p Hp. rewrite Forall_forall in Hl. exact (Hl p Hp).
  Qed.

  (* a CANCEL really removes the request (needs the no-duplicates invariant) *)
  Theorem cancel_effective : forall ops p, closed (run ops) = false ->
    ~ In p (queue (run (ops ++ [RecvCancel p]))).
  Proof.
    intros ops p Hc. unfold Model.run. rewrite fold_left_app. cbn [fold_left Model.step].
    change (fold_left step ops init) with (run ops).
    unfold recv_cancel. rewrite Hc; sel.
    apply remove_first_gone. apply (length_limit ops).
  Qed.
End Proofs.
