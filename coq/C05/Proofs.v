(* C05 proofs. Part A: constants; Part B: the wire invariant (what the peer has received plus what
   the writer still owes is exactly the encoding of the messages placed in the write buffer),
   for every op list and every sequence of socket budgets. *)
From Coq Require Import List NArith ZArith Bool Lia Arith ZifyBool ZifyNat ZifyN.
Ltac Zify.zify_post_hook ::= Z.div_mod_to_equations.
From LTV.C05 Require Import ParamsGen.
From LTV.C05 Require Import Model.
Import ListNotations.
Local Open Scope N_scope.

Definition params_ok : bool :=
  (Params.c05_max_request_queue =? 2048) && (Params.c05_request_len_limit =? 131072) &&
  (Params.c05_write_buffer_size =? 512) && (Params.c05_sizeof_piece_hdr =? 13) && (Params.c05_sizeof_choke =? 5).
Lemma params_ok_now : params_ok = true.
Proof. vm_compute. reflexivity. Qed.

Section Proofs.
  Variable L : layout.
  Variable content : N -> N -> N.

  Notation slice := (slice content).
  Notation fill := (fill L).
  Notation ew := (ew L content).
  Notation step := (step L content).
  Notation run := (run L content).
  Notation wire := (wire content).
  Notation pend_payload := (pend_payload content).
  Notation enc_msg := (enc_msg content).

  (* ---------- slices ---------- *)
  Lemma slice_fuel_app : forall a b i off,
    slice_fuel content (a + b) i off = slice_fuel content a i off ++ slice_fuel content b i (off + N.of_nat a).
  Proof.
    induction a as [|a IH]; intros b i off.
    - cbn [plus slice_fuel app]. rewrite N.add_0_r. reflexivity.
    - cbn [plus slice_fuel app]. rewrite IH. f_equal. f_equal. f_equal. lia.
  Qed.

  Lemma slice_split : forall i off n len, n <= len ->
    slice i off len = slice i off n ++ slice i (off + n) (len - n).
  Proof.
    intros i off n len H. unfold Model.slice.
    replace (N.to_nat len) with (N.to_nat n + N.to_nat (len - n))%nat by lia.
    rewrite slice_fuel_app. rewrite N2Nat.id. reflexivity.
  Qed.

  Lemma slice_zero : forall i off, slice i off 0 = [].
  Proof. reflexivity. Qed.

  Lemma slice_length : forall i off n, length (slice i off n) = N.to_nat n.
  Proof.
    intros i off n. unfold Model.slice. generalize (N.to_nat n) as f. intro f. revert off.
    induction f; intro off; cbn [slice_fuel length]; [reflexivity | now rewrite IHf].
  Qed.

  (* ---------- stream / wire bookkeeping ---------- *)
  Lemma stream_cons : forall (c : list N) (o : list (list N)), concat (rev (c :: o)) = concat (rev o) ++ c.
  Proof. intros. cbn [rev]. rewrite concat_app. cbn [concat]. now rewrite app_nil_r. Qed.

  Lemma wire_cons : forall m ms, wire (m :: ms) = wire ms ++ enc_msg m.
  Proof.
    intros. unfold Model.wire. cbn [rev]. rewrite map_app, concat_app. cbn [map concat]. now rewrite app_nil_r.
  Qed.

  Definition Inv (s : st) : Prop :=
    (ws s <> Msg -> obuf s = []) /\
    stream s ++ obuf s ++ pend_payload s = wire (msgs s).

  Lemma inv_init : Inv init.
  Proof. split; [intros _|]; reflexivity. Qed.

  Definition post_fill (s1 : st) : st :=
    match obuf s1 with [] => s1 | _ :: _ => set_ws s1 Msg end.

  Lemma post_fill_ne : forall s1, obuf s1 <> [] -> post_fill s1 = set_ws s1 Msg.
  Proof. intros s1 H. unfold post_fill. destruct (obuf s1); [congruence|reflexivity]. Qed.
  Lemma post_fill_e : forall s1, obuf s1 = [] -> post_fill s1 = s1.
  Proof. intros s1 H. unfold post_fill. now rewrite H. Qed.

  Lemma enc_choke_ne : forall c (t : list N), enc_choke c ++ t <> [].
  Proof. intros c t. unfold enc_choke, be32. cbn [app]. discriminate. Qed.
  Lemma enc_hdr_ne : forall p, enc_piece_hdr p <> [].
  Proof. intros p. unfold enc_piece_hdr, be32. cbn [app]. discriminate. Qed.

  Ltac c1 := first [ let Hx := fresh "Hx" in (intro Hx; exfalso; apply Hx; reflexivity) | intros _; first [reflexivity | assumption] ].
  Ltac sel := cbn [set_ws choked queue obuf msgs out last_piece cur closed ws send_choked].

  Lemma fill_inv : forall s, ws s = Idle -> Inv s -> Inv (post_fill (fill s)).
  Proof.
    intros s Hws [Hi Hw]. assert (Hi' : obuf s = []) by (apply Hi; rewrite Hws; discriminate). clear Hi. rename Hi' into Hi.
    unfold Inv, stream, Model.pend_payload in *. rewrite Hws, Hi in Hw. cbn [app] in Hw. rewrite app_nil_r in Hw.
    unfold Model.fill.
    destruct (send_choked s) eqn:Hsc, (choked s) eqn:Hc; sel.
    - (* CHOKE written, queue cleared *)
      rewrite post_fill_ne by (sel; rewrite <- (app_nil_r (enc_choke true)); apply enc_choke_ne). sel.
      split; [c1|]. rewrite wire_cons, <- Hw. cbn [Model.enc_msg]. rewrite app_nil_r. reflexivity.
    - destruct (queue s) as [|p q'] eqn:Hq; sel.
      + rewrite post_fill_ne by (sel; rewrite <- (app_nil_r (enc_choke false)); apply enc_choke_ne). sel.
        split; [c1|]. rewrite wire_cons, <- Hw. cbn [Model.enc_msg]. rewrite app_nil_r. reflexivity.
      + destruct (is_valid_piece L p && l_completed L (p_index p)); sel.
        * rewrite post_fill_ne by (sel; apply enc_choke_ne). sel.
          split; [c1|]. rewrite !wire_cons, <- Hw. cbn [Model.enc_msg].
          rewrite <- !app_assoc. reflexivity.
        * rewrite post_fill_e by reflexivity. sel.
          split; [c1|]. cbn [app]. rewrite app_nil_r. exact Hw.
    - (* nothing to announce, choked: nothing written *)
      rewrite post_fill_e by exact Hi.
      rewrite Hi, Hws. split; [c1|]. cbn [app]. rewrite app_nil_r. exact Hw.
    - destruct (queue s) as [|p q'] eqn:Hq; sel.
      + rewrite post_fill_e by exact Hi. rewrite Hi, Hws. split; [c1|]. cbn [app]. rewrite app_nil_r. exact Hw.
      + destruct (is_valid_piece L p && l_completed L (p_index p)); sel.
        * rewrite post_fill_ne by (sel; rewrite Hi; cbn [app]; apply enc_hdr_ne). sel.
          split; [c1|]. rewrite Hi. cbn [app]. rewrite wire_cons, <- Hw. cbn [Model.enc_msg].
          reflexivity.
        * rewrite post_fill_e by reflexivity. sel.
          split; [c1|]. cbn [app]. rewrite app_nil_r. exact Hw.
  Qed.
  Lemma fill_closed_obuf : forall s, closed s = false -> closed (fill s) = true -> obuf (fill s) = [].
  Proof.
    intros s Hc. unfold Model.fill.
    destruct (send_choked s), (choked s); sel;
      try (destruct (queue s) as [|p q']; sel);
      try (destruct (is_valid_piece L p && l_completed L (p_index p)); sel);
      intro H; try reflexivity; rewrite Hc in H; discriminate H.
  Qed.

  Lemma ew_inv : forall f k s, closed s = false -> Inv s -> Inv (ew f k s).
  Proof.
    induction f as [|f IH]; intros k s Hcl HI; cbn [Model.ew]; [exact HI|].
    destruct (ws s) eqn:Hws.
    - (* IDLE *)
      pose proof (fill_inv s Hws HI) as HF.
      destruct (closed (fill s)) eqn:Hcf.
      + rewrite post_fill_e in HF by (apply fill_closed_obuf; assumption). exact HF.
      + destruct (obuf (fill s)) eqn:Hob.
        * rewrite post_fill_e in HF by exact Hob. exact HF.
        * rewrite post_fill_ne in HF by (rewrite Hob; discriminate). apply IH; [exact Hcf|exact HF].
    - (* MSG *)
      destruct HI as [Hi Hw].
      destruct (N.min k (N.of_nat (length (obuf s))) =? 0) eqn:Hn; [split; assumption|].
      set (n := N.min k (N.of_nat (length (obuf s)))) in *.
      assert (HI1 : Inv (write_buf s n)).
      { split; [unfold write_buf; sel; rewrite Hws; c1|].
        unfold Inv, stream, Model.pend_payload, write_buf in *; sel.
        rewrite stream_cons, Hws. rewrite Hws in Hw. rewrite <- Hw.
        rewrite <- (firstn_skipn (N.to_nat n) (obuf s)) at 3. rewrite <- !app_assoc. reflexivity. }
      destruct (obuf (write_buf s n)) eqn:Hob; [|exact HI1].
      destruct HI1 as [Hi1 Hw1].
      unfold Inv, stream, Model.pend_payload in *.
      assert (Hws1 : ws (write_buf s n) = Msg) by (unfold write_buf; sel; exact Hws).
      rewrite Hws1, Hob in Hw1.
      destruct (last_piece (write_buf s n)) eqn:Hlp.
      + apply IH; [unfold write_buf; sel; exact Hcl|].
        split; sel; [intros _; exact Hob|]. rewrite Hob. exact Hw1.
      + apply IH; [unfold write_buf; sel; exact Hcl|].
        split; sel; [intros _; exact Hob|]. rewrite Hob. exact Hw1.
    - (* WRITE_PIECE *)
      destruct HI as [Hi Hw].
      assert (Hob : obuf s = []) by (apply Hi; rewrite Hws; discriminate).
      destruct (N.min k (p_len (cur s)) =? 0) eqn:Hn; [split; assumption|].
      set (n := N.min k (p_len (cur s))) in *.
      assert (Hle : n <= p_len (cur s)) by (subst n; lia).
      assert (HI1 : Inv (write_payload content s n)).
      { split; [unfold write_payload; sel; intros _; exact Hob|].
        unfold Inv, stream, Model.pend_payload, write_payload in *; sel.
        rewrite stream_cons, Hws, Hob. rewrite Hws, Hob in Hw. rewrite <- Hw. cbn [app].
        rewrite (slice_split (p_index (cur s)) (p_off (cur s)) n (p_len (cur s)) Hle).
        cbn [p_index p_off p_len]. rewrite <- !app_assoc. reflexivity. }
      destruct (p_len (cur (write_payload content s n)) =? 0) eqn:Hz; [|exact HI1].
      apply IH; [unfold write_payload; sel; exact Hcl|].
      destruct HI1 as [Hi1 Hw1].
      assert (Hws1 : ws (write_payload content s n) = WPiece) by (unfold write_payload; sel; exact Hws).
      split; sel; [intros _; apply Hi1; rewrite Hws1; discriminate|].
      unfold Inv, stream, Model.pend_payload in *. rewrite Hws1 in Hw1. sel.
      apply N.eqb_eq in Hz. rewrite Hz in Hw1. rewrite slice_zero in Hw1. exact Hw1.
  Qed.
  Definition run_from (s : st) (ops : list op) : st := fold_left step ops s.

  Lemma run_from_app : forall a b s, run_from s (a ++ b) = run_from (run_from s a) b.
  Proof. intros. unfold run_from. apply fold_left_app. Qed.

  Lemma closed_ew : forall f k s, closed s = false -> closed (ew f k s) = true ->
    ws (ew f k s) = Idle /\ obuf (ew f k s) = [].
  Proof.
    induction f as [|f IH]; intros k s Hc; cbn [Model.ew]; [intro H; congruence|].
    destruct (ws s) eqn:Hws.
    - destruct (closed (fill s)) eqn:Hcf.
      + intros _. split; [|apply fill_closed_obuf; assumption].
        revert Hcf. unfold Model.fill.
        destruct (send_choked s), (choked s); sel;
          try (destruct (queue s) as [|p q']; sel);
          try (destruct (is_valid_piece L p && l_completed L (p_index p)); sel);
          intro H; try reflexivity; rewrite Hc in H; discriminate H.
      + destruct (obuf (fill s)); [intro H; congruence|]. apply IH. exact Hcf.
    - destruct (N.min k (N.of_nat (length (obuf s))) =? 0); [intro H; congruence|].
      destruct (obuf (write_buf s _)); [|unfold write_buf; sel; intro H; congruence].
      destruct (last_piece (write_buf s _)); apply IH; unfold write_buf; sel; exact Hc.
    - destruct (N.min k (p_len (cur s)) =? 0); [intro H; congruence|].
      destruct (p_len (cur (write_payload content s _)) =? 0);
        [apply IH; unfold write_payload; sel; exact Hc | unfold write_payload; sel; intro H; congruence].
  Qed.

  Lemma step_inv : forall s o, Inv s -> Inv (step s o).
  Proof.
    intros s o HI. destruct o as [p|p|c|k]; cbn [Model.step].
    - unfold recv_request. destruct (closed s); [exact HI|].
      destruct (choked s || _ || _); [exact HI|]. destruct (existsb _ _); exact HI.
    - unfold recv_cancel. destruct (closed s); exact HI.
    - unfold decide. destruct (closed s); [exact HI|]. destruct (Bool.eqb c (choked s)); exact HI.
    - destruct (closed s) eqn:Hc; [exact HI|]. apply ew_inv; assumption.
  Qed.

  Lemma run_from_inv : forall ops s, Inv s -> Inv (run_from s ops).
  Proof.
    induction ops as [|o ops IH]; intros s HI; [exact HI|]. cbn [run_from fold_left]. apply IH, step_inv, HI.
  Qed.

  (* piece_bytes_exact: for every op list (hence every segmentation of the writes), the bytes the
     peer has received, followed by what is still in the write buffer and the unsent rest of the
     block being streamed, are exactly the encoding of the messages placed in the buffer:
     each PIECE header (i,b,l) is followed by content i [b, b+l) and nothing else. *)
  Theorem piece_bytes_exact : forall ops,
    let s := run ops in
    stream s ++ obuf s ++ pend_payload s = wire (msgs s).
  Proof. intros ops. exact (proj2 (run_from_inv ops init inv_init)). Qed.

  Corollary piece_bytes_exact_idle : forall ops,
    ws (run ops) = Idle -> stream (run ops) = wire (msgs (run ops)).
  Proof.
    intros ops Hws. pose proof (run_from_inv ops init inv_init) as [Hi Hw]. change (run_from init ops) with (run ops) in *.
    unfold Model.pend_payload in Hw. rewrite Hws in Hw. rewrite Hi in Hw by (rewrite Hws; discriminate).
    cbn [app] in Hw. now rewrite app_nil_r in Hw.
  Qed.
  (* ---------- message-level invariants ---------- *)
  Lemma piece_eqb_eq : forall a b, piece_eqb a b = true <-> a = b.
  Proof.
    intros [a1 a2 a3] [b1 b2 b3]. unfold piece_eqb. cbn [p_index p_off p_len].
    rewrite !andb_true_iff, !N.eqb_eq. split; [intros [[-> ->] ->]; reflexivity | intro H; inversion H; auto].
  Qed.

  Lemma existsb_piece : forall p q, existsb (piece_eqb p) q = false -> ~ In p q.
  Proof.
    intros p q H Hin. assert (existsb (piece_eqb p) q = true); [|congruence].
    apply existsb_exists. exists p. split; [exact Hin|]. apply piece_eqb_eq. reflexivity.
  Qed.

  Lemma remove_first_sub : forall p q x, In x (remove_first p q) -> In x q.
  Proof.
    induction q as [|y q IH]; intros x; cbn [remove_first]; [tauto|].
    destruct (piece_eqb y p); cbn [In]; [tauto|]. intros [->|H]; [tauto|right; auto].
  Qed.

  Lemma remove_first_nodup : forall p q, NoDup q -> NoDup (remove_first p q).
  Proof.
    induction q as [|y q IH]; intros Hnd; cbn [remove_first]; [constructor|].
    inversion Hnd; subst. destruct (piece_eqb y p); [assumption|].
    constructor; [intro Hin; apply remove_first_sub in Hin; contradiction | apply IH; assumption].
  Qed.

  Lemma remove_first_length : forall p q, (length (remove_first p q) <= length q)%nat.
  Proof.
    induction q as [|y q IH]; cbn [remove_first length]; [lia|]. destruct (piece_eqb y p); cbn [length]; lia.
  Qed.

  (* a CANCEL removes the request: with no duplicates in the queue nothing equal remains *)
  Lemma remove_first_gone : forall p q, NoDup q -> ~ In p (remove_first p q).
  Proof.
    induction q as [|y q IH]; intros Hnd; cbn [remove_first]; [tauto|].
    inversion Hnd; subst. destruct (piece_eqb y p) eqn:E.
    - apply piece_eqb_eq in E. subst y. assumption.
    - cbn [In]. intros [->|Hin]; [|apply IH; assumption].
      assert (piece_eqb p p = true) by (apply piece_eqb_eq; reflexivity). congruence.
  Qed.

  Lemma nodup_snoc : forall (q : list piece) p, NoDup q -> ~ In p q -> NoDup (q ++ [p]).
  Proof.
    induction q as [|y q IH]; intros p Hnd Hni; cbn [app]; [constructor; [tauto|constructor]|].
    inversion Hnd; subst. constructor.
    - rewrite in_app_iff. cbn [In]. intros [H|[H|[]]]; [contradiction|]. subst. apply Hni. left. reflexivity.
    - apply IH; [assumption|]. intro H. apply Hni. right. exact H.
  Qed.

  Definition len_ok (p : piece) : Prop := p_len p <= Params.c05_request_len_limit.
  Definition msg_ok (m : msg) : Prop :=
    match m with
    | MChoke _ => True
    | MPiece p => is_valid_piece L p = true /\ l_completed L (p_index p) = true /\ len_ok p
    end.

  Definition Inv2 (s : st) : Prop :=
    Forall len_ok (queue s) /\
    N.of_nat (length (queue s)) <= Params.c05_max_request_queue /\
    NoDup (queue s) /\
    Forall msg_ok (msgs s).

  Lemma inv2_init : Inv2 init.
  Proof. unfold Inv2, init; sel. cbn [length]. repeat split; try constructor. apply N.le_0_l. Qed.

  Lemma fill_inv2 : forall s, Inv2 s -> Inv2 (fill s).
  Proof.
    intros s (Hl & Hn & Hd & Hm). unfold Model.fill, Inv2.
    destruct (send_choked s), (choked s); sel;
      try (destruct (queue s) as [|p q'] eqn:Hq; sel);
      try (destruct (is_valid_piece L p && l_completed L (p_index p)) eqn:Hv; sel);
      cbn [length] in *;
      repeat match goal with
      | H : Forall _ (_ :: _) |- _ => inversion H; subst; clear H
      | H : NoDup (_ :: _) |- _ => inversion H; subst; clear H
      end;
      repeat split; try assumption; try constructor; try assumption; try (cbn [msg_ok]; exact I);
      try (apply N.le_0_l); try lia;
      try (apply andb_true_iff in Hv; destruct Hv; cbn [msg_ok]; repeat split; assumption);
      try (constructor; [cbn [msg_ok]; exact I | assumption]);
      try (rewrite Hq; cbn [length]; first [constructor | apply N.le_0_l]).
  Qed.

  Lemma ew_inv2 : forall f k s, Inv2 s -> Inv2 (ew f k s).
  Proof.
    induction f as [|f IH]; intros k s HI; cbn [Model.ew]; [exact HI|].
    destruct (ws s).
    - pose proof (fill_inv2 s HI) as HF. destruct (closed (fill s)); [exact HF|].
      destruct (obuf (fill s)); [exact HF|]. apply IH. exact HF.
    - destruct (N.min k (N.of_nat (length (obuf s))) =? 0); [exact HI|].
      destruct (obuf (write_buf s _)); [|exact HI].
      destruct (last_piece (write_buf s _)); apply IH; exact HI.
    - destruct (N.min k (p_len (cur s)) =? 0); [exact HI|].
      destruct (p_len (cur (write_payload content s _)) =? 0); [apply IH|]; exact HI.
  Qed.

  Lemma step_inv2 : forall s o, Inv2 s -> Inv2 (step s o).
  Proof.
    intros s o HI. destruct o as [p|p|c|k]; cbn [Model.step].
    - unfold recv_request. destruct (closed s); [exact HI|].
      destruct (choked s || (Params.c05_max_request_queue <=? N.of_nat (length (queue s)))
                || (Params.c05_request_len_limit <? p_len p)) eqn:Hg; [exact HI|].
      destruct (existsb (piece_eqb p) (queue s)) eqn:He; [exact HI|].
      apply orb_false_iff in Hg. destruct Hg as [Hg Hlen]. apply orb_false_iff in Hg. destruct Hg as [_ Hq].
      apply N.leb_gt in Hq. apply N.ltb_ge in Hlen.
      destruct HI as (Hl & Hn & Hd & Hm). unfold Inv2; sel. repeat split.
      + apply Forall_app. split; [assumption|]. constructor; [exact Hlen|constructor].
      + rewrite app_length. cbn [length]. lia.
      + apply nodup_snoc; [assumption|]. apply existsb_piece. exact He.
      + assumption.
    - unfold recv_cancel. destruct (closed s); [exact HI|].
      destruct HI as (Hl & Hn & Hd & Hm). unfold Inv2; sel. repeat split.
      + apply Forall_forall. intros x Hx. apply remove_first_sub in Hx. revert x Hx. apply Forall_forall. assumption.
      + pose proof (remove_first_length p (queue s)). lia.
      + apply remove_first_nodup. assumption.
      + assumption.
    - unfold decide. destruct (closed s); [exact HI|]. destruct (Bool.eqb c (choked s)); exact HI.
    - destruct (closed s); [exact HI|]. apply ew_inv2. exact HI.
  Qed.
  Lemma run_from_inv2 : forall ops s, Inv2 s -> Inv2 (run_from s ops).
  Proof.
    induction ops as [|o ops IH]; intros s HI; [exact HI|]. cbn [run_from fold_left]. apply IH, step_inv2, HI.
  Qed.

  Lemma run_inv2 : forall ops, Inv2 (run ops).
  Proof. intro ops. exact (run_from_inv2 ops init inv2_init). Qed.

  Lemma msgs_ok : forall ops p, In (MPiece p) (msgs (run ops)) ->
    is_valid_piece L p = true /\ l_completed L (p_index p) = true /\ len_ok p.
  Proof.
    intros ops p Hin. destruct (run_inv2 ops) as (_ & _ & _ & Hm).
    rewrite Forall_forall in Hm. exact (Hm _ Hin).
  Qed.

  Lemma limit_lt_two32 : Params.c05_request_len_limit < two32.
  Proof. reflexivity. Qed.

  (* is_valid_piece with the uint32 sum means what it should, given a uint32 length *)
  Lemma valid_spec : forall p, p_len p < two32 -> is_valid_piece L p = true ->
    p_index p < n_pieces L /\ 0 < p_len p /\ p_off p + p_len p <= piece_size L (p_index p) /\
    p_off p + p_len p < two32.
  Proof.
    intros p Hlen Hv. unfold is_valid_piece in Hv.
    rewrite !andb_true_iff in Hv. destruct Hv as [[[H1 H2] H3] H4].
    apply N.ltb_lt in H1. apply negb_true_iff in H2. apply N.eqb_neq in H2.
    apply N.leb_le in H3. apply N.leb_le in H4.
    unfold two32 in *.
    assert (p_off p + p_len p < 4294967296).
    { destruct (N.lt_ge_cases (p_off p + p_len p) 4294967296) as [Hlt|Hge]; [exact Hlt|exfalso].
      assert (Hm : (p_off p + p_len p) mod 4294967296 < 4294967296) by (apply N.mod_lt; discriminate).
      destruct (N.lt_ge_cases (p_off p) 4294967296) as [Ho|Ho]; [|lia].
      assert ((p_off p + p_len p) mod 4294967296 = p_off p + p_len p - 4294967296).
      { symmetry. apply N.mod_unique with (q := 1); lia. }
      lia. }
    rewrite N.mod_small in H3, H4 by assumption. repeat split; try assumption; lia.
  Qed.

  (* never_unverified *)
  Theorem never_unverified : forall ops p, In (MPiece p) (msgs (run ops)) -> l_completed L (p_index p) = true.
  Proof. intros ops p H. apply (msgs_ok ops p H). Qed.

  (* never_out_of_range (no uint32 wrap) + length part of length_limit *)
  Theorem never_out_of_range : forall ops p, In (MPiece p) (msgs (run ops)) ->
    p_index p < n_pieces L /\ 0 < p_len p /\ p_len p <= Params.c05_request_len_limit /\
    p_off p + p_len p <= piece_size L (p_index p).
  Proof.
    intros ops p H. destruct (msgs_ok ops p H) as (Hv & _ & Hl).
    assert (Hlt : p_len p < two32) by (unfold len_ok in Hl; pose proof limit_lt_two32; lia).
    destruct (valid_spec p Hlt Hv) as (A & B & C & _). repeat split; assumption.
  Qed.

  (* length_limit: queue bound, no duplicate requests queued, every queued length within the limit *)
  Theorem length_limit : forall ops,
    N.of_nat (length (queue (run ops))) <= Params.c05_max_request_queue /\
    NoDup (queue (run ops)) /\
    (forall p, In p (queue (run ops)) -> p_len p <= Params.c05_request_len_limit).
  Proof.
    intro ops. destruct (run_inv2 ops) as (Hl & Hn & Hd & _). repeat split; try assumption.
    intros p Hp. rewrite Forall_forall in Hl. exact (Hl p Hp).
  Qed.

  (* a CANCEL really removes the request (needs the no-duplicates invariant) *)
  Theorem cancel_effective : forall ops p, closed (run ops) = false ->
    ~ In p (queue (run (ops ++ [RecvCancel p]))).
  Proof.
    intros ops p Hc. unfold Model.run. rewrite fold_left_app. cbn [fold_left Model.step].
    change (fold_left step ops init) with (run ops).
    unfold recv_cancel. rewrite Hc; sel.
    apply remove_first_gone. apply (length_limit ops).
  Qed.
End Proofs.
