(* C05 proofs, part E: the fuel of [ew] is sufficient. [ew] follows event_write's loop for at most
   ew_fuel s = 13 |queue| + 30 iterations; here: on every reachable state that bound is never hit --
   any larger fuel gives the same result (so the out-of-fuel exit of the Fixpoint is dead code and
   the model never stops a write call early). The measure: per queued block 1 (IDLE) + 1 (MSG) +
   at most 2^17/16384 + 3 WRITE_PIECE rounds. *)
From Coq Require Import List NArith ZArith Bool Lia Arith ZifyBool ZifyNat ZifyN.
From LTV.C05 Require Import ParamsGen Model Proofs ProofsB.
Import ListNotations.
Local Open Scope N_scope.
Ltac Zify.zify_post_hook ::= Z.div_mod_to_equations.

Section ProofsD.
  Variable L : layout.
  Variable content : N -> N -> N.
  Variable enc : bool.
  Variable ks : N -> N.

  Notation fill := (fill L enc ks).
  Notation ew := (ew L content enc ks).
  Notation step := (step L content enc ks).
  Notation run := (run L content enc ks).
  Notation up_chunk := (up_chunk content enc ks).
  Notation enc_refill := (enc_refill content enc ks).
  Notation Inv := (Inv content enc ks).
  Notation Inv2 := (Inv2 L).

  Ltac sel := cbn [set_ws write_buf write_payload write_ebuf choked queue obuf msgs out last_piece cur closed ws send_choked ebuf eb_end kpos upc load_chunk p_index p_off p_len].

  Definition blocks (n : N) : nat := N.to_nat ((n + 16383) / 16384).
  Definition phi (s : st) : nat := (blocks (p_len (cur s)) + (if (len (ebuf s) =? 0)%N then 0 else 1))%nat.
  Definition m_idle (s : st) : nat := (13 * length (queue s) + 3 + (if send_choked s then 2 else 0))%nat.
  Definition M (s : st) (k : N) : nat :=
    match ws s with
    | Idle => m_idle s
    | Msg => (1 + (if last_piece s then 11 else 0) + m_idle s)%nat
    | WPiece => ((if (k =? 0)%N then 1 else phi s + 2) + m_idle s)%nat
    end.

  Definition streaming (s : st) : Prop := ws s = WPiece \/ (ws s = Msg /\ last_piece s = true).
  (* what the induction carries *)
  Definition G (s : st) : Prop :=
    Inv s /\ Inv2 s /\ (streaming s -> p_len (cur s) <= 131072) /\ closed s = false.

  Lemma M_pos : forall s k, (1 <= M s k)%nat.
  Proof. intros. unfold M, m_idle. destruct (ws s); try destruct (k =? 0); lia. Qed.

  Lemma blocks_le : forall n, n <= 131072 -> (blocks n <= 8)%nat.
  Proof. intros n H. unfold blocks. lia. Qed.

  Lemma blocks_step : forall n, 0 < n -> (blocks (n - N.min n 16384) < blocks n)%nat.
  Proof. intros n H. unfold blocks. lia. Qed.

  Lemma blocks_mono : forall a b, a <= b -> (blocks a <= blocks b)%nat.
  Proof. intros a b H. unfold blocks. lia. Qed.

  (* exact effect of one up_chunk call *)
  Lemma up_chunk_progress : forall s k, Inv s -> ws s = WPiece ->
    let s1 := fst (up_chunk s k) in let n := snd (up_chunk s k) in
    n <= k /\ n <= p_len (cur s) /\ p_len (cur s1) = p_len (cur s) - n /\
    (n < k -> len (ebuf s1) = 0 /\
              (len (ebuf s) = 0 -> n = N.min (p_len (cur s)) 16384 \/ n = p_len (cur s))).
  Proof.
    intros s k HI Hws. cbn zeta. unfold Model.up_chunk.
    destruct (Bool.bool_dec enc true) as [Henc|Henc].
    - rewrite (if_true_eq _ enc _ _ Henc).
      pose proof (enc_refill_inv content enc ks s HI Hws Henc) as HI0.
      pose proof (enc_refill_ws content enc ks s) as Hw0.
      destruct HI0 as (_ & _ & _ & Hl0 & _). rewrite Hw0, Hws in Hl0.
      assert (Hc0 : cur (enc_refill s) = cur s).
      { unfold Model.enc_refill. destruct (p_len (cur s) <=? len (ebuf s)); reflexivity. }
      assert (He0 : len (ebuf s) = 0 -> len (ebuf (enc_refill s)) = N.min (p_len (cur s)) 16384).
      { intro Hz. unfold Model.enc_refill. destruct (p_len (cur s) <=? len (ebuf s)) eqn:E.
        - apply N.leb_le in E. rewrite Hz in *. lia.
        - sel. rewrite len_app, len_crypt, (len_slice content ks), Hz. cbn [N.eqb]. unfold eb_size. lia. }
      rewrite Hc0 in *.
      set (e0 := len (ebuf (enc_refill s))) in *.
      destruct (N.min k (N.min (p_len (cur s)) e0) =? 0) eqn:Hn; cbn [fst snd].
      + apply N.eqb_eq in Hn. rewrite Hc0. split; [|split; [|split]]; try lia;
        intro Hlt; (split; [fold e0; lia|]); intros Hz; left; rewrite <- (He0 Hz); lia.
      + unfold write_ebuf; sel. rewrite Hc0. cbn [p_len]. split; [|split; [|split]]; try lia;
        intro Hlt; split;
        [ unfold len; rewrite skipn_length; fold e0; unfold len in e0; lia
        | intros Hz; left; rewrite <- (He0 Hz); lia ].
    - apply Bool.not_true_is_false in Henc. rewrite (if_false_eq _ enc _ _ Henc).
      destruct HI as (_ & _ & Hp & _). pose proof (Hp Henc) as Heb.
      destruct (N.min k (p_len (cur s)) =? 0) eqn:Hn; cbn [fst snd].
      + apply N.eqb_eq in Hn. split; [|split; [|split]]; try lia;
        intro Hlt; (split; [rewrite Heb; reflexivity|]); intros _; right; lia.
      + unfold write_payload; sel. split; [|split; [|split]]; try lia;
        intro Hlt; (split; [rewrite Heb; reflexivity|]); intros _; right; lia.
  Qed.
  Lemma limit_is : Params.c05_request_len_limit = 131072.
  Proof. reflexivity. Qed.

  (* fill buffered something on an idle connection: measure drops, the block bound holds *)
  Lemma fill_measure : forall s, obuf s = [] -> Inv2 s -> obuf (fill s) <> [] ->
    (1 + (if last_piece (fill s) then 11 else 0) + m_idle (fill s) < m_idle s)%nat /\
    (last_piece (fill s) = true -> p_len (cur (fill s)) <= 131072).
  Proof.
    intros s Hob (Hl & _) . unfold Model.fill, m_idle.
    destruct (send_choked s) eqn:Hsc, (choked s) eqn:Hc; sel;
      try (destruct (queue s) as [|p q'] eqn:Hq; sel);
      try (destruct (is_valid_piece L p && l_completed L (p_index p)) eqn:Hv; sel);
      rewrite ?Hob, ?Hsc, ?Hc; cbn [app length]; rewrite ?(crypt_nil enc ks); intro Hne; try (exfalso; apply Hne; reflexivity);
      (split; [lia|]); intro Hlp; try discriminate Hlp;
      inversion Hl as [|? ? Hp _]; subst; unfold len_ok in Hp; rewrite limit_is in Hp; exact Hp.
  Qed.

  Lemma inv2_same_qm : forall s s', queue s' = queue s -> msgs s' = msgs s -> Inv2 s -> Inv2 s'.
  Proof. intros s s' Q Mm. unfold Proofs.Inv2. rewrite Q, Mm. tauto. Qed.

  Lemma ew_enough : forall f k s g, G s -> (M s k <= f)%nat -> ew (f + g) k s = ew f k s.
  Proof.
    induction f as [|f IH]; intros k s g HG HM.
    { pose proof (M_pos s k). lia. }
    destruct HG as (HI & HI2 & HB & Hcl).
    cbn [Nat.add Model.ew]. unfold M in HM. destruct (ws s) eqn:Hws.
    - (* IDLE *)
      assert (Hob : obuf s = []) by (apply (proj1 HI); rewrite Hws; discriminate).
      destruct (closed (fill s)) eqn:Hcf; [reflexivity|].
      destruct (obuf (fill s)) eqn:Hb; [reflexivity|].
      assert (Hne : obuf (fill s) <> []) by (rewrite Hb; discriminate).
      destruct (fill_measure s Hob HI2 Hne) as (Hm & Hbound).
      pose proof (fill_inv L content enc ks s Hws HI) as HF. rewrite post_fill_ne in HF by exact Hne.
      apply IH.
      + split; [exact HF|]. split; [exact (fill_inv2 L enc ks s HI2)|]. split; [|exact Hcf].
        unfold streaming; sel. intros [X|[_ X]]; [discriminate X | exact (Hbound X)].
      + unfold M; sel. unfold m_idle in *; sel. lia.
    - (* MSG *)
      destruct (N.min k (N.of_nat (length (obuf s))) =? 0) eqn:Hn; [reflexivity|].
      set (n := N.min k (N.of_nat (length (obuf s)))) in *.
      pose proof (write_buf_inv content enc ks s n HI Hws) as HI1.
      destruct (obuf (write_buf s n)) eqn:Hb; [|reflexivity].
      assert (Hws1 : ws (write_buf s n) = Msg) by exact Hws.
      assert (Heb : ebuf s = []) by (apply (proj1 (proj2 HI)); rewrite Hws; discriminate).
      destruct (last_piece (write_buf s n)) eqn:Hlp.
      + assert (Hlp' : last_piece s = true) by exact Hlp.
        assert (Hlen : p_len (cur s) <= 131072) by (apply HB; right; split; assumption).
        apply IH.
        * split; [apply (msg_to_next content enc ks (write_buf s n) WPiece HI1 Hws1 Hb); rewrite Hlp; reflexivity|].
          split; [exact HI2|]. split; [intros _; exact Hlen | exact Hcl].
        * unfold M; sel. unfold phi, m_idle in *; sel. rewrite Heb. cbn [len length N.of_nat N.eqb].
          pose proof (blocks_le _ Hlen). rewrite Hlp' in HM. destruct (k - n =? 0); lia.
      + assert (Hlp' : last_piece s = false) by exact Hlp.
        apply IH.
        * split; [apply (msg_to_next content enc ks (write_buf s n) Idle HI1 Hws1 Hb); rewrite Hlp; reflexivity|].
          split; [exact HI2|]. split; [|exact Hcl].
          unfold streaming; sel. intros [X|[X _]]; discriminate X.
        * unfold M; sel. unfold m_idle in *; sel. rewrite Hlp' in HM. lia.
    - (* WRITE_PIECE *)
      destruct (up_chunk_inv content enc ks s k HI Hws) as (HI1 & Hws1 & Hc1).
      pose proof (up_chunk_same content enc ks s k) as (Q & Mm & _ & Sc & _ & _).
      pose proof (up_chunk_progress s k HI Hws) as (Pk & Pl & Pc & Pfull).
      assert (Hlen : p_len (cur s) <= 131072) by (apply HB; left; exact Hws).
      destruct (up_chunk s k) as [s1 n]. cbn [fst snd] in *.
      destruct (n =? 0) eqn:Hn0; [reflexivity|]. apply N.eqb_neq in Hn0.
      assert (Hk : (k =? 0) = false) by (apply N.eqb_neq; lia).
      rewrite Hk in HM.
      destruct (p_len (cur s1) =? 0) eqn:Hz.
      + apply IH.
        * split; [apply wpiece_to_idle; try assumption; apply N.eqb_eq; exact Hz|].
          split; [apply (inv2_same_qm s); assumption|]. split; [|sel; congruence].
          unfold streaming; sel. intros [X|[X _]]; discriminate X.
        * unfold M; sel. unfold m_idle in *; sel. rewrite Q, Sc. lia.
      + apply N.eqb_neq in Hz. apply IH.
        * split; [exact HI1|]. split; [apply (inv2_same_qm s); assumption|]. split; [intros _; lia | congruence].
        * unfold M. rewrite Hws1. unfold m_idle in *. rewrite Q, Sc.
          destruct (k - n =? 0) eqn:Hkn; [lia|]. apply N.eqb_neq in Hkn.
          destruct (Pfull ltac:(lia)) as (He1 & Hcase).
          unfold phi in *. rewrite He1. cbn [N.eqb].
          destruct (len (ebuf s) =? 0) eqn:Hr.
          -- apply N.eqb_eq in Hr. destruct (Hcase Hr) as [E|E]; [|lia].
             pose proof (blocks_step (p_len (cur s)) ltac:(lia)) as Bs. rewrite Pc, E. lia.
          -- pose proof (blocks_mono (p_len (cur s1)) (p_len (cur s)) ltac:(lia)). lia.
  Qed.

  Definition G' (s : st) : Prop := Inv s /\ Inv2 s /\ (streaming s -> p_len (cur s) <= 131072).

  Lemma fill_ws : forall s, ws (fill s) = ws s \/ ws (fill s) = Idle.
  Proof.
    intro s. unfold Model.fill.
    destruct (send_choked s), (choked s); sel;
      try (destruct (queue s) as [|p q']; sel);
      try (destruct (is_valid_piece L p && l_completed L (p_index p)); sel); auto.
  Qed.

  Lemma ew_G' : forall f k s, G' s -> closed s = false -> G' (ew f k s).
  Proof.
    induction f as [|f IH]; intros k s HG Hcl; [exact HG|].
    destruct HG as (HI & HI2 & HB).
    cbn [Model.ew]. destruct (ws s) eqn:Hws.
    - assert (Hob : obuf s = []) by (apply (proj1 HI); rewrite Hws; discriminate).
      pose proof (fill_inv L content enc ks s Hws HI) as HF.
      pose proof (fill_inv2 L enc ks s HI2) as HF2.
      assert (Hidle : ws (fill s) = Idle) by (destruct (fill_ws s) as [X|X]; congruence).
      assert (Hnostream : streaming (fill s) -> p_len (cur (fill s)) <= 131072).
      { unfold streaming. rewrite Hidle. intros [X|[X _]]; discriminate X. }
      destruct (closed (fill s)) eqn:Hcf.
      + rewrite post_fill_e in HF by (apply fill_closed_obuf; assumption). split; [exact HF|split; [exact HF2|exact Hnostream]].
      + destruct (obuf (fill s)) eqn:Hb.
        * rewrite post_fill_e in HF by exact Hb. split; [exact HF|split; [exact HF2|exact Hnostream]].
        * assert (Hne : obuf (fill s) <> []) by (rewrite Hb; discriminate).
          destruct (fill_measure s Hob HI2 Hne) as (_ & Hbound).
          rewrite post_fill_ne in HF by exact Hne.
          apply IH; [|exact Hcf]. split; [exact HF|]. split; [exact HF2|].
          unfold streaming; sel. intros [X|[_ X]]; [discriminate X | exact (Hbound X)].
    - destruct (N.min k (N.of_nat (length (obuf s))) =? 0) eqn:Hn; [split; [exact HI|split; [exact HI2|exact HB]]|].
      set (n := N.min k (N.of_nat (length (obuf s)))) in *.
      pose proof (write_buf_inv content enc ks s n HI Hws) as HI1.
      destruct (obuf (write_buf s n)) eqn:Hb; [|split; [exact HI1|split; [exact HI2|exact HB]]].
      assert (Hws1 : ws (write_buf s n) = Msg) by exact Hws.
      destruct (last_piece (write_buf s n)) eqn:Hlp.
      + assert (Hlp' : last_piece s = true) by exact Hlp.
        assert (Hlen : p_len (cur s) <= 131072) by (apply HB; right; split; assumption).
        apply IH; [|exact Hcl].
        split; [apply (msg_to_next content enc ks (write_buf s n) WPiece HI1 Hws1 Hb); rewrite Hlp; reflexivity|].
        split; [exact HI2|]. intros _; exact Hlen.
      + apply IH; [|exact Hcl].
        split; [apply (msg_to_next content enc ks (write_buf s n) Idle HI1 Hws1 Hb); rewrite Hlp; reflexivity|].
        split; [exact HI2|]. unfold streaming; sel. intros [X|[X _]]; discriminate X.
    - destruct (up_chunk_inv content enc ks s k HI Hws) as (HI1 & Hws1 & Hc1).
      pose proof (up_chunk_same content enc ks s k) as (Q & Mm & _ & Sc & _ & _).
      pose proof (up_chunk_progress s k HI Hws) as (Pk & Pl & Pc & _).
      assert (Hlen : p_len (cur s) <= 131072) by (apply HB; left; exact Hws).
      destruct (up_chunk s k) as [s1 n]. cbn [fst snd] in *.
      assert (G1 : G' s1).
      { split; [exact HI1|]. split; [apply (inv2_same_qm s); assumption|]. intros _. lia. }
      destruct (n =? 0); [exact G1|].
      destruct (p_len (cur s1) =? 0) eqn:Hz.
      + apply IH; [|sel; congruence].
        split; [apply wpiece_to_idle; try assumption; apply N.eqb_eq; exact Hz|].
        split; [apply (inv2_same_qm s); assumption|].
        unfold streaming; sel. intros [X|[X _]]; discriminate X.
      + apply IH; [exact G1 | congruence].
  Qed.

  Lemma G'_run : forall ops, G' (run ops).
  Proof.
    intro ops. unfold Model.run.
    assert (H : forall s, G' s -> G' (fold_left step ops s)).
    { induction ops as [|o ops IH]; intros s HG; [exact HG|]. cbn [fold_left]. apply IH.
      destruct o as [p|p|c|k]; cbn [Model.step].
      - destruct HG as (HI & HI2 & HB). split; [apply (step_inv L content enc ks s (RecvRequest p) HI)|].
        split; [apply (step_inv2 L content enc ks s (RecvRequest p) HI2)|].
        cbn [Model.step]. unfold recv_request. destruct (closed s); [exact HB|].
        destruct (_ || _ || _); [exact HB|]. destruct (existsb _ _); exact HB.
      - destruct HG as (HI & HI2 & HB). split; [apply (step_inv L content enc ks s (RecvCancel p) HI)|].
        split; [apply (step_inv2 L content enc ks s (RecvCancel p) HI2)|].
        unfold recv_cancel. destruct (closed s); exact HB.
      - destruct HG as (HI & HI2 & HB). split; [apply (step_inv L content enc ks s (Decide c) HI)|].
        split; [apply (step_inv2 L content enc ks s (Decide c) HI2)|].
        unfold decide. destruct (closed s); [exact HB|]. destruct (Bool.eqb c (choked s)); exact HB.
      - destruct (closed s) eqn:Hc; [exact HG|]. apply ew_G'; assumption. }
    apply H. split; [apply inv_init|]. split; [apply inv2_init|].
    unfold streaming, init; sel. intros [X|[X _]]; discriminate X.
  Qed.

  Lemma M_le_fuel : forall s k, G' s -> (M s k <= ew_fuel s)%nat.
  Proof.
    intros s k (HI & _ & HB). unfold M, ew_fuel, m_idle, phi.
    destruct (ws s) eqn:Hws.
    - destruct (send_choked s); lia.
    - destruct (last_piece s), (send_choked s); lia.
    - pose proof (blocks_le _ (HB (or_introl Hws))).
      destruct (k =? 0), (send_choked s), (len (ebuf s) =? 0); lia.
  Qed.

  (* fuel_sufficient: on every reachable state any amount of extra fuel changes nothing *)
  Theorem fuel_sufficient : forall ops k g,
    let s := run ops in
    closed s = false -> ew (ew_fuel s + g) k s = ew (ew_fuel s) k s.
  Proof.
    intros ops k g s Hc. pose proof (G'_run ops) as HG. fold s in HG.
    apply ew_enough; [|apply M_le_fuel; exact HG].
    destruct HG as (A & B & C). split; [exact A|split; [exact B|split; [exact C|exact Hc]]].
  Qed.
End ProofsD.
