(* C05 proofs, part E: the fuel of [ew] is sufficient. [ew] follows event_write's loop for at most
   ew_fuel s = 13 |queue| + 30 iterations; here: on every reachable state that bound is never hit --
   any larger fuel gives the same result (so the out-of-fuel exit of the Fixpoint is dead code and
   the model never stops a write call early). The measure: per queued block 1 (IDLE) + 1 (MSG) +
   at most 2^17/16384 + 3 WRITE_PIECE rounds. *)
From Coq Require Import List NArith ZArith Bool Lia Arith ZifyBool ZifyNat ZifyN.
From LTV.C05 Require Import Model Proofs ProofsB.
Import ListNotations.
Local Open Scope N_scope.
Ltac Zify.zify_post_hook ::= Z.div_mod_to_equations.

Section ProofsD.
  Variable L : layout.
  Variable content : N -> N -> N.
  Variable enc : bool.
  Variable ks : N -> N.
  Variable P : policy.
  Hypothesis HP : params_ok P = true.

  Notation fill := (fill L enc ks).
  Notation keepalive := (keepalive enc ks).
  Notation ew := (ew L content enc ks).
  Notation step := (step L content enc ks P).
  Notation run := (run L content enc ks P).
  Notation up_chunk := (up_chunk content enc ks).
  Notation enc_refill := (enc_refill content enc ks).
  Notation Inv := (Inv content enc ks).
  Notation Inv2 := (Inv2 L P).

  Ltac sel := cbn [set_ws set_tq write_buf write_payload write_ebuf choked queue obuf msgs out last_piece cur closed ws send_choked ebuf eb_end kpos upc tq load_chunk p_index p_off p_len].

  Ltac fill_cases s :=
    unfold Model.fill; cbv zeta;
    destruct (send_choked s && (5 <=? room s)) eqn:Hdc; cbn [andb negb];
    destruct (choked s) eqn:Hc; cbn [andb];
    try (destruct (queue s) as [|p q'] eqn:Hq); cbn [andb];
    try (destruct (13 <=? _) eqn:H13);
    try (match goal with |- context [servable L ?y] => destruct (servable L y) eqn:Hv end);
    unfold Model.buffered; sel.

  Definition blocks (n : N) : nat := N.to_nat ((n + 16383) / 16384).
  Definition phi (s : st) : nat := (blocks (p_len (cur s)) + (if (len (ebuf s) =? 0)%N then 0 else 1))%nat.
  Definition m_base (s : st) : nat := (13 * length (queue s) + 3 + (if send_choked s then 2 else 0))%nat.
  Definition no_go (s : st) (k : N) : bool := (k =? 0)%N || (node_quota (tq s) =? 0)%N.
  Definition M (s : st) (k : N) : nat :=
    match ws s with
    | Idle => (m_base s + (match obuf s with [] => 0 | _ => 2 end))%nat
    | Msg => (1 + (if last_piece s then 11 else 0) + m_base s)%nat
    | WPiece => ((if no_go s k then 1 else phi s + 2) + m_base s)%nat
    end.

  Definition streaming (s : st) : Prop := ws s = WPiece \/ (ws s = Msg /\ last_piece s = true).
  Lemma M_pos : forall s k, (1 <= M s k)%nat.
  Proof. intros. unfold M, m_base. destruct (ws s); try destruct (no_go s k); lia. Qed.

  Lemma blocks_le : forall n, n <= 131072 -> (blocks n <= 8)%nat.
  Proof. intros n H. unfold blocks. lia. Qed.

  Lemma blocks_step : forall n, 0 < n -> (blocks (n - N.min n 16384) < blocks n)%nat.
  Proof. intros n H. unfold blocks. lia. Qed.

  Lemma blocks_mono : forall a b, a <= b -> (blocks a <= blocks b)%nat.
  Proof. intros a b H. unfold blocks. lia. Qed.

  (* ---- throttle: a write that uses up the whole quota leaves none ---- *)
  Lemma quota_exhausted : forall t, t_on t = true -> node_quota t <> 0 ->
    node_quota (node_used t (node_quota t)) = 0.
  Proof.
    intros t Hon Hq. unfold node_quota in *. rewrite Hon in *. cbn [negb] in *.
    destruct (t_min t <=? t_nq t + t_un t) eqn:Hm; [|congruence].
    unfold node_used. rewrite Hon. cbn [negb orb]. destruct (t_nq t + t_un t =? 0) eqn:Hz; [apply N.eqb_eq in Hz; congruence|].
    cbn [orb t_on t_min t_nq t_un].
    replace (t_nq t - N.min (t_nq t + t_un t) (t_nq t)) with 0 by lia.
    replace (t_un t - N.min (t_nq t + t_un t - N.min (t_nq t + t_un t) (t_nq t)) (t_un t)) with 0 by lia.
    destruct (t_min t <=? 0 + 0); reflexivity.
  Qed.

  Lemma quota_off : forall t, t_on t = false -> node_quota t = 2147483647.
  Proof. intros t H. unfold node_quota. rewrite H. reflexivity. Qed.

  (* exact effect of one up_chunk call *)
  Lemma up_chunk_progress : forall s k, Inv s -> ws s = WPiece -> p_len (cur s) <= 131072 ->
    let s1 := fst (up_chunk s k) in let n := snd (up_chunk s k) in
    n <= k /\ n <= p_len (cur s) /\ p_len (cur s1) = p_len (cur s) - n /\
    (n <> 0 -> n < k -> p_len (cur s1) <> 0 -> node_quota (tq s1) = 0 \/ (phi s1 < phi s)%nat).
  Proof.
    intros s k HI Hws Hlen. cbn zeta. unfold Model.up_chunk.
    destruct (node_quota (tq s) =? 0) eqn:HQ0; cbn [fst snd].
    { repeat split; try lia; try (intro H; congruence). }
    apply N.eqb_neq in HQ0.
    set (Q := node_quota (tq s)) in *.
    set (quota := N.min Q (p_len (cur s))).
    assert (Hql : quota <= p_len (cur s)) by (subst quota; lia).
    (* quota < len only with the throttle on, and then writing all of it exhausts it *)
    assert (Hexh : quota <> p_len (cur s) -> quota = Q /\ node_quota (node_used (tq s) Q) = 0).
    { intro Hne. destruct (t_on (tq s)) eqn:Hon.
      - split; [subst quota; lia|]. apply quota_exhausted; assumption.
      - exfalso. subst quota Q. rewrite (quota_off _ Hon) in *. lia. }
    destruct (Bool.bool_dec enc true) as [Henc|Henc].
    - rewrite (if_true_eq _ enc _ _ Henc).
      pose proof (enc_refill_inv content enc ks s quota HI Hws Henc Hql) as HI0.
      destruct (enc_refill_ws content enc ks s quota) as (Hw0 & Hc0 & _).
      destruct HI0 as (_ & _ & _ & Hl0 & _). rewrite Hw0, Hws, Hc0 in Hl0.
      assert (Htq0 : tq (enc_refill s quota) = tq s).
      { unfold Model.enc_refill. destruct (quota <=? len (ebuf s)); reflexivity. }
      set (r := len (ebuf s)).
      assert (He0 : len (ebuf (enc_refill s quota)) =
                    if quota <=? r then r else if r =? 0 then N.min quota 16384 else r + N.min (quota - r) (16384 - eb_end s)).
      { unfold Model.enc_refill. fold r. destruct (quota <=? r) eqn:E; [reflexivity|]. sel.
        rewrite len_app, len_crypt, (len_slice content ks). fold r. destruct (r =? 0) eqn:Er.
        - apply N.eqb_eq in Er. rewrite Er. unfold eb_size. lia.
        - unfold eb_size. reflexivity. }
      set (e0 := len (ebuf (enc_refill s quota))) in *.
      destruct (N.min k (N.min quota e0) =? 0) eqn:Hn; cbn [fst snd].
      + apply N.eqb_eq in Hn. rewrite Hc0. repeat split; try lia; try (intro H; congruence).
      + apply N.eqb_neq in Hn. set (n := N.min k (N.min quota e0)) in *.
        unfold write_ebuf; sel. rewrite Hc0, Htq0. cbn [p_len]. repeat split; try lia.
        intros _ Hlt Hnd. assert (Hn' : n = N.min quota e0) by lia.
        destruct (N.eq_dec n quota) as [Enq|Enq].
        * (* all the quota was written *)
          destruct (N.eq_dec quota (p_len (cur s))) as [E|E]; [lia|].
          destruct (Hexh E) as (EQ & Hz). left. rewrite Enq, EQ. exact Hz.
        * (* all that was staged was written *)
          right. assert (Hne0 : n = e0) by lia.
          unfold phi; sel. cbn [p_len].
          assert (Hsk : len (skipn (N.to_nat n) (ebuf (enc_refill s quota))) = 0).
          { unfold len. rewrite skipn_length. fold e0. unfold len in e0. lia. }
          rewrite Hsk. cbn [N.eqb]. fold r.
          destruct (quota <=? r) eqn:Eqr.
          -- apply N.leb_le in Eqr. lia.
          -- apply N.leb_gt in Eqr. destruct (r =? 0) eqn:Er.
             ++ apply N.eqb_eq in Er. rewrite He0 in Hne0.
                assert (n = 16384) by lia.
                pose proof (blocks_step (p_len (cur s)) ltac:(lia)) as Bs.
                replace (N.min (p_len (cur s)) 16384) with 16384 in Bs by lia.
                replace (p_len (cur s) - n) with (p_len (cur s) - 16384) by lia. lia.
             ++ pose proof (blocks_mono (p_len (cur s) - n) (p_len (cur s)) ltac:(lia)). lia.
    - apply Bool.not_true_is_false in Henc. rewrite (if_false_eq _ enc _ _ Henc).
      destruct (N.min k quota =? 0) eqn:Hn; cbn [fst snd].
      + apply N.eqb_eq in Hn. repeat split; try lia; try (intro H; congruence).
      + unfold write_payload; sel. cbn [p_len]. repeat split; try lia.
        intros _ Hlt Hnd. assert (N.min k quota = quota) by lia.
        destruct (N.eq_dec quota (p_len (cur s))) as [E|E]; [lia|].
        destruct (Hexh E) as (EQ & Hz). left. rewrite H, EQ. exact Hz.
  Qed.
  Lemma limit_is : lenlimit P <= 131072.
  Proof. unfold params_ok in HP. apply N.leb_le in HP. exact HP. Qed.

  (* fill on an idle writer: if it leaves IDLE the measure drops and the block bound holds *)
  Lemma fill_measure : forall s k, ws s = Idle -> (obuf s <> [] -> last_piece s = false) -> Inv2 s ->
    closed (fill s) = false -> ws (fill s) = Msg ->
    (M (fill s) k < M s k)%nat /\ (last_piece (fill s) = true -> p_len (cur (fill s)) <= 131072).
  Proof.
    intros s k Hws Hk6 (Hl & _). unfold M. rewrite Hws. unfold m_base.
    fill_cases s;
      try match goal with |- context [match ?b with [] => _ | _ :: _ => _ end] => destruct b eqn:Hb end;
      intros Hcl HwsF; try discriminate;
      cbn [length]; rewrite ?andb_true_r, ?andb_false_r;
      try (apply andb_true_iff in Hdc; destruct Hdc as [Hs5 _]; rewrite Hs5);
      (split;
       [ try lia;
         (* nothing new: the buffer held keep-alives only *)
         try (rewrite (crypt_nil enc ks), app_nil_r in Hb; rewrite (Hk6 ltac:(rewrite Hb; discriminate)); rewrite Hb;
              destruct (send_choked s); lia)
       | intro Hlp; try discriminate Hlp;
         try (inversion Hl as [|? ? Hp0 _]; subst; unfold len_ok in Hp0; pose proof limit_is; lia);
         try (rewrite (crypt_nil enc ks), app_nil_r in Hb; rewrite (Hk6 ltac:(rewrite Hb; discriminate)) in Hlp; discriminate Hlp) ]).
  Qed.

  Lemma inv2_same_qm : forall s s', queue s' = queue s -> msgs s' = msgs s -> Inv2 s -> Inv2 s'.
  Proof. intros s s' Q Mm. unfold Proofs.Inv2. rewrite Q, Mm. tauto. Qed.

  Definition G' (s : st) : Prop := Inv s /\ Inv2 s /\ (streaming s -> p_len (cur s) <= 131072).
  Definition G (s : st) : Prop := G' s /\ closed s = false.

  Lemma inv_k6 : forall s, Inv s -> ws s = Idle -> obuf s <> [] -> last_piece s = false.
  Proof. intros s (_ & _ & _ & _ & K6 & _). exact K6. Qed.

  Lemma fill_ws_cases : forall s, ws s = Idle -> ws (fill s) = Idle \/ ws (fill s) = Msg.
  Proof.
    intros s Hws. fill_cases s;
      try match goal with |- context [match ?b with [] => _ | _ :: _ => _ end] => destruct b end; auto.
  Qed.

  (* the invariant bundle is kept by a write call *)
  Lemma ew_G' : forall f k s, G' s -> closed s = false -> G' (ew f k s).
  Proof.
    induction f as [|f IH]; intros k s HG Hcl; [exact HG|].
    destruct HG as (HI & HI2 & HB).
    cbn [Model.ew]. destruct (ws s) eqn:Hws.
    - pose proof (fill_inv L content enc ks s Hws HI) as HF.
      pose proof (fill_inv2 L enc ks P s HI2) as HF2.
      destruct (closed (fill s)) eqn:Hcf.
      { split; [exact HF|]. split; [exact HF2|].
        (* a closed connection is idle *)
        assert (Hid : ws (fill s) = Idle).
        { revert Hcf. fill_cases s;
            try match goal with |- context [match ?b with [] => _ | _ :: _ => _ end] => destruct b end;
            intro X; try reflexivity; rewrite Hcl in X; discriminate X. }
        unfold streaming. rewrite Hid. intros [X|[X _]]; discriminate X. }
      destruct (ws (fill s)) eqn:HwF.
      + split; [exact HF|]. split; [exact HF2|]. unfold streaming. rewrite HwF. intros [X|[X _]]; discriminate X.
      + destruct (fill_measure s k Hws (inv_k6 s HI Hws) HI2 Hcf HwF) as (_ & Hbound).
        apply IH; [|exact Hcf]. split; [exact HF|]. split; [exact HF2|].
        unfold streaming. rewrite HwF. intros [X|[_ X]]; [discriminate X | exact (Hbound X)].
      + destruct (fill_ws_cases s Hws) as [X|X]; rewrite X in HwF; discriminate HwF.
    - destruct (N.min k (N.of_nat (length (obuf s))) =? 0) eqn:Hn; [split; [exact HI|split; [exact HI2|exact HB]]|].
      set (n := N.min k (N.of_nat (length (obuf s)))) in *.
      pose proof (write_buf_inv content enc ks s n HI Hws) as HI1.
      destruct (obuf (write_buf s n)) eqn:Hb; [|split; [exact HI1|split; [exact HI2|exact HB]]].
      assert (Hws1 : ws (write_buf s n) = Msg) by exact Hws.
      destruct (last_piece (write_buf s n)) eqn:Hlp.
      + assert (Hlp' : last_piece s = true) by exact Hlp.
        assert (Hlen : p_len (cur s) <= 131072) by (apply HB; right; split; assumption).
        apply IH; [|exact Hcl].
        split; [apply (msg_to_next content enc ks (write_buf s n) WPiece HI1 Hws1 Hb); rewrite Hlp; reflexivity|].
        split; [exact HI2|]. intros _; exact Hlen.
      + apply IH; [|exact Hcl].
        split; [apply (msg_to_next content enc ks (write_buf s n) Idle HI1 Hws1 Hb); rewrite Hlp; reflexivity|].
        split; [exact HI2|]. unfold streaming; sel. intros [X|[X _]]; discriminate X.
    - destruct (up_chunk_inv content enc ks s k HI Hws) as (HI1 & Hws1 & Hc1).
      pose proof (up_chunk_same content enc ks s k) as (Q & Mm & _ & Sc & _ & _).
      assert (Hlen : p_len (cur s) <= 131072) by (apply HB; left; exact Hws).
      pose proof (up_chunk_progress s k HI Hws Hlen) as (Pk & Pl & Pc & _).
      destruct (up_chunk s k) as [s1 n]. cbn [fst snd] in *.
      assert (G1 : G' s1).
      { split; [exact HI1|]. split; [apply (inv2_same_qm s); assumption|]. intros _. lia. }
      destruct (n =? 0); [exact G1|].
      destruct (p_len (cur s1) =? 0) eqn:Hz.
      + apply IH; [|sel; congruence].
        split; [apply wpiece_to_idle; try assumption; apply N.eqb_eq; exact Hz|].
        split; [apply (inv2_same_qm s); assumption|].
        unfold streaming; sel. intros [X|[X _]]; discriminate X.
      + apply IH; [exact G1 | congruence].
  Qed.

  (* when the measure fits the fuel, more fuel changes nothing *)
  Lemma ew_enough : forall f k s g, G' s -> closed s = false -> (M s k <= f)%nat -> ew (f + g) k s = ew f k s.
  Proof.
    induction f as [|f IH]; intros k s g HG Hcl HM.
    { pose proof (M_pos s k). lia. }
    destruct HG as (HI & HI2 & HB).
    cbn [Nat.add Model.ew]. unfold M in HM. destruct (ws s) eqn:Hws.
    - (* IDLE *)
      pose proof (fill_inv L content enc ks s Hws HI) as HF.
      pose proof (fill_inv2 L enc ks P s HI2) as HF2.
      destruct (closed (fill s)) eqn:Hcf; [reflexivity|].
      destruct (ws (fill s)) eqn:HwF; try reflexivity.
      destruct (fill_measure s k Hws (inv_k6 s HI Hws) HI2 Hcf HwF) as (Hm & Hbound).
      apply IH; [|exact Hcf|].
      + split; [exact HF|]. split; [exact HF2|].
        unfold streaming. rewrite HwF. intros [X|[_ X]]; [discriminate X | exact (Hbound X)].
      + unfold M in Hm |- *. rewrite Hws in Hm. rewrite HwF in Hm |- *. lia.
    - (* MSG *)
      destruct (N.min k (N.of_nat (length (obuf s))) =? 0) eqn:Hn; [reflexivity|].
      set (n := N.min k (N.of_nat (length (obuf s)))) in *.
      pose proof (write_buf_inv content enc ks s n HI Hws) as HI1.
      destruct (obuf (write_buf s n)) eqn:Hb; [|reflexivity].
      assert (Hws1 : ws (write_buf s n) = Msg) by exact Hws.
      assert (Heb : ebuf s = []) by (apply (proj1 (proj2 HI)); rewrite Hws; discriminate).
      destruct (last_piece (write_buf s n)) eqn:Hlp.
      + assert (Hlp' : last_piece s = true) by exact Hlp.
        assert (Hlen : p_len (cur s) <= 131072) by (apply HB; right; split; assumption).
        apply IH; [|exact Hcl|].
        * split; [apply (msg_to_next content enc ks (write_buf s n) WPiece HI1 Hws1 Hb); rewrite Hlp; reflexivity|].
          split; [exact HI2|]. intros _; exact Hlen.
        * unfold M; sel. unfold phi, m_base in *; sel. rewrite Heb. cbn [len length N.of_nat N.eqb].
          pose proof (blocks_le _ Hlen). rewrite Hlp' in HM. destruct (no_go _ _); lia.
      + assert (Hlp' : last_piece s = false) by exact Hlp.
        apply IH; [|exact Hcl|].
        * split; [apply (msg_to_next content enc ks (write_buf s n) Idle HI1 Hws1 Hb); rewrite Hlp; reflexivity|].
          split; [exact HI2|]. unfold streaming; sel. intros [X|[X _]]; discriminate X.
        * unfold M; sel. unfold m_base in *; sel. unfold write_buf in Hb; sel. cbn [obuf] in Hb. rewrite Hb. rewrite Hlp' in HM. lia.
    - (* WRITE_PIECE *)
      destruct (up_chunk_inv content enc ks s k HI Hws) as (HI1 & Hws1 & Hc1).
      pose proof (up_chunk_same content enc ks s k) as (Q & Mm & _ & Sc & _ & _).
      assert (Hlen : p_len (cur s) <= 131072) by (apply HB; left; exact Hws).
      pose proof (up_chunk_progress s k HI Hws Hlen) as (Pk & Pl & Pc & Pdec).
      assert (Hq0 : snd (up_chunk s k) <> 0 -> node_quota (tq s) <> 0).
      { unfold Model.up_chunk. destruct (node_quota (tq s) =? 0) eqn:E; cbn [snd]; [congruence|]. intros _. apply N.eqb_neq. exact E. }
      destruct (up_chunk s k) as [s1 n]. cbn [fst snd] in *.
      destruct (n =? 0) eqn:Hn0; [reflexivity|]. apply N.eqb_neq in Hn0.
      assert (Hng : no_go s k = false).
      { unfold no_go. apply orb_false_iff. split; apply N.eqb_neq; [lia | exact (Hq0 Hn0)]. }
      rewrite Hng in HM.
      assert (G1 : G' s1).
      { split; [exact HI1|]. split; [apply (inv2_same_qm s); assumption|]. intros _. lia. }
      destruct (p_len (cur s1) =? 0) eqn:Hz.
      + apply IH; [|sel; congruence|].
        * split; [apply wpiece_to_idle; try assumption; apply N.eqb_eq; exact Hz|].
          split; [apply (inv2_same_qm s); assumption|].
          unfold streaming; sel. intros [X|[X _]]; discriminate X.
        * unfold M; sel. unfold m_base in *; sel. rewrite Q, Sc.
          assert (Hob1 : obuf s1 = []) by (apply (proj1 HI1); exact Hws1). rewrite Hob1. lia.
      + apply N.eqb_neq in Hz. apply IH; [exact G1 | congruence |].
        unfold M. rewrite Hws1. unfold m_base in *. rewrite Q, Sc.
        destruct (no_go s1 (k - n)) eqn:Hng1; [lia|].
        apply orb_false_iff in Hng1. destruct Hng1 as [Hk1 Hq1]. apply N.eqb_neq in Hk1. apply N.eqb_neq in Hq1.
        destruct (Pdec Hn0 ltac:(lia) Hz) as [X|X]; [congruence | lia].
  Qed.

  Lemma G'_run : forall ops, G' (run ops).
  Proof.
    intro ops. unfold Model.run.
    assert (H : forall s, G' s -> G' (fold_left step ops s)).
    { induction ops as [|o ops IH]; intros s HG; [exact HG|]. cbn [fold_left]. apply IH.
      destruct HG as (HI & HI2 & HB).
      split; [apply (step_inv L content enc ks P s o HI)|]. split; [apply (step_inv2 L content enc ks P s o HI2)|].
      destruct o as [p|p|c|k|t|]; cbn [Model.step].
      - unfold recv_request. destruct (closed s); [exact HB|].
        destruct (_ || _ || _); [exact HB|]. destruct (eager_drop L P p); [exact HB|]. destruct (existsb _ _); exact HB.
      - unfold recv_cancel. destruct (closed s); exact HB.
      - unfold decide. destruct (closed s); [exact HB|]. destruct (Bool.eqb c (choked s)); exact HB.
      - destruct (closed s) eqn:Hc; [exact HB|]. apply (ew_G' (ew_fuel s) k s); [split; [exact HI|split; [exact HI2|exact HB]] | exact Hc].
      - destruct (closed s); exact HB.
      - unfold Model.keepalive. destruct (closed s); [exact HB|]. destruct (ws s) eqn:Hws; try exact HB.
        destruct (4 <=? room s); [|exact HB]. unfold streaming, Model.put; sel. rewrite Hws. intros [X|[X _]]; discriminate X. }
    apply H. split; [apply inv_init|]. split; [apply inv2_init|].
    unfold streaming, init; sel. intros [X|[X _]]; discriminate X.
  Qed.

  Lemma M_le_fuel : forall s k, G' s -> (M s k <= ew_fuel s)%nat.
  Proof.
    intros s k (HI & _ & HB). unfold M, ew_fuel, m_base, phi.
    destruct (ws s) eqn:Hws.
    - destruct (send_choked s), (obuf s); lia.
    - destruct (last_piece s), (send_choked s); lia.
    - pose proof (blocks_le _ (HB (or_introl Hws))).
      destruct (no_go s k), (send_choked s), (len (ebuf s) =? 0); lia.
  Qed.

  (* fuel_sufficient: on every reachable state any amount of extra fuel changes nothing *)
  Theorem fuel_sufficient : forall ops k g,
    let s := run ops in
    closed s = false -> ew (ew_fuel s + g) k s = ew (ew_fuel s) k s.
  Proof.
    intros ops k g s Hc. pose proof (G'_run ops) as HG. fold s in HG.
    apply ew_enough; [exact HG | exact Hc | apply M_le_fuel; exact HG].
  Qed.
End ProofsD.
