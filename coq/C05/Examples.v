(* C05 — non-vacuity: concrete runs in which the hypotheses of the theorems hold. *)
From Coq Require Import List NArith Bool.
From LTV.C05 Require Import Model Proofs ProofsB.
Import ListNotations.
Local Open Scope N_scope.

Definition Lx : layout := mkLayout 95 10 (fun i => negb (i =? 3)).   (* 10 pieces, last one 5 bytes, piece 3 unverified *)
Definition cx (i off : N) : N := (i * 10 + off) mod 256.
Definition kz (_ : N) : N := 0.                      (* plain connections ignore the keystream *)
Definition kx (j : N) : N := (j * 7 + 3) mod 256.    (* some keystream *)
Definition pol : policy := mkPolicy 2048 131072 false false.   (* what the probe finds on the unchanged tree *)
Definition a := mkPiece 0 2 5.
Definition b := mkPiece 9 0 5.

(* piece_answers_request / never_* / piece_bytes_exact_idle: a PIECE is sent, the writer is idle *)
Example ex_piece : let s := run Lx cx false kz pol [Decide false; RecvRequest a; WriteReady 7; WriteReady 1000] in
  In (MPiece a) (msgs s) /\ ws s = Idle /\
  stream s = [0;0;0;1;1; 0;0;0;14;7; 0;0;0;0; 0;0;0;2; 2;3;4;5;6].
Proof. vm_compute. repeat split. left. reflexivity. Qed.

(* the last (short) piece: offset+length = piece size exactly *)
Example ex_last_piece : In (MPiece b) (msgs (run Lx cx false kz pol [Decide false; RecvRequest b; WriteReady 1000])).
Proof. vm_compute. left. reflexivity. Qed.

(* choke_clears: a CHOKE is written while a request is still pending; it is discarded *)
Example ex_choke :
  let s := run Lx cx false kz pol [Decide false; RecvRequest a; WriteReady 0; RecvRequest b; Decide true] in
  let s' := step Lx cx false kz pol s (WriteReady 1000) in
  queue s = [b] /\ msgs s' = [MChoke true] ++ msgs s /\ queue s' = [].
Proof. vm_compute. repeat split. Qed.

(* bad_request_closes: unverified piece 3 at the head of the queue *)
Example ex_bad :
  let s := run Lx cx false kz pol [Decide false; WriteReady 100; RecvRequest (mkPiece 3 0 1)] in
  ws s = Idle /\ closed s = false /\ choked s = false /\ queue s = [mkPiece 3 0 1] /\
  is_valid_piece Lx (mkPiece 3 0 1) && l_completed Lx 3 = false /\
  closed (step Lx cx false kz pol s (WriteReady 5)) = true.
Proof. vm_compute. repeat split. Qed.

(* uint32 wrap: offset 2^32-1, length 2 sums to 1 in 32 bits; is_valid_piece rejects it *)
Example ex_wrap : is_valid_piece Lx (mkPiece 0 4294967295 2) = false /\ is_valid_piece Lx (mkPiece 0 8 2) = true
                  /\ is_valid_piece Lx (mkPiece 0 9 2) = false /\ is_valid_piece Lx (mkPiece 9 0 6) = false.
Proof. vm_compute. repeat split. Qed.

(* request_ignored / cancel_effective / closed_forever hypotheses *)
Example ex_ignored : choked (run Lx cx false kz pol [RecvRequest a]) = true /\ queue (run Lx cx false kz pol [RecvRequest a]) = [].
Proof. vm_compute. split; reflexivity. Qed.
Example ex_cancel : closed (run Lx cx false kz pol [Decide false; RecvRequest a]) = false /\
                    queue (run Lx cx false kz pol [Decide false; RecvRequest a]) = [a].
Proof. vm_compute. split; reflexivity. Qed.
Example ex_closed : closed (run Lx cx false kz pol [Decide false; RecvRequest (mkPiece 0 0 0); WriteReady 1]) = true.
Proof. vm_compute. reflexivity. Qed.

(* RC4 stream: the same exchange as ex_piece; every wire byte is the plain byte XOR ks at its position *)
Example ex_rc4 : let s := run Lx cx true kx pol [Decide false; RecvRequest a; WriteReady 7; WriteReady 1000] in
  ws s = Idle /\ msgs s = [MPiece a; MChoke false] /\
  stream s = xor_from kx 0 [0;0;0;1;1; 0;0;0;14;7; 0;0;0;0; 0;0;0;2; 2;3;4;5;6] /\ kpos s = 23.
Proof. vm_compute. repeat split. Qed.

(* RC4, a block larger than the 16384-byte encrypt buffer, written in pieces: partial write inside
   the header, inside the first buffer-full, leftover, refill *)
Definition Lbig : layout := mkLayout 40000 20000 (fun _ => true).
Definition big := mkPiece 1 100 17000.
Example ex_rc4_refill :
  let ops := [Decide false; RecvRequest big; WriteReady 9; WriteReady 9; WriteReady 16000] in
  let s := run Lbig cx true kx pol ops in
  ws s = WPiece /\ len (ebuf s) = 384 /\ eb_end s = 16384 /\ cur s = mkPiece 1 16100 1000 /\
  let s2 := step Lbig cx true kx pol s (WriteReady 400) in
  len (ebuf s2) = 600 /\ eb_end s2 = 616 /\ cur s2 = mkPiece 1 16500 600 /\
  let s3 := step Lbig cx true kx pol s2 (WriteReady 1000) in
  ws s3 = Idle /\ len (stream s3) = 17018 /\ kpos s3 = 17018.
Proof. vm_compute. repeat split. Qed.

(* chunk_*: a chunk is mapped while/after piece 0 is served; the written CHOKE releases it *)
Example ex_chunk :
  let s := run Lx cx false kz pol [Decide false; RecvRequest a; WriteReady 20] in
  ws s = WPiece /\ upc s = Some 0 /\
  let s2 := step Lx cx false kz pol (step Lx cx false kz pol s (Decide true)) (WriteReady 1000) in
  choked s2 = true /\ send_choked s2 = false /\ upc s2 = None /\ queue s2 = [].
Proof. vm_compute. repeat split. Qed.

(* keep-alive tick: taken by an idle writer, not while a header is being flushed *)
Example ex_keepalive :
  let s := run Lx cx false kz pol [Decide false; RecvRequest a; WriteReady 9; KeepaliveTick] in
  ws s = Msg /\ msgs s = [MPiece a; MChoke false] /\
  let s2 := run Lx cx false kz pol [Decide false; RecvRequest a; WriteReady 1000; KeepaliveTick; KeepaliveTick; WriteReady 6; WriteReady 10] in
  ws s2 = Idle /\ obuf s2 = [] /\ msgs s2 = [MKeep; MKeep; MPiece a; MChoke false] /\ len (stream s2) = 31.
Proof. vm_compute. repeat split. Qed.

(* throttle + RC4: the staging buffer is filled with less than the block (quota 3000 of 12000), the socket
   takes 1000, more quota arrives (5000) and is appended behind the 2000 staged bytes *)
Definition big2 := mkPiece 1 100 12000.
Example ex_throttle :
  let ops := [Decide false; RecvRequest big2; Throttle (mkThr true 1024 0 0 20000); WriteReady 100000;
              Throttle (mkThr true 1024 3000 0 0); WriteReady 1000; Throttle (mkThr true 1024 2000 5000 0)] in
  let s := run Lbig cx true kx pol ops in
  ws s = WPiece /\ len (ebuf s) = 2000 /\ eb_end s = 3000 /\ cur s = mkPiece 1 1100 11000 /\
  let s2 := step Lbig cx true kx pol s (WriteReady 100000) in
  len (ebuf s2) = 0 /\ eb_end s2 = 8000 /\ cur s2 = mkPiece 1 8100 4000 /\ node_quota (tq s2) = 0.
Proof. vm_compute. repeat split. Qed.

(* a policy that drops unservable requests on receipt: nothing is queued, the connection stays open *)
Example ex_eager :
  let s := run Lx cx false kz (mkPolicy 500 131072 true true) [Decide false; WriteReady 100; RecvRequest (mkPiece 3 0 1); RecvRequest (mkPiece 0 9 2); WriteReady 100] in
  closed s = false /\ queue s = [] /\ msgs s = [MChoke false].
Proof. vm_compute. repeat split. Qed.
