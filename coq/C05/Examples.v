(* C05 — non-vacuity: concrete runs in which the hypotheses of the theorems hold. *)
From Coq Require Import List NArith Bool.
From LTV.C05 Require Import ParamsGen Model Proofs ProofsB.
Import ListNotations.
Local Open Scope N_scope.

Definition Lx : layout := mkLayout 95 10 (fun i => negb (i =? 3)).   (* 10 pieces, last one 5 bytes, piece 3 unverified *)
Definition cx (i off : N) : N := (i * 10 + off) mod 256.
Definition a := mkPiece 0 2 5.
Definition b := mkPiece 9 0 5.

(* piece_answers_request / never_* / piece_bytes_exact_idle: a PIECE is sent, the writer is idle *)
Example ex_piece : let s := run Lx cx [Decide false; RecvRequest a; WriteReady 7; WriteReady 1000] in
  In (MPiece a) (msgs s) /\ ws s = Idle /\
  stream s = [0;0;0;1;1; 0;0;0;14;7; 0;0;0;0; 0;0;0;2; 2;3;4;5;6].
Proof. vm_compute. repeat split. left. reflexivity. Qed.

(* the last (short) piece: offset+length = piece size exactly *)
Example ex_last_piece : In (MPiece b) (msgs (run Lx cx [Decide false; RecvRequest b; WriteReady 1000])).
Proof. vm_compute. left. reflexivity. Qed.

(* choke_clears: a CHOKE is written while a request is still pending; it is discarded *)
Example ex_choke :
  let s := run Lx cx [Decide false; RecvRequest a; WriteReady 0; RecvRequest b; Decide true] in
  let s' := step Lx cx s (WriteReady 1000) in
  queue s = [b] /\ msgs s' = [MChoke true] ++ msgs s /\ queue s' = [].
Proof. vm_compute. repeat split. Qed.

(* bad_request_closes: unverified piece 3 at the head of the queue *)
Example ex_bad :
  let s := run Lx cx [Decide false; WriteReady 100; RecvRequest (mkPiece 3 0 1)] in
  ws s = Idle /\ closed s = false /\ choked s = false /\ queue s = [mkPiece 3 0 1] /\
  is_valid_piece Lx (mkPiece 3 0 1) && l_completed Lx 3 = false /\
  closed (step Lx cx s (WriteReady 5)) = true.
Proof. vm_compute. repeat split. Qed.

(* uint32 wrap: offset 2^32-1, length 2 sums to 1 in 32 bits; is_valid_piece rejects it *)
Example ex_wrap : is_valid_piece Lx (mkPiece 0 4294967295 2) = false /\ is_valid_piece Lx (mkPiece 0 8 2) = true
                  /\ is_valid_piece Lx (mkPiece 0 9 2) = false /\ is_valid_piece Lx (mkPiece 9 0 6) = false.
Proof. vm_compute. repeat split. Qed.

(* request_ignored / cancel_effective / closed_forever hypotheses *)
Example ex_ignored : choked (run Lx cx [RecvRequest a]) = true /\ queue (run Lx cx [RecvRequest a]) = [].
Proof. vm_compute. split; reflexivity. Qed.
Example ex_cancel : closed (run Lx cx [Decide false; RecvRequest a]) = false /\
                    queue (run Lx cx [Decide false; RecvRequest a]) = [a].
Proof. vm_compute. split; reflexivity. Qed.
Example ex_closed : closed (run Lx cx [Decide false; RecvRequest (mkPiece 0 0 0); WriteReady 1]) = true.
Proof. vm_compute. reflexivity. Qed.
