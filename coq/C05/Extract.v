From Coq Require Import Extraction ExtrOcamlBasic NArith ZArith.
From LTV.C05 Require Import Model Proofs.
Set Extraction Optimize.
Extraction Language OCaml.
Extraction "extracted/c05_model.ml" run step init stream ew_fuel wire n_pieces piece_size is_valid_piece node_quota params_ok Z.of_N.
