From Coq Require Import Extraction ExtrOcamlBasic NArith ZArith.
From LTV.C05 Require Import Model.
Set Extraction Optimize.
Extraction Language OCaml.
Extraction "extracted/c05_model.ml" run step init stream ew_fuel wire n_pieces piece_size is_valid_piece Z.of_N.
