(* C05 proofs, part D: the mapped upload chunk (m_up_chunk, one ChunkList reference per connection).
   It is held exactly while a block of it is being streamed and afterwards as a cache; it always
   belongs to a verified piece that a PIECE message was prepared for; it is released when a CHOKE
   is written and when the connection is closed; and whenever the peer is choked and has been told
   so, nothing is mapped and nothing is queued. *)
From Coq Require Import List NArith ZArith Bool Lia Arith.
From LTV.C05 Require Import Model Proofs ProofsB.
Import ListNotations.
Local Open Scope N_scope.

Section ProofsC.
  Variable L : layout.
  Variable content : N -> N -> N.
  Variable enc : bool.
  Variable ks : N -> N.
  Variable P : policy.

  Notation fill := (fill L enc ks).
  Notation keepalive := (keepalive enc ks).
  Notation ew := (ew L content enc ks).
  Notation step := (step L content enc ks P).
  Notation run := (run L content enc ks P).
  Notation up_chunk := (up_chunk content enc ks).

  Ltac sel := cbn [set_ws set_tq write_buf write_payload write_ebuf choked queue obuf msgs out last_piece cur closed ws send_choked ebuf eb_end kpos upc tq load_chunk p_index p_off p_len].

  Ltac fill_cases s :=
    unfold Model.fill; cbv zeta;
    destruct (send_choked s && (5 <=? room s)) eqn:Hdc; cbn [andb negb];
    destruct (choked s) eqn:Hc; cbn [andb];
    try (destruct (queue s) as [|p q'] eqn:Hq); cbn [andb];
    try (destruct (13 <=? _) eqn:H13);
    try (match goal with |- context [servable L ?y] => destruct (servable L y) eqn:Hv end);
    unfold Model.buffered; sel.

  Definition has_piece_msg (s : st) (i : N) : Prop := exists p, In (MPiece p) (msgs s) /\ p_index p = i.
  Definition streaming (s : st) : Prop := ws s = WPiece \/ (ws s = Msg /\ last_piece s = true).

  Definition Inv3 (s : st) : Prop :=
    (closed s = true -> upc s = None) /\
    (ws s = WPiece -> upc s = Some (p_index (cur s))) /\
    (forall i, upc s = Some i -> has_piece_msg s i) /\
    (streaming s -> has_piece_msg s (p_index (cur s)) /\ (choked s = true -> send_choked s = true)) /\
    (choked s = true -> send_choked s = false -> upc s = None /\ queue s = []).

  Lemma inv3_init : Inv3 init.
  Proof.
    unfold Inv3, streaming, init; sel. repeat split; intros;
      repeat match goal with H : _ \/ _ |- _ => destruct H | H : _ /\ _ |- _ => destruct H end;
      try discriminate; try reflexivity.
  Qed.

  Lemma has_piece_mono : forall s s' i, (forall m, In m (msgs s) -> In m (msgs s')) -> has_piece_msg s i -> has_piece_msg s' i.
  Proof. intros s s' i H (p & Hp & E). exists p. auto. Qed.

  (* fill on an idle, open connection (it moves to MSG if something is buffered) *)
  Lemma fill_inv3 : forall s, ws s = Idle -> closed s = false -> (obuf s <> [] -> last_piece s = false) ->
    Inv3 s -> Inv3 (fill s).
  Proof.
    intros s Hws Hcl Hk6 (A & B & C & D & E). fill_cases s;
      try match goal with |- context [match ?b with [] => _ | _ :: _ => _ end] => destruct b eqn:Hb end;
      try (rewrite (crypt_nil enc ks), app_nil_r in Hb; rewrite Hk6 in * by (rewrite Hb; discriminate));
      unfold Inv3, streaming, has_piece_msg in *; sel; rewrite ?Hws, ?Hc, ?andb_true_r, ?andb_false_r in *;
      repeat split; intros;
      repeat match goal with
      | H : _ \/ _ |- _ => destruct H
      | H : _ /\ _ |- _ => destruct H
      end;
      try discriminate; try congruence; try tauto;
      try (match goal with H : upc s = Some ?i |- _ => destruct (C _ H) as (p0 & Hp0 & E0); exists p0; cbn [In]; tauto end);
      try (eexists; split; [cbn [In]; left; reflexivity | reflexivity]);
      try (apply E; first [assumption | reflexivity]);
      try (apply andb_true_iff in Hdc; destruct Hdc as [Hs5 _]; rewrite Hs5 in *; discriminate).
  Qed.
  Notation Inv := (Inv content enc ks).

  Lemma up_chunk_fields : forall s k,
    upc (fst (up_chunk s k)) = upc s /\ p_index (cur (fst (up_chunk s k))) = p_index (cur s) /\
    last_piece (fst (up_chunk s k)) = last_piece s.
  Proof.
    intros s k. unfold Model.up_chunk, Model.enc_refill, write_ebuf, write_payload.
    destruct (node_quota (tq s) =? 0); [cbn; auto|].
    destruct enc; [destruct (_ <=? len (ebuf s))|];
      match goal with |- context [if ?c then _ else _] => destruct c end; cbn; auto.
  Qed.

  Lemma inv3_transfer : forall s s',
    closed s' = closed s -> ws s' = ws s -> upc s' = upc s -> msgs s' = msgs s -> queue s' = queue s ->
    choked s' = choked s -> send_choked s' = send_choked s -> last_piece s' = last_piece s ->
    p_index (cur s') = p_index (cur s) -> Inv3 s -> Inv3 s'.
  Proof.
    intros s s' H1 H2 H3 H4 H5 H6 H7 H8 H9. unfold Inv3, streaming, has_piece_msg.
    rewrite H1, H2, H3, H4, H5, H6, H7, H8, H9. tauto.
  Qed.

  Lemma ew_inv3 : forall f k s, closed s = false -> Inv s -> Inv3 s -> Inv3 (ew f k s).
  Proof.
    induction f as [|f IH]; intros k s Hcl HI H3; cbn [Model.ew]; [exact H3|].
    destruct (ws s) eqn:Hws.
    - (* IDLE *)
      assert (Hk6 : obuf s <> [] -> last_piece s = false).
      { destruct HI as (_ & _ & _ & _ & K6 & _). exact (K6 Hws). }
      pose proof (fill_inv L content enc ks s Hws HI) as HF.
      pose proof (fill_inv3 s Hws Hcl Hk6 H3) as HF3.
      destruct (closed (fill s)) eqn:Hcf; [exact HF3|].
      destruct (ws (fill s)); try exact HF3. apply IH; assumption.
    - (* MSG *)
      destruct (N.min k (N.of_nat (length (obuf s))) =? 0) eqn:Hn; [exact H3|].
      set (n := N.min k (N.of_nat (length (obuf s)))) in *.
      pose proof (write_buf_inv content enc ks s n HI Hws) as HI1.
      assert (H31 : Inv3 (write_buf s n)) by exact H3.
      destruct (obuf (write_buf s n)) eqn:Hb; [|exact H31].
      assert (Hws1 : ws (write_buf s n) = Msg) by exact Hws.
      destruct (last_piece (write_buf s n)) eqn:Hlp.
      + apply IH; [exact Hcl | |].
        * apply (msg_to_next content enc ks (write_buf s n) WPiece HI1 Hws1 Hb). rewrite Hlp. reflexivity.
        * destruct H31 as (A & B & C & D & E).
          assert (St : streaming (write_buf s n)) by (right; split; assumption).
          destruct (D St) as (Dp & Dc).
          unfold Inv3, streaming; sel. split; [|split; [|split; [|split]]].
          -- intro H. congruence.
          -- intros _. reflexivity.
          -- intros i H. inversion H; subst. exact Dp.
          -- intros _. split; [exact Dp | exact Dc].
          -- intros H H0. pose proof (Dc H) as X. unfold write_buf in X. cbn [send_choked] in X. congruence.
      + apply IH; [exact Hcl | |].
        * apply (msg_to_next content enc ks (write_buf s n) Idle HI1 Hws1 Hb). rewrite Hlp. reflexivity.
        * destruct H31 as (A & B & C & D & E). revert A B C D E. unfold Inv3, streaming, has_piece_msg; sel. intros A B C D E.
          repeat split; intros;
            repeat match goal with H : _ \/ _ |- _ => destruct H | H : _ /\ _ |- _ => destruct H end;
            try discriminate; try (apply C; assumption); try (apply E; assumption); try tauto.
    - (* WRITE_PIECE *)
      destruct (up_chunk_inv content enc ks s k HI Hws) as (HI1 & Hws1 & Hc1).
      pose proof (up_chunk_same content enc ks s k) as (Q & M & Ch & Sc & _ & _).
      pose proof (up_chunk_fields s k) as (U & Pi & Lp).
      assert (H31 : Inv3 (fst (up_chunk s k))).
      { apply (inv3_transfer s); try assumption; congruence. }
      destruct (up_chunk s k) as [s1 n]. cbn [fst] in *.
      destruct (n =? 0); [exact H31|].
      destruct (p_len (cur s1) =? 0) eqn:Hz.
      + apply IH; [sel; congruence | |].
        * apply wpiece_to_idle; try assumption. apply N.eqb_eq. exact Hz.
        * destruct H31 as (A & B & C & D & E). revert A B C D E. unfold Inv3, streaming, has_piece_msg; sel. intros A B C D E.
          repeat split; intros;
            repeat match goal with H : _ \/ _ |- _ => destruct H | H : _ /\ _ |- _ => destruct H end;
            try discriminate; try (apply C; assumption); try (apply E; assumption); try tauto.
      + apply IH; [congruence | exact HI1 | exact H31].
  Qed.

  Lemma step_inv3 : forall s o, Inv s -> Inv3 s -> Inv3 (step s o).
  Proof.
    intros s o HI H3. destruct o as [p|p|c|k|t|]; cbn [Model.step].
    - unfold recv_request. destruct (closed s); [exact H3|].
      destruct (choked s) eqn:Hc; cbn [orb]; [exact H3|].
      destruct (_ || _); [exact H3|]. destruct (eager_drop L P p); [exact H3|]. destruct (existsb _ _); [exact H3|].
      destruct H3 as (A & B & C & D & E). revert A B C D E. unfold Inv3, streaming, has_piece_msg; sel. intros A B C D E.
      rewrite Hc in *. repeat split; intros; try discriminate; try tauto; try (apply C; assumption).
    - unfold recv_cancel. destruct (closed s); [exact H3|].
      destruct H3 as (A & B & C & D & E). revert A B C D E. unfold Inv3, streaming, has_piece_msg; sel. intros A B C D E.
      split; [intro X; discriminate X|split; [exact B|split; [exact C|split; [exact D|]]]].
      intros H H0. destruct (E H H0) as [E1 E2]. rewrite E2. split; [exact E1|reflexivity].
    - unfold decide. destruct (closed s); [exact H3|]. destruct (Bool.eqb c (choked s)) eqn:Ec; [exact H3|].
      destruct H3 as (A & B & C & D & E). revert A B C D E. unfold Inv3, streaming, has_piece_msg; sel. intros A B C D E.
      repeat split; intros; try discriminate; try tauto; try (apply C; assumption).
    - destruct (closed s) eqn:Hc; [exact H3|]. apply ew_inv3; assumption.
    - destruct (closed s); exact H3.
    - unfold Model.keepalive. destruct (closed s) eqn:Hc; [exact H3|]. destruct (ws s) eqn:Hws; try exact H3.
      destruct (4 <=? room s); [|exact H3].
      destruct H3 as (A & B & C & D & E). revert A B C D E. unfold Inv3, streaming, has_piece_msg, Model.put; sel.
      rewrite Hws. intros A B C D E.
      repeat split; intros;
        repeat match goal with H : _ \/ _ |- _ => destruct H | H : _ /\ _ |- _ => destruct H end;
        try discriminate; try tauto; try (apply E; assumption).
      destruct (C _ H) as (p0 & Hp0 & E0). exists p0. cbn [In]. tauto.
  Qed.

  Lemma run_inv3 : forall ops, Inv (run ops) /\ Inv3 (run ops).
  Proof.
    intro ops. unfold Model.run.
    assert (G : forall s, Inv s /\ Inv3 s -> Inv (fold_left step ops s) /\ Inv3 (fold_left step ops s)).
    { induction ops as [|o ops IH]; intros s [HI H3]; [auto|]. cbn [fold_left]. apply IH. split.
      - apply step_inv; assumption.
      - apply step_inv3; assumption. }
    apply G. split; [apply inv_init | apply inv3_init].
  Qed.

  (* ---- theorems ---- *)
  Theorem chunk_released_when_closed : forall ops, closed (run ops) = true -> upc (run ops) = None.
  Proof. intros ops. apply (proj2 (run_inv3 ops)). Qed.

  Theorem chunk_held_while_streaming : forall ops, ws (run ops) = WPiece -> upc (run ops) = Some (p_index (cur (run ops))).
  Proof. intros ops. apply (proj2 (run_inv3 ops)). Qed.

  (* what is mapped for upload belongs to a verified piece of the torrent for which a PIECE was prepared *)
  Theorem chunk_only_verified : forall ops i, params_ok P = true -> upc (run ops) = Some i ->
    l_completed L i = true /\ i < n_pieces L /\ exists p, In (MPiece p) (msgs (run ops)) /\ p_index p = i.
  Proof.
    intros ops i HP H. destruct (proj2 (run_inv3 ops)) as (_ & _ & C & _). destruct (C i H) as (p & Hp & E).
    pose proof (never_unverified L content enc ks P ops p Hp) as V.
    pose proof (never_out_of_range L content enc ks P ops p HP Hp) as (R & _). subst i.
    repeat split; try assumption. exists p. auto.
  Qed.

  (* the peer is choked and the CHOKE has been written (or was never unchoked): nothing mapped,
     nothing queued -- no reference outlives the clearing of the queue *)
  Theorem choked_holds_nothing : forall ops, choked (run ops) = true -> send_choked (run ops) = false ->
    upc (run ops) = None /\ queue (run ops) = [].
  Proof. intros ops. apply (proj2 (run_inv3 ops)). Qed.
End ProofsC.
