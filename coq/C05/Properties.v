From Coq Require Import List NArith Bool.
From LTV.C05 Require Import Model Proofs.
Local Open Scope N_scope.

Theorem params_ok_now : Proofs.params_ok = true.
Proof. exact Proofs.params_ok_now. Qed.
Print Assumptions params_ok_now.

Theorem piece_bytes_exact : forall (L : layout) (content : N -> N -> N) (ops : list op),
  let s := run L content ops in
  stream s ++ obuf s ++ pend_payload content s = wire content (msgs s).
Proof. exact Proofs.piece_bytes_exact. Qed.
Print Assumptions piece_bytes_exact.

Theorem piece_bytes_exact_idle : forall (L : layout) (content : N -> N -> N) (ops : list op),
  ws (run L content ops) = Idle -> stream (run L content ops) = wire content (msgs (run L content ops)).
Proof. exact Proofs.piece_bytes_exact_idle. Qed.
Print Assumptions piece_bytes_exact_idle.
