(* C05 — theorems (statements in full; proofs in Proofs.v / ProofsB.v; non-vacuity in Examples.v).
   L: torrent layout, content: verified content, enc: RC4 stream?, ks: keystream of the connection's
   encryptor (arbitrary function). All statements are for every op list, i.e. every request stream,
   every choke decision sequence and every segmentation of the writes. *)
From Coq Require Import List NArith Bool.
From LTV.C05 Require Import Model Proofs ProofsB ProofsC ProofsD Examples.
Import ListNotations.
Local Open Scope N_scope.

(* The policy P (queue limit, request length limit, what happens to unservable requests) is what the
   property leaves open; it is PROBED on the compiled code at run time. All theorems hold for every P;
   those that speak about the 2^17 protocol limit need the side condition params_ok P, which the check
   evaluates on the probed values with the extracted params_ok. *)
Theorem params_ok_now : Proofs.params_ok (mkPolicy 2048 131072 false false) = true.
Proof. exact Proofs.params_ok_default. Qed.
Print Assumptions params_ok_now.

Theorem params_ok_spec : forall P : policy, Proofs.params_ok P = true <-> lenlimit P <= 131072.
Proof. intro P. unfold Proofs.params_ok. apply N.leb_le. Qed.
Print Assumptions params_ok_spec.

(* piece_bytes_exact, plain and RC4 at once *)
Theorem piece_bytes_exact : forall (L : layout) (content : N -> N -> N) (enc : bool) (ks : N -> N) (P : policy) (ops : list op),
  let s := run L content enc ks P ops in
  exists P1, wire content (msgs s) = P1 ++ pend_payload content s /\
             stream s ++ obuf s ++ ebuf s = crypt enc ks 0 P1 /\
             kpos s = len P1.
Proof. exact Proofs.piece_bytes_exact. Qed.
Print Assumptions piece_bytes_exact.

Theorem piece_bytes_exact_plain : forall (L : layout) (content : N -> N -> N) (enc : bool) (ks : N -> N) (P : policy) (ops : list op),
  enc = false ->
  let s := run L content enc ks P ops in
  stream s ++ obuf s ++ pend_payload content s = wire content (msgs s).
Proof. exact Proofs.piece_bytes_exact_plain. Qed.
Print Assumptions piece_bytes_exact_plain.

(* RC4: the bytes on the wire, concatenated across all WriteReady segments, partial writes and
   encrypt-buffer refills, are the plaintext messages XOR ks at consecutive positions 0,1,2,... *)
Theorem piece_bytes_exact_rc4 : forall (L : layout) (content : N -> N -> N) (enc : bool) (ks : N -> N) (P : policy) (ops : list op),
  enc = true -> ws (run L content enc ks P ops) = Idle -> obuf (run L content enc ks P ops) = [] ->
  stream (run L content enc ks P ops) = xor_from ks 0 (wire content (msgs (run L content enc ks P ops))).
Proof. exact Proofs.piece_bytes_exact_rc4. Qed.
Print Assumptions piece_bytes_exact_rc4.

(* ... where xor_from uses each keystream position exactly once, in order *)
Theorem xor_from_nth : forall (ks : N -> N) (l : list N) (p : N) (j : nat), (j < length l)%nat ->
  nth j (xor_from ks p l) 0 = N.lxor (nth j l 0) (ks (p + N.of_nat j)).
Proof. exact (Proofs.xor_from_nth (fun _ _ => 0)). Qed.
Print Assumptions xor_from_nth.

Theorem piece_answers_request : forall (L : layout) (content : N -> N -> N) (enc : bool) (ks : N -> N) (P : policy) (ops : list op) (p : piece),
  In (MPiece p) (msgs (run L content enc ks P ops)) ->
  exists o1 o2, ops = o1 ++ RecvRequest p :: o2 /\
                choked (run L content enc ks P o1) = false /\ closed (run L content enc ks P o1) = false.
Proof. exact ProofsB.piece_answers_request. Qed.
Print Assumptions piece_answers_request.

Theorem piece_answers_request_from : forall (L : layout) (content : N -> N -> N) (enc : bool) (ks : N -> N) (P : policy)
    (ops1 ops2 : list op) (p : piece),
  In (MPiece p) (msgs (run L content enc ks P (ops1 ++ ops2))) ->
  In (MPiece p) (msgs (run L content enc ks P ops1)) \/ In p (queue (run L content enc ks P ops1)) \/
  (exists o1 o2, ops2 = o1 ++ RecvRequest p :: o2 /\
                 choked (Proofs.run_from L content enc ks P (run L content enc ks P ops1) o1) = false /\
                 closed (Proofs.run_from L content enc ks P (run L content enc ks P ops1) o1) = false).
Proof. exact ProofsB.piece_answers_request_from. Qed.
Print Assumptions piece_answers_request_from.

Theorem never_unverified : forall (L : layout) (content : N -> N -> N) (enc : bool) (ks : N -> N) (P : policy) (ops : list op) (p : piece),
  In (MPiece p) (msgs (run L content enc ks P ops)) -> l_completed L (p_index p) = true.
Proof. exact Proofs.never_unverified. Qed.
Print Assumptions never_unverified.

Theorem never_out_of_range : forall (L : layout) (content : N -> N -> N) (enc : bool) (ks : N -> N) (P : policy) (ops : list op) (p : piece),
  Proofs.params_ok P = true -> In (MPiece p) (msgs (run L content enc ks P ops)) ->
  p_index p < n_pieces L /\ 0 < p_len p /\ p_len p <= lenlimit P /\ p_len p <= 131072 /\
  p_off p + p_len p <= piece_size L (p_index p).
Proof. exact Proofs.never_out_of_range. Qed.
Print Assumptions never_out_of_range.

Theorem length_limit : forall (L : layout) (content : N -> N -> N) (enc : bool) (ks : N -> N) (P : policy) (ops : list op),
  N.of_nat (length (queue (run L content enc ks P ops))) <= qlimit P /\
  NoDup (queue (run L content enc ks P ops)) /\
  (forall p, In p (queue (run L content enc ks P ops)) -> p_len p <= lenlimit P).
Proof. exact Proofs.length_limit. Qed.
Print Assumptions length_limit.

Theorem cancel_effective : forall (L : layout) (content : N -> N -> N) (enc : bool) (ks : N -> N) (P : policy) (ops : list op) (p : piece),
  closed (run L content enc ks P ops) = false -> ~ In p (queue (run L content enc ks P (ops ++ [RecvCancel p]))).
Proof. exact Proofs.cancel_effective. Qed.
Print Assumptions cancel_effective.

Theorem choke_clears : forall (L : layout) (content : N -> N -> N) (enc : bool) (ks : N -> N) (P : policy) (ops : list op) (k : N),
  let s := run L content enc ks P ops in
  let s' := step L content enc ks P s (WriteReady k) in
  exists m, msgs s' = m ++ msgs s /\
            (In (MChoke true) m -> queue s' = [] /\ exists m', m = MChoke true :: m').
Proof. exact ProofsB.choke_clears. Qed.
Print Assumptions choke_clears.

Theorem request_ignored : forall (L : layout) (content : N -> N -> N) (enc : bool) (ks : N -> N) (P : policy) (s : st) (p : piece),
  choked s = true \/ lenlimit P < p_len p \/
  qlimit P <= N.of_nat (length (queue s)) \/ In p (queue s) \/ eager_drop L P p = true ->
  step L content enc ks P s (RecvRequest p) = s.
Proof. exact ProofsB.request_ignored. Qed.
Print Assumptions request_ignored.

Theorem bad_request_closes : forall (L : layout) (content : N -> N -> N) (enc : bool) (ks : N -> N) (P : policy) (s : st) (p : piece) (q : list piece),
  ws s = Idle -> closed s = false -> choked s = false -> queue s = p :: q ->
  (13 <=? room s - (if send_choked s && (5 <=? room s) then 5 else 0)) = true ->
  servable L p = false ->
  forall k, let s' := step L content enc ks P s (WriteReady k) in
  closed s' = true /\ out s' = out s /\ msgs s' = msgs s.
Proof. exact ProofsB.bad_head_closes. Qed.
Print Assumptions bad_request_closes.

Theorem closed_forever : forall (L : layout) (content : N -> N -> N) (enc : bool) (ks : N -> N) (P : policy) (ops1 ops2 : list op),
  closed (run L content enc ks P ops1) = true -> run L content enc ks P (ops1 ++ ops2) = run L content enc ks P ops1.
Proof. exact ProofsB.closed_forever. Qed.
Print Assumptions closed_forever.

(* ---- the mapped upload chunk (m_up_chunk: one ChunkList reference) ---- *)
Theorem chunk_released_when_closed : forall (L : layout) (content : N -> N -> N) (enc : bool) (ks : N -> N) (P : policy) (ops : list op),
  closed (run L content enc ks P ops) = true -> upc (run L content enc ks P ops) = None.
Proof. exact ProofsC.chunk_released_when_closed. Qed.
Print Assumptions chunk_released_when_closed.

Theorem chunk_held_while_streaming : forall (L : layout) (content : N -> N -> N) (enc : bool) (ks : N -> N) (P : policy) (ops : list op),
  ws (run L content enc ks P ops) = WPiece ->
  upc (run L content enc ks P ops) = Some (p_index (cur (run L content enc ks P ops))).
Proof. exact ProofsC.chunk_held_while_streaming. Qed.
Print Assumptions chunk_held_while_streaming.

Theorem chunk_only_verified : forall (L : layout) (content : N -> N -> N) (enc : bool) (ks : N -> N) (P : policy) (ops : list op) (i : N),
  Proofs.params_ok P = true -> upc (run L content enc ks P ops) = Some i ->
  l_completed L i = true /\ i < n_pieces L /\
  exists p, In (MPiece p) (msgs (run L content enc ks P ops)) /\ p_index p = i.
Proof. exact ProofsC.chunk_only_verified. Qed.
Print Assumptions chunk_only_verified.

(* choked and told so (CHOKE written, or never unchoked): nothing mapped, nothing queued *)
Theorem choked_holds_nothing : forall (L : layout) (content : N -> N -> N) (enc : bool) (ks : N -> N) (P : policy) (ops : list op),
  choked (run L content enc ks P ops) = true -> send_choked (run L content enc ks P ops) = false ->
  upc (run L content enc ks P ops) = None /\ queue (run L content enc ks P ops) = [].
Proof. exact ProofsC.choked_holds_nothing. Qed.
Print Assumptions choked_holds_nothing.

(* ---- the fuel of ew is sufficient: on every reachable state extra fuel changes nothing, i.e. the
   out-of-fuel exit is never taken and no write call of the model stops early ---- *)
Theorem fuel_sufficient : forall (L : layout) (content : N -> N -> N) (enc : bool) (ks : N -> N) (P : policy) (ops : list op) (k : N) (g : nat),
  Proofs.params_ok P = true ->
  let s := run L content enc ks P ops in
  closed s = false ->
  ew L content enc ks (ew_fuel s + g) k s = ew L content enc ks (ew_fuel s) k s.
Proof. exact (fun L content enc ks P ops k g HP => ProofsD.fuel_sufficient L content enc ks P HP ops k g). Qed.
Print Assumptions fuel_sufficient.
