(* C05 — theorems (statements in full; proofs in Proofs.v / ProofsB.v). *)
From Coq Require Import List NArith Bool.
From LTV.C05 Require Import ParamsGen Model Proofs ProofsB Examples.
Import ListNotations.
Local Open Scope N_scope.

Theorem params_ok_now : Proofs.params_ok = true.
Proof. exact Proofs.params_ok_now. Qed.
Print Assumptions params_ok_now.

(* piece_bytes_exact (segmentation independent: holds after every op list, whatever the budgets k) *)
Theorem piece_bytes_exact : forall (L : layout) (content : N -> N -> N) (ops : list op),
  let s := run L content ops in
  stream s ++ obuf s ++ pend_payload content s = wire content (msgs s).
Proof. exact Proofs.piece_bytes_exact. Qed.
Print Assumptions piece_bytes_exact.

Theorem piece_bytes_exact_idle : forall (L : layout) (content : N -> N -> N) (ops : list op),
  ws (run L content ops) = Idle -> stream (run L content ops) = wire content (msgs (run L content ops)).
Proof. exact Proofs.piece_bytes_exact_idle. Qed.
Print Assumptions piece_bytes_exact_idle.

Theorem piece_answers_request : forall (L : layout) (content : N -> N -> N) (ops : list op) (p : piece),
  In (MPiece p) (msgs (run L content ops)) ->
  exists o1 o2, ops = o1 ++ RecvRequest p :: o2 /\
                choked (run L content o1) = false /\ closed (run L content o1) = false.
Proof. exact ProofsB.piece_answers_request. Qed.
Print Assumptions piece_answers_request.

Theorem piece_answers_request_from : forall (L : layout) (content : N -> N -> N) (ops1 ops2 : list op) (p : piece),
  In (MPiece p) (msgs (run L content (ops1 ++ ops2))) ->
  In (MPiece p) (msgs (run L content ops1)) \/ In p (queue (run L content ops1)) \/
  (exists o1 o2, ops2 = o1 ++ RecvRequest p :: o2 /\
                 choked (Proofs.run_from L content (run L content ops1) o1) = false /\
                 closed (Proofs.run_from L content (run L content ops1) o1) = false).
Proof. exact ProofsB.piece_answers_request_from. Qed.
Print Assumptions piece_answers_request_from.

Theorem never_unverified : forall (L : layout) (content : N -> N -> N) (ops : list op) (p : piece),
  In (MPiece p) (msgs (run L content ops)) -> l_completed L (p_index p) = true.
Proof. exact Proofs.never_unverified. Qed.
Print Assumptions never_unverified.

Theorem never_out_of_range : forall (L : layout) (content : N -> N -> N) (ops : list op) (p : piece),
  In (MPiece p) (msgs (run L content ops)) ->
  p_index p < n_pieces L /\ 0 < p_len p /\ p_len p <= Params.c05_request_len_limit /\
  p_off p + p_len p <= piece_size L (p_index p).
Proof. exact Proofs.never_out_of_range. Qed.
Print Assumptions never_out_of_range.

Theorem length_limit : forall (L : layout) (content : N -> N -> N) (ops : list op),
  N.of_nat (length (queue (run L content ops))) <= Params.c05_max_request_queue /\
  NoDup (queue (run L content ops)) /\
  (forall p, In p (queue (run L content ops)) -> p_len p <= Params.c05_request_len_limit).
Proof. exact Proofs.length_limit. Qed.
Print Assumptions length_limit.

Theorem cancel_effective : forall (L : layout) (content : N -> N -> N) (ops : list op) (p : piece),
  closed (run L content ops) = false -> ~ In p (queue (run L content (ops ++ [RecvCancel p]))).
Proof. exact Proofs.cancel_effective. Qed.
Print Assumptions cancel_effective.

Theorem choke_clears : forall (L : layout) (content : N -> N -> N) (ops : list op) (k : N),
  let s := run L content ops in
  let s' := step L content s (WriteReady k) in
  exists m, msgs s' = m ++ msgs s /\
            (In (MChoke true) m -> queue s' = [] /\ exists m', m = MChoke true :: m').
Proof. exact ProofsB.choke_clears. Qed.
Print Assumptions choke_clears.

Theorem request_ignored : forall (L : layout) (content : N -> N -> N) (s : st) (p : piece),
  choked s = true \/ Params.c05_request_len_limit < p_len p \/
  Params.c05_max_request_queue <= N.of_nat (length (queue s)) \/ In p (queue s) ->
  step L content s (RecvRequest p) = s.
Proof. exact ProofsB.request_ignored. Qed.
Print Assumptions request_ignored.

Theorem bad_request_closes : forall (L : layout) (content : N -> N -> N) (s : st) (p : piece) (q : list piece),
  ws s = Idle -> closed s = false -> choked s = false -> queue s = p :: q ->
  is_valid_piece L p && l_completed L (p_index p) = false ->
  forall k, let s' := step L content s (WriteReady k) in
  closed s' = true /\ out s' = out s /\ msgs s' = msgs s.
Proof. exact ProofsB.bad_head_closes. Qed.
Print Assumptions bad_request_closes.

Theorem closed_forever : forall (L : layout) (content : N -> N -> N) (ops1 ops2 : list op),
  closed (run L content ops1) = true -> run L content (ops1 ++ ops2) = run L content ops1.
Proof. exact ProofsB.closed_forever. Qed.
Print Assumptions closed_forever.
