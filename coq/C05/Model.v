(* C05 — executable model of the upload path of one peer connection (definitions only).

   Modelled code (src/protocol/peer_connection_base.cc, peer_connection_leech.cc, protocol_base.h,
   torrent/data/file_list.cc), plain-text stream:
     read_request_piece / read_cancel_piece            -> recv_request / recv_cancel
     receive_upload_choke (m_up_choke, m_send_choked)   -> decide
     PeerConnection<>::fill_write_buffer (choke branch + piece branch), write_prepare_piece,
       FileList::is_valid_piece (uint32 wrap of offset+length), completed bitfield,
       ProtocolBase::write_choke / write_piece          -> fill
     PeerConnection<>::event_write state machine IDLE/MSG/WRITE_PIECE, load_up_chunk, up_chunk
       (offset/length advanced by the bytes the socket accepted)  -> ew
   One op = one library-level event; WriteReady k = the socket accepts k more bytes and then reports
   EAGAIN: event_write is called (EPOLLOUT is level-triggered) until the socket blocks or the writer
   has nothing to write; [ew] is the concatenation of those calls.
   RC4 connections: up_chunk_encrypt / EncryptBuffer position-end arithmetic (enc_refill), the
   keystream is the Section variable ks.
   Upload throttle: the three ThrottleList functions the upload path calls (node_quota, node_used,
   node_used_unthrottled) over the observed state of the list (op Throttle = what the harness read
   from the real ThrottleList before a write step; quota grants/ticks are the throttle's business, C12).
   Keep-alives: op KeepaliveTick = PeerConnection<>::receive_keepalive (only an IDLE writer takes one).
   Policy (what the property leaves open, probed from the compiled code at run time): queue limit,
   request length limit, whether unservable requests are dropped on receipt or close the connection
   when they reach the front of the queue.
   Not modelled: HAVE / INTERESTED / extension messages sharing the write buffer (the harness filters
   them out of the compared stream), storage errors in load_up_chunk, the 240 s read timeout.

   The fields [msgs] (messages placed in the write buffer, newest first) is a ghost log: no
   decision of the model reads it. *)
From Coq Require Import List NArith Bool.
Import ListNotations.
Local Open Scope N_scope.

Definition two32 : N := 4294967296.

Record piece := mkPiece { p_index : N; p_off : N; p_len : N }.

Definition piece_eqb (a b : piece) : bool :=
  (p_index a =? p_index b) && (p_off a =? p_off b) && (p_len a =? p_len b).

Definition wf_piece (p : piece) : Prop :=
  p_index p < two32 /\ p_off p < two32 /\ p_len p < two32.

(* Torrent layout as FileList sees it: total size, chunk size, completed bitfield. *)
Record layout := mkLayout { l_total : N; l_plen : N; l_completed : N -> bool }.

Definition n_pieces (L : layout) : N := (l_total L + l_plen L - 1) / l_plen L.

(* FileList::chunk_index_size *)
Definition piece_size (L : layout) (i : N) : N :=
  if negb (i + 1 =? n_pieces L) || (l_total L mod l_plen L =? 0) then l_plen L
  else l_total L mod l_plen L.

(* FileList::is_valid_piece, with offset+length computed in uint32 *)
Definition is_valid_piece (L : layout) (p : piece) : bool :=
  (p_index p <? n_pieces L) && negb (p_len p =? 0) &&
  (p_off p <=? (p_off p + p_len p) mod two32) &&
  ((p_off p + p_len p) mod two32 <=? piece_size L (p_index p)).

Inductive wstate := Idle | Msg | WPiece.
Inductive msg := MChoke (c : bool) | MPiece (p : piece) | MKeep.

(* what the property leaves open; probed on the implementation *)
Record policy := mkPolicy {
  qlimit : N;        (* ProtocolExtension::max_request_queue_size *)
  lenlimit : N;      (* largest REQUEST length read_request_piece queues *)
  eager_inv : bool;  (* requests failing is_valid_piece are ignored on receipt (else: close when served) *)
  eager_unv : bool   (* requests for a piece that is not completed are ignored on receipt *)
}.

(* observable state of the upload ThrottleList as far as this connection's node is concerned *)
Record thr := mkThr {
  t_on : bool;   (* m_enabled *)
  t_min : N;     (* m_minChunkSize *)
  t_nq : N;      (* node->quota() *)
  t_un : N;      (* m_unallocatedQuota *)
  t_uu : N       (* m_unusedUnthrottledQuota *)
}.
Definition thr_off : thr := mkThr false 0 0 0 0.

(* ThrottleList::node_quota (active node) *)
Definition node_quota (t : thr) : N :=
  if negb (t_on t) then 2147483647
  else if t_min t <=? t_nq t + t_un t then t_nq t + t_un t else 0.
(* ThrottleList::node_used *)
Definition node_used (t : thr) (u : N) : thr :=
  if (u =? 0) || negb (t_on t) then t
  else let q := N.min u (t_nq t) in
       mkThr (t_on t) (t_min t) (t_nq t - q) (t_un t - N.min (u - q) (t_un t)) (t_uu t).
(* ThrottleList::node_used_unthrottled *)
Definition node_used_unthr (t : thr) (u : N) : thr :=
  let a := N.min u (t_uu t) in
  mkThr (t_on t) (t_min t) (t_nq t) (t_un t - N.min (u - a) (t_un t)) (t_uu t - a).

Record st := mkSt {
  choked : bool;          (* m_up_choke.choked() *)
  send_choked : bool;     (* m_send_choked *)
  queue : list piece;     (* m_peer_chunks.upload_queue(), front first *)
  ws : wstate;            (* m_up->get_state() *)
  obuf : list N;          (* unsent part of m_up->buffer() (already encrypted on RC4 connections) *)
  last_piece : bool;      (* m_up->last_command() == PIECE *)
  cur : piece;            (* m_up_piece (offset/length move as bytes are written) *)
  closed : bool;          (* connection erased after communication_error *)
  out : list (list N);    (* byte chunks accepted by the socket, newest first *)
  msgs : list msg;        (* ghost: messages placed in the write buffer, newest first *)
  ebuf : list N;          (* m_encrypt_buffer: position()..end(), encrypted and not yet sent *)
  eb_end : N;             (* m_encrypt_buffer->size_end() *)
  kpos : N;               (* bytes the connection's RC4 encryptor has produced so far *)
  upc : option N;         (* m_up_chunk: index of the chunk this connection holds mapped (one ChunkList reference) *)
  tq : thr                (* upload throttle as last observed / as moved by this connection's writes *)
}.

Definition init : st :=
  mkSt true false [] Idle [] false (mkPiece 4294967295 0 0) false [] [] [] 0 0 None thr_off.

Inductive op :=
| RecvRequest (p : piece)
| RecvCancel (p : piece)
| Decide (choke : bool)
| WriteReady (k : N)
| Throttle (t : thr)        (* the harness read this state from the real ThrottleList *)
| KeepaliveTick.            (* DownloadWrapper::receive_tick, ticks % 4 == 0 *)

Definition be32 (n : N) : list N :=
  [ (n / 16777216) mod 256; (n / 65536) mod 256; (n / 256) mod 256; n mod 256 ].

(* ProtocolBase::write_choke : <len=1><id 0 choke | 1 unchoke> *)
Definition enc_choke (c : bool) : list N := be32 1 ++ [if c then 0 else 1].

(* ProtocolBase::write_piece : <len=9+length><7><index><offset> *)
Definition enc_piece_hdr (p : piece) : list N :=
  be32 ((9 + p_len p) mod two32) ++ [7] ++ be32 (p_index p) ++ be32 (p_off p).

(* ProtocolBase::write_keepalive *)
Definition enc_keep : list N := [0; 0; 0; 0].

Definition stream (s : st) : list N := concat (rev (out s)).

Fixpoint remove_first (p : piece) (q : list piece) : list piece :=
  match q with
  | [] => []
  | x :: q' => if piece_eqb x p then q' else x :: remove_first p q'
  end.

Definition len (l : list N) : N := N.of_nat (length l).

(* ProtocolBuffer<512>: room left behind what is already in the (reset) message buffer *)
Definition buf_size : N := 512.
Definition room (s : st) : N := buf_size - len (obuf s).

Section Conn.
  Variable L : layout.
  Variable content : N -> N -> N.   (* piece index, offset in piece -> byte of the verified content *)
  Variable enc : bool.              (* RC4 stream (EncryptionInfo::is_encrypted) *)
  Variable ks : N -> N.             (* keystream byte at position n of the connection's encryptor,
                                       counted from the first byte this connection encrypts *)
  Variable P : policy.

  Fixpoint slice_fuel (f : nat) (i off : N) : list N :=
    match f with
    | O => []
    | S f' => content i off :: slice_fuel f' i (off + 1)
    end.
  Definition slice (i off n : N) : list N := slice_fuel (N.to_nat n) i off.

  (* RC4::crypt over a buffer: byte j of the buffer is combined with keystream position pos+j *)
  Fixpoint xor_from (pos : N) (l : list N) : list N :=
    match l with
    | [] => []
    | x :: t => N.lxor x (ks pos) :: xor_from (pos + 1) t
    end.
  Definition crypt (pos : N) (l : list N) : list N := if enc then xor_from pos l else l.

  Definition servable (p : piece) : bool := is_valid_piece L p && l_completed L (p_index p).

  (* dropped on receipt by the probed policy *)
  Definition eager_drop (p : piece) : bool :=
    (eager_inv P && negb (is_valid_piece L p)) ||
    (eager_unv P && is_valid_piece L p && negb (l_completed L (p_index p))).

  (* read_message REQUEST case + read_request_piece *)
  Definition recv_request (s : st) (p : piece) : st :=
    if closed s then s else
    if choked s || (qlimit P <=? N.of_nat (length (queue s)))
       || (lenlimit P <? p_len p) then s
    else if eager_drop p then s
    else if existsb (piece_eqb p) (queue s) then s
    else mkSt (choked s) (send_choked s) (queue s ++ [p]) (ws s) (obuf s) (last_piece s) (cur s)
              (closed s) (out s) (msgs s) (ebuf s) (eb_end s) (kpos s) (upc s) (tq s).

  (* read_cancel_piece *)
  Definition recv_cancel (s : st) (p : piece) : st :=
    if closed s then s else
    mkSt (choked s) (send_choked s) (remove_first p (queue s)) (ws s) (obuf s) (last_piece s) (cur s)
         (closed s) (out s) (msgs s) (ebuf s) (eb_end s) (kpos s) (upc s) (tq s).

  (* receive_upload_choke; the choke_queue never calls it with the state it already has *)
  Definition decide (s : st) (c : bool) : st :=
    if closed s then s else
    if Bool.eqb c (choked s) then s
    else mkSt c true (queue s) (ws s) (obuf s) (last_piece s) (cur s) (closed s) (out s) (msgs s)
              (ebuf s) (eb_end s) (kpos s) (upc s) (tq s).

  Definition set_tq (s : st) (t : thr) : st :=
    mkSt (choked s) (send_choked s) (queue s) (ws s) (obuf s) (last_piece s) (cur s) (closed s) (out s) (msgs s)
         (ebuf s) (eb_end s) (kpos s) (upc s) t.

  (* append plaintext B to the message buffer: ProtocolBase::write_* followed by
     m_encryption.encrypt(old_end, end - old_end) *)
  Definition put (s : st) (B : list N) (lp : bool) (m : msg) : st :=
    mkSt (choked s) (send_choked s) (queue s) (ws s) (obuf s ++ crypt (kpos s) B) lp (cur s) (closed s) (out s)
         (m :: msgs s) (ebuf s) (eb_end s) (kpos s + len B) (upc s) (tq s).

  (* PeerConnection<>::receive_keepalive: only an idle writer with room takes a keep-alive *)
  Definition keepalive (s : st) : st :=
    if closed s then s else
    match ws s with
    | Idle => if 4 <=? room s then put s enc_keep false MKeep else s
    | _ => s
    end.

  (* the message buffer after fill_write_buffer appended plaintext B (and encrypted it): the writer
     leaves IDLE for MSG iff the buffer is not empty ("if remaining() == 0 return; set_state(MSG)") *)
  Definition buffered (s : st) (B : list N) (lp : bool) (c : piece) (q : list piece) (sc : bool)
                      (ms : list msg) (u : option N) : st :=
    let ob := obuf s ++ crypt (kpos s) B in
    mkSt (choked s) sc q (match ob with [] => Idle | _ :: _ => Msg end) ob lp c (closed s) (out s) ms
         (ebuf s) (eb_end s) (kpos s + len B) u (tq s).

  (* fill_write_buffer on an IDLE writer (the buffer holds at most keep-alives), followed by the
     IDLE -> MSG transition of event_write.
       choke branch:  m_send_choked && can_write_choke(): write CHOKE/UNCHOKE; a CHOKE releases the
                      mapped chunk and clears the queue;
       piece branch:  !choked && !queue.empty() && can_write_piece(): write_prepare_piece pops the
                      head; if it is not servable: communication_error, the connection is erased. *)
  Definition fill (s : st) : st :=
    let dc := send_choked s && (5 <=? room s) in
    let B1 := if dc then enc_choke (choked s) else [] in
    let m1 := if dc then MChoke (choked s) :: msgs s else msgs s in
    let q1 := if dc && choked s then [] else queue s in
    let u1 := if dc && choked s then None else upc s in
    let sc1 := send_choked s && negb dc in
    let lp1 := if dc then false else last_piece s in
    match (if choked s then [] else q1) with
    | p :: q' =>
        if 13 <=? room s - len B1 then
          if servable p then buffered s (B1 ++ enc_piece_hdr p) true p q' sc1 (MPiece p :: m1) u1
          else
            (* what this call had appended is dropped; older unsent keep-alives stay in the (now dead)
               buffer and are never sent *)
            mkSt (choked s) sc1 q' Idle (obuf s) (last_piece s) p true (out s) (msgs s)
                 (ebuf s) (eb_end s) (kpos s) None (tq s)
        else buffered s B1 lp1 (cur s) q1 sc1 m1 u1
    | [] => buffered s B1 lp1 (cur s) q1 sc1 m1 u1
    end.

  Definition set_ws (s : st) (w : wstate) : st :=
    mkSt (choked s) (send_choked s) (queue s) w (obuf s) (last_piece s) (cur s) (closed s) (out s) (msgs s)
         (ebuf s) (eb_end s) (kpos s) (upc s) (tq s).

  (* load_up_chunk: keep the mapped chunk if it is the right one, else release it and map the
     chunk of m_up_piece (ChunkList::get takes one reference) *)
  Definition load_chunk (s : st) : st :=
    mkSt (choked s) (send_choked s) (queue s) (ws s) (obuf s) (last_piece s) (cur s) (closed s) (out s) (msgs s)
         (ebuf s) (eb_end s) (kpos s) (Some (p_index (cur s))) (tq s).

  (* the socket accepts the first n bytes of the write buffer (node_used_unthrottled) *)
  Definition write_buf (s : st) (n : N) : st :=
    mkSt (choked s) (send_choked s) (queue s) (ws s) (skipn (N.to_nat n) (obuf s)) (last_piece s) (cur s)
         (closed s) (firstn (N.to_nat n) (obuf s) :: out s) (msgs s) (ebuf s) (eb_end s) (kpos s) (upc s)
         (node_used_unthr (tq s) n).

  (* up_chunk, plain stream: n payload bytes written; m_up_piece offset/length adjusted
     (kpos moves too: ghost on plain connections, where crypt is the identity) *)
  Definition write_payload (s : st) (n : N) : st :=
    let c := cur s in
    mkSt (choked s) (send_choked s) (queue s) (ws s) (obuf s) (last_piece s)
         (mkPiece (p_index c) (p_off c + n) (p_len c - n))
         (closed s) (slice (p_index c) (p_off c) n :: out s) (msgs s) (ebuf s) (eb_end s) (kpos s + n) (upc s)
         (node_used (tq s) n).

  (* up_chunk_encrypt(quota): Chunk::to_buffer of the next not yet encrypted bytes of the block into
     the EncryptBuffer (16384 bytes), RC4 over exactly those bytes. quota = min(node quota, length). *)
  Definition eb_size : N := 16384.
  Definition enc_refill (s : st) (quota : N) : st :=
    let c := cur s in
    let r := len (ebuf s) in
    if quota <=? r then s
    else
      let e0 := if r =? 0 then 0 else eb_end s in                (* remaining()==0: reset() *)
      let n := if r =? 0 then N.min quota eb_size                (* min(quota, reserved()) *)
               else N.min (quota - r) (eb_size - e0) in          (* min(quota - remaining, reserved_left) *)
      mkSt (choked s) (send_choked s) (queue s) (ws s) (obuf s) (last_piece s) c (closed s) (out s) (msgs s)
           (ebuf s ++ crypt (kpos s) (slice (p_index c) (p_off c + r) n)) (e0 + n) (kpos s + n) (upc s) (tq s).

  (* the socket accepts the first n bytes of the encrypt buffer *)
  Definition write_ebuf (s : st) (n : N) : st :=
    let c := cur s in
    mkSt (choked s) (send_choked s) (queue s) (ws s) (obuf s) (last_piece s)
         (mkPiece (p_index c) (p_off c + n) (p_len c - n))
         (closed s) (firstn (N.to_nat n) (ebuf s) :: out s) (msgs s)
         (skipn (N.to_nat n) (ebuf s)) (eb_end s) (kpos s) (upc s) (node_used (tq s) n).

  (* one up_chunk call with socket budget k: (state, bytes written). Quota 0: the node is
     deactivated and the connection leaves the write poll -- nothing written. *)
  Definition up_chunk (s : st) (k : N) : st * N :=
    let quota := N.min (node_quota (tq s)) (p_len (cur s)) in
    if node_quota (tq s) =? 0 then (s, 0) else
    if enc then
      let s0 := enc_refill s quota in
      let n := N.min k (N.min quota (len (ebuf s0))) in
      (if n =? 0 then s0 else write_ebuf s0 n, n)
    else
      let n := N.min k quota in
      (if n =? 0 then s else write_payload s n, n).

  (* PeerConnection<>::event_write: each recursive call is one iteration of its do-while loop *)
  Fixpoint ew (fuel : nat) (k : N) (s : st) : st :=
    match fuel with
    | O => s
    | S f =>
      match ws s with
      | Idle =>
          let s1 := fill s in
          if closed s1 then s1 else
          match ws s1 with
          | Msg => ew f k s1
          | _ => s1                       (* nothing to write: remove_write, return *)
          end
      | Msg =>
          let n := N.min k (N.of_nat (length (obuf s))) in
          if n =? 0 then s                (* EAGAIN *)
          else
            let s1 := write_buf s n in
            match obuf s1 with
            | _ :: _ => s1                (* partial write: return *)
            | [] => if last_piece s1 then ew f (k - n) (load_chunk (set_ws s1 WPiece))
                    else ew f (k - n) (set_ws s1 Idle)
            end
      | WPiece =>
          let (s1, n) := up_chunk s k in
          if n =? 0 then s1               (* EAGAIN / no quota *)
          else if p_len (cur s1) =? 0 then ew f (k - n) (set_ws s1 Idle)
          else ew f (k - n) s1            (* up_chunk returned false: event_write returns; EPOLLOUT is
                                             level-triggered, so it is called again at once *)
      end
    end.

  (* per block: IDLE, MSG, and at most 131072/16384 + 2 WRITE_PIECE rounds *)
  Definition ew_fuel (s : st) : nat := 13 * length (queue s) + 30.

  Definition step (s : st) (o : op) : st :=
    match o with
    | RecvRequest p => recv_request s p
    | RecvCancel p => recv_cancel s p
    | Decide c => decide s c
    | WriteReady k => if closed s then s else ew (ew_fuel s) k s
    | Throttle t => if closed s then s else set_tq s t
    | KeepaliveTick => keepalive s
    end.

  Definition run (ops : list op) : st := fold_left step ops init.

  (* what the peer must see (before the stream cipher) for a message log (oldest first) *)
  Definition enc_msg (m : msg) : list N :=
    match m with
    | MChoke c => enc_choke c
    | MPiece p => enc_piece_hdr p ++ slice (p_index p) (p_off p) (p_len p)
    | MKeep => enc_keep
    end.
  Definition wire (ms : list msg) : list N := concat (map enc_msg (rev ms)).

  (* plaintext payload the writer still owes and has not yet passed through the cipher *)
  Definition pend_payload (s : st) : list N :=
    match ws s with
    | Idle => []
    | Msg => if last_piece s then slice (p_index (cur s)) (p_off (cur s)) (p_len (cur s)) else []
    | WPiece => slice (p_index (cur s)) (p_off (cur s) + len (ebuf s)) (p_len (cur s) - len (ebuf s))
    end.
End Conn.
