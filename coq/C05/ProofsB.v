(* C05 proofs, part C: where PIECE messages come from (piece_answers_request), what a written
   CHOKE does (choke_clears), what an invalid head of queue does (bad_request_closes_or_ignored). *)
From Coq Require Import List NArith ZArith Bool Lia Arith.
From LTV.C05 Require Import Model Proofs.
Import ListNotations.
Local Open Scope N_scope.

Section ProofsB.
  Variable L : layout.
  Variable content : N -> N -> N.
  Variable enc : bool.
  Variable ks : N -> N.
  Variable P : policy.

  Notation fill := (fill L enc ks).
  Notation keepalive := (keepalive enc ks).
  Notation ew := (ew L content enc ks).
  Notation step := (step L content enc ks P).
  Notation run := (run L content enc ks P).
  Notation run_from := (run_from L content enc ks P).
  Notation up_chunk := (up_chunk content enc ks).
  Notation up_chunk_same := (up_chunk_same content enc ks).
  Notation keepalive_qm := (keepalive_qm enc ks).

  Ltac sel := cbn [set_ws set_tq write_buf write_payload choked queue obuf msgs out last_piece cur closed ws send_choked ebuf eb_end kpos upc tq load_chunk].

  Ltac fill_cases s :=
    unfold Model.fill; cbv zeta;
    destruct (send_choked s && (5 <=? room s)) eqn:Hdc; cbn [andb negb];
    destruct (choked s) eqn:Hc; cbn [andb];
    try (destruct (queue s) as [|x q'] eqn:Hq); cbn [andb];
    try (destruct (13 <=? _) eqn:H13);
    try (match goal with |- context [servable L ?y] => destruct (servable L y) eqn:Hv end);
    unfold Model.buffered; sel.

  (* ---------- provenance of queue entries and PIECE messages ---------- *)
  Lemma fill_queue_sub : forall s p, In p (queue (fill s)) -> In p (queue s).
  Proof.
    intros s p. fill_cases s; cbn [In]; try tauto; try (rewrite Hq; cbn [In]; tauto).
  Qed.

  Lemma fill_msgs_sub : forall s p, In (MPiece p) (msgs (fill s)) -> In (MPiece p) (msgs s) \/ In p (queue s).
  Proof.
    intros s p. fill_cases s; cbn [In]; try tauto;
      intros H; repeat (destruct H as [H|H]); try discriminate H; try (left; exact H);
      try (inversion H; subst; right; left; reflexivity).
  Qed.

  Lemma ew_sub : forall f k s p,
    (In p (queue (ew f k s)) -> In p (queue s)) /\
    (In (MPiece p) (msgs (ew f k s)) -> In (MPiece p) (msgs s) \/ In p (queue s)).
  Proof.
    induction f as [|f IH]; intros k s p; cbn [Model.ew]; [tauto|].
    destruct (ws s).
    - assert (Hbase : (In p (queue (fill s)) -> In p (queue s)) /\
                      (In (MPiece p) (msgs (fill s)) -> In (MPiece p) (msgs s) \/ In p (queue s)))
        by (split; [apply fill_queue_sub | apply fill_msgs_sub]).
      destruct (closed (fill s)); [exact Hbase|].
      destruct (ws (fill s)); try exact Hbase.
      destruct (IH k (fill s) p) as [A B]. split.
      + intro H. apply fill_queue_sub, A, H.
      + intro H. destruct (B H) as [H1|H1]; [apply fill_msgs_sub, H1 | right; apply fill_queue_sub, H1].
    - destruct (N.min k (N.of_nat (length (obuf s))) =? 0); [tauto|].
      destruct (obuf (write_buf s _)); [|unfold write_buf; sel; tauto].
      destruct (last_piece (write_buf s _));
        match goal with |- context [ew f ?k' ?s'] => destruct (IH k' s' p) as [A B]; revert A B end;
        unfold write_buf; sel; tauto.
    - pose proof (up_chunk_same s k) as (Q & M & _). destruct (up_chunk s k) as [s1 n]. cbn [fst] in *.
      destruct (n =? 0); [rewrite Q, M; tauto|].
      destruct (p_len (cur s1) =? 0);
        match goal with |- context [ew f ?k' ?s'] => destruct (IH k' s' p) as [A B]; revert A B end;
        sel; rewrite Q, M; tauto.
  Qed.

  Lemma step_queue : forall s o p, In p (queue (step s o)) ->
    In p (queue s) \/ (o = RecvRequest p /\ choked s = false /\ closed s = false).
  Proof.
    intros s o p. destruct o as [r|r|c|k|t|]; cbn [Model.step].
    - unfold recv_request. destruct (closed s) eqn:Hc; [tauto|].
      destruct (choked s) eqn:Hch; cbn [orb]; [tauto|].
      destruct ((qlimit P <=? N.of_nat (length (queue s))) || (lenlimit P <? p_len r)); [tauto|].
      destruct (eager_drop L P r); [tauto|].
      destruct (existsb (piece_eqb r) (queue s)); [tauto|]. sel.
      rewrite in_app_iff. cbn [In]. intros [H|[H|[]]]; [tauto|]. subst. right. auto.
    - unfold recv_cancel. destruct (closed s); [tauto|]. sel. intro H. left. eapply remove_first_sub, H.
    - unfold decide. destruct (closed s); [tauto|]. destruct (Bool.eqb c (choked s)); sel; tauto.
    - destruct (closed s); [tauto|]. intro H. left. apply (proj1 (ew_sub (ew_fuel s) k s p)), H.
    - destruct (closed s); sel; tauto.
    - destruct (keepalive_qm s) as (Q & _). rewrite Q. tauto.
  Qed.

  Lemma step_msgs : forall s o p, In (MPiece p) (msgs (step s o)) -> In (MPiece p) (msgs s) \/ In p (queue s).
  Proof.
    intros s o p. destruct o as [r|r|c|k|t|]; cbn [Model.step].
    - unfold recv_request. destruct (closed s); [tauto|]. destruct (choked s || _ || _); [tauto|].
      destruct (eager_drop L P r); [tauto|]. destruct (existsb _ _); sel; tauto.
    - unfold recv_cancel. destruct (closed s); sel; tauto.
    - unfold decide. destruct (closed s); [tauto|]. destruct (Bool.eqb c (choked s)); sel; tauto.
    - destruct (closed s); [tauto|]. apply (proj2 (ew_sub (ew_fuel s) k s p)).
    - destruct (closed s); sel; tauto.
    - destruct (keepalive_qm s) as (_ & _ & _ & _ & _ & [M|M]); rewrite M; cbn [In]; [tauto|].
      intros [H|H]; [discriminate H | tauto].
  Qed.

  Definition requested_in (s : st) (ops : list op) (p : piece) : Prop :=
    exists o1 o2, ops = o1 ++ RecvRequest p :: o2 /\
                  choked (run_from s o1) = false /\ closed (run_from s o1) = false.

  Lemma provenance : forall ops s p,
    (In p (queue (run_from s ops)) -> In p (queue s) \/ requested_in s ops p) /\
    (In (MPiece p) (msgs (run_from s ops)) -> In (MPiece p) (msgs s) \/ In p (queue s) \/ requested_in s ops p).
  Proof.
    induction ops as [|o ops IH]; intros s p; [cbn [Proofs.run_from fold_left]; tauto|].
    change (run_from s (o :: ops)) with (run_from (step s o) ops).
    destruct (IH (step s o) p) as [A B].
    assert (lift : requested_in (step s o) ops p -> requested_in s (o :: ops) p).
    { intros (o1 & o2 & E & H1 & H2). exists (o :: o1), o2. subst ops. repeat split; assumption. }
    assert (here : o = RecvRequest p /\ choked s = false /\ closed s = false -> requested_in s (o :: ops) p).
    { intros (E & H1 & H2). exists [], ops. subst o. repeat split; assumption. }
    split.
    - intro H. destruct (A H) as [H1|H1]; [|right; apply lift, H1].
      destruct (step_queue s o p H1) as [H2|H2]; [left; exact H2 | right; apply here, H2].
    - intro H. destruct (B H) as [H1|[H1|H1]]; [| |right; right; apply lift, H1].
      + destruct (step_msgs s o p H1) as [H2|H2]; [left; exact H2 | right; left; exact H2].
      + destruct (step_queue s o p H1) as [H2|H2]; [right; left; exact H2 | right; right; apply here, H2].
  Qed.

  (* piece_answers_request: every PIECE (i,b,l) placed on the wire answers a REQUEST (i,b,l)
     received earlier on this connection at a moment when the peer was unchoked. *)
  Theorem piece_answers_request : forall ops p, In (MPiece p) (msgs (run ops)) ->
    exists o1 o2, ops = o1 ++ RecvRequest p :: o2 /\ choked (run o1) = false /\ closed (run o1) = false.
  Proof.
    intros ops p H. destruct (proj2 (provenance ops init p) H) as [H1|[H1|H1]];
      [destruct H1 | destruct H1 | exact H1].
  Qed.

  (* relative form: what is sent after any point of the history was either already queued at
     that point or requested (while unchoked) after it *)
  Theorem piece_answers_request_from : forall ops1 ops2 p,
    In (MPiece p) (msgs (run (ops1 ++ ops2))) ->
    In (MPiece p) (msgs (run ops1)) \/ In p (queue (run ops1)) \/ requested_in (run ops1) ops2 p.
  Proof.
    intros ops1 ops2 p H. unfold Model.run in H. rewrite fold_left_app in H.
    exact (proj2 (provenance ops2 (run ops1) p) H).
  Qed.
  (* ---------- choke_clears ---------- *)
  Lemma fill_quiet : forall s, choked s = true -> send_choked s = false ->
    msgs (fill s) = msgs s /\ queue (fill s) = queue s /\ choked (fill s) = true /\ send_choked (fill s) = false.
  Proof. intros s Hc Hs. unfold Model.fill. cbv zeta. rewrite Hs, Hc. cbn [andb]. unfold Model.buffered; sel. auto. Qed.

  Lemma ew_choked_quiet : forall f k s, choked s = true -> send_choked s = false ->
    msgs (ew f k s) = msgs s /\ queue (ew f k s) = queue s.
  Proof.
    induction f as [|f IH]; intros k s Hc Hs; cbn [Model.ew]; [tauto|].
    destruct (ws s).
    - destruct (fill_quiet s Hc Hs) as (M & Q & C & S). destruct (closed (fill s)); [tauto|].
      destruct (ws (fill s)); try tauto.
      destruct (IH k (fill s) C S) as [A B]. rewrite A, B. tauto.
    - destruct (N.min k (N.of_nat (length (obuf s))) =? 0); [tauto|].
      destruct (obuf (write_buf s _)); [|unfold write_buf; sel; tauto].
      destruct (last_piece (write_buf s _));
        match goal with |- context [ew f ?k' ?s'] => apply (IH k' s'); assumption end.
    - pose proof (up_chunk_same s k) as (Q & M & C & S & _). destruct (up_chunk s k) as [s1 n]. cbn [fst] in *.
      destruct (n =? 0); [tauto|].
      destruct (p_len (cur s1) =? 0);
        match goal with |- context [ew f ?k' ?s'] => destruct (IH k' s') as [A B]; sel; try congruence; revert A B; sel end;
        rewrite Q, M; tauto.
  Qed.

  Lemma fill_shape : forall s, exists m1, msgs (fill s) = m1 ++ msgs s /\
    ((m1 = [MChoke true] /\ choked (fill s) = true /\ send_choked (fill s) = false /\ queue (fill s) = [])
     \/ ~ In (MChoke true) m1).
  Proof.
    intros s. fill_cases s;
      first
      [ exists [MChoke true]; split; [reflexivity|]; left; repeat split; first [reflexivity | assumption | apply andb_false_r]
      | exists [MChoke false]; split; [reflexivity|]; right; cbn [In]; intros [H|[]]; discriminate H
      | eexists [MPiece _; MChoke false]; split; [reflexivity|]; right; cbn [In]; intros [H|[H|[]]]; discriminate H
      | eexists [MPiece _]; split; [reflexivity|]; right; cbn [In]; intros [H|[]]; discriminate H
      | exists []; split; [reflexivity|]; right; cbn [In]; tauto ].
  Qed.

  Definition choke_last (m : list msg) (q : list piece) : Prop :=
    In (MChoke true) m -> q = [] /\ exists m', m = MChoke true :: m'.

  Lemma ew_choke_clears : forall f k s, exists m, msgs (ew f k s) = m ++ msgs s /\ choke_last m (queue (ew f k s)).
  Proof.
    induction f as [|f IH]; intros k s; cbn [Model.ew].
    { exists []. split; [reflexivity|]. intros []. }
    destruct (ws s).
    - destruct (fill_shape s) as (m1 & Hm1 & Hsh).
      assert (Hdone : exists m, msgs (fill s) = m ++ msgs s /\ choke_last m (queue (fill s))).
      { exists m1. split; [exact Hm1|]. intro Hin. destruct Hsh as [(E & _ & _ & Hq)|Hn]; [|contradiction].
        split; [exact Hq|]. exists []. exact E. }
      destruct (closed (fill s)); [exact Hdone|]. destruct (ws (fill s)); try exact Hdone.
      destruct Hsh as [(E & Hc & Hs & Hq)|Hn].
      + destruct (ew_choked_quiet f k (fill s) Hc Hs) as [Hm Hqq].
        exists m1. rewrite Hm, Hqq. split; [exact Hm1|]. intros _. split; [exact Hq|]. exists []. exact E.
      + destruct (IH k (fill s)) as (m2 & Hm2 & Hcl).
        exists (m2 ++ m1). split; [rewrite Hm2, Hm1, app_assoc; reflexivity|].
        intro Hin. apply in_app_or in Hin. destruct Hin as [Hin|Hin]; [|contradiction].
        destruct (Hcl Hin) as (Hq & m' & E). split; [exact Hq|]. exists (m' ++ m1). rewrite E. reflexivity.
    - destruct (N.min k (N.of_nat (length (obuf s))) =? 0).
      { exists []. split; [reflexivity|]. intros []. }
      destruct (obuf (write_buf s _)).
      2:{ exists []. split; [reflexivity|]. intros []. }
      destruct (last_piece (write_buf s _));
        match goal with |- context [ew f ?k' ?s'] => destruct (IH k' s') as (m & Hm & Hcl) end;
        exists m; split; assumption.
    - pose proof (up_chunk_same s k) as (Q & M & _). destruct (up_chunk s k) as [s1 n]. cbn [fst] in *.
      destruct (n =? 0).
      { exists []. rewrite M, Q. split; [reflexivity|]. intros []. }
      destruct (p_len (cur s1) =? 0);
        match goal with |- context [ew f ?k' ?s'] => destruct (IH k' s') as (m & Hm & Hcl) end;
        revert Hm; sel; rewrite M; intro Hm; exists m; split; assumption.
  Qed.

  (* choke_clears: in any write call, at any point of any history: if a CHOKE goes into the write
     buffer it is the last message of that call and the peer's pending requests are gone
     (what is sent later is then requested later: piece_answers_request_from). *)
  Theorem choke_clears : forall ops k,
    let s := run ops in
    let s' := step s (WriteReady k) in
    exists m, msgs s' = m ++ msgs s /\
              (In (MChoke true) m -> queue s' = [] /\ exists m', m = MChoke true :: m').
  Proof.
    intros ops k. cbn zeta. cbn [Model.step]. destruct (closed (run ops)).
    - exists []. split; [reflexivity|]. intros [].
    - apply ew_choke_clears.
  Qed.

  (* ---------- bad requests ---------- *)
  Theorem request_ignored : forall s p,
    choked s = true \/ lenlimit P < p_len p \/
    qlimit P <= N.of_nat (length (queue s)) \/ In p (queue s) \/ eager_drop L P p = true ->
    step s (RecvRequest p) = s.
  Proof.
    intros s p H. cbn [Model.step]. unfold recv_request. destruct (closed s); [reflexivity|].
    destruct (choked s) eqn:Hc; cbn [orb]; [reflexivity|].
    destruct (qlimit P <=? N.of_nat (length (queue s))) eqn:Hq; cbn [orb]; [reflexivity|].
    destruct (lenlimit P <? p_len p) eqn:Hl; [reflexivity|].
    destruct (eager_drop L P p) eqn:Hd; [reflexivity|].
    destruct (existsb (piece_eqb p) (queue s)) eqn:He; [reflexivity|].
    exfalso. destruct H as [H|[H|[H|[H|H]]]].
    - discriminate H.
    - apply N.ltb_ge in Hl. lia.
    - apply N.leb_gt in Hq. lia.
    - revert H. apply (existsb_piece p (queue s) He).
    - discriminate H.
  Qed.

  (* the writer meets an unservable head of queue (possible only under a policy that queues such
     requests): connection closed, nothing sent for it, not even what the same fill had just buffered *)
  Theorem bad_head_closes : forall s p q,
    ws s = Idle -> closed s = false -> choked s = false -> queue s = p :: q ->
    (13 <=? room s - (if send_choked s && (5 <=? room s) then 5 else 0)) = true ->
    servable L p = false ->
    forall k, let s' := step s (WriteReady k) in
    closed s' = true /\ out s' = out s /\ msgs s' = msgs s.
  Proof.
    intros s p q Hws Hcl Hch Hq Hroom Hbad k. cbn zeta. cbn [Model.step]. rewrite Hcl.
    replace (ew_fuel s) with (S (13 * length (queue s) + 29))%nat by (unfold ew_fuel; lia).
    cbn [Model.ew]. rewrite Hws.
    assert (E : closed (fill s) = true /\ out (fill s) = out s /\ msgs (fill s) = msgs s).
    { unfold Model.fill. cbv zeta. rewrite Hch, Hq. cbn [andb].
      destruct (send_choked s && (5 <=? room s)); cbn [andb];
        (replace (len (enc_choke false)) with 5 by reflexivity || idtac);
        rewrite ?len_nil; rewrite Hroom || (rewrite N.sub_0_r in Hroom; rewrite N.sub_0_r, Hroom);
        rewrite Hbad; sel; auto. }
    destruct E as (E1 & E2 & E3). rewrite E1. auto.
  Qed.

  Theorem closed_inert : forall s o, closed s = true -> step s o = s.
  Proof.
    intros s o Hc. destruct o; cbn [Model.step]; unfold recv_request, recv_cancel, decide, Model.keepalive; rewrite Hc; reflexivity.
  Qed.

  Theorem closed_forever : forall ops1 ops2, closed (run ops1) = true -> run (ops1 ++ ops2) = run ops1.
  Proof.
    intros ops1 ops2 Hc. unfold Model.run. rewrite fold_left_app. fold (Model.run L content enc ks P ops1).
    induction ops2 as [|o ops2 IH]; [reflexivity|]. cbn [fold_left]. rewrite closed_inert by exact Hc. exact IH.
  Qed.
End ProofsB.
