(* C16 -- resource LEDGER model of connection / handshake / torrent teardown.
   Definitions only (executable).  Anchors: PeerConnectionBase::{initialize,cleanup,receive_*_choke},
   PeerConnection<>::{read_message,fill_write_buffer,down_chunk_*}, Handshake::{initialize_*,destroy_connection,
   release_connection}, HandshakeManager::{receive_succeeded,receive_failed,erase_download}, ConnectionList::{insert,
   erase,erase_remaining}, choke_queue::{set_queued,set_not_queued,disconnected}, Block::{insert,transfering,erase,
   completed,transfer_dissimilar,invalidate_transfer}, RequestList::{clear,downloading,finished,skipped,
   transfer_dissimilar}, DownloadMain::{stop,close}, Manager::cleanup_download, ProtocolExtension::{set,unset}_local_enabled.

   Shape A: the ops are mechanism-level events (what a scripted peer sent, what the library wrote to the wire,
   harness actions); each op is abstracted to its ledger effect.  Every counter the code keeps separately
   (DownloadInfo::upload_unchoked, group_entry lists, choke_queue sizes, ResourceManager totals, size_pex, throttle
   list sizes, ChunkList references, SocketManager size, HandshakeManager / ConnectionList sizes) is kept separately
   here and updated by +-1 exactly where the code does it; that they equal the sums over the live rows is a THEOREM
   (ledger_inv), not a definition.  Counters are Z so that an underflow of the code's unsigned counters would show
   up as a negative value (excluded by ledger_inv). *)
From Coq Require Import List ZArith NArith Bool Arith.
Import ListNotations.
Open Scope Z_scope.

(* Wire-format constants of BEP 3 as the model uses them; coq/C16/ParamsTie.v proves that the constants read from the
   compiled code (ParamsGen.v) are these.  (Kept out of ParamsGen so that a regenerated ParamsGen.v does not force
   every proof to be rebuilt.) *)
Module MP.
Definition hs_part1 : N := 48%N.     (* Handshake::part1_size: protocol string + reserved + info hash *)
Definition hs_size : N := 68%N.      (* Handshake::handshake_size *)
Definition piece_hdr : N := 13%N.    (* ProtocolBase::sizeof_piece *)
End MP.

Inductive phase := PNone | PHs | PConn.
Inductive tst := TQ | TL | TN | TE.          (* BlockTransfer: queued / leader / not leader / erased (dissimilar) *)
Inductive curt := CNone | CValid (b : N) | CSkip.   (* RequestList::m_transfer: none / valid on block b / dummy or invalid *)

Record row := mkRow {
  cid : nat;
  ph : phase;
  inc : bool;
  ext : bool;
  hsb : N;
  dlb : bool;
  bfseen : bool;
  xinit : bool;
  xpex : bool;
  fd : bool;
  pe : bool;
  ui : bool;
  uu : bool;
  urec : bool;
  us : bool;
  di : bool;
  du : bool;
  drec : bool;
  dint : bool;
  px : bool;
  tu : bool;
  td : bool;
  uc : bool;
  dc : bool;
  reqs : list N;
  cur : curt;
  pi_some : bool;
  pi_c : bool;
  pi_h : bool;
  tc : Z;
  closes : Z
}.

Definition set_ph (v : phase) (r : row) : row := mkRow (cid r) v (inc r) (ext r) (hsb r) (dlb r) (bfseen r) (xinit r) (xpex r) (fd r) (pe r) (ui r) (uu r) (urec r) (us r) (di r) (du r) (drec r) (dint r) (px r) (tu r) (td r) (uc r) (dc r) (reqs r) (cur r) (pi_some r) (pi_c r) (pi_h r) (tc r) (closes r).
Definition set_inc (v : bool) (r : row) : row := mkRow (cid r) (ph r) v (ext r) (hsb r) (dlb r) (bfseen r) (xinit r) (xpex r) (fd r) (pe r) (ui r) (uu r) (urec r) (us r) (di r) (du r) (drec r) (dint r) (px r) (tu r) (td r) (uc r) (dc r) (reqs r) (cur r) (pi_some r) (pi_c r) (pi_h r) (tc r) (closes r).
Definition set_ext (v : bool) (r : row) : row := mkRow (cid r) (ph r) (inc r) v (hsb r) (dlb r) (bfseen r) (xinit r) (xpex r) (fd r) (pe r) (ui r) (uu r) (urec r) (us r) (di r) (du r) (drec r) (dint r) (px r) (tu r) (td r) (uc r) (dc r) (reqs r) (cur r) (pi_some r) (pi_c r) (pi_h r) (tc r) (closes r).
Definition set_hsb (v : N) (r : row) : row := mkRow (cid r) (ph r) (inc r) (ext r) v (dlb r) (bfseen r) (xinit r) (xpex r) (fd r) (pe r) (ui r) (uu r) (urec r) (us r) (di r) (du r) (drec r) (dint r) (px r) (tu r) (td r) (uc r) (dc r) (reqs r) (cur r) (pi_some r) (pi_c r) (pi_h r) (tc r) (closes r).
Definition set_dlb (v : bool) (r : row) : row := mkRow (cid r) (ph r) (inc r) (ext r) (hsb r) v (bfseen r) (xinit r) (xpex r) (fd r) (pe r) (ui r) (uu r) (urec r) (us r) (di r) (du r) (drec r) (dint r) (px r) (tu r) (td r) (uc r) (dc r) (reqs r) (cur r) (pi_some r) (pi_c r) (pi_h r) (tc r) (closes r).
Definition set_bfseen (v : bool) (r : row) : row := mkRow (cid r) (ph r) (inc r) (ext r) (hsb r) (dlb r) v (xinit r) (xpex r) (fd r) (pe r) (ui r) (uu r) (urec r) (us r) (di r) (du r) (drec r) (dint r) (px r) (tu r) (td r) (uc r) (dc r) (reqs r) (cur r) (pi_some r) (pi_c r) (pi_h r) (tc r) (closes r).
Definition set_xinit (v : bool) (r : row) : row := mkRow (cid r) (ph r) (inc r) (ext r) (hsb r) (dlb r) (bfseen r) v (xpex r) (fd r) (pe r) (ui r) (uu r) (urec r) (us r) (di r) (du r) (drec r) (dint r) (px r) (tu r) (td r) (uc r) (dc r) (reqs r) (cur r) (pi_some r) (pi_c r) (pi_h r) (tc r) (closes r).
Definition set_xpex (v : bool) (r : row) : row := mkRow (cid r) (ph r) (inc r) (ext r) (hsb r) (dlb r) (bfseen r) (xinit r) v (fd r) (pe r) (ui r) (uu r) (urec r) (us r) (di r) (du r) (drec r) (dint r) (px r) (tu r) (td r) (uc r) (dc r) (reqs r) (cur r) (pi_some r) (pi_c r) (pi_h r) (tc r) (closes r).
Definition set_fd (v : bool) (r : row) : row := mkRow (cid r) (ph r) (inc r) (ext r) (hsb r) (dlb r) (bfseen r) (xinit r) (xpex r) v (pe r) (ui r) (uu r) (urec r) (us r) (di r) (du r) (drec r) (dint r) (px r) (tu r) (td r) (uc r) (dc r) (reqs r) (cur r) (pi_some r) (pi_c r) (pi_h r) (tc r) (closes r).
Definition set_pe (v : bool) (r : row) : row := mkRow (cid r) (ph r) (inc r) (ext r) (hsb r) (dlb r) (bfseen r) (xinit r) (xpex r) (fd r) v (ui r) (uu r) (urec r) (us r) (di r) (du r) (drec r) (dint r) (px r) (tu r) (td r) (uc r) (dc r) (reqs r) (cur r) (pi_some r) (pi_c r) (pi_h r) (tc r) (closes r).
Definition set_ui (v : bool) (r : row) : row := mkRow (cid r) (ph r) (inc r) (ext r) (hsb r) (dlb r) (bfseen r) (xinit r) (xpex r) (fd r) (pe r) v (uu r) (urec r) (us r) (di r) (du r) (drec r) (dint r) (px r) (tu r) (td r) (uc r) (dc r) (reqs r) (cur r) (pi_some r) (pi_c r) (pi_h r) (tc r) (closes r).
Definition set_uu (v : bool) (r : row) : row := mkRow (cid r) (ph r) (inc r) (ext r) (hsb r) (dlb r) (bfseen r) (xinit r) (xpex r) (fd r) (pe r) (ui r) v (urec r) (us r) (di r) (du r) (drec r) (dint r) (px r) (tu r) (td r) (uc r) (dc r) (reqs r) (cur r) (pi_some r) (pi_c r) (pi_h r) (tc r) (closes r).
Definition set_urec (v : bool) (r : row) : row := mkRow (cid r) (ph r) (inc r) (ext r) (hsb r) (dlb r) (bfseen r) (xinit r) (xpex r) (fd r) (pe r) (ui r) (uu r) v (us r) (di r) (du r) (drec r) (dint r) (px r) (tu r) (td r) (uc r) (dc r) (reqs r) (cur r) (pi_some r) (pi_c r) (pi_h r) (tc r) (closes r).
Definition set_us (v : bool) (r : row) : row := mkRow (cid r) (ph r) (inc r) (ext r) (hsb r) (dlb r) (bfseen r) (xinit r) (xpex r) (fd r) (pe r) (ui r) (uu r) (urec r) v (di r) (du r) (drec r) (dint r) (px r) (tu r) (td r) (uc r) (dc r) (reqs r) (cur r) (pi_some r) (pi_c r) (pi_h r) (tc r) (closes r).
Definition set_di (v : bool) (r : row) : row := mkRow (cid r) (ph r) (inc r) (ext r) (hsb r) (dlb r) (bfseen r) (xinit r) (xpex r) (fd r) (pe r) (ui r) (uu r) (urec r) (us r) v (du r) (drec r) (dint r) (px r) (tu r) (td r) (uc r) (dc r) (reqs r) (cur r) (pi_some r) (pi_c r) (pi_h r) (tc r) (closes r).
Definition set_du (v : bool) (r : row) : row := mkRow (cid r) (ph r) (inc r) (ext r) (hsb r) (dlb r) (bfseen r) (xinit r) (xpex r) (fd r) (pe r) (ui r) (uu r) (urec r) (us r) (di r) v (drec r) (dint r) (px r) (tu r) (td r) (uc r) (dc r) (reqs r) (cur r) (pi_some r) (pi_c r) (pi_h r) (tc r) (closes r).
Definition set_drec (v : bool) (r : row) : row := mkRow (cid r) (ph r) (inc r) (ext r) (hsb r) (dlb r) (bfseen r) (xinit r) (xpex r) (fd r) (pe r) (ui r) (uu r) (urec r) (us r) (di r) (du r) v (dint r) (px r) (tu r) (td r) (uc r) (dc r) (reqs r) (cur r) (pi_some r) (pi_c r) (pi_h r) (tc r) (closes r).
Definition set_dint (v : bool) (r : row) : row := mkRow (cid r) (ph r) (inc r) (ext r) (hsb r) (dlb r) (bfseen r) (xinit r) (xpex r) (fd r) (pe r) (ui r) (uu r) (urec r) (us r) (di r) (du r) (drec r) v (px r) (tu r) (td r) (uc r) (dc r) (reqs r) (cur r) (pi_some r) (pi_c r) (pi_h r) (tc r) (closes r).
Definition set_px (v : bool) (r : row) : row := mkRow (cid r) (ph r) (inc r) (ext r) (hsb r) (dlb r) (bfseen r) (xinit r) (xpex r) (fd r) (pe r) (ui r) (uu r) (urec r) (us r) (di r) (du r) (drec r) (dint r) v (tu r) (td r) (uc r) (dc r) (reqs r) (cur r) (pi_some r) (pi_c r) (pi_h r) (tc r) (closes r).
Definition set_tu (v : bool) (r : row) : row := mkRow (cid r) (ph r) (inc r) (ext r) (hsb r) (dlb r) (bfseen r) (xinit r) (xpex r) (fd r) (pe r) (ui r) (uu r) (urec r) (us r) (di r) (du r) (drec r) (dint r) (px r) v (td r) (uc r) (dc r) (reqs r) (cur r) (pi_some r) (pi_c r) (pi_h r) (tc r) (closes r).
Definition set_td (v : bool) (r : row) : row := mkRow (cid r) (ph r) (inc r) (ext r) (hsb r) (dlb r) (bfseen r) (xinit r) (xpex r) (fd r) (pe r) (ui r) (uu r) (urec r) (us r) (di r) (du r) (drec r) (dint r) (px r) (tu r) v (uc r) (dc r) (reqs r) (cur r) (pi_some r) (pi_c r) (pi_h r) (tc r) (closes r).
Definition set_uc (v : bool) (r : row) : row := mkRow (cid r) (ph r) (inc r) (ext r) (hsb r) (dlb r) (bfseen r) (xinit r) (xpex r) (fd r) (pe r) (ui r) (uu r) (urec r) (us r) (di r) (du r) (drec r) (dint r) (px r) (tu r) (td r) v (dc r) (reqs r) (cur r) (pi_some r) (pi_c r) (pi_h r) (tc r) (closes r).
Definition set_dc (v : bool) (r : row) : row := mkRow (cid r) (ph r) (inc r) (ext r) (hsb r) (dlb r) (bfseen r) (xinit r) (xpex r) (fd r) (pe r) (ui r) (uu r) (urec r) (us r) (di r) (du r) (drec r) (dint r) (px r) (tu r) (td r) (uc r) v (reqs r) (cur r) (pi_some r) (pi_c r) (pi_h r) (tc r) (closes r).
Definition set_reqs (v : list N) (r : row) : row := mkRow (cid r) (ph r) (inc r) (ext r) (hsb r) (dlb r) (bfseen r) (xinit r) (xpex r) (fd r) (pe r) (ui r) (uu r) (urec r) (us r) (di r) (du r) (drec r) (dint r) (px r) (tu r) (td r) (uc r) (dc r) v (cur r) (pi_some r) (pi_c r) (pi_h r) (tc r) (closes r).
Definition set_cur (v : curt) (r : row) : row := mkRow (cid r) (ph r) (inc r) (ext r) (hsb r) (dlb r) (bfseen r) (xinit r) (xpex r) (fd r) (pe r) (ui r) (uu r) (urec r) (us r) (di r) (du r) (drec r) (dint r) (px r) (tu r) (td r) (uc r) (dc r) (reqs r) v (pi_some r) (pi_c r) (pi_h r) (tc r) (closes r).
Definition set_pi_some (v : bool) (r : row) : row := mkRow (cid r) (ph r) (inc r) (ext r) (hsb r) (dlb r) (bfseen r) (xinit r) (xpex r) (fd r) (pe r) (ui r) (uu r) (urec r) (us r) (di r) (du r) (drec r) (dint r) (px r) (tu r) (td r) (uc r) (dc r) (reqs r) (cur r) v (pi_c r) (pi_h r) (tc r) (closes r).
Definition set_pi_c (v : bool) (r : row) : row := mkRow (cid r) (ph r) (inc r) (ext r) (hsb r) (dlb r) (bfseen r) (xinit r) (xpex r) (fd r) (pe r) (ui r) (uu r) (urec r) (us r) (di r) (du r) (drec r) (dint r) (px r) (tu r) (td r) (uc r) (dc r) (reqs r) (cur r) (pi_some r) v (pi_h r) (tc r) (closes r).
Definition set_pi_h (v : bool) (r : row) : row := mkRow (cid r) (ph r) (inc r) (ext r) (hsb r) (dlb r) (bfseen r) (xinit r) (xpex r) (fd r) (pe r) (ui r) (uu r) (urec r) (us r) (di r) (du r) (drec r) (dint r) (px r) (tu r) (td r) (uc r) (dc r) (reqs r) (cur r) (pi_some r) (pi_c r) v (tc r) (closes r).
Definition set_tc (v : Z) (r : row) : row := mkRow (cid r) (ph r) (inc r) (ext r) (hsb r) (dlb r) (bfseen r) (xinit r) (xpex r) (fd r) (pe r) (ui r) (uu r) (urec r) (us r) (di r) (du r) (drec r) (dint r) (px r) (tu r) (td r) (uc r) (dc r) (reqs r) (cur r) (pi_some r) (pi_c r) (pi_h r) v (closes r).
Definition set_closes (v : Z) (r : row) : row := mkRow (cid r) (ph r) (inc r) (ext r) (hsb r) (dlb r) (bfseen r) (xinit r) (xpex r) (fd r) (pe r) (ui r) (uu r) (urec r) (us r) (di r) (du r) (drec r) (dint r) (px r) (tu r) (td r) (uc r) (dc r) (reqs r) (cur r) (pi_some r) (pi_c r) (pi_h r) (tc r) v.

(* ---- vectors of global counters -------------------------------------------------------------------
   0 cn  ConnectionList size            1 hs  HandshakeManager size
   2 iuu DownloadInfo::upload_unchoked  3 geuu group_entry(up).unchoked  4 cquu up_queue.size_unchoked  5 rmu ResourceManager up
   6 gequ group_entry(up).queued        7 cquq up_queue.size_queued
   8 idu 9 gedu 10 cqdu 11 rmd 12 gedq 13 cqdq   the same for the download choke queue
   14 px size_pex   15 tu / 16 td  upload / download ThrottleList size
   17 cr ChunkList references held by connections   18 sk SocketManager entries   19 cw writable references *)
Definition vec := list Z.
Definition vlen : nat := 20%nat.
Definition vz : vec := repeat 0 vlen.
Fixpoint vadd (a b : vec) : vec :=
  match a, b with
  | x :: a', y :: b' => (x + y) :: vadd a' b'
  | _, _ => []
  end.
Infix "+v" := vadd (at level 50, left associativity).
Fixpoint unit_at (i : nat) (v : Z) (n : nat) : vec :=
  match n with
  | O => []
  | S n' => match i with O => v :: repeat 0 n' | S i' => 0 :: unit_at i' v n' end
  end.
Definition d (i : nat) (v : Z) : vec := unit_at i v vlen.
Definition vsum (l : list vec) : vec := fold_right vadd vz l.
Definition B (b : bool) : Z := if b then 1 else 0.

Definition is_conn (r : row) : bool := match ph r with PConn => true | _ => false end.
Definition is_hs (r : row) : bool := match ph r with PHs => true | _ => false end.
(* in the group's queued list: interested (queued flag), not unchoked and not snubbed *)
Definition uq (r : row) : bool := ui r && negb (uu r) && negb (us r).
Definition dq (r : row) : bool := di r && negb (du r).

(* what a row contributes to each global counter *)
Definition contrib (r : row) : vec :=
  [ B (is_conn r); B (is_hs r);
    B (uu r); B (uu r); B (uu r); B (uu r); B (uq r); B (uq r);
    B (du r); B (du r); B (du r); B (du r); B (dq r); B (dq r);
    B (px r); B (tu r); B (td r); B (uc r) + B (dc r); B (fd r); B (dc r) ].

Definition tr_count (r : row) : Z := Z.of_nat (length (reqs r)) + (match cur r with CNone => 0 | _ => 1 end).

Definition new_row (c : nat) (incoming e : bool) : row :=
  mkRow c PHs incoming e 0%N (negb incoming) false false false true true
        false false false false false false false false false false false false false [] CNone
        (negb incoming) (negb incoming) (negb incoming) 0 0.

(* ---- choke_queue::set_queued / set_not_queued with the slotConnection callback (receive_*_choke) ---- *)
Definition up_set_queued (r : row) : row * vec :=
  if ui r || uu r then (r, vz) else
  let r1 := set_ui true r in
  if us r then (r1, vz) else
  let d1 := d 6 1 +v d 7 1 in
  if urec r then (r1, d1) else
  (set_urec true (set_uu true r1),
   d1 +v d 2 1 +v d 6 (-1) +v d 3 1 +v d 4 1 +v d 7 (-1) +v d 5 1).

Definition up_set_not_queued (r : row) : row * vec :=
  if negb (ui r) then (r, vz) else
  let r1 := set_ui false r in
  if us r then (r1, vz) else
  if uu r then
    (set_urec true (set_uu false r1),
     d 2 (-1) +v d 3 (-1) +v d 6 1 +v d 4 (-1) +v d 7 1 +v d 5 (-1) +v d 6 (-1) +v d 7 (-1))
  else (r1, d 6 (-1) +v d 7 (-1)).

(* choke_queue::set_snubbed / set_not_snubbed on the upload queue (Peer::set_snubbed); the queued flag is kept *)
Definition up_snub (r : row) : row * vec :=
  if us r then (r, vz) else
  let r1 := set_us true r in
  if uu r then
    (set_urec true (set_uu false r1),
     d 2 (-1) +v d 3 (-1) +v d 6 1 +v d 4 (-1) +v d 7 1 +v d 5 (-1) +v d 6 (-1) +v d 7 (-1))
  else if ui r then (r1, d 6 (-1) +v d 7 (-1))
  else (r1, vz).
Definition up_unsnub (r : row) : row * vec :=
  if negb (us r) then (r, vz) else
  let r1 := set_us false r in
  if negb (ui r) then (r1, vz) else
  let d1 := d 6 1 +v d 7 1 in
  if urec r then (r1, d1) else
  (set_urec true (set_uu true r1),
   d1 +v d 2 1 +v d 6 (-1) +v d 3 1 +v d 4 1 +v d 7 (-1) +v d 5 1).

Definition down_set_queued (r : row) : row * vec :=
  if di r || du r then (r, vz) else
  let r1 := set_di true r in
  let d1 := d 12 1 +v d 13 1 in
  if drec r then (r1, d1) else
  (set_drec true (set_du true r1),
   d1 +v d 8 1 +v d 12 (-1) +v d 9 1 +v d 10 1 +v d 13 (-1) +v d 11 1).

(* down_chunk_release / throttle erase as a row update *)
Definition rel_dc (r : row) : row * vec := (set_dc false r, d 17 (- B (dc r)) +v d 19 (- B (dc r))).
Definition rel_uc (r : row) : row * vec := (set_uc false r, d 17 (- B (uc r))).
Definition erase_td (r : row) : row * vec := (set_td false r, d 16 (- B (td r))).
Definition erase_tu (r : row) : row * vec := (set_tu false r, d 15 (- B (tu r))).
Definition seq2 (f g : row -> row * vec) (r : row) : row * vec :=
  let (r1, d1) := f r in let (r2, d2) := g r1 in (r2, d1 +v d2).

(* RequestList buckets: requests made before the peer's last CHOKE sit in bucket_choked; they are kept in reqs with
   choked_tag added.  queued_empty() of the code looks at bucket_queued only. *)
Definition choked_tag : N := 4294967296%N.
Definition req_is (b x : N) : bool := N.eqb x b || N.eqb x (b + choked_tag).
Definition has_req (b : N) (l : list N) : bool := existsb (req_is b) l.
Fixpoint del_req (b : N) (l : list N) : list N :=
  match l with [] => [] | x :: t => if req_is b x then t else x :: del_req b t end.
Definition queued_empty (l : list N) : bool := forallb (fun x => N.leb choked_tag x) l.
Definition to_choked (l : list N) : list N := map (fun x => if N.ltb x choked_tag then (x + choked_tag)%N else x) l.
Definition choke_reqs (r : row) : row * vec := (set_reqs (to_choked (reqs r)) r, vz).

Definition idle_down (r : row) : bool :=
  match cur r, reqs r with CNone, [] => true | _, _ => false end.

Definition down_set_not_queued (r : row) : row * vec :=
  if negb (di r) then (r, vz) else
  let r1 := set_di false r in
  if du r then
    (* receive_download_choke(true): counters, then (not downloading and queue empty) throttle erase + chunk release *)
    let r2 := set_drec true (set_du false r1) in
    let dd := d 8 (-1) +v d 9 (-1) +v d 12 1 +v d 10 (-1) +v d 13 1 +v d 11 (-1) +v d 12 (-1) +v d 13 (-1) in
    if idle_down r2 then let (r3, d3) := seq2 erase_td rel_dc r2 in (r3, dd +v d3) else (r2, dd)
  else (r1, d 12 (-1) +v d 13 (-1)).

(* ---- messages from the peer on an established connection ------------------------------------------ *)
Inductive pmsg := MKeep | MChoke | MUnchoke | MInt | MNotInt | MBitfield | MExtHs | MRequest | MCancel
                | MPiece (b : N) (dissimilar_at : option N).
(* MPiece b m: PIECE for block b; m = Some k: the payload differs from the leader's data at payload offset k *)

Definition conn_msg_simple (m : pmsg) (r : row) : row * vec :=
  match m with
  | MInt => up_set_queued r
  | MNotInt => up_set_not_queued r
  | MUnchoke => if dint r then down_set_queued r else (r, vz)
  | MChoke => seq2 rel_dc (seq2 choke_reqs (seq2 down_set_not_queued erase_td)) r
  | _ => (r, vz)
  end.

(* ---- messages the library wrote ---------------------------------------------------------------------- *)
Inductive lmsg := LChoke | LUnchoke | LRequest (b : N) | LPieceStart | LOther.

Definition lib_msg_row (m : lmsg) (r : row) : row * vec :=
  match m with
  | LChoke => seq2 erase_tu rel_uc r
  | LUnchoke => (set_tu true r, d 15 (1 - B (tu r)))
  | LPieceStart => (set_uc true r, d 17 (1 - B (uc r)))
  | LRequest b => (set_tc (tc r + 1) (set_reqs (reqs r ++ [b]) r), vz)
  | LOther => (r, vz)
  end.

(* ---- Handshake -> PeerConnection (HandshakeManager::receive_succeeded, ConnectionList::insert) -------- *)
Definition to_conn (seeding : bool) (r : row) : row * vec :=
  (set_dint (negb seeding) (set_pi_h false (set_ph PConn r)), d 1 (-1) +v d 0 1).

(* HandshakeManager::receive_succeeded when ConnectionList::insert returns NULL (list full): release_connection,
   fd_close, PeerList::disconnected, extension cleanup; SocketManager::transfer_event drops the entry *)
Definition refuse_row (r : row) : row * vec :=
  (set_closes (closes r + 1) (set_px false (set_pi_h false (set_pi_c false (set_pe false (set_fd false (set_ph PNone r)))))),
   d 1 (-1) +v d 18 (-1) +v d 14 (- B (px r))).   (* since 9c37a3e the extension object is cleaned up and deleted *)
Definition finish_hs (seed full : bool) (r : row) : row * vec :=
  if full then refuse_row r else to_conn seed r.

(* ---- PeerConnectionBase::cleanup + ConnectionList::erase + PeerList::disconnected -------------------- *)
Definition cleanup_row (r : row) : row * vec :=
  let dv :=
    d 17 (- (B (uc r) + B (dc r))) +v d 19 (- B (dc r)) +v
    d 2 (- B (uu r)) +v d 8 (- B (du r)) +v
    (if us r then vz else if uu r then d 5 (-1) +v d 3 (-1) +v d 4 (-1) else if ui r then d 6 (-1) +v d 7 (-1) else vz) +v
    (if du r then d 11 (-1) +v d 9 (-1) +v d 10 (-1) else if di r then d 12 (-1) +v d 13 (-1) else vz) +v
    d 14 (- B (px r)) +v d 18 (-1) +v d 15 (- B (tu r)) +v d 16 (- B (td r)) +v d 0 (-1) in
  (mkRow (cid r) PNone (inc r) (ext r) (hsb r) (dlb r) (bfseen r) (xinit r) (xpex r) false false
         false false (urec r) false false false (drec r) (dint r) false false false false false [] CNone
         (pi_some r) false false (tc r - tr_count r) (closes r + 1), dv).

(* ---- Handshake::destroy_connection ---------------------------------------------------------------------- *)
Definition destroy_row (r : row) : row * vec :=
  (set_closes (closes r + 1) (set_px false (set_pi_h false (set_pi_c false (set_pe false (set_fd false (set_ph PNone r)))))),
   d 1 (-1) +v d 18 (-1) +v d 14 (- B (px r))).

Definition abort_row (r : row) : row * vec :=
  match ph r with
  | PNone => (r, vz)
  | PHs => destroy_row r
  | PConn => cleanup_row r
  end.

(* ---- blocks (TransferList / BlockList / Block) ------------------------------------------------------------- *)
Record blk := mkBlk { bidx : N; fin : bool; trs : list (nat * tst) }.

Definition tst_eqb (a b : tst) : bool :=
  match a, b with TQ, TQ | TL, TL | TN, TN | TE, TE => true | _, _ => false end.
Definition has_tr (c : nat) (b : blk) : bool := existsb (fun p => Nat.eqb (fst p) c) (trs b).
Definition has_st (c : nat) (s : tst) (b : blk) : bool :=
  existsb (fun p => Nat.eqb (fst p) c && tst_eqb (snd p) s) (trs b).
Definition has_leader (b : blk) : bool := existsb (fun p => tst_eqb (snd p) TL) (trs b).
Definition find_blk (i : N) (l : list blk) : option blk := find (fun b => N.eqb (bidx b) i) l.
Definition map_blk (i : N) (f : blk -> blk) (l : list blk) : list blk :=
  map (fun b => if N.eqb (bidx b) i then f b else b) l.

(* Delegator -> Block::insert *)
Definition add_tr (c : nat) (i : N) (l : list blk) : list blk * bool :=
  match find_blk i l with
  | None => (l ++ [mkBlk i false [(c, TQ)]], true)
  | Some b => if has_tr c b || fin b then (l, false)
              else (map_blk i (fun b => mkBlk (bidx b) (fin b) (trs b ++ [(c, TQ)])) l, true)
  end.

Definition set_st (c : nat) (from to : tst) (b : blk) : blk :=
  mkBlk (bidx b) (fin b)
        (map (fun p => if Nat.eqb (fst p) c && tst_eqb (snd p) from then (fst p, to) else p) (trs b)).

(* RequestList::downloading -> Block::transfering: true if the queued transfer exists (valid) *)
Definition start_tr (c : nat) (i : N) (l : list blk) : list blk * bool :=
  match find_blk i l with
  | Some b => if has_st c TQ b
              then (map_blk i (fun b => set_st c TQ (if has_leader b then TN else TL) b) l, true)
              else (l, false)
  | None => (l, false)
  end.

Definition not_erased (p : nat * tst) : bool := negb (tst_eqb (snd p) TE).
Fixpoint promote (l : list (nat * tst)) : list (nat * tst) * bool :=
  match l with
  | [] => ([], false)
  | (c, TN) :: t => ((c, TL) :: t, true)
  | p :: t => let (t', ok) := promote t in (p :: t', ok)
  end.

(* Block::release of every valid transfer of c (request list clear / skipped): Block::erase; if the leader
   goes, promote a non-leader, else remove_erased_transfers (the erased ones are dropped, NOT deleted) *)
Definition rel_blk (c : nat) (b : blk) : blk :=
  let had_leader := has_st c TL b in
  let keep := filter (fun p => negb (Nat.eqb (fst p) c) || tst_eqb (snd p) TE) (trs b) in
  if fin b then b   (* a finished leader is kept by the block until the hash result *)
  else if had_leader then
    let (k2, ok) := promote keep in
    mkBlk (bidx b) (fin b) (if ok then k2 else filter not_erased keep)
  else mkBlk (bidx b) (fin b) keep.
Definition rel_all (c : nat) (l : list blk) : list blk := map (rel_blk c) l.

(* Block::erase of one valid non-leading transfer (RequestList::skipped) *)
Definition rel_one (c : nat) (i : N) (l : list blk) : list blk := map_blk i (rel_blk c) l.

(* a block id is piece * blk_mul + block number within the piece (fewer than blk_mul blocks per piece) *)
Definition blk_mul : N := 64%N.
Definition piece_of (b : N) : N := (b / blk_mul)%N.

(* erased (dissimilar) transfers that Block::invalidate_transfer deletes (since 3d23180: set_peer_info(NULL) + delete,
   so the owner's PeerInfo::transfer_counter drops) *)
Definition te_owners (l : list (nat * tst)) : list nat := map fst (filter (fun p => tst_eqb (snd p) TE) l).
Definition rel_dropped (c : nat) (b : blk) : list nat :=
  if fin b then [] else
  if has_st c TL b then
    let keep := filter (fun p => negb (Nat.eqb (fst p) c) || tst_eqb (snd p) TE) (trs b) in
    if snd (promote keep) then [] else te_owners keep
  else [].

(* Block::completed: only the leader stays *)
Definition complete_blk (c : nat) (b : blk) : blk := mkBlk (bidx b) true [(c, TL)].

Definition leader_of (b : blk) : option nat :=
  match find (fun p => tst_eqb (snd p) TL) (trs b) with Some p => Some (fst p) | None => None end.

(* ---- state ------------------------------------------------------------------------------------------------ *)
Record st := mkSt { rows : list row; g : vec; blocks : list blk; active : bool; opened : bool; seeding : bool; rej : bool; pexact : bool;
                    maxc : Z (* ConnectionList::max_size *);
                    hq : list N (* pieces whose chunk handle is held by the hash queue *);
                    sockfull : bool (* SocketManager::can_open_socket(category_generic) is false *);
                    maxpex : Z (* DownloadInfo::max_size_pex: a tuning constant, set by SetMaxPex from the probed value *);
                    dqueue : list nat (* ConnectionList::m_disconnectQueue: connections queued by erase(.., disconnect_delayed) *) }.

Definition init (seed : bool) : st := mkSt [] vz [] true true seed false false 100 [] false 8 [].

Fixpoint upd (c : nat) (f : row -> row * vec) (l : list row) : list row * vec * bool :=
  match l with
  | [] => ([], vz, false)
  | r :: t => if Nat.eqb (cid r) c then let (r', dv) := f r in (r' :: t, dv, true)
              else match upd c f t with (t', dv, ok) => (r :: t', dv, ok) end
  end.

Fixpoint upd_all (f : row -> row * vec) (l : list row) : list row * vec :=
  match l with
  | [] => ([], vz)
  | r :: t => let (r', d1) := f r in let (t', d2) := upd_all f t in (r' :: t', d1 +v d2)
  end.

Definition get_row (c : nat) (l : list row) : option row := find (fun r => Nat.eqb (cid r) c) l.

Definition with_row (c : nat) (f : row -> row * vec) (s : st) : st :=
  match upd c f (rows s) with
  | (rs, dv, ok) => mkSt rs (g s +v dv) (blocks s) (active s) (opened s) (seeding s) (rej s || negb ok) (pexact s) (maxc s) (hq s) (sockfull s) (maxpex s) (dqueue s)
  end.
Definition set_blocks (bl : list blk) (s : st) : st :=
  mkSt (rows s) (g s) bl (active s) (opened s) (seeding s) (rej s) (pexact s) (maxc s) (hq s) (sockfull s) (maxpex s) (dqueue s).
Definition set_hq (l : list N) (s : st) : st :=
  mkSt (rows s) (g s) (blocks s) (active s) (opened s) (seeding s) (rej s) (pexact s) (maxc s) l (sockfull s) (maxpex s) (dqueue s).
Definition set_sockfull (b : bool) (s : st) : st :=
  mkSt (rows s) (g s) (blocks s) (active s) (opened s) (seeding s) (rej s) (pexact s) (maxc s) (hq s) b (maxpex s) (dqueue s).
(* Listen::event_read when SocketManager::open_event_or_cleanup refuses: the accepted descriptor is closed at once, no
   Handshake, no table entry, no counter *)
Definition refused_row (c : nat) (e : bool) : row :=
  mkRow c PNone true e 0%N false false false false false false
        false false false false false false false false false false false false false [] CNone
        false false false 0 1.
Definition reject (s : st) : st := mkSt (rows s) (g s) (blocks s) (active s) (opened s) (seeding s) true (pexact s) (maxc s) (hq s) (sockfull s) (maxpex s) (dqueue s).

Inductive op :=
| Connect (c : nat) (incoming ext : bool)
| HsBytes (c : nat) (n : N)                    (* cumulative bytes of the 68-byte handshake received from the peer *)
| PeerMsg (c : nat) (m : pmsg) (n len : N)     (* the peer has sent n of the len bytes of message m *)
| LibMsg (c : nat) (m : lmsg)                  (* the library wrote message m to peer c *)
| PexEnable (c : nat)                          (* DownloadMain::do_peer_exchange visits c while toggling PEX on *)
| HashDone (p : N)                             (* piece p verified: its BlockList leaves the TransferList *)
| SetMax (n : Z)                               (* ConnectionList::set_max_size *)
| Abort (c : nat)                              (* remote close / reset / timeout / error on c *)
| Stop | Close | Remove | Start
| PexTick                                       (* DownloadMain::do_peer_exchange switched PEX on (flag_pex_active) *)
| SetMaxPex (n : Z)
| Snub (c : nat) | Unsnub (c : nat)           (* Peer::set_snubbed(true / false) *)
| HashQueued (p : N)                           (* the last block of piece p arrived: its chunk handle sits in the hash queue *)
| SockLimit (b : bool)                         (* the socket budget is / is no longer exhausted *)
| DiscDelay (c : nat)                          (* Peer::disconnect(disconnect_delayed) = ConnectionList::erase(.., disconnect_delayed): queued *)
| DiscFire.                                    (* the scheduler runs DownloadMain::m_delay_disconnect_peers = ConnectionList::disconnect_queued *)                           (* DownloadInfo::set_max_size_pex / the probed default *)

(* the handshake reads the first message after the 68 bytes; which messages end the handshake phase *)
Definition hs_msg (seed full : bool) (m : pmsg) (n len : N) (r : row) : row * vec :=
  let complete := N.eqb n len in
  match m with
  | MBitfield =>
      if complete then
        let r1 := set_bfseen true r in
        if ext r && negb (xinit r) then (r1, vz) else finish_hs seed full r1
      else (r, vz)
  | MExtHs =>
      if complete then
        let r1 := set_xpex true (set_xinit true r) in
        if bfseen r then finish_hs seed full r1 else (r1, vz)
      else (r, vz)
  | MKeep => if N.leb 4 n then finish_hs seed full r else (r, vz)
  | _ => if N.leb 5 n then finish_hs seed full r else (r, vz)
  end.

Definition ph_valid_row (b : N) (valid : bool) (r : row) : row * vec :=
  let r1 := set_reqs (del_req b (reqs r)) r in
  if valid then
    (set_td true (set_dc true (set_cur (CValid b) r1)),
     d 17 (1 - B (dc r)) +v d 19 (1 - B (dc r)) +v d 16 (1 - B (td r)))
  else (set_td true (set_cur CSkip r1), d 16 (1 - B (td r))).
Definition ph_skip_row (r : row) : row * vec :=
  (set_td true (set_tc (tc r + 1) (set_cur CSkip r)), d 16 (1 - B (td r))).
Definition tc_add (k : Z) (r : row) : row * vec := (set_tc (tc r + k) r, vz).
Definition dissim_row (r : row) : row * vec := (set_tc (tc r + 1) (set_cur CSkip r), vz).
Definition hs_bytes_row (pexa : bool) (gpx mp : Z) (n : N) (r : row) : row * vec :=
  match ph r with
  | PHs =>
      let r1 := set_hsb n r in
      let r2 := if inc r && N.leb MP.hs_part1 n then set_dlb true r1 else r1 in
      if N.leb MP.hs_size n then
        let r3 := if inc r then set_pi_h true (set_pi_c true (set_pi_some true r2)) else r2 in
        (* Handshake::read_peer -> write_extension_handshake: PEX is switched on in the handshake already *)
        if ext r3 && pexa && negb (px r3) && Z.ltb gpx mp
        then (set_px true r3, d 14 1) else (r3, vz)
      else (r2, vz)
  | _ => (r, vz)
  end.
Definition pex_enable_row (gpx mp : Z) (r : row) : row * vec :=
  if is_conn r && xpex r && negb (px r) && Z.ltb gpx mp
  then (set_px true r, d 14 1) else (r, vz).

(* connection-level updates only ever apply to an established connection, handshake-level ones to a handshake *)
Definition on_conn (f : row -> row * vec) (r : row) : row * vec := if is_conn r then f r else (r, vz).
Definition on_hs (f : row -> row * vec) (r : row) : row * vec := if is_hs r then f r else (r, vz).
Definition with_conn (c : nat) (f : row -> row * vec) (s : st) : st := with_row c (on_conn f) s.

Definition piece_header (c : nat) (b : N) (s : st) : st :=
  match get_row c (rows s) with
  | None => reject s
  | Some r =>
      if has_req b (reqs r) then
        let (bl, valid) := start_tr c b (blocks s) in
        let s1 := set_blocks bl s in
        with_conn c (ph_valid_row b valid) s1
      else
        with_conn c ph_skip_row s
  end.

(* PeerConnectionBase::down_chunk_finished after the transfer was handed back *)
Definition after_piece_core (keep qe : bool) (r : row) : row * vec :=
  let r0 := set_cur CNone r in
  let (r1, d1) := if keep then (r0, vz) else rel_dc r0 in
  let (r2, d2) := if negb (du r1) && qe then erase_td r1 else (r1, vz) in
  (r2, d1 +v d2).
Definition after_piece (b : option N) (r : row) : row * vec :=
  after_piece_core
    (match b, filter (fun x => N.ltb x choked_tag) (reqs r) with
     | Some i, nxt :: _ => N.eqb (piece_of i) (piece_of nxt) | _, _ => false end)
    (queued_empty (reqs r)) r.

Definition dec_tc_all (owners : list nat) (s : st) : st :=
  fold_left (fun s c => with_row c (tc_add (-1)) s) owners s.

Definition piece_end (c : nat) (s : st) : st :=
  match get_row c (rows s) with
  | None => reject s
  | Some r =>
      match cur r with
      | CNone => reject s
      | CSkip => with_conn c (seq2 (tc_add (-1)) (after_piece None)) s
      | CValid b =>
          match find_blk b (blocks s) with
          | None => with_conn c (seq2 (tc_add (-1)) (after_piece (Some b))) s   (* invalidated meanwhile: skipped() *)
          | Some bk =>
              if has_st c TL bk && negb (fin bk) then
                dec_tc_all (te_owners (trs bk))
                  (with_conn c (after_piece (Some b)) (set_blocks (map_blk b (complete_blk c) (blocks s)) s))
              else
                with_conn c (seq2 (tc_add (-1)) (after_piece (Some b))) (set_blocks (rel_one c b (blocks s)) s)
          end
      end
  end.

Definition dissimilar (c : nat) (s : st) : st :=
  match get_row c (rows s) with
  | Some r =>
      match cur r with
      | CValid b =>
          match find_blk b (blocks s) with
          | Some bk =>
              if has_st c TN bk then
                with_conn c dissim_row (set_blocks (map_blk b (set_st c TN TE) (blocks s)) s)
              else s
          | None => s
          end
      | _ => s
      end
  | None => reject s
  end.

Definition abort_conn (c : nat) (s : st) : st :=
  match get_row c (rows s) with
  | None => s
  | Some r =>
      match ph r with
      | PConn =>
          dec_tc_all (flat_map (rel_dropped c) (blocks s))
                     (with_row c abort_row (set_blocks (rel_all c (blocks s)) s))
      | _ => with_row c abort_row s
      end
  end.

Definition stop_row (r : row) : row * vec :=
  match ph r with
  | PHs => if dlb r then destroy_row r else (r, vz)
  | PConn => cleanup_row r
  | PNone => (r, vz)
  end.

Definition conn_ids (l : list row) : list nat := map cid (filter is_conn l).

(* ConnectionList::erase_remaining: one connection after the other *)
Fixpoint stop_blocks (ids : list nat) (bl : list blk) : list blk * list nat :=
  match ids with
  | [] => (bl, [])
  | c :: t => let (bl', dr) := stop_blocks t (rel_all c bl) in (bl', flat_map (rel_dropped c) bl ++ dr)
  end.

Definition do_stop (s : st) : st :=
  if active s then
    let (bl, dr) := stop_blocks (conn_ids (rows s)) (blocks s) in
    let (rs, dv) := upd_all stop_row (rows s) in
    dec_tc_all dr (mkSt rs (g s +v dv) bl false (opened s) (seeding s) (rej s) (pexact s) (maxc s) (hq s) (sockfull s) (maxpex s) (dqueue s))
  else s.

(* DownloadWrapper::close: HashQueue::remove hands every queued chunk back (receive_hash_done with hash == NULL releases the
   handle); DownloadMain::close: TransferList::clear deletes every Block, what is left in them gives its peer reference back *)
Definition do_close (s : st) : st :=
  let s1 := do_stop s in
  let s2 := dec_tc_all (flat_map (fun b => map fst (trs b)) (blocks s1)) s1 in
  mkSt (rows s2) (g s2) [] false false (seeding s2) (rej s2) (pexact s2) (maxc s2) [] (sockfull s2) (maxpex s2) (dqueue s2).

(* ConnectionList::erase(pos, disconnect_delayed): the connection's id is pushed on m_disconnectQueue, nothing is released
   yet.  ConnectionList::disconnect_queued: every queued id still in the list is erased (erase(itr, 0) = cleanup + PeerList::
   disconnected, exactly the path of Abort), an id whose connection is gone meanwhile is skipped; the queue is emptied.
   Neither DownloadMain::stop nor close touches the queue (stop only erases the scheduler entry). *)
Definition set_dqueue (l : list nat) (s : st) : st :=
  mkSt (rows s) (g s) (blocks s) (active s) (opened s) (seeding s) (rej s) (pexact s) (maxc s) (hq s) (sockfull s) (maxpex s) l.
Definition erase_queued (c : nat) (s : st) : st :=
  match get_row c (rows s) with
  | Some r => if is_conn r then abort_conn c s else s
  | None => s
  end.
Definition disc_delay (c : nat) (s : st) : st :=
  match get_row c (rows s) with
  | Some r => if is_conn r then set_dqueue (dqueue s ++ [c]) s else reject s   (* only an established connection is a Peer *)
  | None => reject s
  end.
Definition disc_fire (s : st) : st := set_dqueue [] (fold_left (fun s c => erase_queued c s) (dqueue s) s).

Definition pmsg_step (c : nat) (m : pmsg) (n len : N) (s : st) : st :=
  match get_row c (rows s) with
  | None => reject s
  | Some r =>
      match ph r with
      | PNone => s
      | PHs =>
          if N.eqb (hsb r) MP.hs_size then
            let s1 := with_row c (on_hs (hs_msg (seeding s) (Z.leb (maxc s) (nth 0 (g s) 0)) m n len)) s in
            (* messages handed over with the handshake are dispatched at once (commit 5c4764e) *)
            match get_row c (rows s1), m with
            | Some r1, (MInt | MNotInt | MUnchoke | MChoke) =>
                if is_conn r1 && N.eqb n len then with_conn c (conn_msg_simple m) s1 else s1
            | Some r1, MPiece b ds =>
                if is_conn r1 && N.leb MP.piece_hdr n then piece_header c b s1 else s1
            | _, _ => s1
            end
          else s
      | PConn =>
          match m with
          | MPiece b ds =>
              if N.ltb n MP.piece_hdr then s else
              let s1 := match cur r with CNone => piece_header c b s | _ => s end in
              let s2 := match ds with
                        | Some k => if N.ltb (MP.piece_hdr + k) n then dissimilar c s1 else s1
                        | None => s1 end in
              if N.eqb n len then piece_end c s2 else s2
          | _ => if N.eqb n len then with_conn c (conn_msg_simple m) s else s
          end
      end
  end.

Definition step (s : st) (o : op) : st :=
  match o with
  | Connect c incoming e =>
      match get_row c (rows s) with
      | Some _ => reject s
      | None =>
          if sockfull s then
            (if incoming then
               mkSt (rows s ++ [refused_row c e]) (g s) (blocks s) (active s) (opened s) (seeding s) (rej s) (pexact s)
                    (maxc s) (hq s) (sockfull s) (maxpex s) (dqueue s)
             else s)          (* HandshakeManager::add_outgoing: can_open_socket is false, nothing happens *)
          else
          mkSt (rows s ++ [new_row c incoming e]) (g s +v d 1 1 +v d 18 1) (blocks s)
                     (active s) (opened s) (seeding s) (rej s) (pexact s) (maxc s) (hq s) (sockfull s) (maxpex s) (dqueue s)
      end
  | HsBytes c n => with_row c (hs_bytes_row (pexact s) (nth 14 (g s) 0) (maxpex s) n) s
  | PeerMsg c m n len => pmsg_step c m n len s
  | LibMsg c m =>
      match m with
      | LRequest b =>
          match get_row c (rows s) with
          | None => reject s
          | Some r =>
              if negb (is_conn r) then reject s else    (* only an established connection requests blocks *)
              if match find_blk b (blocks s) with
                 | Some bk => has_req b (reqs r) && has_st c TQ bk
                 | None => false end then s else
              let (bl, ok) := add_tr c b (blocks s) in
              let s1 := with_conn c (lib_msg_row m) (set_blocks bl s) in
              if ok then s1 else reject s1
          end
      | _ => with_conn c (lib_msg_row m) s
      end
  | PexEnable c =>
      match get_row c (rows s) with None => s | Some _ =>
      with_row c (pex_enable_row (nth 14 (g s) 0) (maxpex s)) s end
  | HashDone p =>
      let mine := filter (fun x => N.eqb (piece_of (bidx x)) p) (blocks s) in
      if forallb fin mine then
        dec_tc_all (flat_map (fun b => map fst (trs b)) mine)
                   (set_blocks (filter (fun x => negb (N.eqb (piece_of (bidx x)) p)) (blocks s))
                               (set_hq (filter (fun x => negb (N.eqb x p)) (hq s)) s))
      else reject s
  | Abort c => abort_conn c s
  | Stop => do_stop s
  | Close => do_close s
  | Remove => do_close s
  | Start => if opened s then mkSt (rows s) (g s) (blocks s) true true (seeding s) (rej s) (pexact s) (maxc s) (hq s) (sockfull s) (maxpex s) (dqueue s) else s
  | SetMax n => mkSt (rows s) (g s) (blocks s) (active s) (opened s) (seeding s) (rej s) (pexact s) n (hq s) (sockfull s) (maxpex s) (dqueue s)
  | SetMaxPex n => mkSt (rows s) (g s) (blocks s) (active s) (opened s) (seeding s) (rej s) (pexact s) (maxc s) (hq s) (sockfull s) n (dqueue s)
  | Snub c => with_conn c up_snub s
  | Unsnub c => with_conn c up_unsnub s
  | HashQueued p => set_hq (p :: hq s) s
  | SockLimit b => set_sockfull b s
  | DiscDelay c => disc_delay c s
  | DiscFire => disc_fire s
  | PexTick => mkSt (rows s) (g s) (blocks s) (active s) (opened s) (seeding s) (rej s) true (maxc s) (hq s) (sockfull s) (maxpex s) (dqueue s)
  end.

Definition run (seed : bool) (ops : list op) : st := fold_left step ops (init seed).

(* ---- predicates used by the theorems and printed by the driver ------------------------------------------- *)
Definition row_zero (r : row) : bool :=
  match ph r with PNone => true | _ => false end && negb (fd r) && negb (pe r) && negb (ui r) && negb (uu r) &&
  negb (di r) && negb (du r) && negb (px r) && negb (tu r) && negb (td r) && negb (uc r) && negb (dc r) &&
  match reqs r with [] => true | _ => false end && match cur r with CNone => true | _ => false end &&
  negb (pi_c r) && negb (pi_h r).

(* Block b can be handed to another peer again: not finished and no transfer that is not erased (m_notStalled = 0) *)
Definition requestable (b : blk) : bool := negb (fin b) && forallb (fun p => tst_eqb (snd p) TE) (trs b).
Definition no_live_tr (c : nat) (b : blk) : bool :=
  forallb (fun p => negb (Nat.eqb (fst p) c) || tst_eqb (snd p) TE) (trs b).
Definition bt_count (l : list blk) : Z := fold_right (fun b a => Z.of_nat (length (trs b)) + a) 0 l.
Definition torrent_counters (v : vec) : vec := firstn 1 v ++ skipn 2 (firstn 18 v).
