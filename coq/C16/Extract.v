From Coq Require Import Extraction ExtrOcamlBasic NArith ZArith.
From LTV.C16 Require Import Model.
Set Extraction Optimize.
Extraction Language OCaml.
Extraction "extracted/c16_model.ml" run step init contrib tr_count row_zero requestable bt_count vsum.
