(* C16 property theorems (statements only; proofs in Proofs.v, ProofsInv.v, ProofsState.v).
   Model: coq/C16/Model.v (resource ledger; ops = mechanism-level events).  Inv, row_wf, quiet, qvec, released are
   defined in ProofsInv.v / ProofsState.v and repeated in the comments below. *)
From Coq Require Import List ZArith NArith Bool.
From LTV.C16 Require Import ParamsGen Model Proofs ProofsInv ProofsState ProofsBlocks ProofsQueue ParamsTie.
Import ListNotations.
Open Scope Z_scope.

(* ledger_inv: for ALL op lists every global counter equals the sum of the live rows' contributions
   (Inv s := g s = csum (rows s) /\ Forall row_wf (rows s); row_wf: only an established connection holds
   connection-level resources, a live row holds its descriptor, a dead row holds nothing but possibly a PEX slot) *)
Theorem ledger_inv : forall sd ops, Inv (run sd ops).
Proof. exact ProofsState.ledger_inv. Qed.
Print Assumptions ledger_inv.

(* no counter of the code can underflow (they are unsigned in the code, Z in the model) *)
Theorem counters_nonneg : forall sd ops, Forall (fun x => 0 <= x) (g (run sd ops)).
Proof. exact ProofsState.counters_nonneg. Qed.
Print Assumptions counters_nonneg.

(* abort_releases_all: from ANY reachable state, Abort of a live handshake / connection c leaves its row with nothing
   (released: phase none, descriptor closed and out of the poll set, no choke / PEX / throttle / chunk contribution,
   request list empty, PeerInfo disconnected, contribution vector zero), the descriptor was closed exactly once more,
   and for a connection no unfinished block keeps a live transfer of c (the blocks can be requested again) *)
Theorem abort_releases_all : forall sd ops c r,
  let s := run sd ops in
  get_row c (rows s) = Some r -> ph r <> PNone ->
  let s' := run sd (ops ++ [Abort c]) in
  (exists r', get_row c (rows s') = Some r' /\ released r' /\ closes r' = closes r + 1) /\
  (ph r = PConn -> forall b, In b (blocks s') -> fin b = false -> no_live_tr c b = true).
Proof. exact abort_releases_all_state. Qed.
Print Assumptions abort_releases_all.

(* row level, any row state (not only reachable ones) *)
Theorem abort_releases_all_connection : forall r,
  row_zero (fst (cleanup_row r)) = true /\ contrib (fst (cleanup_row r)) = vz /\
  closes (fst (cleanup_row r)) = closes r + 1 /\
  reqs (fst (cleanup_row r)) = [] /\ cur (fst (cleanup_row r)) = CNone /\
  pi_c (fst (cleanup_row r)) = false /\ pi_h (fst (cleanup_row r)) = false.
Proof. exact cleanup_row_zero. Qed.
Print Assumptions abort_releases_all_connection.

Theorem abort_blocks_released : forall c b, fin b = false -> no_live_tr c (rel_blk c b) = true.
Proof. exact rel_blk_no_live. Qed.
Print Assumptions abort_blocks_released.

(* stop_zero: after DownloadMain::stop on an active torrent, from ANY reachable state, every torrent-level counter is
   zero (qvec: only the handshake-table size, the socket count -- handshakes that have not named a torrent -- and the
   PEX slot counter may be non-zero); in particular upload_unchoked = download_unchoked = 0, so the internal_error at
   the end of DownloadMain::stop is unreachable *)
Theorem stop_zero : forall sd ops,
  active (run sd ops) = true ->
  let s' := run sd (ops ++ [Stop]) in
  qvec (g s') /\ nth 2 (g s') 0 = 0 /\ nth 8 (g s') 0 = 0.
Proof. exact ProofsState.stop_zero. Qed.
Print Assumptions stop_zero.

(* block table: for ALL op lists, a transfer that is not erased, in an unfinished block, belongs to an established
   connection (BInv s := owners_ok (rows s) (blocks s)) *)
Theorem block_owners_inv : forall sd ops, BInv (run sd ops).
Proof. exact ProofsBlocks.block_owners_inv. Qed.
Print Assumptions block_owners_inv.

(* ... hence after DownloadMain::stop every block of the whole table is either finished (waiting for its hash) or
   requestable again (not finished and only erased transfers left, i.e. m_notStalled = 0) *)
Theorem blocks_requestable_after_stop : forall sd ops,
  active (run sd ops) = true ->
  forall b, In b (blocks (run sd (ops ++ [Stop]))) -> fin b = true \/ requestable b = true.
Proof. exact ProofsBlocks.blocks_requestable_after_stop. Qed.
Print Assumptions blocks_requestable_after_stop.

(* restartable: stop + start brings the torrent back active with all torrent-level counters zero, and the ledger
   invariant keeps holding for every continuation (blocks: blocks_requestable_after_stop). *)
Theorem restartable : forall sd ops,
  active (run sd ops) = true -> opened (run sd ops) = true ->
  let s' := run sd (ops ++ [Stop; Start]) in
  active s' = true /\ qvec (g s') /\ Inv s' /\ (forall more, Inv (fold_left step more s')).
Proof. exact ProofsState.restartable. Qed.
Print Assumptions restartable.

(* the former leak witness (dissimilar transfer): since 3d23180 the peer's transfer counter returns to 0 *)
Theorem former_leak_example :
  let s := run false leak_ops in
  rej s = false /\ g s = vz /\ (exists r, get_row 1 (rows s) = Some r /\ row_zero r = true /\ tc r = 0).
Proof. exact Proofs.former_leak_example. Qed.
Print Assumptions former_leak_example.

(* non-vacuity: a reachable state with a live connection holding choke slots and a mapped chunk, and its stop *)
Theorem hypotheses_satisfiable :
  active (run false ex_ops) = true /\ opened (run false ex_ops) = true /\
  (exists r, get_row 0 (rows (run false ex_ops)) = Some r /\ ph r = PConn /\ uu r = true /\ du r = true /\ dc r = true) /\
  nth 2 (g (run false ex_ops)) 0 = 1 /\ nth 8 (g (run false ex_ops)) 0 = 1 /\ nth 17 (g (run false ex_ops)) 0 = 1.
Proof. exact ex_hyps. Qed.
Print Assumptions hypotheses_satisfiable.

(* round 3 ------------------------------------------------------------------------------------------------------
   refused_accept_closes: an incoming connection accepted while the socket budget is exhausted is closed exactly once,
   at once, and leaves nothing behind (no handshake, no table entry, no counter, no block change) *)
Theorem refused_accept_closes : forall sd ops c e,
  let s := run sd ops in
  sockfull s = true -> get_row c (rows s) = None ->
  let s' := run sd (ops ++ [Connect c true e]) in
  g s' = g s /\ blocks s' = blocks s /\
  exists r, get_row c (rows s') = Some r /\ released r /\ closes r = 1 /\ fd r = false.
Proof. exact ProofsState.refused_accept_closes. Qed.
Print Assumptions refused_accept_closes.

(* close hands back every chunk handle the hash queue holds (HashQueue::remove -> receive_hash_done(handle, NULL)
   releases it) and empties the transfer list, from ANY reachable state *)
Theorem close_drains_hash_queue : forall sd ops,
  let s' := run sd (ops ++ [Close]) in hq s' = [] /\ blocks s' = [] /\ active s' = false /\ opened s' = false.
Proof. exact ProofsState.close_drains_hash_queue. Qed.
Print Assumptions close_drains_hash_queue.

(* snubbed connections: ledger_inv, abort_releases_all and stop_zero above cover them (the row carries the snubbed flag,
   a snubbed row contributes to no choke counter); non-vacuity: a reachable snubbed, interested connection and its abort *)
Theorem snubbed_example :
  (exists r, get_row 0 (rows (run true ex_snub_ops)) = Some r /\ us r = true /\ ui r = true /\ uu r = false) /\
  nth 6 (g (run true ex_snub_ops)) 0 = 0 /\
  g (run true (ex_snub_ops ++ [Abort 0])) = vz /\ rej (run true (ex_snub_ops ++ [Abort 0])) = false /\
  g (run true (ex_snub_ops ++ [Unsnub 0; Abort 0])) = vz.
Proof. exact ex_snub. Qed.
Print Assumptions snubbed_example.

(* the constants of the compiled code are the model's (DownloadInfo::max_size_pex is a tuning constant: the model takes it
   as state, set by SetMaxPex from the probed value; the theorems hold for every value) *)
Theorem params_ok_now :
  Params.c16_hs_part1 = MP.hs_part1 /\ Params.c16_hs_size = MP.hs_size /\ Params.c16_piece_hdr = MP.piece_hdr /\
  (0 < Params.c16_max_size_pex)%Z.
Proof. exact ParamsTie.params_ok_now. Qed.
Print Assumptions params_ok_now.

(* round 4 ------------------------------------------------------------------------------------------------------
   The delayed-disconnect exit path: ConnectionList::erase(.., disconnect_delayed) (= Peer::disconnect) only queues the
   connection (op DiscDelay), ConnectionList::disconnect_queued -- run by the scheduler entry
   DownloadMain::m_delay_disconnect_peers -- erases every queued connection still in the list (op DiscFire).  ledger_inv,
   counters_nonneg, block_owners_inv, stop_zero, restartable above quantify over ALL op lists and so cover the two new ops.

   disconnect_queued_releases_all: from ANY reachable state, running the queue leaves every queued established connection
   with nothing (released, as for Abort), its descriptor closed exactly once more, no unfinished block keeps a live
   transfer of it, and the queue is empty *)
Theorem disconnect_queued_releases_all : forall sd ops c r,
  let s := run sd ops in
  In c (dqueue s) -> get_row c (rows s) = Some r -> ph r = PConn ->
  let s' := run sd (ops ++ [DiscFire]) in
  dqueue s' = [] /\
  (exists r', get_row c (rows s') = Some r' /\ released r' /\ closes r' = closes r + 1) /\
  (forall b, In b (blocks s') -> fin b = false -> no_live_tr c b = true).
Proof. exact ProofsQueue.disconnect_queued_releases_all. Qed.
Print Assumptions disconnect_queued_releases_all.

(* until the queue is run the queued connection keeps everything: the delayed disconnect changes nothing but the queue
   (any state, not only reachable ones) *)
Theorem delayed_disconnect_only_queues : forall s c r,
  get_row c (rows s) = Some r -> ph r = PConn ->
  let s' := step s (DiscDelay c) in
  rows s' = rows s /\ g s' = g s /\ blocks s' = blocks s /\ dqueue s' = dqueue s ++ [c] /\ rej s' = rej s.
Proof. exact ProofsQueue.delayed_disconnect_only_queues. Qed.
Print Assumptions delayed_disconnect_only_queues.

(* DownloadMain::stop leaves m_disconnectQueue as it is (only the scheduler entry is removed); the stale entries are
   harmless: running the queue after a stop finds no connection, changes no row, counter or block, and empties the queue *)
Theorem stale_queue_harmless_after_stop : forall sd ops,
  active (run sd ops) = true ->
  let s1 := run sd (ops ++ [Stop]) in
  let s2 := run sd (ops ++ [Stop; DiscFire]) in
  dqueue s1 = dqueue (run sd ops) /\
  rows s2 = rows s1 /\ g s2 = g s1 /\ blocks s2 = blocks s1 /\ dqueue s2 = [] /\ rej s2 = rej s1.
Proof. exact ProofsQueue.stale_queue_harmless_after_stop. Qed.
Print Assumptions stale_queue_harmless_after_stop.

(* non-vacuity of the three: a reachable unchoked connection sitting in the queue; running the queue, remote close followed
   by the queue, and stop / start / queue all end with every counter zero *)
Theorem delayed_disconnect_example :
  (exists r, get_row 0 (rows (run true ex_dq_ops)) = Some r /\ ph r = PConn /\ uu r = true /\ tu r = true) /\
  dqueue (run true ex_dq_ops) = [0%nat] /\ active (run true ex_dq_ops) = true /\ rej (run true ex_dq_ops) = false /\
  nth 2 (g (run true ex_dq_ops)) 0 = 1 /\
  g (run true (ex_dq_ops ++ [DiscFire])) = vz /\ rej (run true (ex_dq_ops ++ [DiscFire])) = false /\
  g (run true (ex_dq_ops ++ [Abort 0; DiscFire])) = vz /\ rej (run true (ex_dq_ops ++ [Abort 0; DiscFire])) = false /\
  dqueue (run true (ex_dq_ops ++ [Stop])) = [0%nat] /\ g (run true (ex_dq_ops ++ [Stop; Start; DiscFire])) = vz.
Proof. exact ex_dq. Qed.
Print Assumptions delayed_disconnect_example.
