(* C16 property theorems (statements only; proofs in Proofs.v).
   STATUS: the row-level theorems are full strength (all rows / all blocks).  The state-level induction
   (ledger_inv for every op list: g s = sum of contrib over rows s; stop_zero; restartable) is NOT finished:
   see ledger_balance_partial below -- what is proved is that every row update used by `step` changes the global
   counters by exactly the change of the row's contribution; lifting this through `upd`/`upd_all` and the
   well-formedness of live rows is missing.  The OCaml driver checks g s = sum contrib on every enumerated case. *)
From Coq Require Import List ZArith NArith Bool.
From LTV.C16 Require Import ParamsGen Model Proofs.
Import ListNotations.
Open Scope Z_scope.

(* ledger balance of every update of a connected row by a peer message / a library message (partial: row level) *)
Theorem ledger_balance_partial :
  (forall m, row_ok (conn_msg_simple m)) /\ (forall m, row_ok (lib_msg_row m)) /\
  (forall r, ph r = PConn -> fd r = true ->
     contrib (fst (cleanup_row r)) = snd (cleanup_row r) +v contrib r) /\
  (forall r, ph r = PHs -> fd r = true ->
     contrib (fst (destroy_row r)) = snd (destroy_row r) +v contrib r) /\
  (forall sd r, ph r = PHs -> contrib (fst (to_conn sd r)) = snd (to_conn sd r) +v contrib r).
Proof.
  exact (conj ok_conn_msg_simple (conj ok_lib_msg_row
        (conj (fun r a b => proj1 (ok_cleanup r a b))
        (conj (fun r a b => proj1 (ok_destroy r a b)) (fun sd r a => proj1 (ok_to_conn sd r a)))))).
Qed.
Print Assumptions ledger_balance_partial.

(* abort_releases_all, connection: after PeerConnectionBase::cleanup from ANY row state the row holds nothing,
   contributes nothing to any counter, its descriptor was closed exactly once more, its request list is empty and
   the PeerInfo is disconnected *)
Theorem abort_releases_all_connection : forall r,
  row_zero (fst (cleanup_row r)) = true /\ contrib (fst (cleanup_row r)) = vz /\
  closes (fst (cleanup_row r)) = closes r + 1 /\
  reqs (fst (cleanup_row r)) = [] /\ cur (fst (cleanup_row r)) = CNone /\
  pi_c (fst (cleanup_row r)) = false /\ pi_h (fst (cleanup_row r)) = false.
Proof. exact cleanup_row_zero. Qed.
Print Assumptions abort_releases_all_connection.

(* abort_releases_all, handshake (Handshake::destroy_connection) *)
Theorem abort_releases_all_handshake : forall r, hs_clean r ->
  row_zero (fst (destroy_row r)) = true /\ contrib (fst (destroy_row r)) = vz /\
  closes (fst (destroy_row r)) = closes r + 1 /\
  pi_c (fst (destroy_row r)) = false /\ pi_h (fst (destroy_row r)) = false.
Proof. exact destroy_row_zero. Qed.
Print Assumptions abort_releases_all_handshake.

(* the blocks c was fetching: after the release no unfinished block keeps a live (non-erased) transfer of c *)
Theorem abort_blocks_released : forall c b, fin b = false -> no_live_tr c (rel_blk c b) = true.
Proof. exact rel_blk_no_live. Qed.
Print Assumptions abort_blocks_released.

(* the former leak witness: with a dissimilar transfer the counter now returns to 0 *)
Theorem former_leak_example :
  let s := run false leak_ops in
  rej s = false /\ g s = vz /\ (exists r, get_row 1 (rows s) = Some r /\ row_zero r = true /\ tc r = 0).
Proof. exact Proofs.former_leak_example. Qed.
Print Assumptions former_leak_example.

Theorem params_ok_now :
  Params.c16_hs_part1 = 48%N /\ Params.c16_hs_size = 68%N /\ Params.c16_piece_hdr = 13%N /\ (0 < Params.c16_max_size_pex)%Z.
Proof. exact Proofs.params_ok_now. Qed.
Print Assumptions params_ok_now.
