(* C16 proofs, part 3: state level.  ledger_inv for ALL op lists; abort_releases_all; stop_zero; restartable. *)
From Coq Require Import List ZArith NArith Bool Arith Lia.
From LTV.C16 Require Import Model Proofs ProofsInv.
Import ListNotations.
Open Scope Z_scope.

Definition Inv (s : st) : Prop := g s = csum (rows s) /\ Forall row_wf (rows s).

#[export] Hint Resolve good_tc_add good_conn_msg good_lib_msg good_ph_valid good_ph_skip good_dissim good_after good_after_tc
  good_hs_bytes good_pex_enable good_hs_msg good_abort good_stop good_snub good_unsnub : c16.

Lemma vadd_swap : forall a b c d, (a +v b) +v (c +v d) = (a +v c) +v (b +v d).
Proof. intros. rewrite !vadd_assoc. f_equal. rewrite <- !vadd_assoc. f_equal. apply vadd_comm. Qed.

Lemma upd_good : forall f c, good f -> forall l l' dv ok, Forall row_wf l -> upd c f l = (l', dv, ok) ->
  csum l' = dv +v csum l /\ length dv = vlen /\ Forall row_wf l' /\ map cid l' = map cid l.
Proof.
  intros f c G. induction l as [|r t IH]; intros l' dv ok W E; cbn in E.
  - inversion E; subst. repeat split; auto.
  - inversion W as [|? ? Wr Wt]; subst.
    destruct (Nat.eqb (cid r) c).
    + destruct (G r Wr) as (H1 & H2 & H3 & H4). destruct (f r) as [r' d1]. cbn in *. inversion E; subst.
      repeat split; auto.
      * rewrite !csum_cons, H1, vadd_assoc. reflexivity.
      * cbn. rewrite H3. reflexivity.
    + destruct (upd c f t) as [[t' d1] ok1] eqn:E1. inversion E; subst.
      destruct (IH _ _ _ Wt eq_refl) as (H1 & H2 & H3 & H4).
      repeat split; auto.
      * rewrite !csum_cons, H1. rewrite <- !vadd_assoc. f_equal. apply vadd_comm.
      * cbn. rewrite H4. reflexivity.
Qed.

Lemma upd_all_good : forall f, good f -> forall l l' dv, Forall row_wf l -> upd_all f l = (l', dv) ->
  csum l' = dv +v csum l /\ length dv = vlen /\ Forall row_wf l' /\ map cid l' = map cid l.
Proof.
  intros f G. induction l as [|r t IH]; intros l' dv W E; cbn in E.
  - inversion E; subst. repeat split; auto.
  - inversion W as [|? ? Wr Wt]; subst.
    destruct (G r Wr) as (H1 & H2 & H3 & H4). destruct (f r) as [r' d1]. cbn in *.
    destruct (upd_all f t) as [t' d2] eqn:E1. inversion E; subst.
    destruct (IH _ _ Wt eq_refl) as (K1 & K2 & K3 & K4).
    repeat split; auto.
    + rewrite !csum_cons, H1, K1. apply vadd_swap.
    + apply vadd_len; auto.
    + cbn. rewrite H3, K4. reflexivity.
Qed.

Lemma with_row_inv : forall f c s, good f -> Inv s -> Inv (with_row c f s).
Proof.
  intros f c s G [H1 H2]. unfold with_row.
  destruct (upd c f (rows s)) as [[rs dv] ok] eqn:E.
  destruct (upd_good f c G _ _ _ _ H2 E) as (K1 & K2 & K3 & _).
  split; cbn [g rows]; auto. rewrite K1, H1. apply vadd_comm.
Qed.

Lemma set_blocks_inv : forall bl s, Inv s -> Inv (set_blocks bl s).
Proof. intros bl s H. exact H. Qed.
Lemma set_hq_inv : forall l s, Inv s -> Inv (set_hq l s).
Proof. intros l s H. exact H. Qed.
Lemma set_sockfull_inv : forall b s, Inv s -> Inv (set_sockfull b s).
Proof. intros b s H. exact H. Qed.
Lemma reject_inv : forall s, Inv s -> Inv (reject s).
Proof. intros s H. exact H. Qed.
Lemma dec_tc_all_inv : forall ow s, Inv s -> Inv (dec_tc_all ow s).
Proof.
  unfold dec_tc_all. induction ow; intros s H; cbn; auto.
  apply IHow. apply with_row_inv; auto with c16.
Qed.

Ltac dm := repeat (cbv zeta; match goal with
  | |- Inv (match ?x with _ => _ end) => destruct x eqn:?
  | |- Inv (if ?x then _ else _) => destruct x eqn:?
  | |- Inv (let (_, _) := ?x in _) => destruct x eqn:?
  end).
Ltac inv_step := match goal with
  | |- Inv (reject _) => apply reject_inv
  | |- Inv (set_blocks _ _) => apply set_blocks_inv
  | |- Inv (set_hq _ _) => apply set_hq_inv
  | |- Inv (set_sockfull _ _) => apply set_sockfull_inv
  | |- Inv (dec_tc_all _ _) => apply dec_tc_all_inv
  | |- Inv (with_row _ _ _) => apply with_row_inv; [ solve [ auto with c16 ] | ]
  | |- Inv _ => assumption
  end.
Ltac solve_inv := dm; unfold with_conn; repeat inv_step.

Lemma piece_header_inv : forall c b s, Inv s -> Inv (piece_header c b s).
Proof. intros c b s H. unfold piece_header. solve_inv. Qed.
Lemma piece_end_inv : forall c s, Inv s -> Inv (piece_end c s).
Proof. intros c s H. unfold piece_end. solve_inv. Qed.
Lemma dissimilar_inv : forall c s, Inv s -> Inv (dissimilar c s).
Proof. intros c s H. unfold dissimilar. solve_inv. Qed.
Lemma abort_conn_inv : forall c s, Inv s -> Inv (abort_conn c s).
Proof. intros c s H. unfold abort_conn. solve_inv. Qed.

Lemma do_stop_inv : forall s, Inv s -> Inv (do_stop s).
Proof.
  intros s [H1 H2]. unfold do_stop. destruct (active s); [|split; auto].
  destruct (stop_blocks (conn_ids (rows s)) (blocks s)) as [bl dr].
  destruct (upd_all stop_row (rows s)) as [rs dv] eqn:E.
  destruct (upd_all_good stop_row good_stop _ _ _ H2 E) as (K1 & K2 & K3 & _).
  apply dec_tc_all_inv. split; cbn [g rows]; auto. rewrite K1, H1. apply vadd_comm.
Qed.
Lemma do_close_inv : forall s, Inv s -> Inv (do_close s).
Proof.
  intros s H. unfold do_close.
  pose proof (dec_tc_all_inv (flat_map (fun b => map fst (trs b)) (blocks (do_stop s))) _ (do_stop_inv s H)) as K.
  exact K.
Qed.

Ltac inv_step2 := match goal with
  | |- Inv (piece_header _ _ _) => apply piece_header_inv
  | |- Inv (piece_end _ _) => apply piece_end_inv
  | |- Inv (dissimilar _ _) => apply dissimilar_inv
  | |- Inv (with_conn _ _ _) => unfold with_conn
  | _ => inv_step
  end.

Lemma pmsg_step_inv : forall c m n len s, Inv s -> Inv (pmsg_step c m n len s).
Proof.
  intros c m n len s H. unfold pmsg_step.
  destruct (get_row c (rows s)) as [r|]; [|apply reject_inv; auto].
  destruct (ph r); auto.
  - destruct (N.eqb (hsb r) MP.hs_size); auto.
    set (s1 := with_row c (on_hs (hs_msg (seeding s) (Z.leb (maxc s) (nth 0 (g s) 0)) m n len)) s).
    assert (H1 : Inv s1) by (apply with_row_inv; auto with c16).
    clearbody s1.
    destruct (get_row c (rows s1)); auto.
    destruct m; auto; dm; repeat inv_step2.
  - destruct m; dm; repeat inv_step2;
    repeat (match goal with
            | |- context[match ?x with Some _ => _ | None => _ end] => destruct x
            | |- context[match cur ?r with CNone => _ | CValid _ => _ | CSkip => _ end] => destruct (cur r)
            | |- context[if ?x then _ else _] => destruct x
            end; repeat inv_step2).
Qed.

Lemma contrib_new_row : forall c i e, contrib (new_row c i e) = d 1 1 +v d 18 1.
Proof. intros c i e. destruct i; reflexivity. Qed.
Lemma wf_new_row : forall c i e, row_wf (new_row c i e).
Proof. intros. unfold row_wf, res_free. cbn. repeat split. Qed.

Lemma contrib_refused_row : forall c e, contrib (refused_row c e) = vz.
Proof. reflexivity. Qed.
Lemma wf_refused_row : forall c e, row_wf (refused_row c e).
Proof. intros. unfold row_wf, res_free. cbn. repeat split. Qed.

(* round 4: the delayed-disconnect queue (ConnectionList::erase(.., disconnect_delayed) / disconnect_queued) *)
Lemma set_dqueue_inv : forall l s, Inv s -> Inv (set_dqueue l s).
Proof. intros l s H. exact H. Qed.
Lemma erase_queued_inv : forall c s, Inv s -> Inv (erase_queued c s).
Proof.
  intros c s H. unfold erase_queued. destruct (get_row c (rows s)) as [r|]; auto.
  destruct (is_conn r); auto. apply abort_conn_inv; auto.
Qed.
Lemma fire_fold_inv : forall l s, Inv s -> Inv (fold_left (fun s c => erase_queued c s) l s).
Proof. induction l; intros s H; cbn; auto. apply IHl. apply erase_queued_inv; auto. Qed.
Lemma disc_fire_inv : forall s, Inv s -> Inv (disc_fire s).
Proof. intros s H. unfold disc_fire. apply set_dqueue_inv. apply fire_fold_inv; auto. Qed.
Lemma disc_delay_inv : forall c s, Inv s -> Inv (disc_delay c s).
Proof.
  intros c s H. unfold disc_delay. destruct (get_row c (rows s)) as [r|]; [destruct (is_conn r)|]; auto.
Qed.

Lemma step_inv : forall s o, Inv s -> Inv (step s o).
Proof.
  intros s o H. destruct o; cbn [step].
  - destruct (get_row c (rows s)); [apply reject_inv; auto|].
    destruct H as [H1 H2]. destruct (sockfull s).
    + destruct incoming; [|split; auto]. split; cbn [g rows].
      * rewrite csum_app1, contrib_refused_row, H1. symmetry. apply vz_r, csum_len.
      * apply Forall_app. split; auto. constructor; auto. apply wf_refused_row.
    + split; cbn [g rows].
      * rewrite csum_app1, contrib_new_row, H1, vadd_assoc. reflexivity.
      * apply Forall_app. split; auto. constructor; auto. apply wf_new_row.
  - apply with_row_inv; auto with c16.
  - apply pmsg_step_inv; auto.
  - destruct m; unfold with_conn; try (apply with_row_inv; auto with c16; fail).
    dm; auto; unfold with_conn; repeat inv_step.
  - destruct (get_row c (rows s)); auto. apply with_row_inv; auto with c16.
  - dm; repeat inv_step.
  - exact H.
  - apply abort_conn_inv; auto.
  - apply do_stop_inv; auto.
  - apply do_close_inv; auto.
  - apply do_close_inv; auto.
  - destruct (opened s); exact H.
  - exact H.
  - exact H.
  - unfold with_conn. apply with_row_inv; auto with c16.
  - unfold with_conn. apply with_row_inv; auto with c16.
  - exact H.
  - exact H.
  - apply disc_delay_inv; auto.
  - apply disc_fire_inv; auto.
Qed.

Lemma init_inv : forall sd, Inv (init sd).
Proof. intro sd. split; cbn; auto. Qed.

Theorem ledger_inv : forall sd ops, Inv (run sd ops).
Proof.
  intros sd ops. unfold run.
  assert (K : forall s, Inv s -> Inv (fold_left step ops s)).
  { induction ops; cbn; auto. intros s H. apply IHops. apply step_inv; auto. }
  apply K. apply init_inv.
Qed.

Lemma run_app : forall sd ops o, run sd (ops ++ [o]) = step (run sd ops) o.
Proof. intros. unfold run. rewrite fold_left_app. reflexivity. Qed.

(* ---- stop_zero ------------------------------------------------------------------------------------------ *)
Definition quiet (r : row) : Prop :=
  is_conn r = false /\ ui r = false /\ uu r = false /\ di r = false /\ du r = false /\ tu r = false /\
  td r = false /\ uc r = false /\ dc r = false.
(* only the session-level entries may be non-zero: handshakes that have not named a torrent (hs, sk) and PEX slots *)
Definition qvec (v : vec) : Prop := exists h p f, v = [0; h; 0; 0; 0; 0; 0; 0; 0; 0; 0; 0; 0; 0; p; 0; 0; 0; f; 0].

Lemma quiet_contrib : forall r, quiet r -> qvec (contrib r).
Proof.
  intros [c p i e h dl bf xi xp f pe ui uu ur usn di du dr dn px tu td uc dc rq cu ps pc phh t cl] Q.
  unfold quiet in Q. cbn in Q. destruct Q as (Q0 & -> & -> & -> & -> & -> & -> & -> & ->).
  unfold contrib, uq, dq. cbn. destruct p; cbn in *; try discriminate; do 3 eexists; reflexivity.
Qed.
Lemma qvec_add : forall a b, qvec a -> qvec b -> qvec (a +v b).
Proof. intros a b (h1 & p1 & f1 & ->) (h2 & p2 & f2 & ->). cbn. do 3 eexists. reflexivity. Qed.
Lemma qvec_csum : forall l, Forall quiet l -> qvec (csum l).
Proof.
  induction l; intros H.
  - exists 0, 0, 0. reflexivity.
  - inversion H; subst. rewrite csum_cons. apply qvec_add; auto using quiet_contrib.
Qed.
Lemma stop_row_quiet : forall r, row_wf r -> quiet (fst (stop_row r)).
Proof.
  unfold stop_row, destroy_row, cleanup_row. open_row; unfold quiet; brk2; cbn; repeat split; reflexivity.
Qed.
Lemma upd_all_quiet : forall l, Forall row_wf l -> Forall quiet (fst (upd_all stop_row l)).
Proof.
  induction l; intros H; cbn; auto.
  inversion H; subst. pose proof (stop_row_quiet a H2) as Q.
  destruct (stop_row a) as [r' d1]. destruct (upd_all stop_row l) as [t' d2] eqn:E. cbn in *.
  constructor; auto.
Qed.
Lemma upd_Forall : forall (P : row -> Prop) f c, (forall r, P r -> P (fst (f r))) ->
  forall l, Forall P l -> Forall P (fst (fst (upd c f l))).
Proof.
  intros P f c Hf. induction l; intros H; cbn; auto.
  inversion H; subst. destruct (Nat.eqb (cid a) c).
  - pose proof (Hf a H2). destruct (f a). cbn in *. constructor; auto.
  - specialize (IHl H3). destruct (upd c f l) as [[t' d1] ok]. cbn in *. constructor; auto.
Qed.
Lemma with_row_rows_Forall : forall (P : row -> Prop) f c s, (forall r, P r -> P (fst (f r))) ->
  Forall P (rows s) -> Forall P (rows (with_row c f s)).
Proof.
  intros P f c s Hf H. unfold with_row. pose proof (upd_Forall P f c Hf _ H) as K.
  destruct (upd c f (rows s)) as [[rs dv] ok]. exact K.
Qed.
Lemma dec_tc_all_Forall : forall (P : row -> Prop), (forall k r, P r -> P (fst (tc_add k r))) ->
  forall ow s, Forall P (rows s) -> Forall P (rows (dec_tc_all ow s)).
Proof.
  intros P HP. unfold dec_tc_all. induction ow; intros s H; cbn; auto.
  apply IHow. apply with_row_rows_Forall; auto.
Qed.
Lemma quiet_tc : forall k r, quiet r -> quiet (fst (tc_add k r)).
Proof. intros k [c p i e h dl bf xi xp f pe ui uu ur usn di du dr dn px tu td uc dc rq cu ps pc phh t cl] Q. exact Q. Qed.

Lemma do_stop_quiet : forall s, Inv s -> active s = true -> Forall quiet (rows (do_stop s)).
Proof.
  intros s [H1 H2] A. unfold do_stop. rewrite A.
  destruct (stop_blocks (conn_ids (rows s)) (blocks s)) as [bl dr].
  pose proof (upd_all_quiet _ H2) as Q.
  destruct (upd_all stop_row (rows s)) as [rs dv]. cbn in Q.
  apply dec_tc_all_Forall; auto using quiet_tc.
Qed.

Theorem stop_zero : forall sd ops,
  active (run sd ops) = true ->
  let s' := run sd (ops ++ [Stop]) in
  qvec (g s') /\ nth 2 (g s') 0 = 0 /\ nth 8 (g s') 0 = 0.
Proof.
  intros sd ops A s'. subst s'. rewrite run_app.
  pose proof (ledger_inv sd ops) as I.
  assert (Q : qvec (g (step (run sd ops) Stop))).
  { destruct (step_inv _ Stop I) as [G _]. rewrite G. apply qvec_csum. cbn [step]. apply do_stop_quiet; auto. }
  split; auto. destruct Q as (h & p & f & ->). split; reflexivity.
Qed.

Lemma fold_inv : forall more s, Inv s -> Inv (fold_left step more s).
Proof. induction more; cbn; auto. intros s I. apply IHmore. apply step_inv; auto. Qed.

(* ---- restartable ---------------------------------------------------------------------------------------------- *)
Theorem restartable : forall sd ops,
  active (run sd ops) = true -> opened (run sd ops) = true ->
  let s' := run sd (ops ++ [Stop; Start]) in
  active s' = true /\ qvec (g s') /\ Inv s' /\ (forall more, Inv (fold_left step more s')).
Proof.
  intros sd ops A O s'. subst s'.
  replace (ops ++ [Stop; Start]) with ((ops ++ [Stop]) ++ [Start]) by (rewrite <- app_assoc; reflexivity).
  rewrite run_app.
  destruct (stop_zero sd ops A) as (Q & _).
  set (s1 := run sd (ops ++ [Stop])) in *.
  assert (O1 : opened s1 = true).
  { unfold s1. rewrite run_app. cbn [step]. unfold do_stop. rewrite A.
    destruct (stop_blocks _ _) as [bl dr]. destruct (upd_all stop_row _) as [rs dv].
    assert (K : forall ow s, opened (dec_tc_all ow s) = opened s).
    { unfold dec_tc_all. induction ow; intros s; cbn; auto. rewrite IHow. unfold with_row.
      destruct (upd _ _ _) as [[? ?] ?]. reflexivity. }
    rewrite K. exact O. }
  cbn [step]. rewrite O1. cbn [active g].
  assert (I : Inv (mkSt (rows s1) (g s1) (blocks s1) true true (seeding s1) (rej s1) (pexact s1) (maxc s1) (hq s1) (sockfull s1) (maxpex s1) (dqueue s1))).
  { exact (ledger_inv sd (ops ++ [Stop])). }
  split; [reflexivity|]. split; [exact Q|]. split; [exact I|].
  intros more0. apply fold_inv. exact I.
Qed.

(* ---- abort_releases_all at state level ---------------------------------------------------------------------- *)
Definition released (r : row) : Prop :=
  ph r = PNone /\ fd r = false /\ pe r = false /\ px r = false /\ us r = false /\ pi_c r = false /\ pi_h r = false /\
  reqs r = [] /\ cur r = CNone /\ contrib r = vz.

Lemma abort_row_released : forall r, row_wf r -> ph r <> PNone ->
  released (fst (abort_row r)) /\ closes (fst (abort_row r)) = closes r + 1 /\ cid (fst (abort_row r)) = cid r.
Proof.
  unfold abort_row, destroy_row, cleanup_row. open_row; intros NP; cbn in NP; try congruence;
    unfold released; cbn; repeat split; reflexivity.
Qed.

Lemma get_row_some : forall c l r, get_row c l = Some r -> In r l /\ cid r = c.
Proof. intros c l r H. apply find_some in H. destruct H as [H1 H2]. split; auto. apply Nat.eqb_eq; auto. Qed.

Lemma upd_get_same : forall c f l r, cid (fst (f r)) = cid r -> get_row c l = Some r ->
  get_row c (fst (fst (upd c f l))) = Some (fst (f r)).
Proof.
  intros c f. induction l as [|a t IH]; intros r Hc H; cbn in *; try discriminate.
  destruct (Nat.eqb (cid a) c) eqn:E.
  - inversion H; subst. destruct (f r) as [r' d1] eqn:F. cbn in *. rewrite Hc, E. reflexivity.
  - specialize (IH r Hc H). destruct (upd c f t) as [[t' d1] ok]. cbn in *. rewrite E. exact IH.
Qed.

Lemma upd_get_P : forall (P : row -> Prop) c c0 f,
  (forall r, cid (fst (f r)) = cid r /\ (P r -> P (fst (f r)))) ->
  forall l, (exists r, get_row c l = Some r /\ P r) -> exists r, get_row c (fst (fst (upd c0 f l))) = Some r /\ P r.
Proof.
  intros P c c0 f Hf. induction l as [|a t IH]; intros (r & H & Pr); cbn in *; try discriminate.
  destruct (Nat.eqb (cid a) c0) eqn:E0.
  - destruct (Hf a) as [Hc Hp]. destruct (f a) as [a' d1]. cbn in *. rewrite Hc.
    destruct (Nat.eqb (cid a) c) eqn:E.
    + inversion H; subst. eexists; split; eauto.
    + eexists; split; eauto.
  - destruct (Nat.eqb (cid a) c) eqn:E.
    + destruct (upd c0 f t) as [[t' d1] ok]. cbn. rewrite E. eexists; split; eauto.
    + destruct (IH (ex_intro _ r (conj H Pr))) as (r2 & H2 & P2).
      destruct (upd c0 f t) as [[t' d1] ok]. cbn in *. rewrite E. eauto.
Qed.

Lemma dec_tc_all_get_P : forall (P : row -> Prop) c, (forall k r, P r -> P (fst (tc_add k r))) ->
  forall ow s, (exists r, get_row c (rows s) = Some r /\ P r) ->
  exists r, get_row c (rows (dec_tc_all ow s)) = Some r /\ P r.
Proof.
  intros P c HP. unfold dec_tc_all. induction ow; intros s H; cbn; auto.
  apply IHow. unfold with_row.
  pose proof (upd_get_P P c a (tc_add (-1)) (fun r => conj eq_refl (HP (-1) r)) _ H) as K.
  destruct (upd a (tc_add (-1)) (rows s)) as [[rs dv] ok]. exact K.
Qed.

Lemma dec_tc_all_blocks : forall ow s, blocks (dec_tc_all ow s) = blocks s.
Proof.
  unfold dec_tc_all. induction ow; intros s; cbn; auto. rewrite IHow. unfold with_row.
  destruct (upd _ _ _) as [[? ?] ?]. reflexivity.
Qed.

Lemma rel_blk_fin : forall c b, fin (rel_blk c b) = fin b.
Proof.
  intros c b. unfold rel_blk. destruct (fin b) eqn:E; auto.
  destruct (has_st c TL b); [destruct (promote _) as [k2 ok]|]; reflexivity.
Qed.

Theorem abort_releases_all_state : forall sd ops c r,
  let s := run sd ops in
  get_row c (rows s) = Some r -> ph r <> PNone ->
  let s' := run sd (ops ++ [Abort c]) in
  (exists r', get_row c (rows s') = Some r' /\ released r' /\ closes r' = closes r + 1) /\
  (ph r = PConn -> forall b, In b (blocks s') -> fin b = false -> no_live_tr c b = true).
Proof.
  intros sd ops c r s H NP s'. subst s'. rewrite run_app. fold s.
  destruct (ledger_inv sd ops) as [_ W]. fold s in W.
  destruct (get_row_some _ _ _ H) as [Hin Hc].
  assert (Wr : row_wf r) by (eapply Forall_forall; eauto).
  destruct (abort_row_released r Wr NP) as (R1 & R2 & R3).
  set (P := fun x : row => released x /\ closes x = closes r + 1).
  assert (PT : forall k x, P x -> P (fst (tc_add k x))).
  { intros k [c0 p i e h dl bf xi xp f pe ui uu ur usn di du dr dn px tu td uc dc rq cu ps pc phh t cl] Px. exact Px. }
  assert (base : forall s0, rows s0 = rows s ->
            exists r', get_row c (rows (with_row c abort_row s0)) = Some r' /\ P r').
  { intros s0 E. unfold with_row. rewrite E.
    pose proof (upd_get_same c abort_row (rows s) r R3 H) as K.
    destruct (upd c abort_row (rows s)) as [[rs dv] ok]. cbn in *. exists (fst (abort_row r)). split; auto. split; auto. }
  cbn [step]. unfold abort_conn. rewrite H.
  destruct (ph r) eqn:EP; try congruence.
  - split.
    + destruct (base s eq_refl) as (r' & G1 & G2 & G3). exists r'. auto.
    + intros; discriminate.
  - split.
    + destruct (dec_tc_all_get_P P c PT (flat_map (rel_dropped c) (blocks s)) _
                  (base (set_blocks (rel_all c (blocks s)) s) eq_refl)) as (r' & G1 & G2 & G3).
      exists r'. auto.
    + intros _ b Hb Hf. rewrite dec_tc_all_blocks in Hb.
      unfold with_row in Hb. destruct (upd c abort_row _) as [[rs dv] ok]. cbn in Hb.
      unfold rel_all in Hb. apply in_map_iff in Hb. destruct Hb as (b0 & <- & _).
      apply rel_blk_no_live. rewrite rel_blk_fin in Hf. exact Hf.
Qed.

(* no counter of the code can underflow: every global counter is a sum of 0/1 contributions *)
Lemma csum_nonneg : forall l, Forall (fun x => 0 <= x) (csum l).
Proof.
  induction l.
  - repeat constructor; lia.
  - rewrite csum_cons.
    assert (C : Forall (fun x => 0 <= x) (contrib a)).
    { destruct a. unfold contrib, uq, dq, is_conn, is_hs, B. cbn.
      repeat constructor; repeat match goal with |- context[if ?b then _ else _] => destruct b end; cbn; try lia;
      repeat match goal with |- context[match ?p with PNone => _ | PHs => _ | PConn => _ end] => destruct p end; lia. }
    revert C IHl. generalize (contrib a) (csum l). induction v; intros v0 C I; destruct v0; cbn; auto.
    inversion C; inversion I; subst. constructor; [lia | auto].
Qed.
Theorem counters_nonneg : forall sd ops, Forall (fun x => 0 <= x) (g (run sd ops)).
Proof. intros. destruct (ledger_inv sd ops) as [-> _]. apply csum_nonneg. Qed.

(* ---- non-vacuity ------------------------------------------------------------------------------------------- *)
Definition ex_ops : list op :=
  [ Connect 0 true false; HsBytes 0 68; PeerMsg 0 MBitfield 6 6; PeerMsg 0 MUnchoke 5 5; LibMsg 0 (LRequest 448);
    LibMsg 0 (LRequest 449); PeerMsg 0 (MPiece 448 None) 113 16397; Connect 1 true false; HsBytes 1 50;
    PeerMsg 0 MInt 5 5; LibMsg 0 LUnchoke ].
Example ex_hyps : active (run false ex_ops) = true /\ opened (run false ex_ops) = true /\
  (exists r, get_row 0 (rows (run false ex_ops)) = Some r /\ ph r = PConn /\ uu r = true /\ du r = true /\ dc r = true) /\
  nth 2 (g (run false ex_ops)) 0 = 1 /\ nth 8 (g (run false ex_ops)) 0 = 1 /\ nth 17 (g (run false ex_ops)) 0 = 1.
Proof. vm_compute. repeat split. eexists. repeat split. Qed.
Example ex_stop : g (run false (ex_ops ++ [Stop])) = vz /\ rej (run false (ex_ops ++ [Stop])) = false.
Proof. vm_compute. split; reflexivity. Qed.

(* ---- round 3: refused accept, hash queue at close, snubbed connections ---------------------------------------- *)
Lemma find_app_none : forall (A : Type) (f : A -> bool) l x, find f l = None -> find f (l ++ [x]) = if f x then Some x else None.
Proof. induction l; cbn; intros; auto. destruct (f a); [discriminate|auto]. Qed.

(* an incoming connection accepted while the socket budget is exhausted: the descriptor is closed exactly once, at
   once; no handshake, no table entry, no counter changes *)
Theorem refused_accept_closes : forall sd ops c e,
  let s := run sd ops in
  sockfull s = true -> get_row c (rows s) = None ->
  let s' := run sd (ops ++ [Connect c true e]) in
  g s' = g s /\ blocks s' = blocks s /\
  exists r, get_row c (rows s') = Some r /\ released r /\ closes r = 1 /\ fd r = false.
Proof.
  intros sd ops c e s F G s'. subst s'. rewrite run_app. fold s. cbn [step]. rewrite G, F. cbn [g blocks rows].
  split; auto. split; auto. exists (refused_row c e).
  split.
  - unfold get_row in *. rewrite (find_app_none _ _ _ (refused_row c e) G). cbn. rewrite Nat.eqb_refl. reflexivity.
  - unfold released. cbn. repeat split; reflexivity.
Qed.

(* DownloadWrapper::close hands back every chunk the hash queue holds, and the transfer list is emptied *)
Theorem close_drains_hash_queue : forall sd ops,
  let s' := run sd (ops ++ [Close]) in hq s' = [] /\ blocks s' = [] /\ active s' = false /\ opened s' = false.
Proof. intros sd ops s'. subst s'. rewrite run_app. cbn [step]. unfold do_close. cbn. auto. Qed.

Definition ex_snub_ops : list op :=
  [ Connect 0 true false; HsBytes 0 68; PeerMsg 0 MBitfield 6 6; PeerMsg 0 MInt 5 5; LibMsg 0 LUnchoke;
    Snub 0; LibMsg 0 LChoke ].
Example ex_snub :
  (exists r, get_row 0 (rows (run true ex_snub_ops)) = Some r /\ us r = true /\ ui r = true /\ uu r = false) /\
  nth 6 (g (run true ex_snub_ops)) 0 = 0 /\
  g (run true (ex_snub_ops ++ [Abort 0])) = vz /\ rej (run true (ex_snub_ops ++ [Abort 0])) = false /\
  g (run true (ex_snub_ops ++ [Unsnub 0; Abort 0])) = vz.
Proof. vm_compute. repeat split. eexists. repeat split. Qed.
Example ex_hq :
  hq (run false (ex_ops ++ [PeerMsg 0 (MPiece 448 None) 16397 16397; HashQueued 7])) = [7%N] /\
  hq (run false (ex_ops ++ [PeerMsg 0 (MPiece 448 None) 16397 16397; HashQueued 7; Stop])) = [7%N].
Proof. vm_compute. split; reflexivity. Qed.
