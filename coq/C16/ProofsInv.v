(* C16 proofs, part 2: the inductive invariant (ledger_inv) for ALL op lists, and its consequences:
   abort_releases_all at state level, stop_zero, restartable. *)
From Coq Require Import List ZArith NArith Bool Arith Lia.
From LTV.C16 Require Import Model Proofs.
Import ListNotations.
Open Scope Z_scope.

(* ---- well-formed rows: only an established connection holds connection-level resources ------------------- *)
Definition res_free (r : row) : Prop :=
  ui r = false /\ uu r = false /\ us r = false /\ di r = false /\ du r = false /\ tu r = false /\ td r = false /\
  uc r = false /\ dc r = false /\ reqs r = [] /\ cur r = CNone.
Definition row_wf (r : row) : Prop :=
  match ph r with
  | PNone => fd r = false /\ pe r = false /\ pi_c r = false /\ pi_h r = false /\ res_free r
  | PHs => fd r = true /\ res_free r
  | PConn => fd r = true /\ us r && uu r = false      (* a snubbed connection is choked *)
  end.

Definition good (f : row -> row * vec) : Prop :=
  forall r, row_wf r ->
    contrib (fst (f r)) = snd (f r) +v contrib r /\ length (snd (f r)) = vlen /\ cid (fst (f r)) = cid r /\
    row_wf (fst (f r)).

Ltac dcond :=
  repeat match goal with
         | |- context[N.eqb ?a ?b] => destruct (N.eqb a b)
         | |- context[N.leb ?a ?b] => destruct (N.leb a b)
         | |- context[N.ltb ?a ?b] => destruct (N.ltb a b)
         | |- context[Z.ltb ?a ?b] => destruct (Z.ltb a b)
         | |- context[Z.leb ?a ?b] => destruct (Z.leb a b)
         end.
Ltac brk2 :=
  repeat (try unfold uq, dq; cbn; match goal with
         | |- context[if ?b then _ else _] =>
             match b with context[?v] => is_var v; match type of v with bool => destruct v end end
         | |- context[match ?p with PNone => _ | PHs => _ | PConn => _ end] => is_var p; destruct p
         | |- context[match ?x with CNone => _ | CValid _ => _ | CSkip => _ end] => is_var x; destruct x
         | |- context[match ?l with [] => _ | _ :: _ => _ end] => is_var l; destruct l
         | |- context[andb ?v _] => is_var v; destruct v
         | |- context[match map ?f ?l with [] => _ | _ :: _ => _ end] => is_var l; destruct l
         end).
Ltac open_row :=
  intros [c p i e h dl bf xi xp f pe ui uu ur usn di du dr dn px tu td uc dc rq cu ps pc phh t cl] W;
  unfold row_wf, res_free in W; cbn in W;
  destruct p; cbn in W;
  [ destruct W as (-> & -> & -> & -> & -> & -> & -> & -> & -> & -> & -> & -> & -> & -> & ->)
  | destruct W as (-> & -> & -> & -> & -> & -> & -> & -> & -> & -> & -> & ->)
  | destruct W as [-> W2]; destruct usn, uu; cbn in W2; try discriminate W2; clear W2 ].
(* flags the update does not touch reduce by computation (0 + B b = B b): only split on a flag when reflexivity fails *)
Ltac refl_or_split :=
  first [ reflexivity
        | progress (unfold contrib, uq, dq, is_conn, is_hs; cbn); refl_or_split
        | match goal with |- context[andb ?v _] => is_var v; destruct v; refl_or_split end
        | match goal with |- context[B ?v] => is_var v; destruct v; refl_or_split end ].
Ltac close_row := unfold row_wf, res_free; brk2; try unfold uq, dq; cbn; repeat split; refl_or_split.
Ltac good_tac := unfold good; open_row; close_row.

Lemma good_tc_add : forall k, good (tc_add k).
Proof. intro k. unfold tc_add. good_tac. Qed.

Lemma good_conn_msg : forall m, good (on_conn (conn_msg_simple m)).
Proof.
  intro m. destruct m; unfold on_conn, conn_msg_simple, seq2, rel_dc, erase_td, choke_reqs, down_set_not_queued, idle_down,
    down_set_queued, up_set_queued, up_set_not_queued, seq2, rel_dc, erase_td; good_tac.
Qed.

Lemma good_snub : good (on_conn up_snub).
Proof. unfold on_conn, up_snub. good_tac. Qed.
Lemma good_unsnub : good (on_conn up_unsnub).
Proof. unfold on_conn, up_unsnub. good_tac. Qed.

Lemma good_lib_msg : forall m, good (on_conn (lib_msg_row m)).
Proof.
  intro m. destruct m; unfold on_conn, lib_msg_row, seq2, erase_tu, rel_uc; good_tac.
Qed.

Lemma good_ph_valid : forall b v, good (on_conn (ph_valid_row b v)).
Proof. intros b v. unfold on_conn, ph_valid_row. good_tac. Qed.
Lemma good_ph_skip : good (on_conn ph_skip_row).
Proof. unfold on_conn, ph_skip_row. good_tac. Qed.
Lemma good_dissim : good (on_conn dissim_row).
Proof. unfold on_conn, dissim_row. good_tac. Qed.
Lemma good_after_core : forall k q, good (on_conn (after_piece_core k q)).
Proof. intros k q. unfold on_conn, after_piece_core, rel_dc, erase_td. good_tac. Qed.
Lemma good_after_core_tc : forall z k q, good (on_conn (seq2 (tc_add z) (after_piece_core k q))).
Proof. intros z k q. unfold on_conn, seq2, tc_add, after_piece_core, rel_dc, erase_td. good_tac. Qed.
Lemma good_after : forall b, good (on_conn (after_piece b)).
Proof.
  intros b r W. unfold on_conn, after_piece.
  exact (good_after_core _ _ r W).
Qed.
Lemma good_after_tc : forall z b, good (on_conn (seq2 (tc_add z) (after_piece b))).
Proof.
  intros z b r W.
  pose proof (good_after_core_tc z
    (match b, filter (fun x => N.ltb x choked_tag) (reqs r) with
     | Some i, nxt :: _ => N.eqb (piece_of i) (piece_of nxt) | _, _ => false end) (queued_empty (reqs r)) r W) as H.
  unfold on_conn, seq2, tc_add, after_piece in *. destruct (is_conn r); cbn in *; exact H.
Qed.

Lemma good_hs_bytes : forall pa gpx mp n, good (hs_bytes_row pa gpx mp n).
Proof. intros pa gpx mp n. unfold hs_bytes_row. unfold good. dcond; open_row; close_row. Qed.
Lemma good_pex_enable : forall gpx mp, good (pex_enable_row gpx mp).
Proof. intros gpx mp. unfold pex_enable_row. unfold good. dcond; open_row; close_row. Qed.
Lemma good_hs_msg : forall sd fl m n len, good (on_hs (hs_msg sd fl m n len)).
Proof.
  intros sd fl m n len. unfold on_hs, hs_msg, finish_hs, refuse_row, to_conn, good.
  destruct m; dcond; open_row; close_row.
Qed.
Lemma good_abort : good abort_row.
Proof. unfold abort_row, destroy_row, cleanup_row. good_tac. Qed.
Lemma good_stop : good stop_row.
Proof. unfold stop_row, destroy_row, cleanup_row. good_tac. Qed.
