(* C16 proofs, part 4: the block table.  Invariant: every transfer that is not erased, in an unfinished block, belongs to
   an established connection.  Consequence: after DownloadMain::stop every unfinished block is requestable again. *)
From Coq Require Import List ZArith NArith Bool Arith Lia.
From LTV.C16 Require Import Model Proofs ProofsInv ProofsState.
Import ListNotations.
Open Scope Z_scope.

Definition live_conn (rs : list row) (c : nat) : Prop := exists r, get_row c rs = Some r /\ ph r = PConn.
Definition owners_ok (rs : list row) (bl : list blk) : Prop :=
  forall b, In b bl -> fin b = false -> forall c st, In (c, st) (trs b) -> st <> TE -> live_conn rs c.
Definition BInv (s : st) : Prop := owners_ok (rows s) (blocks s).

(* b' carries no live owner that b did not carry *)
Definition blk_sub (b' b : blk) : Prop :=
  fin b' = false -> fin b = false /\
  forall c st, In (c, st) (trs b') -> st <> TE -> exists st0, In (c, st0) (trs b) /\ st0 <> TE.
Definition bl_sub (bl' bl : list blk) : Prop := forall b', In b' bl' -> exists b, In b bl /\ blk_sub b' b.

Lemma owners_ok_sub : forall rs bl bl', owners_ok rs bl -> bl_sub bl' bl -> owners_ok rs bl'.
Proof.
  intros rs bl bl' H S b' Hb Hf c st Hin Hne.
  destruct (S b' Hb) as (b & Hb0 & Hs). destruct (Hs Hf) as (Hf0 & K).
  destruct (K c st Hin Hne) as (st0 & Hin0 & Hne0). eapply H; eauto.
Qed.
Lemma blk_sub_refl : forall b, blk_sub b b.
Proof. intros b Hf. split; auto. intros c st H1 H2. exists st. auto. Qed.
Lemma bl_sub_map : forall f bl, (forall b, blk_sub (f b) b) -> bl_sub (map f bl) bl.
Proof. intros f bl H b' Hb. apply in_map_iff in Hb. destruct Hb as (b & <- & Hb). exists b. auto. Qed.
Lemma bl_sub_filter : forall (f : blk -> bool) bl, bl_sub (filter f bl) bl.
Proof. intros f bl b' Hb. apply filter_In in Hb. exists b'. split; [tauto | apply blk_sub_refl]. Qed.
Lemma bl_sub_trans : forall a b c, bl_sub a b -> bl_sub b c -> bl_sub a c.
Proof.
  intros a b c H1 H2 x Hx. destruct (H1 x Hx) as (y & Hy & S1). destruct (H2 y Hy) as (z & Hz & S2).
  exists z. split; auto. intros Hf. destruct (S1 Hf) as (Hfy & K1). destruct (S2 Hfy) as (Hfz & K2).
  split; auto. intros c0 st Hin Hne. destruct (K1 c0 st Hin Hne) as (st1 & Hin1 & Hne1). eauto.
Qed.
Lemma bl_sub_map_blk : forall i f bl, (forall b, blk_sub (f b) b) -> bl_sub (map_blk i f bl) bl.
Proof.
  intros i f bl H. unfold map_blk. apply bl_sub_map. intros b. destruct (N.eqb (bidx b) i); auto using blk_sub_refl.
Qed.

Lemma tst_eqb_TE : forall s, tst_eqb s TE = true <-> s = TE.
Proof. destruct s; cbn; split; intros; congruence. Qed.

Lemma promote_in : forall l c st, In (c, st) (fst (promote l)) -> In (c, st) l \/ (st = TL /\ In (c, TN) l).
Proof.
  induction l as [|[c0 s0] t IH]; intros c st H; cbn in *; auto.
  destruct s0; cbn in *;
    try (destruct (promote t) as [t' ok] eqn:E; cbn in *; destruct H as [H|H]; [left; left; exact H|];
         destruct (IH _ _ H) as [K|[K1 K2]]; [left; right; exact K | right; split; auto]; fail).
  destruct H as [H|H].
  - inversion H; subst. right. split; auto.
  - left. right. exact H.
Qed.

Lemma blk_sub_rel : forall c b, blk_sub (rel_blk c b) b.
Proof.
  intros c b Hf. rewrite rel_blk_fin in Hf. split; auto.
  unfold rel_blk. rewrite Hf. intros c0 st Hin Hne.
  set (keep := filter (fun p : nat * tst => negb (Nat.eqb (fst p) c) || tst_eqb (snd p) TE) (trs b)) in *.
  assert (K : forall x, In x keep -> In x (trs b)) by (intros x Hx; apply filter_In in Hx; tauto).
  destruct (has_st c TL b).
  - destruct (promote keep) as [k2 ok] eqn:E. destruct ok; cbn [trs] in Hin.
    + change k2 with (fst (k2, true)) in Hin. rewrite <- E in Hin.
      destruct (promote_in _ _ _ Hin) as [H|[H1 H2]].
      * exists st. auto.
      * exists TN. split; auto. congruence.
    + apply filter_In in Hin. exists st. split; auto. apply K. tauto.
  - cbn [trs] in Hin. exists st. auto.
Qed.

Lemma blk_sub_set_st : forall c from to b, from <> TE -> blk_sub (set_st c from to b) b.
Proof.
  intros c from to b Hfrom Hf. split; auto. cbn [set_st trs] in *. intros c0 st Hin Hne.
  apply in_map_iff in Hin. destruct Hin as ([c1 s1] & E & Hin). cbn in E.
  destruct (Nat.eqb c1 c && tst_eqb s1 from) eqn:C.
  - inversion E; subst. apply andb_true_iff in C. destruct C as [_ C].
    exists s1. split; auto. destruct s1, from; cbn in C; congruence.
  - inversion E; subst. exists st. auto.
Qed.
Lemma blk_sub_complete : forall c b, blk_sub (complete_blk c b) b.
Proof. intros c b Hf. cbn in Hf. discriminate. Qed.

(* ---- rows ---------------------------------------------------------------------------------------------------- *)
Definition pc (f : row -> row * vec) : Prop :=
  forall r, cid (fst (f r)) = cid r /\ (ph r = PConn -> ph (fst (f r)) = PConn).

Lemma live_upd : forall f c0 c rs, pc f -> live_conn rs c -> live_conn (fst (fst (upd c0 f rs))) c.
Proof.
  intros f c0 c rs Hf H. unfold live_conn in *.
  exact (upd_get_P (fun r => ph r = PConn) c c0 f Hf rs H).
Qed.
Lemma owners_rows : forall rs rs' bl, (forall c, live_conn rs c -> live_conn rs' c) -> owners_ok rs bl -> owners_ok rs' bl.
Proof. intros rs rs' bl H O b Hb Hf c st Hin Hne. apply H. eapply O; eauto. Qed.

Lemma with_row_binv : forall f c s, pc f -> BInv s -> BInv (with_row c f s).
Proof.
  intros f c s Hf H. unfold BInv, with_row in *.
  pose proof (fun c1 => live_upd f c c1 (rows s) Hf) as L.
  destruct (upd c f (rows s)) as [[rs dv] ok]. cbn in *. eapply owners_rows; eauto.
Qed.
Lemma set_blocks_binv : forall bl s, BInv s -> bl_sub bl (blocks s) -> BInv (set_blocks bl s).
Proof. intros bl s H S. unfold BInv in *. cbn. eapply owners_ok_sub; eauto. Qed.

Ltac pc_tac :=
  intro r; split; [ | let H := fresh "HP" in intro H ];
  repeat (cbn; match goal with
     | |- context[if ?b then _ else _] => destruct b eqn:?
     | |- context[match ?x with CNone => _ | CValid _ => _ | CSkip => _ end] => destruct x eqn:?
     | |- context[match ?l with [] => _ | _ :: _ => _ end] => destruct l eqn:?
     | |- context[match ph ?r0 with PNone => _ | PHs => _ | PConn => _ end] => destruct (ph r0) eqn:?
     end); cbn; try reflexivity; try congruence; auto;
  try (match goal with H : ph _ = PConn |- _ => unfold is_hs, is_conn in *; rewrite H in *; discriminate end).

Lemma pc_tc_add : forall k, pc (tc_add k).
Proof. intro k. unfold pc, tc_add. pc_tac. Qed.
Lemma pc_conn_msg : forall m, pc (on_conn (conn_msg_simple m)).
Proof.
  intro m. destruct m; unfold pc, on_conn, conn_msg_simple, seq2, rel_dc, erase_td, choke_reqs, down_set_not_queued, idle_down,
    down_set_queued, up_set_queued, up_set_not_queued, seq2, rel_dc, erase_td; pc_tac.
Qed.
Lemma pc_snub : pc (on_conn up_snub).
Proof. unfold pc, on_conn, up_snub. pc_tac. Qed.
Lemma pc_unsnub : pc (on_conn up_unsnub).
Proof. unfold pc, on_conn, up_unsnub. pc_tac. Qed.
Lemma pc_lib_msg : forall m, pc (on_conn (lib_msg_row m)).
Proof. intro m. destruct m; unfold pc, on_conn, lib_msg_row, seq2, erase_tu, rel_uc; pc_tac. Qed.
Lemma pc_ph_valid : forall b v, pc (on_conn (ph_valid_row b v)).
Proof. intros b v. unfold pc, on_conn, ph_valid_row. pc_tac. Qed.
Lemma pc_ph_skip : pc (on_conn ph_skip_row).
Proof. unfold pc, on_conn, ph_skip_row. pc_tac. Qed.
Lemma pc_dissim : pc (on_conn dissim_row).
Proof. unfold pc, on_conn, dissim_row. pc_tac. Qed.
Lemma pc_after_core : forall k q, pc (on_conn (after_piece_core k q)).
Proof. intros k q. unfold pc, on_conn, after_piece_core, rel_dc, erase_td. pc_tac. Qed.
Lemma pc_after_core_tc : forall z k q, pc (on_conn (seq2 (tc_add z) (after_piece_core k q))).
Proof. intros z k q. unfold pc, on_conn, seq2, tc_add, after_piece_core, rel_dc, erase_td. pc_tac. Qed.
Lemma pc_after : forall b, pc (on_conn (after_piece b)).
Proof. intros b r. unfold on_conn, after_piece. exact (pc_after_core _ _ r). Qed.
Lemma pc_after_tc : forall z b, pc (on_conn (seq2 (tc_add z) (after_piece b))).
Proof.
  intros z b r.
  pose proof (pc_after_core_tc z
    (match b, filter (fun x => N.ltb x choked_tag) (reqs r) with
     | Some i, nxt :: _ => N.eqb (piece_of i) (piece_of nxt) | _, _ => false end) (queued_empty (reqs r)) r) as H.
  unfold on_conn, seq2, tc_add, after_piece in *. destruct (is_conn r); cbn in *; exact H.
Qed.
Lemma pc_hs_bytes : forall pa gpx mp n, pc (hs_bytes_row pa gpx mp n).
Proof. intros pa gpx mp n. unfold pc, hs_bytes_row. pc_tac. Qed.
Lemma pc_pex_enable : forall gpx mp, pc (pex_enable_row gpx mp).
Proof. intros gpx mp. unfold pc, pex_enable_row. pc_tac. Qed.
Lemma pc_hs_msg : forall sd fl m n len, pc (on_hs (hs_msg sd fl m n len)).
Proof.
  intros sd fl m n len. unfold pc, on_hs, hs_msg, finish_hs, refuse_row, to_conn.
  destruct m; pc_tac.
Qed.
#[export] Hint Resolve pc_tc_add pc_conn_msg pc_lib_msg pc_ph_valid pc_ph_skip pc_dissim pc_after pc_after_tc
  pc_hs_bytes pc_pex_enable pc_hs_msg pc_snub pc_unsnub : c16b.

Lemma dec_tc_all_binv : forall ow s, BInv s -> BInv (dec_tc_all ow s).
Proof.
  unfold dec_tc_all. induction ow; intros s H; cbn; auto. apply IHow. apply with_row_binv; auto with c16b.
Qed.

Lemma set_hq_binv : forall l s, BInv s -> BInv (set_hq l s).
Proof. intros l s H. exact H. Qed.
Lemma reject_binv : forall s, BInv s -> BInv (reject s).
Proof. intros s H. exact H. Qed.
Lemma bl_sub_refl : forall bl, bl_sub bl bl.
Proof. intros bl b Hb. exists b. split; auto using blk_sub_refl. Qed.
Lemma with_row_blocks : forall c f s, blocks (with_row c f s) = blocks s.
Proof. intros. unfold with_row. destruct (upd c f (rows s)) as [[? ?] ?]. reflexivity. Qed.

Lemma start_tr_sub : forall c i bl, bl_sub (fst (start_tr c i bl)) bl.
Proof.
  intros c i bl. unfold start_tr. destruct (find_blk i bl); [|apply bl_sub_refl].
  destruct (has_st c TQ b); [|apply bl_sub_refl]. cbn [fst].
  apply bl_sub_map_blk. intros b0. apply blk_sub_set_st. discriminate.
Qed.

Lemma add_tr_ok : forall rs c i bl, owners_ok rs bl -> live_conn rs c -> owners_ok rs (fst (add_tr c i bl)).
Proof.
  intros rs c i bl O L. unfold add_tr. destruct (find_blk i bl) as [b0|].
  - destruct (has_tr c b0 || fin b0); cbn [fst]; auto.
    intros b Hb Hf c0 st Hin Hne. unfold map_blk in Hb. apply in_map_iff in Hb. destruct Hb as (b1 & <- & Hb1).
    destruct (N.eqb (bidx b1) i).
    + cbn in Hin, Hf. apply in_app_or in Hin. destruct Hin as [Hin|[Hin|[]]].
      * eapply O; eauto.
      * inversion Hin; subst. auto.
    + eapply O; eauto.
  - cbn [fst]. intros b Hb Hf c0 st Hin Hne. apply in_app_or in Hb. destruct Hb as [Hb|[<-|[]]].
    + eapply O; eauto.
    + cbn in Hin. destruct Hin as [Hin|[]]. inversion Hin; subst. auto.
Qed.

Ltac bdm := repeat (cbv zeta; match goal with
  | |- BInv (match ?x with _ => _ end) => destruct x eqn:?
  | |- BInv (if ?x then _ else _) => destruct x eqn:?
  | |- BInv (let (_, _) := ?x in _) => destruct x eqn:?
  end).
Ltac sub_tac := first
  [ apply bl_sub_filter
  | apply bl_sub_map_blk; intro; first [ apply blk_sub_complete | apply blk_sub_rel | apply blk_sub_set_st; discriminate ]
  | unfold rel_one; apply bl_sub_map_blk; intro; apply blk_sub_rel
  | unfold rel_all; apply bl_sub_map; intro; apply blk_sub_rel ].
Ltac binv_step := match goal with
  | |- BInv (reject _) => apply reject_binv
  | |- BInv (set_hq _ _) => apply set_hq_binv
  | |- BInv (dec_tc_all _ _) => apply dec_tc_all_binv
  | |- BInv (with_conn _ _ _) => unfold with_conn
  | |- BInv (with_row _ _ _) => apply with_row_binv; [ solve [ auto with c16b ] | ]
  | |- BInv (set_blocks _ _) => apply set_blocks_binv; [ | solve [ sub_tac ] ]
  | |- BInv _ => assumption
  end.

Lemma piece_header_binv : forall c b s, BInv s -> BInv (piece_header c b s).
Proof.
  intros c b s H. unfold piece_header.
  destruct (get_row c (rows s)); [|apply reject_binv; auto].
  destruct (has_req b (reqs r)); [|repeat binv_step].
  destruct (start_tr c b (blocks s)) as [l v] eqn:E. cbv zeta. unfold with_conn.
  apply with_row_binv; auto with c16b. apply set_blocks_binv; auto.
  change l with (fst (l, v)). rewrite <- E. apply start_tr_sub.
Qed.
Lemma piece_end_binv : forall c s, BInv s -> BInv (piece_end c s).
Proof. intros c s H. unfold piece_end. bdm; repeat binv_step. Qed.
Lemma dissimilar_binv : forall c s, BInv s -> BInv (dissimilar c s).
Proof. intros c s H. unfold dissimilar. bdm; repeat binv_step. Qed.

Lemma upd_get_other : forall c c0 f l, c0 <> c -> (forall r, cid (fst (f r)) = cid r) ->
  get_row c0 (fst (fst (upd c f l))) = get_row c0 l.
Proof.
  intros c c0 f l Hne Hc. induction l as [|a t IH]; cbn; auto.
  destruct (Nat.eqb (cid a) c) eqn:E.
  - pose proof (Hc a) as Ha. destruct (f a) as [a' d1]. cbn in *. rewrite Ha.
    apply Nat.eqb_eq in E. assert (Nat.eqb (cid a) c0 = false) by (apply Nat.eqb_neq; congruence).
    rewrite H. reflexivity.
  - destruct (upd c f t) as [[t' d1] ok]. cbn in *. rewrite IH. reflexivity.
Qed.
Lemma with_row_other_live : forall c f s c0, (forall r, cid (fst (f r)) = cid r) -> c0 <> c ->
  live_conn (rows s) c0 -> live_conn (rows (with_row c f s)) c0.
Proof.
  intros c f s c0 Hc Hne (r & G & P). unfold with_row.
  pose proof (upd_get_other c c0 f (rows s) Hne Hc) as K.
  destruct (upd c f (rows s)) as [[rs dv] ok]. cbn [fst rows] in *. exists r. split; auto. rewrite K. exact G.
Qed.
Lemma abort_row_cid : forall r, cid (fst (abort_row r)) = cid r.
Proof. intros [c p i e h dl bf xi xp f pe ui uu ur usn di du dr dn px tu td uc dc rq cu ps pc0 phh t cl]. destruct p; reflexivity. Qed.

Lemma abort_conn_binv : forall c s, BInv s -> BInv (abort_conn c s).
Proof.
  intros c s H. unfold abort_conn. destruct (get_row c (rows s)) as [r|] eqn:G; auto.
  assert (NotLive : ph r <> PConn -> forall c0, live_conn (rows s) c0 -> c0 <> c).
  { intros NP c0 (r0 & G0 & P0) ->. rewrite G in G0. inversion G0; subst. auto. }
  destruct (ph r) eqn:EP.
  - intros b Hb Hf c0 st Hin Hne. rewrite with_row_blocks in Hb.
    apply with_row_other_live; auto using abort_row_cid.
    + apply NotLive; [congruence|]. eapply H; eauto.
    + eapply H; eauto.
  - intros b Hb Hf c0 st Hin Hne. rewrite with_row_blocks in Hb.
    apply with_row_other_live; auto using abort_row_cid.
    + apply NotLive; [congruence|]. eapply H; eauto.
    + eapply H; eauto.
  - apply dec_tc_all_binv.
    intros b Hb Hf c0 st Hin Hne. rewrite with_row_blocks in Hb. cbn [blocks set_blocks] in Hb.
    unfold rel_all in Hb. apply in_map_iff in Hb. destruct Hb as (b0 & <- & Hb0).
    pose proof (rel_blk_fin c b0) as Ff. rewrite Hf in Ff. symmetry in Ff.
    pose proof (rel_blk_no_live c b0 Ff) as NL. unfold no_live_tr in NL. rewrite forallb_forall in NL.
    specialize (NL _ Hin). cbn in NL.
    assert (c0 <> c).
    { intros ->. rewrite Nat.eqb_refl in NL. cbn in NL. apply tst_eqb_TE in NL. auto. }
    destruct (blk_sub_rel c b0 Hf) as (_ & K). destruct (K c0 st Hin Hne) as (st0 & Hin0 & Hne0).
    apply with_row_other_live; auto using abort_row_cid.
    eapply H; eauto.
Qed.

(* ---- stop ------------------------------------------------------------------------------------------------------ *)
Lemma stop_blocks_sub : forall ids bl, bl_sub (fst (stop_blocks ids bl)) bl.
Proof.
  induction ids as [|a t IH]; intros bl; cbn; [apply bl_sub_refl|].
  specialize (IH (rel_all a bl)). destruct (stop_blocks t (rel_all a bl)) as [bl' dr]. cbn in *.
  eapply bl_sub_trans; eauto. unfold rel_all. apply bl_sub_map. intro. apply blk_sub_rel.
Qed.

Lemma rel_blk_keeps_nolive : forall c c' b, no_live_tr c b = true -> no_live_tr c (rel_blk c' b) = true.
Proof.
  intros c c' b H. unfold rel_blk. destruct (fin b); auto.
  unfold no_live_tr in *.
  set (P := fun p : nat * tst => negb (Nat.eqb (fst p) c) || tst_eqb (snd p) TE) in *.
  set (keep := filter (fun p : nat * tst => negb (Nat.eqb (fst p) c') || tst_eqb (snd p) TE) (trs b)).
  assert (K : forallb P keep = true) by (apply forallb_filter2; auto).
  destruct (has_st c' TL b).
  - destruct (promote keep) as [k2 ok] eqn:E. destruct ok; cbn [trs].
    + change k2 with (fst (k2, true)). rewrite <- E. apply promote_keeps; auto.
      all: try (intros c0 Hc; unfold P in *; cbn in *; rewrite orb_false_r in *; rewrite Hc; reflexivity).
    + apply forallb_filter2. exact K.
  - cbn [trs]. exact K.
Qed.

Lemma stop_blocks_keep : forall c ids bl,
  (forall b, In b bl -> fin b = false -> no_live_tr c b = true) ->
  forall b, In b (fst (stop_blocks ids bl)) -> fin b = false -> no_live_tr c b = true.
Proof.
  intros c. induction ids as [|a t IH]; intros bl H b Hb Hf; cbn in Hb; auto.
  specialize (IH (rel_all a bl)). destruct (stop_blocks t (rel_all a bl)) as [bl' dr]. cbn in *.
  apply IH; auto. intros b1 Hb1 Hf1. unfold rel_all in Hb1. apply in_map_iff in Hb1. destruct Hb1 as (b0 & <- & Hb0).
  apply rel_blk_keeps_nolive. apply H; auto. rewrite rel_blk_fin in Hf1. exact Hf1.
Qed.

Lemma stop_blocks_nolive : forall ids bl c, In c ids ->
  forall b, In b (fst (stop_blocks ids bl)) -> fin b = false -> no_live_tr c b = true.
Proof.
  induction ids as [|a t IH]; intros bl c Hc b Hb Hf; [destruct Hc|].
  cbn in Hb. destruct Hc as [->|Hc].
  - pose proof (stop_blocks_keep c t (rel_all c bl)) as K.
    destruct (stop_blocks t (rel_all c bl)) as [bl' dr]. cbn in *. apply K; auto.
    intros b1 Hb1 Hf1. unfold rel_all in Hb1. apply in_map_iff in Hb1. destruct Hb1 as (b0 & <- & Hb0).
    apply rel_blk_no_live. rewrite rel_blk_fin in Hf1. exact Hf1.
  - specialize (IH (rel_all a bl) c Hc). destruct (stop_blocks t (rel_all a bl)) as [bl' dr]. cbn in *. apply IH; auto.
Qed.

Lemma live_in_ids : forall rs c, live_conn rs c -> In c (conn_ids rs).
Proof.
  intros rs c (r & G & P). destruct (get_row_some _ _ _ G) as [Hin Hc]. unfold conn_ids.
  apply in_map_iff. exists r. split; auto. apply filter_In. split; auto. unfold is_conn. rewrite P. reflexivity.
Qed.

Lemma stop_clean : forall rs bl, owners_ok rs bl ->
  forall b, In b (fst (stop_blocks (conn_ids rs) bl)) -> fin b = false -> forall c st, In (c, st) (trs b) -> st = TE.
Proof.
  intros rs bl O b Hb Hf c st Hin.
  destruct st; auto; exfalso.
  all: destruct (stop_blocks_sub (conn_ids rs) bl b Hb) as (b0 & Hb0 & S); destruct (S Hf) as (Hf0 & K);
       match type of Hin with In (_, ?s) _ =>
         assert (Hne : s <> TE) by discriminate;
         destruct (K c s Hin Hne) as (st0 & Hin0 & Hne0) end;
       pose proof (live_in_ids rs c (O b0 Hb0 Hf0 c st0 Hin0 Hne0)) as Hid;
       pose proof (stop_blocks_nolive _ bl c Hid b Hb Hf) as NL;
       unfold no_live_tr in NL; rewrite forallb_forall in NL; specialize (NL _ Hin); cbn in NL;
       rewrite Nat.eqb_refl in NL; cbn in NL; discriminate.
Qed.

Lemma do_stop_blocks : forall s, active s = true ->
  blocks (do_stop s) = fst (stop_blocks (conn_ids (rows s)) (blocks s)).
Proof.
  intros s A. unfold do_stop. rewrite A.
  destruct (stop_blocks (conn_ids (rows s)) (blocks s)) as [bl dr].
  destruct (upd_all stop_row (rows s)) as [rs dv]. rewrite dec_tc_all_blocks. reflexivity.
Qed.

Lemma do_stop_binv : forall s, BInv s -> BInv (do_stop s).
Proof.
  intros s H. destruct (active s) eqn:A; [|unfold do_stop; rewrite A; auto].
  intros b Hb Hf c st Hin Hne. rewrite (do_stop_blocks s A) in Hb.
  exfalso. apply Hne. eapply stop_clean; eauto.
Qed.
Lemma do_close_binv : forall s, BInv (do_close s).
Proof. intros s b Hb. destruct Hb. Qed.

Lemma pmsg_step_binv : forall c m n len s, BInv s -> BInv (pmsg_step c m n len s).
Proof.
  intros c m n len s H. unfold pmsg_step.
  destruct (get_row c (rows s)) as [r|]; [|apply reject_binv; auto].
  destruct (ph r); auto.
  - destruct (N.eqb (hsb r) MP.hs_size); auto.
    set (s1 := with_row c (on_hs (hs_msg (seeding s) (Z.leb (maxc s) (nth 0 (g s) 0)) m n len)) s).
    assert (H1 : BInv s1) by (apply with_row_binv; auto with c16b).
    clearbody s1.
    destruct (get_row c (rows s1)); auto.
    destruct m; auto; bdm; auto using piece_header_binv; repeat binv_step.
  - destruct m; bdm; repeat binv_step;
    repeat (match goal with
            | |- BInv (piece_end _ _) => apply piece_end_binv
            | |- BInv (dissimilar _ _) => apply dissimilar_binv
            | |- BInv (piece_header _ _ _) => apply piece_header_binv
            | |- context[match ?x with Some _ => _ | None => _ end] => destruct x
            | |- context[match cur ?r with CNone => _ | CValid _ => _ | CSkip => _ end] => destruct (cur r)
            | |- context[if ?x then _ else _] => destruct x
            end; repeat binv_step).
Qed.

Lemma find_app_some : forall (A : Type) (f : A -> bool) l l' r, find f l = Some r -> find f (l ++ l') = Some r.
Proof. induction l; cbn; intros; try discriminate. destruct (f a); auto. Qed.

Lemma set_dqueue_binv : forall l s, BInv s -> BInv (set_dqueue l s).
Proof. intros l s H. exact H. Qed.
Lemma erase_queued_binv : forall c s, BInv s -> BInv (erase_queued c s).
Proof.
  intros c s H. unfold erase_queued. destruct (get_row c (rows s)) as [r|]; auto.
  destruct (is_conn r); auto. apply abort_conn_binv; auto.
Qed.
Lemma fire_fold_binv : forall l s, BInv s -> BInv (fold_left (fun s c => erase_queued c s) l s).
Proof. induction l; intros s H; cbn; auto. apply IHl. apply erase_queued_binv; auto. Qed.
Lemma disc_fire_binv : forall s, BInv s -> BInv (disc_fire s).
Proof. intros s H. unfold disc_fire. apply set_dqueue_binv. apply fire_fold_binv; auto. Qed.
Lemma disc_delay_binv : forall c s, BInv s -> BInv (disc_delay c s).
Proof.
  intros c s H. unfold disc_delay. destruct (get_row c (rows s)) as [r|]; [destruct (is_conn r)|]; auto.
Qed.

Lemma step_binv : forall s o, BInv s -> BInv (step s o).
Proof.
  intros s o H. destruct o; cbn [step].
  - destruct (get_row c (rows s)); [apply reject_binv; auto|].
    destruct (sockfull s); [destruct incoming; auto|];
    intros b Hb Hf c0 st Hin Hne; destruct (H b Hb Hf c0 st Hin Hne) as (r & G & P);
    exists r; (split; auto); cbn [rows]; unfold get_row in *; apply find_app_some; exact G.
  - apply with_row_binv; auto with c16b.
  - apply pmsg_step_binv; auto.
  - destruct m; unfold with_conn; try (apply with_row_binv; auto with c16b; fail).
    destruct (get_row c (rows s)) as [r|] eqn:G; [|apply reject_binv; auto].
    destruct (negb (is_conn r)) eqn:IC; [apply reject_binv; auto|].
    match goal with |- BInv (if ?x then _ else _) => destruct x end; auto.
    destruct (add_tr c b (blocks s)) as [bl ok] eqn:E.
    assert (K : BInv (with_row c (on_conn (lib_msg_row (LRequest b))) (set_blocks bl s))).
    { apply with_row_binv; auto with c16b. unfold BInv. cbn [rows blocks set_blocks].
      change bl with (fst (bl, ok)). rewrite <- E. apply add_tr_ok; auto.
      exists r. split; auto. unfold is_conn in IC. destruct (ph r); cbn in IC; congruence. }
    destruct ok; auto.
  - destruct (get_row c (rows s)); auto. apply with_row_binv; auto with c16b.
  - bdm; repeat binv_step.
  - exact H.
  - apply abort_conn_binv; auto.
  - apply do_stop_binv; auto.
  - apply do_close_binv.
  - apply do_close_binv.
  - destruct (opened s); exact H.
  - exact H.
  - exact H.
  - unfold with_conn. apply with_row_binv; auto with c16b.
  - unfold with_conn. apply with_row_binv; auto with c16b.
  - exact H.
  - exact H.
  - apply disc_delay_binv; auto.
  - apply disc_fire_binv; auto.
Qed.

Theorem block_owners_inv : forall sd ops, BInv (run sd ops).
Proof.
  intros sd ops. unfold run.
  assert (K : forall s, BInv s -> BInv (fold_left step ops s)).
  { induction ops; cbn; auto. intros s H. apply IHops. apply step_binv; auto. }
  apply K. intros b Hb. destruct Hb.
Qed.

(* after DownloadMain::stop every block of the table is finished (waiting for its hash) or requestable again *)
Theorem blocks_requestable_after_stop : forall sd ops,
  active (run sd ops) = true ->
  forall b, In b (blocks (run sd (ops ++ [Stop]))) -> fin b = true \/ requestable b = true.
Proof.
  intros sd ops A b Hb. rewrite run_app in Hb. cbn [step] in Hb. rewrite (do_stop_blocks _ A) in Hb.
  destruct (fin b) eqn:Hf; auto. right. unfold requestable. rewrite Hf. cbn.
  apply forallb_forall. intros [c st] Hin. cbn. apply tst_eqb_TE.
  eapply stop_clean; eauto. apply block_owners_inv.
Qed.
