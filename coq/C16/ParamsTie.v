(* The constants read from the COMPILED code (ParamsGen.v, regenerated on every run) are the ones the model uses.
   Only this file and Properties.v depend on ParamsGen.v. *)
From Coq Require Import NArith ZArith.
From LTV.C16 Require Import ParamsGen Model.

Lemma params_ok_now :
  Params.c16_hs_part1 = MP.hs_part1 /\ Params.c16_hs_size = MP.hs_size /\ Params.c16_piece_hdr = MP.piece_hdr /\
  (0 < Params.c16_max_size_pex)%Z.
Proof. vm_compute. repeat split; congruence. Qed.
