(* C16 proofs, part 1: vectors, the per-row balance lemmas (every row update changes the global counters by
   exactly the change of the row's contribution) and the inductive invariant ledger_inv. *)
From Coq Require Import List ZArith NArith Bool Arith Lia.
From LTV.C16 Require Import Model.
Import ListNotations.
Open Scope Z_scope.

(* ---- vectors ---------------------------------------------------------------------------------- *)
Lemma vadd_comm : forall a b, a +v b = b +v a.
Proof. induction a; destruct b; simpl; auto. rewrite IHa, Z.add_comm. reflexivity. Qed.
Lemma vadd_assoc : forall a b c, (a +v b) +v c = a +v (b +v c).
Proof. induction a; destruct b; destruct c; simpl; auto. rewrite IHa, Z.add_assoc. reflexivity. Qed.
Lemma vadd_len : forall a b, length a = vlen -> length b = vlen -> length (a +v b) = vlen.
Proof.
  assert (H : forall a b, length a = length b -> length (a +v b) = length a).
  { induction a; destruct b; simpl; intros; try discriminate; auto. } 
  intros. rewrite H; congruence.
Qed.
Lemma vz_r_gen : forall a n, (length a <= n)%nat -> a +v repeat 0 n = a.
Proof. induction a; simpl; intros; auto. destruct n; simpl in *; [lia|]. rewrite IHa by lia. rewrite Z.add_0_r. reflexivity. Qed.
Lemma vz_r : forall a, length a = vlen -> a +v vz = a.
Proof. intros. unfold vz. apply vz_r_gen. lia. Qed.
Lemma vz_l : forall a, length a = vlen -> vz +v a = a.
Proof. intros. rewrite vadd_comm. apply vz_r; auto. Qed.
Lemma contrib_len : forall r, length (contrib r) = vlen.
Proof. reflexivity. Qed.
Lemma unit_at_len : forall n i v, length (unit_at i v n) = n.
Proof.
  induction n; intros; [destruct i; reflexivity|]. destruct i; cbn [unit_at length].
  - f_equal. apply repeat_length.
  - f_equal. apply IHn.
Qed.
Lemma d_len : forall i v, length (d i v) = vlen.
Proof. intros. apply unit_at_len. Qed.
Lemma vsum_len : forall l, (forall x, In x l -> length x = vlen) -> length (vsum l) = vlen.
Proof.
  induction l; simpl; intros. reflexivity.
  apply vadd_len; auto.
Qed.
Definition csum (l : list row) : vec := vsum (map contrib l).
Lemma csum_len : forall l, length (csum l) = vlen.
Proof. intros. apply vsum_len. intros x Hx. apply in_map_iff in Hx. destruct Hx as [r [<- _]]. apply contrib_len. Qed.
Lemma csum_cons : forall r l, csum (r :: l) = contrib r +v csum l.
Proof. reflexivity. Qed.
Lemma csum_app1 : forall l r, csum (l ++ [r]) = csum l +v contrib r.
Proof.
  induction l; intros.
  - cbn [app]. rewrite csum_cons. replace (csum []) with vz by reflexivity.
    rewrite vz_r by apply contrib_len. rewrite vz_l by apply contrib_len. reflexivity.
  - cbn [app]. rewrite !csum_cons, IHl, vadd_assoc. reflexivity.
Qed.

(* (the per-row balance lemmas live in ProofsInv.v: `good`, under row well-formedness) *)

Lemma cleanup_row_zero : forall r,
  row_zero (fst (cleanup_row r)) = true /\ contrib (fst (cleanup_row r)) = vz /\
  closes (fst (cleanup_row r)) = closes r + 1 /\
  reqs (fst (cleanup_row r)) = [] /\ cur (fst (cleanup_row r)) = CNone /\
  pi_c (fst (cleanup_row r)) = false /\ pi_h (fst (cleanup_row r)) = false.
Proof. intros r. unfold cleanup_row. cbn. repeat split; reflexivity. Qed.

(* a handshake row never holds connection-level resources (they are only acquired by ops on PConn rows) *)
Definition hs_clean (r : row) : Prop :=
  ui r = false /\ uu r = false /\ di r = false /\ du r = false /\ tu r = false /\ td r = false /\
  uc r = false /\ dc r = false /\ reqs r = [] /\ cur r = CNone.

Lemma destroy_row_zero : forall r, hs_clean r ->
  row_zero (fst (destroy_row r)) = true /\ contrib (fst (destroy_row r)) = vz /\
  closes (fst (destroy_row r)) = closes r + 1 /\
  pi_c (fst (destroy_row r)) = false /\ pi_h (fst (destroy_row r)) = false.
Proof.
  intros [c p i e h dl bf xi xp f pe ui uu ur usn di du dr dn px tu td uc dc rq cu ps pc phh t cl] H.
  unfold hs_clean in H. cbn in H. destruct H as (-> & -> & -> & -> & -> & -> & -> & -> & -> & ->).
  unfold destroy_row. cbn. repeat split; reflexivity.
Qed.

(* after cleanup of connection c no block keeps a transfer of c that is not erased *)
Lemma promote_keeps : forall (P : nat * tst -> bool) l,
  (forall c, P (c, TN) = true -> P (c, TL) = true) ->
  forallb P l = true -> forallb P (fst (promote l)) = true.
Proof.
  induction l as [|[c s] t IH]; intros HP H; cbn in *; auto.
  apply andb_true_iff in H. destruct H as [H1 H2].
  destruct s; cbn; try (destruct (promote t) as [t' ok] eqn:E; cbn in *; rewrite H1; cbn; apply IH; auto; fail).
  all: try (rewrite (HP _ H1); cbn; exact H2).
Qed.

Lemma filter_forallb : forall (A : Type) (P Q : A -> bool) l, (forall x, Q x = true -> P x = true) -> forallb P (filter Q l) = true.
Proof. induction l; cbn; intros; auto. destruct (Q a) eqn:E; cbn; auto. rewrite (H _ E). cbn. auto. Qed.

Lemma forallb_filter2 : forall (A : Type) (P Q : A -> bool) l, forallb P l = true -> forallb P (filter Q l) = true.
Proof. induction l; cbn; intros; auto. apply andb_true_iff in H. destruct H. destruct (Q a); cbn; auto. rewrite H. cbn. auto. Qed.

Lemma rel_blk_no_live : forall c b, fin b = false -> no_live_tr c (rel_blk c b) = true.
Proof.
  intros c b Hf. unfold rel_blk, no_live_tr. rewrite Hf.
  set (Q := fun p : nat * tst => negb (Nat.eqb (fst p) c) || tst_eqb (snd p) TE).
  assert (K : forallb Q (filter Q (trs b)) = true) by (apply filter_forallb; auto).
  destruct (has_st c TL b).
  - destruct (promote (filter Q (trs b))) as [k2 ok] eqn:E. destruct ok; cbn [trs].
    + change k2 with (fst (k2, true)). rewrite <- E. apply promote_keeps; auto.
      all: try (intros c0 H; unfold Q in *; cbn in *; rewrite orb_false_r in *; rewrite H; reflexivity).
    + apply forallb_filter2. exact K.
  - cbn [trs]. exact K.
Qed.

(* the former leak witness (scenario 'dis'): since 3d23180 the erased transfer is deleted with the block *)
Definition leak_ops : list op :=
  [ Connect 0 true false; HsBytes 0 68; PeerMsg 0 MBitfield 6 6; PeerMsg 0 MUnchoke 5 5; LibMsg 0 (LRequest 448);
    PeerMsg 0 (MPiece 448 None) 113 2061;
    Connect 1 true false; HsBytes 1 68; PeerMsg 1 MBitfield 6 6; PeerMsg 1 MUnchoke 5 5; LibMsg 1 (LRequest 448);
    PeerMsg 1 (MPiece 448 (Some 10%N)) 85 2061;
    Abort 1; Abort 0; Stop ].

Lemma former_leak_example :
  let s := run false leak_ops in
  rej s = false /\ g s = vz /\
  (exists r, get_row 1 (rows s) = Some r /\ row_zero r = true /\ tc r = 0).
Proof. vm_compute. repeat split. eexists. repeat split. Qed.

Lemma no_dissimilar_example :
  let s := run false [ Connect 0 true false; HsBytes 0 68; PeerMsg 0 MBitfield 6 6; PeerMsg 0 MUnchoke 5 5;
                       LibMsg 0 (LRequest 7); PeerMsg 0 (MPiece 7 None) 113 2061; Abort 0 ] in
  rej s = false /\ g s = vz /\ forallb requestable (blocks s) = true /\
  (exists r, get_row 0 (rows s) = Some r /\ row_zero r = true /\ tc r = 0 /\ closes r = 1).
Proof. vm_compute. repeat split. eexists. repeat split. Qed.

