(* C16 proofs, round 4: the delayed-disconnect queue.
   ConnectionList::erase(pos, disconnect_delayed) (Peer::disconnect) only queues the connection's id;
   ConnectionList::disconnect_queued (scheduler entry DownloadMain::m_delay_disconnect_peers) erases every queued
   connection that is still in the list through the ordinary erase path.  Release-on-this-exit theorems. *)
From Coq Require Import List ZArith NArith Bool Arith Lia.
From LTV.C16 Require Import Model Proofs ProofsInv ProofsState ProofsBlocks.
Import ListNotations.
Open Scope Z_scope.

Definition fire_fold (l : list nat) (s : st) : st := fold_left (fun s c => erase_queued c s) l s.

Lemma cleanup_released : forall r, released (fst (cleanup_row r)) /\ closes (fst (cleanup_row r)) = closes r + 1.
Proof. intros r. unfold released, cleanup_row. cbn. repeat split; reflexivity. Qed.

Lemma tc_add_same : forall (P : row -> Prop) k r,
  (forall a b, ph a = ph b -> closes a = closes b -> (released a <-> released b) -> P a -> P b) -> P r -> P (fst (tc_add k r)).
Proof.
  intros P k r HP Pr. apply (HP r); auto.
  destruct r; unfold released; cbn; tauto.
Qed.

(* a row predicate that abort_row and tc_add preserve is preserved (at every id) by abort_conn *)
Lemma abort_conn_P : forall (P : row -> Prop),
  (forall x, P x -> P (fst (abort_row x))) -> (forall k x, P x -> P (fst (tc_add k x))) ->
  forall c c' s, (exists x, get_row c (rows s) = Some x /\ P x) ->
  exists x, get_row c (rows (abort_conn c' s)) = Some x /\ P x.
Proof.
  intros P HA HT c c' s H. unfold abort_conn.
  assert (base : forall s0, rows s0 = rows s ->
            exists x, get_row c (rows (with_row c' abort_row s0)) = Some x /\ P x).
  { intros s0 E. unfold with_row. rewrite E.
    pose proof (upd_get_P P c c' abort_row (fun r => conj (abort_row_cid r) (HA r)) _ H) as K.
    destruct (upd c' abort_row (rows s)) as [[rs dv] ok]. exact K. }
  destruct (get_row c' (rows s)) as [r'|]; auto.
  destruct (ph r'); try (apply base; reflexivity).
  apply dec_tc_all_get_P; [exact HT | apply base; reflexivity].
Qed.

Lemma abort_conn_hit : forall c s x, get_row c (rows s) = Some x -> ph x = PConn ->
  exists x', get_row c (rows (abort_conn c s)) = Some x' /\ released x' /\ closes x' = closes x + 1.
Proof.
  intros c s x H EP. unfold abort_conn. rewrite H, EP.
  set (P := fun y : row => released y /\ closes y = closes x + 1).
  assert (PT : forall k y, P y -> P (fst (tc_add k y))).
  { intros k y Py. destruct y. exact Py. }
  assert (A : abort_row x = cleanup_row x) by (unfold abort_row; rewrite EP; reflexivity).
  apply (dec_tc_all_get_P P c PT). unfold with_row. cbn [rows set_blocks].
  pose proof (upd_get_same c abort_row (rows s) x (abort_row_cid x) H) as K.
  destruct (upd c abort_row (rows s)) as [[rs dv] ok]. cbn in *. exists (fst (abort_row x)). split; auto.
  rewrite A. apply cleanup_released.
Qed.

Definition pending (k : Z) (x : row) : Prop :=
  (ph x = PConn /\ closes x = k) \/ (released x /\ closes x = k + 1).
Definition done (k : Z) (x : row) : Prop := released x /\ closes x = k + 1.

Lemma pending_abort : forall k x, pending k x -> pending k (fst (abort_row x)).
Proof.
  intros k x [[EP C]|[R C]].
  - right. unfold abort_row. rewrite EP. destruct (cleanup_released x) as [R1 R2]. split; auto. rewrite R2, C. reflexivity.
  - right. destruct R as [EP R']. unfold abort_row. rewrite EP. cbn. split; auto. split; auto.
Qed.
Lemma done_abort : forall k x, done k x -> done k (fst (abort_row x)).
Proof. intros k x [R C]. destruct R as [EP R']. unfold abort_row. rewrite EP. cbn. split; auto. split; auto. Qed.
Lemma pending_tc : forall j k x, pending k x -> pending k (fst (tc_add j x)).
Proof. intros j k x H. destruct x. exact H. Qed.
Lemma done_tc : forall j k x, done k x -> done k (fst (tc_add j x)).
Proof. intros j k x H. destruct x. exact H. Qed.

Lemma erase_queued_P : forall (P : row -> Prop),
  (forall x, P x -> P (fst (abort_row x))) -> (forall k x, P x -> P (fst (tc_add k x))) ->
  forall c c' s, (exists x, get_row c (rows s) = Some x /\ P x) ->
  exists x, get_row c (rows (erase_queued c' s)) = Some x /\ P x.
Proof.
  intros P HA HT c c' s H. unfold erase_queued. destruct (get_row c' (rows s)) as [r'|]; auto.
  destruct (is_conn r'); auto. apply abort_conn_P; auto.
Qed.

Lemma fire_fold_P : forall (P : row -> Prop),
  (forall x, P x -> P (fst (abort_row x))) -> (forall k x, P x -> P (fst (tc_add k x))) ->
  forall c l s, (exists x, get_row c (rows s) = Some x /\ P x) ->
  exists x, get_row c (rows (fire_fold l s)) = Some x /\ P x.
Proof.
  intros P HA HT c. unfold fire_fold. induction l; intros s H; cbn; auto.
  apply IHl. apply erase_queued_P; auto.
Qed.

Lemma erase_queued_hit : forall k c s, (exists x, get_row c (rows s) = Some x /\ pending k x) ->
  exists x, get_row c (rows (erase_queued c s)) = Some x /\ done k x.
Proof.
  intros k c s (x & G & [[EP C]|D]).
  - unfold erase_queued. rewrite G. unfold is_conn. rewrite EP.
    destruct (abort_conn_hit c s x G EP) as (x' & G' & R & C'). exists x'. split; auto. split; auto. rewrite C', C. reflexivity.
  - unfold erase_queued. rewrite G. destruct D as [[EP R] C]. unfold is_conn. rewrite EP. exists x. split; auto.
    split; auto. split; auto.
Qed.

Lemma fire_fold_hit : forall k c l s, In c l -> (exists x, get_row c (rows s) = Some x /\ pending k x) ->
  exists x, get_row c (rows (fire_fold l s)) = Some x /\ done k x.
Proof.
  intros k c. induction l; intros s Hin H; [destruct Hin|].
  change (fire_fold (a :: l) s) with (fire_fold l (erase_queued a s)).
  destruct Hin as [->|Hin].
  - apply (fire_fold_P (done k) (done_abort k) (fun j => done_tc j k)). apply erase_queued_hit; auto.
  - apply IHl; auto. apply (erase_queued_P (pending k) (pending_abort k) (fun j => pending_tc j k)); auto.
Qed.

(* ---- disconnect_queued releases everything of every queued connection ---------------------------------------- *)
Theorem disconnect_queued_releases_all : forall sd ops c r,
  let s := run sd ops in
  In c (dqueue s) -> get_row c (rows s) = Some r -> ph r = PConn ->
  let s' := run sd (ops ++ [DiscFire]) in
  dqueue s' = [] /\
  (exists r', get_row c (rows s') = Some r' /\ released r' /\ closes r' = closes r + 1) /\
  (forall b, In b (blocks s') -> fin b = false -> no_live_tr c b = true).
Proof.
  intros sd ops c r s Hin G EP s'.
  assert (K : exists r', get_row c (rows s') = Some r' /\ released r' /\ closes r' = closes r + 1).
  { subst s'. rewrite run_app. fold s. cbn [step]. unfold disc_fire. cbn [rows set_dqueue].
    apply (fire_fold_hit (closes r) c (dqueue s) s Hin). exists r. split; auto. left. auto. }
  split; [|split; auto].
  - subst s'. rewrite run_app. reflexivity.
  - destruct K as (r' & G' & R & _). intros b Hb Hf.
    pose proof (block_owners_inv sd (ops ++ [DiscFire])) as BI. fold s' in BI.
    unfold no_live_tr. apply forallb_forall. intros [c0 t] Hp. cbn.
    destruct (Nat.eqb c0 c) eqn:E; auto. cbn. apply Nat.eqb_eq in E. subst c0.
    destruct t; auto; exfalso;
      (destruct (BI b Hb Hf c _ Hp) as (r2 & G2 & P2); [discriminate|];
       rewrite G' in G2; inversion G2; subst r2; destruct R as [EP' _]; congruence).
Qed.

(* the queued connection keeps everything until the queue is run: Peer::disconnect(disconnect_delayed) changes nothing
   but the queue *)
Theorem delayed_disconnect_only_queues : forall s c r,
  get_row c (rows s) = Some r -> ph r = PConn ->
  let s' := step s (DiscDelay c) in
  rows s' = rows s /\ g s' = g s /\ blocks s' = blocks s /\ dqueue s' = dqueue s ++ [c] /\ rej s' = rej s.
Proof.
  intros s c r G EP. cbn [step]. unfold disc_delay. rewrite G. unfold is_conn. rewrite EP. cbn. repeat split; reflexivity.
Qed.

(* DownloadMain::stop does not clear m_disconnectQueue (it only removes the scheduler entry): what stays queued is stale,
   running the queue after a stop finds no connection and changes nothing *)
Lemma fire_fold_quiet : forall l s, Forall (fun r => is_conn r = false) (rows s) -> fire_fold l s = s.
Proof.
  unfold fire_fold. induction l; intros s H; cbn; auto.
  assert (E : erase_queued a s = s).
  { unfold erase_queued. destruct (get_row a (rows s)) as [r|] eqn:G; auto.
    destruct (get_row_some _ _ _ G) as [Hin _]. rewrite (proj1 (Forall_forall _ _) H r Hin). reflexivity. }
  rewrite E. apply IHl; auto.
Qed.

Lemma dec_tc_all_dqueue : forall ow s, dqueue (dec_tc_all ow s) = dqueue s.
Proof.
  unfold dec_tc_all. induction ow; intros s; cbn; auto. rewrite IHow. unfold with_row.
  destruct (upd _ _ _) as [[? ?] ?]. reflexivity.
Qed.
Lemma do_stop_dqueue : forall s, dqueue (do_stop s) = dqueue s.
Proof.
  intros s. unfold do_stop. destruct (active s); auto.
  destruct (stop_blocks _ _) as [bl dr]. destruct (upd_all _ _) as [rs dv]. rewrite dec_tc_all_dqueue. reflexivity.
Qed.

Theorem stale_queue_harmless_after_stop : forall sd ops,
  active (run sd ops) = true ->
  let s1 := run sd (ops ++ [Stop]) in
  let s2 := run sd (ops ++ [Stop; DiscFire]) in
  dqueue s1 = dqueue (run sd ops) /\
  rows s2 = rows s1 /\ g s2 = g s1 /\ blocks s2 = blocks s1 /\ dqueue s2 = [] /\ rej s2 = rej s1.
Proof.
  intros sd ops A s1 s2.
  assert (Q : Forall (fun r => is_conn r = false) (rows s1)).
  { subst s1. rewrite run_app. cbn [step].
    pose proof (do_stop_quiet (run sd ops) (ledger_inv sd ops) A) as H.
    eapply Forall_impl; [|exact H]. intros r [H1 _]. exact H1. }
  assert (E : s2 = disc_fire s1).
  { subst s1 s2. change [Stop; DiscFire] with ([Stop] ++ [DiscFire]). rewrite app_assoc, run_app. reflexivity. }
  split.
  - subst s1. rewrite run_app. cbn [step]. apply do_stop_dqueue.
  - rewrite E. unfold disc_fire. fold (fire_fold (dqueue s1) s1). rewrite (fire_fold_quiet _ _ Q). cbn. repeat split; reflexivity.
Qed.

(* non-vacuity: a reachable state with an established connection (holding an upload choke slot) in the queue; running the
   queue brings every counter back to zero; a queued connection that the remote closed first is skipped *)
Definition ex_dq_ops : list op :=
  [Connect 0 true false; HsBytes 0 68%N; PeerMsg 0 MBitfield 6%N 6%N; PeerMsg 0 MInt 5%N 5%N; LibMsg 0 LUnchoke; DiscDelay 0].
Lemma ex_dq :
  (exists r, get_row 0 (rows (run true ex_dq_ops)) = Some r /\ ph r = PConn /\ uu r = true /\ tu r = true) /\
  dqueue (run true ex_dq_ops) = [0%nat] /\ active (run true ex_dq_ops) = true /\ rej (run true ex_dq_ops) = false /\
  nth 2 (g (run true ex_dq_ops)) 0 = 1 /\
  g (run true (ex_dq_ops ++ [DiscFire])) = vz /\ rej (run true (ex_dq_ops ++ [DiscFire])) = false /\
  g (run true (ex_dq_ops ++ [Abort 0; DiscFire])) = vz /\ rej (run true (ex_dq_ops ++ [Abort 0; DiscFire])) = false /\
  dqueue (run true (ex_dq_ops ++ [Stop])) = [0%nat] /\ g (run true (ex_dq_ops ++ [Stop; Start; DiscFire])) = vz.
Proof. vm_compute. repeat split; try reflexivity. eexists. repeat split; reflexivity. Qed.
