(* C19 -- theorems about the choice-driven model (AModel.v): they hold for EVERY sequence of
   tie-breaking choices cs, every constants record C and every environment E. *)
From Coq Require Import ZArith List Bool Arith Lia Sorted.
From LTV.C19 Require Import Model AModel ProofsHeap ProofsSched ProofsRun.
Import ListNotations.
Open Scope Z_scope.

Definition apend (a : astate) (e : nat) (d : Z) : Prop := adue a e = Some d.

(* ------------------------------------------------------------------ amin *)

Lemma amin_none : forall l, amin l = None -> forall e, nth e l None = None.
Proof.
  induction l as [|x r IH]; simpl; intros H e; [destruct e; auto|].
  destruct x as [d|].
  - destruct (amin r); discriminate.
  - destruct e; auto.
Qed.

Lemma amin_some : forall l m, amin l = Some m ->
  (exists e, nth e l None = Some m) /\ forall e d, nth e l None = Some d -> m <= d.
Proof.
  induction l as [|x r IH]; simpl; intros m H; [discriminate|].
  destruct x as [d0|].
  - destruct (amin r) as [m0|] eqn:Er.
    + inversion H; subst. destruct (IH m0 eq_refl) as ((e0 & He0) & Hmin). split.
      * destruct (Z.min_spec d0 m0) as [[_ ->]|[_ ->]]; [exists 0%nat; auto|exists (S e0); auto].
      * intros e d Hd. destruct e; simpl in Hd.
        -- inversion Hd; subst. lia.
        -- apply Hmin in Hd. lia.
    + inversion H; subst. split; [exists 0%nat; auto|].
      intros e d Hd. destruct e; simpl in Hd; [inversion Hd; lia|].
      rewrite (amin_none r Er e) in Hd. discriminate.
  - destruct (IH m H) as ((e0 & He0) & Hmin). split; [exists (S e0); auto|].
    intros e d Hd. destruct e; simpl in Hd; [discriminate|]. eauto.
Qed.

Lemma adue_aset : forall a e v e', adue (aset a e v) e' =
  if (e' =? e)%nat && (e <? length (a_due a))%nat then v else adue a e'.
Proof.
  intros. unfold adue, aset. simpl.
  destruct (Nat.eqb_spec e' e); simpl.
  - subst. destruct (Nat.ltb_spec e (length (a_due a))).
    + apply nth_upd_eq. auto.
    + rewrite !nth_overflow; auto. rewrite upd_length. auto.
  - apply nth_upd_neq. auto.
Qed.

Lemma adue_some_lt : forall a e d, adue a e = Some d -> (e < length (a_due a))%nat.
Proof.
  intros. unfold adue in H. destruct (Nat.lt_ge_cases e (length (a_due a))); auto.
  rewrite nth_overflow in H by auto. discriminate.
Qed.

(* ------------------------------------------------------------------ basic operations *)

Lemma allowed_spec : forall a t e d, allowed a t e = Some d ->
  apend a e d /\ d <= t /\ forall e' d', apend a e' d' -> d <= d'.
Proof.
  unfold allowed, apend. intros a t e d H.
  destruct (adue a e) as [d0|] eqn:Ed; [|discriminate].
  destruct (amin (a_due a)) as [m|] eqn:Em; [|discriminate].
  destruct (Z.leb_spec d0 t); simpl in H; [|discriminate].
  destruct (Z.leb_spec d0 m); inversion H; subst.
  split; auto. split; auto. intros e' d' Hd.
  destruct (amin_some _ _ Em) as (_ & Hmin). apply Hmin in Hd. lia.
Qed.

Theorem a_next_timeout_sound : forall a m, exists r, anext_timeout a m = ONext r /\
  (forall e d, apend a e d -> r <= Z.max 0 (d - a_now a)) /\ (0 <= m -> 0 <= r <= m) /\
  ((forall e d, ~ apend a e d) -> r = m).
Proof.
  intros a m. unfold anext_timeout. destruct (amin (a_due a)) as [d0|] eqn:Em.
  - destruct (amin_some _ _ Em) as ((e0 & He0) & Hmin).
    destruct (Z.geb_spec (d0 - a_now a) m).
    + exists m. split; auto. split; [|split]; auto; try lia.
      intros e d Hd. apply Hmin in Hd. lia.
    + eexists. split; eauto. split; [|split]; try lia.
      * intros e d Hd. apply Hmin in Hd. lia.
      * intros Hno. exfalso. apply (Hno e0 d0). exact He0.
  - exists m. split; auto. split; [|split]; auto; try lia.
    intros e d Hd. unfold apend, adue in Hd. rewrite (amin_none _ Em e) in Hd. discriminate.
Qed.

Theorem a_erase_prevents : forall E a e a', aerase E a e = (a', OOk) ->
  adue a' e = None /\ a_now a' = a_now a /\ forall e', e' <> e -> adue a' e' = adue a e'.
Proof.
  intros E a e a' H. unfold aerase in H. destruct (adue a e) as [d|] eqn:Ed.
  - destruct (negb (valid E e)); inversion H; subst. split; [|split; auto].
    + rewrite adue_aset, Nat.eqb_refl. simpl.
      destruct (Nat.ltb_spec e (length (a_due a))); auto. apply adue_some_lt in Ed. lia.
    + intros e' Hne. rewrite adue_aset. destruct (Nat.eqb_spec e' e); [contradiction|auto].
  - destruct (foreign E e); inversion H; subst. auto.
Qed.

Theorem a_update_moves : forall C E a e t a', valid E e = true -> (e < length (a_due a))%nat ->
  aupdate_wait_until C E a e t = (a', OOk) ->
  adue a' e = Some t /\ a_now a' = a_now a /\ forall e', e' <> e -> adue a' e' = adue a e'.
Proof.
  intros C E a e t a' V L H. unfold aupdate_wait_until in H.
  destruct (t =? 0); [inversion H|]. destruct (t <? c_min_update C); [inversion H|].
  rewrite V in H. simpl in H.
  assert (X : adue (aset a e (Some t)) e = Some t /\ forall e', e' <> e -> adue (aset a e (Some t)) e' = adue a e').
  { split.
    - rewrite adue_aset, Nat.eqb_refl. simpl. destruct (Nat.ltb_spec e (length (a_due a))); auto. lia.
    - intros e' Hne. rewrite adue_aset. destruct (Nat.eqb_spec e' e); [contradiction|auto]. }
  destruct (adue a e); [inversion H; subst; tauto|].
  destruct (foreign E e); inversion H; subst. tauto.
Qed.

(* the clock moves only by SetNow *)
Lemma await_until_now : forall C E a e t, a_now (fst (await_until C E a e t)) = a_now a.
Proof.
  intros. unfold await_until.
  destruct (t =? 0), (t <? c_min_wait C), (negb (valid E e)), (adue a e), (foreign E e); reflexivity.
Qed.
Lemma aupdate_wait_until_now : forall C E a e t, a_now (fst (aupdate_wait_until C E a e t)) = a_now a.
Proof.
  intros. unfold aupdate_wait_until.
  destruct (t =? 0), (t <? c_min_update C), (negb (valid E e)), (adue a e), (foreign E e); reflexivity.
Qed.

Lemma aexec_basic_now : forall C E a b, is_setnow b = false -> a_now (fst (aexec_basic C E a b)) = a_now a.
Proof.
  intros C E a b Hb. destruct b; simpl in *; try discriminate;
    try (destruct (_ >? _); [reflexivity|]); auto using await_until_now, aupdate_wait_until_now.
  unfold aerase. destruct (adue a e), (foreign E e), (negb (valid E e)); reflexivity.
Qed.

Lemma arun_script_now : forall C E bs a a1 os err, (forall b, In b bs -> is_setnow b = false) ->
  arun_script C E a bs = (a1, os, err) -> a_now a1 = a_now a.
Proof.
  induction bs as [|b0 bs IH]; simpl; intros a0 a1 os err Hb H.
  - inversion H; subst; auto.
  - pose proof (aexec_basic_now C E a0 b0 (Hb b0 (or_introl eq_refl))) as N1.
    destruct (aexec_basic C E a0 b0) as [ax o]. simpl in N1.
    destruct o.
    + destruct (arun_script C E ax bs) as [[a2 os2] err2] eqn:R. inversion H; subst.
      rewrite <- N1. eapply IH; eauto.
    + inversion H; subst; auto.
    + destruct (arun_script C E ax bs) as [[a2 os2] err2] eqn:R. inversion H; subst.
      rewrite <- N1. eapply IH; eauto.
Qed.

(* ------------------------------------------------------------------ perform, for every choice list *)

Ltac noin H := simpl in H; repeat (destruct H as [H|H]; try discriminate H); try contradiction.

Lemma in_fire_map_out2 : forall e d os, ~ In (EFire e d) (map EOut os).
Proof. intros e d os H. apply in_map_iff in H. destruct H as (x & A & _). discriminate. Qed.

Theorem a_never_early : forall C E cs k a t a1 evs oc, aperform C E k a t cs = (a1, evs, oc) ->
  forall e d, In (EFire e d) evs -> d <= t.
Proof.
  induction cs as [|c rest IH]; simpl; intros k a t a1 evs oc H e d Hin.
  - destruct (amin (a_due a)) as [m|]; [destruct (m <=? t)|]; inversion H; subst; noin Hin.
  - destruct (allowed a t c) as [d0|] eqn:Al.
    2:{ inversion H; subst. noin Hin. }
    destruct (allowed_spec _ _ _ _ Al) as (_ & Le & _).
    destruct k as [|k1].
    { inversion H; subst. noin Hin. }
    destruct (arun_script C E (aset a c None) (nth c (e_scr E) [])) as [[a2 os] err] eqn:R.
    destruct err.
    + inversion H; subst. simpl in Hin. destruct Hin as [Hin|Hin]; [inversion Hin; subst; auto|].
      exfalso. eapply in_fire_map_out2; eauto.
    + destruct (aperform C E k1 a2 t rest) as [[a3 evs3] oc3] eqn:P. inversion H; subst.
      simpl in Hin. destruct Hin as [Hin|Hin]; [inversion Hin; subst; auto|].
      apply in_app_or in Hin. destruct Hin as [Hin|Hin]; [exfalso; eapply in_fire_map_out2; eauto|].
      eapply IH; eauto.
Qed.

Theorem a_not_late : forall C E cs k a t a1 evs, aperform C E k a t cs = (a1, evs, ADone) ->
  forall e d, apend a1 e d -> t < d.
Proof.
  induction cs as [|c rest IH]; simpl; intros k a t a1 evs H e d Hd.
  - destruct (amin (a_due a)) as [m|] eqn:Em.
    + destruct (Z.leb_spec m t); inversion H; subst.
      destruct (amin_some _ _ Em) as (_ & Hmin). apply Hmin in Hd. lia.
    + inversion H; subst. unfold apend, adue in Hd. rewrite (amin_none _ Em e) in Hd. discriminate.
  - destruct (allowed a t c) as [d0|]; [|inversion H].
    destruct k as [|k1]; [inversion H|].
    destruct (arun_script C E (aset a c None) (nth c (e_scr E) [])) as [[a2 os] err].
    destruct err; [inversion H|].
    destruct (aperform C E k1 a2 t rest) as [[a3 evs3] oc3] eqn:P. inversion H; subst.
    eapply IH; eauto.
Qed.

(* every firing: the chosen entry is pending, due, a minimum of the pending due times, and is
   unscheduled before its slot runs; the rest of the dispatch continues from the state its slot left *)
Theorem a_fire_step : forall C E k a t c rest a1 evs oc,
  aperform C E k a t (c :: rest) = (a1, evs, oc) -> oc <> ABad ->
  exists d, apend a c d /\ d <= t /\ (forall e2 d2, apend a e2 d2 -> d <= d2) /\
    adue (aset a c None) c = None /\
    (forall e2, e2 <> c -> adue (aset a c None) e2 = adue a e2) /\
    (k = 0%nat -> evs = [EFuel] /\ oc = AOutOfFuel /\ a1 = aset a c None) /\
    (forall k1, k = S k1 ->
       exists a2 os err, arun_script C E (aset a c None) (nth c (e_scr E) []) = (a2, os, err) /\
         (err = true -> evs = EFire c d :: map EOut os /\ oc = AAborted /\ a1 = a2) /\
         (err = false -> exists evs2, aperform C E k1 a2 t rest = (a1, evs2, oc) /\
                                      evs = EFire c d :: map EOut os ++ evs2)).
Proof.
  intros C E k a t c rest a1 evs oc H Hoc. simpl in H.
  destruct (allowed a t c) as [d|] eqn:Al.
  2:{ inversion H; subst. congruence. }
  destruct (allowed_spec _ _ _ _ Al) as (Pd & Le & Min).
  exists d. split; auto. split; auto. split; auto. split.
  { rewrite adue_aset, Nat.eqb_refl. simpl. apply adue_some_lt in Pd.
    destruct (Nat.ltb_spec c (length (a_due a))); auto. lia. }
  split.
  { intros e2 Hne. rewrite adue_aset. destruct (Nat.eqb_spec e2 c); [contradiction|auto]. }
  destruct k as [|k0].
  - inversion H; subst. split; auto. intros k1 X. discriminate.
  - split; [intros X; discriminate|]. intros k1 X. inversion X; subst k1.
    destruct (arun_script C E (aset a c None) (nth c (e_scr E) [])) as [[a2 os] err] eqn:R.
    exists a2, os, err. split; auto. destruct err.
    + inversion H; subst. split; auto. intros X2. discriminate.
    + destruct (aperform C E k0 a2 t rest) as [[a3 evs3] oc3] eqn:P. inversion H; subst.
      split; [intros X2; discriminate|]. intros _. eauto.
Qed.

(* ABad is reported exactly through EBad / EStuck *)
Theorem a_bad_iff : forall C E cs k a t a1 evs oc, aperform C E k a t cs = (a1, evs, oc) ->
  (oc = ABad <-> (In EStuck evs \/ exists e, In (EBad e) evs)).
Proof.
  induction cs as [|c rest IH]; simpl; intros k a t a1 evs oc H.
  - destruct (amin (a_due a)) as [m|]; [destruct (m <=? t)|]; inversion H; subst; simpl;
      split; intros X; try discriminate X; auto; destruct X as [X|[e X]]; noin X.
  - destruct (allowed a t c) as [d0|].
    2:{ inversion H; subst. split; auto. intros _. right. exists c. simpl. auto. }
    destruct k as [|k1].
    { inversion H; subst. split; [discriminate|]. intros [X|[e X]]; noin X. }
    destruct (arun_script C E (aset a c None) (nth c (e_scr E) [])) as [[a2 os] err].
    assert (NM : forall x, (x = EStuck \/ exists e, x = EBad e) -> ~ In x (map EOut os)).
    { intros x Hx Hin. apply in_map_iff in Hin. destruct Hin as (y & A & _).
      destruct Hx as [->|[e ->]]; discriminate. }
    destruct err.
    + inversion H; subst. split; [discriminate|].
      intros [X|[e X]]; simpl in X; destruct X as [X|X]; try discriminate X; exfalso;
        [eapply (NM EStuck)|eapply (NM (EBad e))]; eauto.
    + destruct (aperform C E k1 a2 t rest) as [[a3 evs3] oc3] eqn:P. inversion H; subst.
      rewrite (IH _ _ _ _ _ _ P). split.
      * intros [X|[e X]]; [left|right; exists e]; simpl; right; apply in_or_app; auto.
      * intros [X|[e X]]; simpl in X; destruct X as [X|X]; try discriminate X;
          apply in_app_or in X; destruct X as [X|X]; eauto; exfalso;
          [eapply (NM EStuck)|eapply (NM (EBad e))]; eauto.
Qed.

(* without handler scripts, the due times fire in non-decreasing order whatever the tie-breaking *)
Lemma a_fired_pending : forall C E cs k a t a1 evs oc, (forall e, script E e = []) ->
  aperform C E k a t cs = (a1, evs, oc) -> forall e d, In (EFire e d) evs -> apend a e d.
Proof.
  induction cs as [|c rest IH]; simpl; intros k a t a1 evs oc Hs H e d Hin.
  - destruct (amin (a_due a)) as [m|]; [destruct (m <=? t)|]; inversion H; subst; noin Hin.
  - destruct (allowed a t c) as [d0|] eqn:Al.
    2:{ inversion H; subst. noin Hin. }
    destruct (allowed_spec _ _ _ _ Al) as (Pd & _).
    destruct k as [|k1].
    { inversion H; subst. noin Hin. }
    pose proof (Hs c) as Hc. unfold script in Hc. rewrite Hc in H. simpl in H.
    destruct (aperform C E k1 (aset a c None) t rest) as [[a3 evs3] oc3] eqn:P. inversion H; subst.
    simpl in Hin. destruct Hin as [Hin|Hin]; [inversion Hin; subst; auto|].
    apply (IH _ _ _ _ _ _ Hs P) in Hin. unfold apend in *.
    rewrite adue_aset in Hin. destruct ((e =? c)%nat && _); [discriminate|auto].
Qed.

Theorem a_fire_order_sorted : forall C E cs k a t a1 evs oc, (forall e, script E e = []) ->
  aperform C E k a t cs = (a1, evs, oc) -> Sorted Z.le (fired_times evs).
Proof.
  induction cs as [|c rest IH]; simpl; intros k a t a1 evs oc Hs H.
  - destruct (amin (a_due a)) as [m|]; [destruct (m <=? t)|]; inversion H; subst; simpl; constructor.
  - destruct (allowed a t c) as [d0|] eqn:Al.
    2:{ inversion H; subst. simpl. constructor. }
    destruct (allowed_spec _ _ _ _ Al) as (Pd & _ & Min).
    destruct k as [|k1].
    { inversion H; subst. simpl. constructor. }
    pose proof (Hs c) as Hc. unfold script in Hc. rewrite Hc in H. simpl in H.
    destruct (aperform C E k1 (aset a c None) t rest) as [[a3 evs3] oc3] eqn:P. inversion H; subst.
    simpl. constructor; [eapply IH; eauto|].
    destruct (fired_times evs3) as [|d1 l] eqn:Ft; constructor.
    assert (Hi : In d1 (fired_times evs3)) by (rewrite Ft; left; auto).
    apply fired_times_in in Hi. destruct Hi as (e1 & Hi).
    pose proof (a_fired_pending _ _ _ _ _ _ _ _ _ Hs P e1 d1 Hi) as Hp. unfold apend in Hp.
    rewrite adue_aset in Hp. destruct ((e1 =? c)%nat && _); [discriminate|]. apply (Min e1 d1 Hp).
Qed.

(* ------------------------------------------------------------------ one event-loop iteration *)

Lemma aset_now : forall a e v, a_now (aset a e v) = a_now a.
Proof. reflexivity. Qed.

Lemma aperform_now : forall C E cs k a t a1 evs oc, no_setnow E ->
  aperform C E k a t cs = (a1, evs, oc) -> a_now a1 = a_now a.
Proof.
  induction cs as [|c rest IH]; simpl; intros k a t a1 evs oc NS H.
  - destruct (amin (a_due a)) as [m|]; [destruct (m <=? t)|]; inversion H; subst; auto.
  - destruct (allowed a t c) as [d0|]; [|inversion H; subst; auto].
    destruct k as [|k1]; [inversion H; subst; auto|].
    destruct (arun_script C E (aset a c None) (nth c (e_scr E) [])) as [[a2 os] err] eqn:R.
    apply arun_script_now in R; [|intros b Hb; apply (NS c b Hb)].
    destruct err; [inversion H; subst; auto|].
    destruct (aperform C E k1 a2 t rest) as [[a3 evs3] oc3] eqn:P. inversion H; subst.
    rewrite (IH _ _ _ _ _ _ NS P). auto.
Qed.

Lemma aperform_no_loop : forall C E cs k a t a1 evs oc, aperform C E k a t cs = (a1, evs, oc) ->
  forall x y z, ~ In (ELoop x y z) evs.
Proof.
  induction cs as [|c rest IH]; simpl; intros k a t a1 evs oc H x y z Hin.
  - destruct (amin (a_due a)) as [m|]; [destruct (m <=? t)|]; inversion H; subst; noin Hin.
  - destruct (allowed a t c) as [d0|]; [|inversion H; subst; noin Hin].
    destruct k as [|k1]; [inversion H; subst; noin Hin|].
    destruct (arun_script C E (aset a c None) (nth c (e_scr E) [])) as [[a2 os] err] eqn:R.
    destruct err.
    + inversion H; subst. simpl in Hin. destruct Hin as [Hin|Hin]; [discriminate Hin|].
      eapply in_loop_map_out; eauto.
    + destruct (aperform C E k1 a2 t rest) as [[a3 evs3] oc3] eqn:P. inversion H; subst.
      simpl in Hin. destruct Hin as [Hin|Hin]; [discriminate Hin|].
      apply in_app_or in Hin. destruct Hin as [Hin|Hin]; [eapply in_loop_map_out; eauto|].
      eapply IH; eauto.
Qed.

(* whatever the tie-breaking: the poll timeout of an iteration, added to the clock the thread holds,
   does not pass a pending timer *)
Theorem a_loop_never_oversleeps : forall C E a t1 d m c cs a1 evs, no_setnow E ->
  aloop C E a t1 d m c cs = (a1, evs) ->
  forall tnow snow r, In (ELoop tnow snow r) evs ->
    tnow = t1 + d /\ snow = t1 + d /\ 0 <= r <= Z.max m 0 /\
    forall e dd, apend a1 e dd -> r = 0 \/ tnow + r <= dd.
Proof.
  intros C E a t1 d m c cs a1 evs NS H tnow snow r Hin. unfold aloop in H.
  destruct (arun_script C E (mkA (a_due a) t1) (call_script E c)) as [[ax os] err] eqn:R.
  destruct err.
  { inversion H; subst. exfalso. eapply in_loop_map_out; eauto. }
  destruct (aperform C E (e_fuel E) (mkA (a_due ax) (t1 + d)) (t1 + d) cs) as [[a3 pevs] oc] eqn:P.
  pose proof (aperform_now _ _ _ _ _ _ _ _ _ NS P) as N3. simpl in N3.
  destruct oc.
  - inversion H; subst.
    apply in_app_or in Hin. destruct Hin as [Hin|Hin]; [exfalso; eapply in_loop_map_out; eauto|].
    apply in_app_or in Hin. destruct Hin as [Hin|Hin]; [exfalso; eapply aperform_no_loop; eauto|].
    simpl in Hin. destruct Hin as [Hin|[]]. inversion Hin; subst; clear Hin.
    destruct (a_next_timeout_sound a1 (Z.max m 0)) as (r0 & -> & A & B & _).
    split; auto. split; auto. split; [apply B; lia|].
    intros e dd Hd. apply A in Hd. assert (0 <= r0 <= Z.max m 0) by (apply B; lia). lia.
  - inversion H; subst. exfalso.
    apply in_app_or in Hin. destruct Hin as [Hin|Hin]; [eapply in_loop_map_out; eauto|eapply aperform_no_loop; eauto].
  - inversion H; subst. exfalso.
    apply in_app_or in Hin. destruct Hin as [Hin|Hin]; [eapply in_loop_map_out; eauto|eapply aperform_no_loop; eauto].
  - inversion H; subst. exfalso.
    apply in_app_or in Hin. destruct Hin as [Hin|Hin]; [eapply in_loop_map_out; eauto|eapply aperform_no_loop; eauto].
Qed.
