(* C19 -- the choice-driven model used for the correspondence check.

   The property leaves the firing order among timers with EQUAL due times open (and with it the
   layout of the heap, when cancelled handles are dropped, ...). This model therefore keeps only
   what the property talks about -- the pending map  entry -> due time  and the cached clock -- and
   takes the tie-breaking decisions as an ORACLE argument: the list of entries the implementation
   fired, in order. Each choice is checked to be allowed (pending, due <= t, and a minimum of the
   pending due times); a choice outside that set, or stopping while something is still due, is
   reported in the event log (EBad / EStuck). Everything else (results of every operation,
   errors, next_timeout values, loop clocks, final schedule) is computed deterministically.
   The constants (365 days, 10 years) are arguments too: the driver passes the values probed from
   the compiled library.

   Model.v (array heap of libstdc++, handles, tombstones) remains as the model of the tie-breaking
   policy of the current code; ProofsSim.v proves it is an instance of this model. *)
From Coq Require Import ZArith List Bool Arith.
From LTV.C19 Require Import Model.
Import ListNotations.
Open Scope Z_scope.

Record consts := mkC {
  c_min_wait : Z; c_min_update : Z;                      (* microseconds *)
  c_max_wf : Z; c_max_wfc : Z; c_max_uf : Z; c_max_ufc : Z  (* microseconds *)
}.

Definition amap := list (option Z).
Record astate := mkA { a_due : amap; a_now : Z }.
Definition ainit (n : nat) : astate := mkA (repeat None n) 0.
Definition adue (a : astate) (e : nat) : option Z := nth e (a_due a) None.

(* earliest pending due time *)
Fixpoint amin (l : amap) : option Z :=
  match l with
  | [] => None
  | None :: r => amin r
  | Some d :: r => match amin r with None => Some d | Some m => Some (Z.min d m) end
  end.

Definition aset (a : astate) (e : nat) (v : option Z) : astate := mkA (upd (a_due a) e v) (a_now a).

Definition await_until (C : consts) (E : env) (a : astate) (e : nat) (t : Z) : astate * out :=
  if t =? 0 then (a, OErr)
  else if t <? c_min_wait C then (a, OErr)
  else if negb (valid E e) then (a, OErr)
  else match adue a e with
       | Some _ => (a, OErr)
       | None => if foreign E e then (a, OErr) else (aset a e (Some t), OOk)
       end.

Definition aupdate_wait_until (C : consts) (E : env) (a : astate) (e : nat) (t : Z) : astate * out :=
  if t =? 0 then (a, OErr)
  else if t <? c_min_update C then (a, OErr)
  else if negb (valid E e) then (a, OErr)
  else match adue a e with
       | Some _ => (aset a e (Some t), OOk)
       | None => if foreign E e then (a, OErr) else (aset a e (Some t), OOk)
       end.

Definition aerase (E : env) (a : astate) (e : nat) : astate * out :=
  match adue a e with
  | None => if foreign E e then (a, OErr) else (a, OOk)
  | Some _ => if negb (valid E e) then (a, OErr) else (aset a e None, OOk)
  end.

Definition anext_timeout (a : astate) (m : Z) : out :=
  match amin (a_due a) with
  | None => ONext m
  | Some d => let timeout := d - a_now a in
              if timeout >=? m then ONext m else ONext (Z.max timeout 0)
  end.

Definition aexec_basic (C : consts) (E : env) (a : astate) (b : bop) : astate * out :=
  match b with
  | WaitUntil e t => await_until C E a e t
  | WaitFor e dt => if dt >? c_max_wf C then (a, OErr) else await_until C E a e (a_now a + dt)
  | WaitForCeil e dt => if dt >? c_max_wfc C then (a, OErr) else await_until C E a e (ceil_seconds (a_now a + dt))
  | UpdUntil e t => aupdate_wait_until C E a e t
  | UpdFor e dt => if dt >? c_max_uf C then (a, OErr) else aupdate_wait_until C E a e (a_now a + dt)
  | UpdForCeil e dt => if dt >? c_max_ufc C then (a, OErr) else aupdate_wait_until C E a e (ceil_seconds (a_now a + dt))
  | Erase e => aerase E a e
  | NextTimeout m => (a, anext_timeout a m)
  | SetNow t => (mkA (a_due a) t, OOk)
  end.

Fixpoint arun_script (C : consts) (E : env) (a : astate) (bs : list bop) : astate * list out * bool :=
  match bs with
  | [] => (a, [], false)
  | b :: r =>
      let '(a1, o) := aexec_basic C E a b in
      match o with
      | OErr => (a1, [OErr], true)
      | _ => let '(a2, os, err) := arun_script C E a1 r in (a2, o :: os, err)
      end
  end.

Inductive aoutcome := ADone | AAborted | AOutOfFuel | ABad.

(* may entry e fire next in perform(t)?  pending, due, and no pending timer is earlier *)
Definition allowed (a : astate) (t : Z) (e : nat) : option Z :=
  match adue a e, amin (a_due a) with
  | Some d, Some m => if (d <=? t) && (d <=? m) then Some d else None
  | _, _ => None
  end.

(* Scheduler::perform(t) driven by the implementation's choices cs; k = slot budget *)
Fixpoint aperform (C : consts) (E : env) (k : nat) (a : astate) (t : Z) (cs : list nat) {struct cs}
  : astate * list ev * aoutcome :=
  match cs with
  | [] => match amin (a_due a) with
          | Some m => if m <=? t then (a, [EStuck], ABad) else (a, [], ADone)
          | None => (a, [], ADone)
          end
  | e :: rest =>
      match allowed a t e with
      | None => (a, [EBad e], ABad)
      | Some d =>
          let a1 := aset a e None in
          match k with
          | O => (a1, [EFuel], AOutOfFuel)
          | S k' =>
              let '(a2, os, err) := arun_script C E a1 (nth e (e_scr E) []) in
              if err then (a2, EFire e d :: map EOut os, AAborted)
              else let '(a3, evs, oc) := aperform C E k' a2 t rest in
                   (a3, EFire e d :: map EOut os ++ evs, oc)
          end
      end
  end.

Definition aloop (C : consts) (E : env) (a : astate) (t1 d m : Z) (c : option nat) (cs : list nat)
  : astate * list ev :=
  let a0 := mkA (a_due a) t1 in
  let '(a1, os, err) := arun_script C E a0 (call_script E c) in
  if err then (a1, map EOut os)
  else
    let a2 := mkA (a_due a1) (t1 + d) in
    let '(a3, pevs, oc) := aperform C E (e_fuel E) a2 (t1 + d) cs in
    match oc with
    | ADone => (a3, map EOut os ++ pevs ++
                    [ELoop (t1 + d) (a_now a3)
                       (match anext_timeout a3 (Z.max m 0) with ONext r => r | _ => 0 end)])
    | _ => (a3, map EOut os ++ pevs)
    end.

(* one top-level op; cs = the implementation's firing sequence inside this op *)
Definition astep (C : consts) (E : env) (a : astate) (o : op) (cs : list nat) : astate * list ev :=
  match o with
  | Basic b => let '(a', r) := aexec_basic C E a b in (a', [EOut r])
  | Perform t => let '(a', evs, _) := aperform C E (e_fuel E) a t cs in (a', evs)
  | Loop t1 d m c => aloop C E a t1 d m c cs
  end.

Definition amask (a : astate) : list bool :=
  map (fun x => match x with Some _ => true | None => false end) (a_due a).

Definition astep2 (C : consts) (E : env) (st : astate * astate) (o : op2) (cs : list nat)
  : (astate * astate) * list ev :=
  let '(aA, aB) := st in
  match o with
  | OnA o => let '(aA', evs) := astep C (with_foreign E (amask aB)) aA o cs in ((aA', aB), evs)
  | OnB b => let '(aB', r) := aexec_basic C (with_foreign E (amask aA)) aB b in ((aA, aB'), [EOut r])
  end.

Fixpoint arun2 (C : consts) (E : env) (st : astate * astate) (ops : list (op2 * list nat))
  : (astate * astate) * list (list ev) :=
  match ops with
  | [] => (st, [])
  | (o, cs) :: r => let '(st1, l) := astep2 C E st o cs in
                    let '(st2, ls) := arun2 C E st1 r in (st2, l :: ls)
  end.

Fixpoint arun (C : consts) (E : env) (a : astate) (ops : list (op * list nat)) : astate * list (list ev) :=
  match ops with
  | [] => (a, [])
  | (o, cs) :: r => let '(a1, l) := astep C E a o cs in
                    let '(a2, ls) := arun C E a1 r in (a2, l :: ls)
  end.
