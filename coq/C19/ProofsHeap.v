(* C19 -- the array-heap layer: the libstdc++ primitives of Model.v keep the multiset of handles
   and the binary-heap order (min-heap on h_time); the front of an ordered heap is a minimum. *)
From Coq Require Import ZArith List Bool Arith Lia Permutation.
From Coq Require Import ZifyBool ZifyNat.
From LTV.C19 Require Import Model.
Import ListNotations.
Open Scope Z_scope.
Ltac Zify.zify_post_hook ::= Z.div_mod_to_equations.
Arguments Nat.div : simpl never.
Arguments Nat.modulo : simpl never.
Arguments Nat.sub : simpl never.
Arguments Nat.mul : simpl never.

(* ------------------------------------------------------------------ upd / nth *)

Lemma upd_length : forall A (a : list A) i v, length (upd a i v) = length a.
Proof. induction a; destruct i; simpl; intros; auto. Qed.

Lemma nth_upd_eq : forall A (a : list A) i v d, (i < length a)%nat -> nth i (upd a i v) d = v.
Proof. induction a; destruct i; simpl; intros; try lia; auto. apply IHa. lia. Qed.

Lemma nth_upd_neq : forall A (a : list A) i j v d, i <> j -> nth j (upd a i v) d = nth j a d.
Proof. induction a; destruct i; destruct j; simpl; intros; try congruence; auto. Qed.

Lemma upd_upd : forall A (a : list A) i v w, upd (upd a i w) i v = upd a i v.
Proof. induction a; destruct i; simpl; intros; auto. f_equal. auto. Qed.

Lemma upd_nth_same : forall A (a : list A) i d, upd a i (nth i a d) = a.
Proof. induction a; destruct i; simpl; intros; auto. f_equal. auto. Qed.

Lemma ht_upd : forall a i j v, (i < length a)%nat ->
  ht (upd a i v) j = if (j =? i)%nat then h_time v else ht a j.
Proof.
  intros. unfold ht, hnth. destruct (Nat.eqb_spec j i).
  - subst. rewrite nth_upd_eq; auto.
  - rewrite nth_upd_neq; auto.
Qed.

Lemma hnth_upd_neq : forall a i j v, i <> j -> hnth (upd a i v) j = hnth a j.
Proof. intros. unfold hnth. apply nth_upd_neq. auto. Qed.

(* ------------------------------------------------------------------ multiset of handles *)

Definition handle_eq_dec : forall x y : handle, {x = y} + {x <> y}.
Proof.
  decide equality.
  - decide equality. apply Nat.eq_dec.
  - apply Z.eq_dec.
  - apply Nat.eq_dec.
Defined.

Definition cnt (a : list handle) (x : handle) : nat := count_occ handle_eq_dec a x.
Definition ind (v x : handle) : nat := if handle_eq_dec v x then 1%nat else 0%nat.

Lemma cnt_upd : forall a i v x, (i < length a)%nat ->
  (cnt (upd a i v) x + ind (hnth a i) x = cnt a x + ind v x)%nat.
Proof.
  unfold cnt, ind, hnth. induction a; intros; simpl in *; try lia.
  destruct i; simpl.
  - destruct (handle_eq_dec v x), (handle_eq_dec a x); lia.
  - specialize (IHa i v x). destruct (handle_eq_dec a x); lia.
Qed.

Lemma cnt_swap : forall a i p v x, i <> p -> (i < length a)%nat -> (p < length a)%nat ->
  cnt (upd (upd a i (hnth a p)) p v) x = cnt (upd a i v) x.
Proof.
  intros.
  pose proof (cnt_upd (upd a i (hnth a p)) p v x) as H2.
  rewrite upd_length in H2. specialize (H2 H1).
  rewrite hnth_upd_neq in H2 by auto.
  pose proof (cnt_upd a i (hnth a p) x H0).
  pose proof (cnt_upd a i v x H0).
  lia.
Qed.

Lemma cnt_perm : forall a b, (forall x, cnt a x = cnt b x) -> Permutation a b.
Proof. intros. apply (Permutation_count_occ handle_eq_dec). auto. Qed.

(* ------------------------------------------------------------------ heap order *)

Definition heap_ok (a : list handle) : Prop :=
  forall i, (0 < i < length a)%nat -> ht a ((i - 1) / 2) <= ht a i.

Lemma heap_top_min : forall a, heap_ok a -> forall i, (i < length a)%nat -> ht a 0 <= ht a i.
Proof.
  intros a H i. induction i as [i IH] using lt_wf_ind. intros Hi.
  destruct (Nat.eq_dec i 0); [subst; lia|].
  assert (((i - 1) / 2 < i)%nat) by (apply Nat.div_lt_upper_bound; lia).
  assert (H1 : ht a 0 <= ht a ((i - 1) / 2)) by (apply IH; auto; lia).
  assert (H2 : ht a ((i - 1) / 2) <= ht a i) by (apply H; lia).
  eapply Z.le_trans; eauto.
Qed.

Lemma heap_ok_nil : heap_ok []. Proof. red; simpl; intros; lia. Qed.
Lemma heap_ok_single : forall h, heap_ok [h]. Proof. red; simpl; intros; lia. Qed.

(* push_loop never reads the cell under the hole *)
Lemma push_loop_irrel : forall fuel a hole v w, (hole < length a)%nat ->
  push_loop fuel (upd a hole w) hole v = push_loop fuel a hole v.
Proof.
  induction fuel; intros; simpl.
  - apply upd_upd.
  - destruct (Nat.ltb_spec 0 hole); simpl.
    + assert (Hp : ((hole - 1) / 2 < hole)%nat) by (apply Nat.div_lt_upper_bound; lia).
      rewrite ht_upd by auto.
      destruct (Nat.eqb_spec ((hole - 1) / 2) hole); [lia|].
      rewrite hnth_upd_neq by lia. rewrite !upd_upd. reflexivity.
    + apply upd_upd.
Qed.

Lemma push_loop_length : forall fuel a hole v, length (push_loop fuel a hole v) = length a.
Proof.
  induction fuel; intros; simpl.
  - apply upd_length.
  - destruct (_ && _). rewrite IHfuel. apply upd_length. apply upd_length.
Qed.

Lemma push_loop_cnt : forall fuel a hole v x, (hole < length a)%nat ->
  cnt (push_loop fuel a hole v) x = cnt (upd a hole v) x.
Proof.
  induction fuel; intros; simpl; auto.
  destruct (Nat.ltb_spec 0 hole); simpl; auto.
  destruct (h_time v <? ht a ((hole - 1) / 2)); auto.
  assert (Hp : ((hole - 1) / 2 < hole)%nat) by (apply Nat.div_lt_upper_bound; lia).
  rewrite IHfuel by (rewrite upd_length; lia).
  apply cnt_swap; lia.
Qed.

(* children of the hole are not smaller than v; everything else is ordered *)
Lemma push_loop_heap_ok : forall fuel a hole v,
  heap_ok a -> (hole < length a)%nat -> (hole <= fuel)%nat ->
  (forall c, (0 < c < length a)%nat -> ((c - 1) / 2 = hole)%nat -> h_time v <= ht a c) ->
  heap_ok (push_loop fuel a hole v).
Proof.
  induction fuel; intros a hole v Hok Hh Hf Hc.
  - simpl. assert (hole = 0%nat) by lia. subst.
    red. rewrite upd_length. intros j Hj. rewrite !ht_upd by auto.
    destruct (Nat.eqb_spec j 0); [lia|].
    destruct (Nat.eqb_spec ((j - 1) / 2) 0).
    + apply Hc; auto.
    + apply Hok; auto.
  - simpl. destruct (Nat.ltb_spec 0 hole); simpl.
    2:{ assert (hole = 0%nat) by lia. subst.
        red. rewrite upd_length. intros j Hj. rewrite !ht_upd by auto.
        destruct (Nat.eqb_spec j 0); [lia|].
        destruct (Nat.eqb_spec ((j - 1) / 2) 0).
        + apply Hc; auto.
        + apply Hok; auto. }
    assert (Hp : ((hole - 1) / 2 < hole)%nat) by (apply Nat.div_lt_upper_bound; lia).
    destruct (Z.ltb_spec (h_time v) (ht a ((hole - 1) / 2))).
    + apply IHfuel.
      * red. rewrite upd_length. intros j Hj. rewrite !ht_upd by auto.
        pose proof (Hok j Hj). pose proof (Hok hole ltac:(lia)).
        destruct (Nat.eqb_spec j hole).
        { subst j. destruct (Nat.eqb_spec ((hole - 1) / 2) hole); [lia|]. unfold ht, hnth. lia. }
        destruct (Nat.eqb_spec ((j - 1) / 2) hole).
        { rewrite e in H1. unfold ht, hnth in *. lia. }
        auto.
      * rewrite upd_length. lia.
      * lia.
      * rewrite upd_length. intros c Hcl Hcp. rewrite ht_upd by auto.
        destruct (Nat.eqb_spec c hole).
        { unfold ht, hnth in *. lia. }
        pose proof (Hok c Hcl). rewrite Hcp in H1. lia.
    + red. rewrite upd_length. intros j Hj. rewrite !ht_upd by auto.
      destruct (Nat.eqb_spec j hole).
      { subst j. destruct (Nat.eqb_spec ((hole - 1) / 2) hole); [lia|]. lia. }
      destruct (Nat.eqb_spec ((j - 1) / 2) hole).
      { apply Hc; auto. }
      apply Hok; auto.
Qed.

(* ------------------------------------------------------------------ push_heap *)

Lemma push_heap_length : forall a, length (push_heap a) = length a.
Proof. destruct a; auto. unfold push_heap. rewrite push_loop_length. reflexivity. Qed.

Lemma push_heap_cnt : forall a x, cnt (push_heap a) x = cnt a x.
Proof.
  intros. destruct a as [|h r]; auto.
  unfold push_heap. remember (h :: r) as a.
  assert (0 < length a)%nat by (subst; simpl; lia).
  rewrite push_loop_cnt by lia. unfold hnth. rewrite upd_nth_same. reflexivity.
Qed.

Lemma push_heap_perm : forall a, Permutation (push_heap a) a.
Proof. intros. apply cnt_perm. apply push_heap_cnt. Qed.

Lemma ht_app_l : forall l v i, (i < length l)%nat -> ht (l ++ [v]) i = ht l i.
Proof. intros. unfold ht, hnth. rewrite app_nth1; auto. Qed.

Lemma upd_app_last : forall (l : list handle) v w, upd (l ++ [v]) (length l) w = l ++ [w].
Proof. induction l; simpl; intros; auto. f_equal. auto. Qed.

Lemma push_heap_ok : forall l v, heap_ok l -> heap_ok (push_heap (l ++ [v])).
Proof.
  intros l v Hok. destruct l as [|h r].
  - simpl. apply heap_ok_single.
  - remember (h :: r) as l. assert (Hl : (0 < length l)%nat) by (subst; simpl; lia).
    unfold push_heap. destruct (l ++ [v]) eqn:E; [destruct l; discriminate|]. rewrite <- E. clear E.
    rewrite app_length. simpl length. replace (length l + 1 - 1)%nat with (length l) by lia.
    assert (Hv : hnth (l ++ [v]) (length l) = v).
    { unfold hnth. rewrite app_nth2 by lia. rewrite Nat.sub_diag. reflexivity. }
    rewrite Hv.
    set (w := hnth l ((length l - 1) / 2)).
    rewrite <- (push_loop_irrel _ _ _ _ w) by (rewrite app_length; simpl; lia).
    rewrite upd_app_last.
    assert (Hp : ((length l - 1) / 2 < length l)%nat) by (apply Nat.div_lt_upper_bound; lia).
    apply push_loop_heap_ok.
    + red. rewrite app_length. simpl length. intros i Hi.
      destruct (Nat.eq_dec i (length l)).
      * subst i. rewrite ht_app_l by lia. unfold ht at 2, hnth. rewrite app_nth2 by lia.
        rewrite Nat.sub_diag. simpl. unfold w, ht. lia.
      * assert (((i - 1) / 2 < i)%nat) by (apply Nat.div_lt_upper_bound; lia).
        rewrite !ht_app_l by lia. apply Hok. lia.
    + rewrite app_length. simpl. lia.
    + lia.
    + rewrite app_length. simpl length. intros c Hc Hcp.
      assert (length l <= (c - 1) / 2)%nat by lia.
      assert (((c - 1) / 2 < c)%nat) by (apply Nat.div_lt_upper_bound; lia). lia.
Qed.

(* ------------------------------------------------------------------ adjust_down / adjust_heap *)

Lemma adjust_down_spec : forall fuel a hole a' hole',
  adjust_down fuel a hole (length a) = (a', hole') ->
  (hole < length a)%nat -> heap_ok a -> (length a <= fuel + hole)%nat ->
  length a' = length a /\ (hole' < length a)%nat /\ heap_ok a' /\
  ~ (hole' < (length a - 1) / 2)%nat /\
  (forall v x, cnt (upd a' hole' v) x = cnt (upd a hole v) x).
Proof.
  induction fuel; intros a hole a' hole' H Hh Hok Hf.
  - simpl in H. inversion H; subst. repeat split; auto. lia.
  - simpl in H.
    destruct (Nat.ltb_spec hole ((length a - 1) / 2)).
    2:{ inversion H; subst. repeat split; auto. lia. }
    set (sc := (2 * (hole + 1))%nat) in *.
    set (c := if ht a (sc - 1) <? ht a sc then (sc - 1)%nat else sc) in *.
    assert (Hsc : (sc < length a)%nat) by (unfold sc; lia).
    assert (Hc : (c = sc - 1 \/ c = sc)%nat) by (unfold c; destruct (_ <? _); auto).
    assert (Hmin : ht a c <= ht a (sc - 1) /\ ht a c <= ht a sc).
    { unfold c. destruct (Z.ltb_spec (ht a (sc - 1)) (ht a sc)); lia. }
    assert (Hcl : (c < length a)%nat) by lia.
    assert (Hne : hole <> c) by (unfold sc in *; lia).
    pose proof (IHfuel (upd a hole (hnth a c)) c a' hole') as IH.
    rewrite upd_length in IH. specialize (IH H Hcl).
    assert (Hok' : heap_ok (upd a hole (hnth a c))).
    { red. rewrite upd_length. intros j Hj. rewrite !ht_upd by auto.
      pose proof (Hok j Hj) as Hj1.
      destruct (Nat.eqb_spec j hole).
      - subst j. destruct (Nat.eqb_spec ((hole - 1) / 2) hole); [lia|].
        pose proof (Hok c ltac:(lia)) as Hc1.
        assert (Hc2 : ((c - 1) / 2)%nat = hole) by (unfold sc in *; lia).
        rewrite Hc2 in Hc1. change (h_time (hnth a c)) with (ht a c). lia.
      - destruct (Nat.eqb_spec ((j - 1) / 2) hole); auto.
        assert (Hj2 : (j = sc - 1 \/ j = sc)%nat) by (unfold sc; lia).
        change (h_time (hnth a c)) with (ht a c). destruct Hj2; subst j; lia. }
    specialize (IH Hok' ltac:(unfold sc in *; lia)).
    destruct IH as (L & Hl & Hk & Hx & Hcnt). repeat split; auto.
    intros v x. rewrite Hcnt. apply cnt_swap; auto.
Qed.

Lemma adjust_heap_spec : forall a v, (0 < length a)%nat -> heap_ok a ->
  length (adjust_heap a (length a) v) = length a /\
  heap_ok (adjust_heap a (length a) v) /\
  (forall x, cnt (adjust_heap a (length a) v) x = cnt (upd a 0 v) x).
Proof.
  intros a v Hl Hok. unfold adjust_heap.
  destruct (adjust_down (length a) a 0 (length a)) as [a1 hole] eqn:E.
  apply adjust_down_spec in E; auto; try lia.
  destruct E as (L1 & Hh & Hok1 & Hex & Hcnt).
  set (len := length a) in *.
  destruct (Nat.even len && (hole =? (len - 2) / 2)%nat) eqn:Ev.
  - apply andb_prop in Ev. destruct Ev as [Ev Hq].
    apply Nat.even_spec in Ev. destruct Ev as [m Hm].
    apply Nat.eqb_eq in Hq.
    set (sc := (2 * (hole + 1))%nat).
    assert (Hsc : (sc - 1 < len)%nat) by (unfold sc; lia).
    assert (Hne : hole <> (sc - 1)%nat) by (unfold sc; lia).
    rewrite push_loop_length, upd_length. split; [lia|]. split.
    + apply push_loop_heap_ok.
      * red. rewrite upd_length. intros j Hj. rewrite !ht_upd by lia.
        pose proof (Hok1 j Hj) as Hj1.
        destruct (Nat.eqb_spec j hole).
        { subst j. destruct (Nat.eqb_spec ((hole - 1) / 2) hole); [lia|].
          pose proof (Hok1 (sc - 1)%nat ltac:(lia)) as Hc1.
          assert (Hc2 : ((sc - 1 - 1) / 2)%nat = hole) by (unfold sc; lia).
          rewrite Hc2 in Hc1. change (h_time (hnth a1 (sc - 1))) with (ht a1 (sc - 1)). lia. }
        destruct (Nat.eqb_spec ((j - 1) / 2) hole); auto.
        assert (Hj2 : (j = sc - 1)%nat) by (unfold sc; lia). subst j.
        change (h_time (hnth a1 (sc - 1))) with (ht a1 (sc - 1)). lia.
      * rewrite upd_length. lia.
      * lia.
      * rewrite upd_length. intros c Hc Hcp. unfold sc in *. lia.
    + intros x. rewrite push_loop_cnt by (rewrite upd_length; lia).
      rewrite cnt_swap by lia. apply Hcnt.
  - rewrite push_loop_length. split; [lia|]. split.
    + apply push_loop_heap_ok; auto; try lia.
      intros c Hc Hcp. exfalso.
      apply andb_false_iff in Ev. destruct Ev as [Ev|Ev].
      * assert (Nat.odd len = true) by (rewrite <- Nat.negb_even, Ev; auto).
        apply Nat.odd_spec in H. destruct H as [m Hm]. lia.
      * apply Nat.eqb_neq in Ev.
        destruct (Nat.even len) eqn:E2.
        { apply Nat.even_spec in E2. destruct E2 as [m Hm]. lia. }
        { assert (Nat.odd len = true) by (rewrite <- Nat.negb_even, E2; auto).
          apply Nat.odd_spec in H. destruct H as [m Hm]. lia. }
    + intros x. rewrite push_loop_cnt by lia. apply Hcnt.
Qed.

(* ------------------------------------------------------------------ heap_pop *)

Lemma removelast_length : forall A (l : list A), length (removelast l) = (length l - 1)%nat.
Proof.
  intros. destruct l using rev_ind; auto.
  rewrite removelast_last, app_length. simpl. lia.
Qed.

Lemma heap_ok_removelast : forall a, heap_ok a -> heap_ok (removelast a).
Proof.
  intros a H. destruct a using rev_ind; auto.
  rewrite removelast_last. red. intros i Hi.
  assert (((i - 1) / 2 < i)%nat) by (apply Nat.div_lt_upper_bound; lia).
  specialize (H i). rewrite app_length in H. simpl in H.
  rewrite !ht_app_l in H by lia. apply H. lia.
Qed.

Lemma last_nth : forall A (l : list A) d, last l d = nth (length l - 1) l d.
Proof.
  induction l as [|x l IH]; intros; auto. destruct l as [|y l]; auto.
  change (last (x :: y :: l) d) with (last (y :: l) d). rewrite IH.
  replace (length (x :: y :: l) - 1)%nat with (S (length (y :: l) - 1)) by (simpl; lia).
  reflexivity.
Qed.

Lemma heap_pop_spec : forall a, a <> [] -> heap_ok a ->
  length (heap_pop a) = (length a - 1)%nat /\
  heap_ok (heap_pop a) /\
  (forall x, (cnt (heap_pop a) x + ind (hnth a 0) x = cnt a x)%nat).
Proof.
  intros a Hne Hok.
  destruct a as [|h0 r]; [congruence|].
  destruct r as [|h1 r].
  - simpl. split; auto. split; [apply heap_ok_nil|]. intros. unfold cnt, ind, hnth. simpl.
    destruct (handle_eq_dec h0 x); lia.
  - remember (h0 :: h1 :: r) as a.
    assert (Hlen : (2 <= length a)%nat) by (subst; simpl; lia).
    assert (heap_pop a = adjust_heap (removelast a) (length a - 1) (hnth a (length a - 1))).
    { subst a. reflexivity. }
    rewrite H. clear H.
    pose proof (removelast_length _ a) as RL.
    pose proof (adjust_heap_spec (removelast a) (hnth a (length a - 1)) ltac:(lia)
                  (heap_ok_removelast _ Hok)) as (L & Ok & C).
    rewrite RL in L, Ok, C.
    split; [lia|]. split; auto.
    intros x. rewrite C.
    pose proof (cnt_upd (removelast a) 0 (hnth a (length a - 1)) x ltac:(lia)) as H.
    assert (Hsplit : a = removelast a ++ [hnth a (length a - 1)]).
    { rewrite (app_removelast_last dummy) at 1 by (subst; discriminate).
      f_equal. f_equal. unfold hnth. apply last_nth. }
    assert (hnth (removelast a) 0 = hnth a 0).
    { rewrite Hsplit at 2. unfold hnth. rewrite app_nth1 by lia. reflexivity. }
    rewrite H0 in H.
    assert (cnt a x = cnt (removelast a) x + ind (hnth a (length a - 1)) x)%nat.
    { rewrite Hsplit at 1. unfold cnt, ind. rewrite count_occ_app. simpl.
      destruct (handle_eq_dec _ x); lia. }
    lia.
Qed.

Lemma heap_pop_perm : forall h0 r, heap_ok (h0 :: r) -> Permutation (h0 :: heap_pop (h0 :: r)) (h0 :: r).
Proof.
  intros. apply cnt_perm. intros x.
  destruct (heap_pop_spec (h0 :: r) ltac:(discriminate) H) as (_ & _ & C).
  specialize (C x). unfold cnt, ind, hnth in *. simpl nth in C.
  remember (heap_pop (h0 :: r)) as q. remember (count_occ handle_eq_dec (h0 :: r) x) as k.
  simpl. destruct (handle_eq_dec h0 x); lia.
Qed.

(* ------------------------------------------------------------------ pop_while *)

Lemma pop_while_spec : forall p fuel a, heap_ok a -> (length a <= fuel)%nat ->
  let b := pop_while p fuel a in
  heap_ok b /\
  (forall h, In h b -> In h a) /\
  (forall h, In h a -> p h = false -> In h b) /\
  (NoDup (map h_id a) -> NoDup (map h_id b)) /\
  match b with [] => True | h0 :: _ => p h0 = false end.
Proof.
  induction fuel; intros a Hok Hf; simpl.
  - destruct a; simpl in *; try lia. repeat split; auto.
  - destruct a as [|h0 r].
    + repeat split; auto.
    + destruct (p h0) eqn:P.
      * pose proof (heap_pop_spec (h0 :: r) ltac:(discriminate) Hok) as (L & Ok & _).
        pose proof (heap_pop_perm h0 r Hok) as Pm.
        specialize (IHfuel (heap_pop (h0 :: r)) Ok ltac:(simpl in *; lia)).
        destruct IHfuel as (A & B & C & D & E).
        split; auto. split; [|split; [|split]]; auto.
        -- intros h Hin. apply B in Hin. eapply Permutation_in; [exact Pm|]. right. auto.
        -- intros h Hin Hp. apply C; auto.
           apply Permutation_sym in Pm. apply (Permutation_in _ Pm) in Hin.
           destruct Hin; auto. subst. congruence.
        -- intros ND. apply D.
           assert (NoDup (map h_id (h0 :: heap_pop (h0 :: r)))).
           { eapply Permutation_NoDup; [|exact ND]. apply Permutation_map. apply Permutation_sym. auto. }
           simpl in H. inversion H; auto.
      * repeat split; auto.
Qed.
