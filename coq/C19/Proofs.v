(* C19 -- final statements (for all environments = handler scripts, all op lists). *)
From Coq Require Import ZArith List Bool Arith Lia Permutation Sorted.
From LTV.C19 Require Import ParamsGen.
From LTV.C19 Require Import Model AModel ProofsHeap ProofsSched ProofsRun AProofs ProofsSim.
Import ListNotations.
Open Scope Z_scope.

Definition wf_env (E : env) (n : nat) : Prop := forall e, valid E e = true -> (e < n)%nat.

Lemma push_heap_keeps_heap : forall l v, heap_ok l ->
  heap_ok (push_heap (l ++ [v])) /\ Permutation (push_heap (l ++ [v])) (l ++ [v]).
Proof. intros. split; [apply push_heap_ok; auto|apply push_heap_perm]. Qed.

Lemma pop_heap_keeps_heap : forall h0 r, heap_ok (h0 :: r) ->
  heap_ok (heap_pop (h0 :: r)) /\ Permutation (h0 :: heap_pop (h0 :: r)) (h0 :: r) /\
  (forall h, In h (h0 :: r) -> h_time h0 <= h_time h).
Proof.
  intros. split; [|split].
  - apply heap_pop_spec; auto. discriminate.
  - apply heap_pop_perm; auto.
  - intros. eapply heap_front_min; eauto.
Qed.

(* T1: every op list keeps heap order + the handle/entry bijection (no dangling m_handle) *)
Lemma heap_ok_inv : forall E n ops s' outs, wf_env E n ->
  run E (init n) ops = (s', outs) -> Inv E s'.
Proof. intros. eapply run_refines; eauto. apply init_inv. auto. Qed.

(* T2: refinement to the map spec: the run is a Run of abstract effects on [due] *)
Lemma refines : forall E n ops s' outs, wf_env E n ->
  run E (init n) ops = (s', outs) -> Run E (init n) ops outs s'.
Proof. intros. eapply run_refines; eauto. apply init_inv. auto. Qed.

Lemma reachable_perform_refines : forall E n ops s outs t s' evs oc, wf_env E n ->
  run E (init n) ops = (s, outs) -> perform E (e_fuel E) s t = (s', evs, oc) ->
  Dispatch E t (e_fuel E) s evs oc s'.
Proof. intros. apply perform_refines; auto. eapply heap_ok_inv; eauto. Qed.

Lemma never_early : forall E t k s s' evs oc, Inv E s -> perform E k s t = (s', evs, oc) ->
  forall e d, In (EFire e d) evs -> d <= t.
Proof. intros. eapply dispatch_never_early; eauto. apply perform_refines; eauto. Qed.

Lemma not_late : forall E t k s s' evs, Inv E s -> perform E k s t = (s', evs, Done) ->
  forall e d, due s' e d -> t < d.
Proof. intros. eapply dispatch_not_late; eauto. apply perform_refines; eauto. Qed.

Lemma fire_order : forall E t k s s' e d rest oc, Inv E s ->
  perform E k s t = (s', EFire e d :: rest, oc) ->
  due s e d /\ d <= t /\ (forall e' d', due s e' d' -> d <= d').
Proof. intros. eapply dispatch_first_min. apply perform_refines; eauto. Qed.

Lemma fire_order_sorted : forall E t k s s' evs oc, Inv E s -> (forall e, script E e = []) ->
  perform E k s t = (s', evs, oc) -> Sorted Z.le (fired_times evs).
Proof. intros. eapply dispatch_sorted; eauto. apply perform_refines; eauto. Qed.

Lemma fires_facts : forall E t s e d s1, fires E t s e d s1 ->
  Inv E s1 /\ handle_of s1 e = None /\ (forall d', ~ due s1 e d') /\
  (forall e' d', e' <> e -> (due s1 e' d' <-> due s e' d')).
Proof.
  intros E t s e d s1 (A & B & C & I1 & N1 & U & _).
  split; auto. split; auto. split.
  - intros d' Hd. apply U in Hd. tauto.
  - intros e' d' Hne. split; intros Hd; [apply U in Hd; tauto|apply U; tauto].
Qed.

(* the fired entry is unscheduled before its slot runs: it fires again only if rescheduled *)
Lemma fires_exactly_once : forall E t k s s' e d rest oc, Inv E s ->
  perform E k s t = (s', EFire e d :: rest, oc) ->
  exists s1 s2 os err, Inv E s1 /\ handle_of s1 e = None /\ (forall d', ~ due s1 e d') /\
    (forall e' d', e' <> e -> (due s1 e' d' <-> due s e' d')) /\
    run_script E s1 (script E e) = (s2, os, err) /\
    (err = true -> rest = map EOut os /\ oc = Aborted /\ s' = s2) /\
    (err = false -> exists k' evs, k = S k' /\ rest = map EOut os ++ evs /\ Dispatch E t k' s2 evs oc s').
Proof.
  intros E t k s s' e d rest oc I H. apply perform_refines in H; auto.
  inversion H; subst;
    match goal with F : fires _ _ _ _ _ _ |- _ => destruct (fires_facts _ _ _ _ _ _ F) as (I1 & N1 & X1 & X2) end.
  - exists s1, s', os, true.
    split; auto. split; auto. split; auto. split; auto. split; auto. split; [auto|discriminate].
  - exists s1, s2, os, false.
    split; auto. split; auto. split; auto. split; auto. split; auto. split; [discriminate|].
    intros _. eauto.
Qed.

Lemma erase_prevents : forall E s e s', Inv E s -> exec_basic E s (Erase e) = (s', OOk) ->
  Inv E s' /\ (forall d, ~ due s' e d) /\ (forall e' d, e' <> e -> (due s' e' d <-> due s e' d)).
Proof.
  intros E s e s' I H. apply exec_basic_spec in H; auto. destruct H as (I' & [[X _]|(_ & U & _)]); [discriminate|].
  split; auto. split.
  - intros d Hd. apply U in Hd. tauto.
  - intros e' d Hne. split; intros Hd; [apply U in Hd; tauto|apply U; tauto].
Qed.

Lemma update_moves : forall E s e t s', Inv E s -> exec_basic E s (UpdUntil e t) = (s', OOk) ->
  Inv E s' /\ due s' e t /\ (forall d, due s' e d -> d = t) /\
  (forall e' d, e' <> e -> (due s' e' d <-> due s e' d)).
Proof.
  intros E s e t s' I H. apply exec_basic_spec in H; auto. destruct H as (I' & [[X _]|(_ & U & _)]); [discriminate|].
  split; auto. split; [apply U; auto|]. split.
  - intros d Hd. apply U in Hd. destruct Hd as [[_ ->]|[X _]]; auto. congruence.
  - intros e' d Hne. split; intros Hd.
    + apply U in Hd. destruct Hd as [[X _]|[_ X]]; auto. congruence.
    + apply U. auto.
Qed.

Lemma next_timeout_sound : forall E s m s' o, Inv E s -> exec_basic E s (NextTimeout m) = (s', o) ->
  exists r, o = ONext r /\
    (forall e d, due s e d -> r <= Z.max 0 (d - now s)) /\ (0 <= m -> 0 <= r <= m) /\
    ((forall e d, ~ due s e d) -> r = m) /\ (forall e d, due s' e d <-> due s e d).
Proof.
  intros E s m s' o I H. simpl in H. apply next_timeout_spec with (E := E) in H; auto.
  destruct H as (_ & _ & SD & r & -> & (A & B & C)). exists r. auto.
Qed.

(* The documented API preconditions, as a boolean: internal_error is thrown exactly when they fail. *)
Definition scheduled_here (s : state) (e : nat) : bool :=
  match handle_of s e with Some _ => true | None => false end.
Definition time_ok (lo t : Z) : bool := negb (t =? 0) && negb (t <? lo).   (* nonzero and >= 365 days *)
Definition wait_pre (E : env) (s : state) (e : nat) (t : Z) : bool :=
  time_ok min_time_wait t && valid E e               (* slot set *)
  && negb (scheduled_here s e) && negb (foreign E e). (* not scheduled, here or elsewhere *)
Definition update_pre (E : env) (s : state) (e : nat) (t : Z) : bool :=
  time_ok min_time_update t && valid E e
  && (scheduled_here s e || negb (foreign E e)).      (* not scheduled in another scheduler *)
Definition api_pre (E : env) (s : state) (b : bop) : bool :=
  match b with
  | WaitUntil e t => wait_pre E s e t
  | WaitFor e dt => negb (dt >? max_for Params.sched_max_years_wait_for) && wait_pre E s e (now s + dt)
  | WaitForCeil e dt => negb (dt >? max_for Params.sched_max_years_wait_for_ceil) && wait_pre E s e (ceil_seconds (now s + dt))
  | UpdUntil e t => update_pre E s e t
  | UpdFor e dt => negb (dt >? max_for Params.sched_max_years_update_for) && update_pre E s e (now s + dt)
  | UpdForCeil e dt => negb (dt >? max_for Params.sched_max_years_update_for_ceil) && update_pre E s e (ceil_seconds (now s + dt))
  | Erase e => if scheduled_here s e then valid E e else negb (foreign E e)
  | NextTimeout _ => true
  | SetNow _ => true
  end.

Lemma wait_until_err_iff : forall E s e t, snd (wait_until E s e t) = OErr <-> wait_pre E s e t = false.
Proof.
  intros. unfold wait_until, wait_pre, time_ok, scheduled_here.
  destruct (t =? 0), (t <? min_time_wait), (valid E e), (handle_of s e), (foreign E e); simpl;
    split; intros; congruence.
Qed.

Lemma update_wait_until_err_iff : forall E s e t, snd (update_wait_until E s e t) = OErr <-> update_pre E s e t = false.
Proof.
  intros. unfold update_wait_until, update_pre, time_ok, scheduled_here.
  destruct (t =? 0), (t <? min_time_update), (valid E e), (handle_of s e), (foreign E e); simpl;
    split; intros; congruence.
Qed.

Lemma internal_error_iff : forall E s b, snd (exec_basic E s b) = OErr <-> api_pre E s b = false.
Proof.
  intros E s b. destruct b; simpl.
  - apply wait_until_err_iff.
  - destruct (dt >? _); simpl; [split; auto|apply wait_until_err_iff].
  - destruct (dt >? _); simpl; [split; auto|apply wait_until_err_iff].
  - apply update_wait_until_err_iff.
  - destruct (dt >? _); simpl; [split; auto|apply update_wait_until_err_iff].
  - destruct (dt >? _); simpl; [split; auto|apply update_wait_until_err_iff].
  - unfold erase, scheduled_here. destruct (handle_of s e), (valid E e), (foreign E e); simpl; split; intros; congruence.
  - unfold next_timeout. destruct (pop_while _ _ _); simpl; [split; intros; discriminate|].
    destruct (_ >=? _); simpl; split; intros; discriminate.
  - split; intros; discriminate.
Qed.

Lemma no_internal_error : forall E s e t,
  Z.max min_time_wait min_time_update <= t -> t <> 0 -> valid E e = true -> foreign E e = false ->
  (handle_of s e = None -> snd (exec_basic E s (WaitUntil e t)) = OOk) /\
  snd (exec_basic E s (UpdUntil e t)) = OOk /\ snd (exec_basic E s (Erase e)) = OOk.
Proof.
  intros E s e t Ht H0 V F. simpl. unfold wait_until, update_wait_until, erase. rewrite V, F. simpl.
  destruct (Z.eqb_spec t 0); [contradiction|].
  destruct (Z.ltb_spec t min_time_wait); [lia|].
  destruct (Z.ltb_spec t min_time_update); [lia|].
  split; [intros ->; auto|]. split; destruct (handle_of s e); auto.
Qed.

(* one iteration of the event loop never programs a poll timeout that passes a pending timer *)
Lemma loop_never_oversleeps : forall E s t1 d m c s' evs, Inv E s -> no_setnow E ->
  loop E s t1 d m c = (s', evs) ->
  forall tnow snow r, In (ELoop tnow snow r) evs ->
    tnow = t1 + d /\ snow = t1 + d /\ now s' = t1 + d /\ 0 <= r <= Z.max m 0 /\
    forall e dd, due s' e dd -> r = 0 \/ tnow + r <= dd.
Proof. exact ProofsRun.loop_never_oversleeps. Qed.

Lemma loop_refines : forall E s t1 d m c s' evs, Inv E s -> loop E s t1 d m c = (s', evs) ->
  Inv E s' /\ LoopIter E s t1 d m c evs s'.
Proof. exact ProofsRun.loop_refines. Qed.

(* utils::ceil_seconds / wait_for_ceil_seconds rounding *)
Lemma ceil_seconds_round : forall t, 0 <= t ->
  t <= ceil_seconds t < t + 1000000 /\ ceil_seconds t mod 1000000 = 0.
Proof.
  intros t Ht. unfold ceil_seconds. rewrite Z.quot_div_nonneg by lia.
  split; [|apply Z_mod_mult].
  pose proof (Z.div_mod (t + 1000000 - 1) 1000000 ltac:(lia)).
  pose proof (Z.mod_pos_bound (t + 1000000 - 1) 1000000 ltac:(lia)). lia.
Qed.

(* duration_cast truncates toward zero, so for negative times the result can be a full second
   or more after the argument (irrelevant for accepted timers: they are >= 365 days) *)
Lemma ceil_seconds_negative_refuted : exists t, t < 0 /\ ~ (ceil_seconds t < t + 1000000).
Proof. exists (-1500000). split; [lia|]. vm_compute. intro H. discriminate H. Qed.

Lemma ceil_seconds_pos_inv : forall x, 0 < ceil_seconds x -> 0 <= x.
Proof.
  intros x H. unfold ceil_seconds in H. destruct (Z_lt_le_dec x 0); auto. exfalso.
  assert (Z.quot (x + 1000000 - 1) 1000000 <= 0); [|lia].
  destruct (Z_lt_le_dec (x + 1000000 - 1) 0).
  - pose proof (Z.quot_opp_l (x + 1000000 - 1) 1000000 ltac:(lia)).
    pose proof (Z.quot_pos (- (x + 1000000 - 1)) 1000000 ltac:(lia) ltac:(lia)). lia.
  - rewrite Z.quot_small; lia.
Qed.

(* a successful wait_for_ceil_seconds / update_wait_for_ceil_seconds schedules the entry on a whole
   second, never earlier than cached_time + dt and less than one second later *)
Lemma wait_for_ceil_rounding : forall E s e dt s' b, 0 < min_time_wait -> 0 < min_time_update -> Inv E s ->
  b = WaitForCeil e dt \/ b = UpdForCeil e dt -> exec_basic E s b = (s', OOk) ->
  exists D, due s' e D /\ now s + dt <= D < now s + dt + 1000000 /\ D mod 1000000 = 0.
Proof.
  intros E s e dt s' b P1 P2 I Hb H.
  exists (ceil_seconds (now s + dt)).
  assert (X : due s' e (ceil_seconds (now s + dt)) /\ 0 < ceil_seconds (now s + dt)).
  { destruct Hb; subst b; simpl in H.
    - destruct (dt >? _); [inversion H|].
      apply wait_until_spec in H; auto. destruct H as (_ & _ & [[X _]|(_ & M & _ & _ & SD)]); [discriminate|].
      split; [apply SD; auto|lia].
    - destruct (dt >? _); [inversion H|].
      apply update_wait_until_spec in H; auto. destruct H as (_ & _ & [[X _]|(_ & M & _ & SD)]); [discriminate|].
      split; [apply SD; auto|lia]. }
  destruct X as (D & Pos). split; auto.
  apply ceil_seconds_round. apply ceil_seconds_pos_inv. auto.
Qed.

(* two schedulers: both sides keep their invariant for every op list *)
Lemma inv_env : forall E E' s, (forall e, valid E e = valid E' e) -> Inv E s -> Inv E' s.
Proof.
  intros E E' s Hv I. destruct I. constructor; auto.
  intros e He. apply inv_len. rewrite Hv. auto.
Qed.

Lemma step_inv : forall E s o s' evs, Inv E s -> step E s o = (s', evs) -> Inv E s'.
Proof.
  intros E s o s' evs I H.
  pose proof (run_refines E [o] s s' [evs] I) as X. simpl in X. rewrite H in X.
  apply X. reflexivity.
Qed.

Lemma run2_inv_gen : forall E ops st st' outs, Inv E (fst st) -> Inv E (snd st) ->
  run2 E st ops = (st', outs) -> Inv E (fst st') /\ Inv E (snd st').
Proof.
  induction ops as [|o r IH]; simpl; intros st st' outs IA IB H.
  - inversion H; subst. auto.
  - destruct st as [sA sB]. simpl in IA, IB. unfold step2 in H.
    destruct o as [o|b].
    + destruct (step (with_foreign E (sched_mask sB)) sA o) as [sA' evs] eqn:S.
      destruct (run2 E (sA', sB) r) as [st2 ls] eqn:R. inversion H; subst.
      apply step_inv in S; [|eapply inv_env; [|exact IA]; reflexivity].
      eapply IH; [| |exact R]; simpl; auto. eapply inv_env; [|exact S]. reflexivity.
    + destruct (exec_basic (with_foreign E (sched_mask sA)) sB b) as [sB' o'] eqn:S.
      destruct (run2 E (sA, sB') r) as [st2 ls] eqn:R. inversion H; subst.
      apply exec_basic_spec in S; [|eapply inv_env; [|exact IB]; reflexivity]. destruct S as (S & _).
      eapply IH; [| |exact R]; simpl; auto. eapply inv_env; [|exact S]. reflexivity.
Qed.

Lemma run2_inv : forall E n ops sA sB outs, wf_env E n ->
  run2 E (init n, init n) ops = ((sA, sB), outs) -> Inv E sA /\ Inv E sB.
Proof.
  intros E n ops sA sB outs W H.
  apply (run2_inv_gen E ops (init n, init n) (sA, sB) outs); auto; simpl; apply init_inv; auto.
Qed.

(* ------------------------------------------------------------------ non-vacuity examples *)
Definition B : Z := 31536000000000.
Definition exE : env := mkEnv [[Erase 1%nat; UpdUntil 0%nat (B + 9)]; []; [NextTimeout 5]] [true; true; true] 8 [].
Definition exOps : list op :=
  [Basic (WaitUntil 0%nat (B + 3)); Basic (WaitUntil 1%nat (B + 3)); Basic (WaitUntil 2%nat (B + 3));
   Basic (SetNow (B + 3)); Perform (B + 3); Basic (NextTimeout 100); Perform (B + 8)].

Example ex_wf : wf_env exE 3.
Proof. intros e. destruct e as [|[|[|e]]]; simpl; intros; try lia. destruct e; discriminate. Qed.

Example ex_run : snd (run exE (init 3) exOps) =
  [[EOut OOk]; [EOut OOk]; [EOut OOk]; [EOut OOk];
   [EFire 0%nat (B + 3); EOut OOk; EOut OOk; EFire 2%nat (B + 3); EOut (ONext 5)];
   [EOut (ONext 6)]; []].
Proof. vm_compute. reflexivity. Qed.

Definition exS : state := fst (run exE (init 3) (firstn 4 exOps)).

Example ex_inv : Inv exE exS.
Proof.
  eapply heap_ok_inv with (n := 3%nat) (ops := firstn 4 exOps); [apply ex_wf|apply surjective_pairing].
Qed.

Example ex_fire_hyp : Inv exE exS /\ exists s' rest,
  perform exE 8 exS (B + 3) = (s', EFire 0%nat (B + 3) :: rest, Done).
Proof. split; [apply ex_inv|]. eexists. eexists. vm_compute. reflexivity. Qed.

Example ex_erase_update_hyp : Inv exE exS /\ due exS 1%nat (B + 3) /\ due exS 0%nat (B + 3) /\
  (exists s1, exec_basic exE exS (Erase 1%nat) = (s1, OOk)) /\
  (exists s2, exec_basic exE exS (UpdUntil 0%nat (B + 7)) = (s2, OOk)) /\
  (exists s3, exec_basic exE exS (NextTimeout 10) = (s3, ONext 0)).
Proof.
  split; [apply ex_inv|]. split; [|split].
  - eexists. vm_compute. split; [right; left; reflexivity|split; reflexivity].
  - eexists. vm_compute. split; [left; reflexivity|split; reflexivity].
  - split; [|split]; eexists; vm_compute; reflexivity.
Qed.

(* a timer that becomes due while call_events is busy (clock B+1 -> B+301) fires in the same
   iteration; the next poll timeout is measured from the refreshed clock: 1000 - 301 = 699 *)
Definition exE2 : env := mkEnv [[]; [UpdFor 0%nat 5]] [true; true] 8 [].
Definition exS2 : state := fst (run exE2 (init 2) [Basic (WaitUntil 0%nat (B + 1000)); Basic (WaitUntil 1%nat (B + 50))]).

Example ex_loop_hyp : Inv exE2 exS2 /\ no_setnow exE2 /\ exists s',
  loop exE2 exS2 (B + 1) 300 600000000 None = (s', [EFire 1%nat (B + 50); EOut OOk; ELoop (B + 301) (B + 301) 5]).
Proof.
  split; [|split].
  - eapply heap_ok_inv with (n := 2%nat); [|apply surjective_pairing].
    intros e. destruct e as [|[|e]]; simpl; intros; try lia. destruct e; discriminate.
  - intros e b. unfold script. destruct e as [|[|e]]; simpl; try tauto.
    + intros [<-|[]]. reflexivity.
    + destruct e; simpl; tauto.
  - eexists. vm_compute. reflexivity.
Qed.

(* choice-driven model: three timers due at the same time; both tie-breaking orders are accepted
   (entry 0's slot erases entry 1 and re-arms itself later), a non-minimal choice is not *)
Definition exA : astate := mkA [Some (B + 3); Some (B + 3); Some (B + 3)] (B + 3).
Example ex_choice_hyp :
  (exists a1 evs, aperform pC exE 8 exA (B + 3) [0; 2]%nat = (a1, evs, ADone)) /\
  (exists a1 evs, aperform pC exE 8 exA (B + 3) [2; 1; 0]%nat = (a1, evs, ADone)) /\
  (exists a1 evs, aperform pC exE 8 exA (B + 3) [0; 1]%nat = (a1, evs, ABad)).
Proof. split; [|split]; eexists; eexists; vm_compute; reflexivity. Qed.
