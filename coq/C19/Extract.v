From Coq Require Import Extraction ExtrOcamlBasic.
From LTV.C19 Require Import Model AModel.
Set Extraction Optimize.
Extraction Language OCaml.
Extraction "extracted/c19_model.ml" init run run2 due_of ainit arun2.
