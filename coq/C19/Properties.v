(* C19 -- theorems (statements only; proofs in Proofs*.v). For all environments E (handler
   scripts, validity flags, slot budget) and all op lists. [due s e d] = entry e is pending with
   due time d (a live handle in the heap); Inv = heap order + handle/entry bijection. *)
From Coq Require Import ZArith List Sorted.
From LTV.C19 Require Import Model ProofsHeap ProofsSched ProofsRun Proofs ProofsRange.
Import ListNotations.
Open Scope Z_scope.

Theorem push_heap_keeps_heap : forall l v, heap_ok l -> heap_ok (push_heap (l ++ [v])) /\ Permutation.Permutation (push_heap (l ++ [v])) (l ++ [v]).
Proof. exact Proofs.push_heap_keeps_heap. Qed.
Print Assumptions push_heap_keeps_heap.

Theorem pop_heap_keeps_heap : forall h0 r, heap_ok (h0 :: r) ->
  heap_ok (heap_pop (h0 :: r)) /\ Permutation.Permutation (h0 :: heap_pop (h0 :: r)) (h0 :: r) /\
  (forall h, In h (h0 :: r) -> h_time h0 <= h_time h).
Proof. exact Proofs.pop_heap_keeps_heap. Qed.
Print Assumptions pop_heap_keeps_heap.

Theorem heap_ok_inv : forall E n ops s' outs, wf_env E n ->
  run E (init n) ops = (s', outs) -> Inv E s'.
Proof. exact Proofs.heap_ok_inv. Qed.
Print Assumptions heap_ok_inv.

Theorem refines : forall E n ops s' outs, wf_env E n ->
  run E (init n) ops = (s', outs) -> Run E (init n) ops outs s'.
Proof. exact Proofs.refines. Qed.
Print Assumptions refines.

Theorem perform_refines : forall E t k s s' evs oc, Inv E s ->
  perform E k s t = (s', evs, oc) -> Dispatch E t k s evs oc s'.
Proof. exact ProofsRun.perform_refines. Qed.
Print Assumptions perform_refines.

Theorem never_early : forall E t k s s' evs oc, Inv E s -> perform E k s t = (s', evs, oc) ->
  forall e d, In (EFire e d) evs -> d <= t.
Proof. exact Proofs.never_early. Qed.
Print Assumptions never_early.

Theorem not_late : forall E t k s s' evs, Inv E s -> perform E k s t = (s', evs, Done) ->
  forall e d, due s' e d -> t < d.
Proof. exact Proofs.not_late. Qed.
Print Assumptions not_late.

Theorem fire_order : forall E t k s s' e d rest oc, Inv E s ->
  perform E k s t = (s', EFire e d :: rest, oc) ->
  due s e d /\ d <= t /\ (forall e' d', due s e' d' -> d <= d').
Proof. exact Proofs.fire_order. Qed.
Print Assumptions fire_order.

Theorem fire_order_sorted : forall E t k s s' evs oc, Inv E s -> (forall e, script E e = []) ->
  perform E k s t = (s', evs, oc) -> Sorted Z.le (fired_times evs).
Proof. exact Proofs.fire_order_sorted. Qed.
Print Assumptions fire_order_sorted.

Theorem fires_exactly_once : forall E t k s s' e d rest oc, Inv E s ->
  perform E k s t = (s', EFire e d :: rest, oc) ->
  exists s1 s2 os err, Inv E s1 /\ handle_of s1 e = None /\ (forall d', ~ due s1 e d') /\
    (forall e' d', e' <> e -> (due s1 e' d' <-> due s e' d')) /\
    run_script E s1 (script E e) = (s2, os, err) /\
    (err = true -> rest = map EOut os /\ oc = Aborted /\ s' = s2) /\
    (err = false -> exists k' evs, k = S k' /\ rest = map EOut os ++ evs /\ Dispatch E t k' s2 evs oc s').
Proof. exact Proofs.fires_exactly_once. Qed.
Print Assumptions fires_exactly_once.

Theorem due_functional : forall E s e d1 d2, Inv E s -> due s e d1 -> due s e d2 -> d1 = d2.
Proof. exact ProofsSched.due_fun. Qed.
Print Assumptions due_functional.

Theorem erase_prevents : forall E s e s', Inv E s -> exec_basic E s (Erase e) = (s', OOk) ->
  Inv E s' /\ (forall d, ~ due s' e d) /\ (forall e' d, e' <> e -> (due s' e' d <-> due s e' d)).
Proof. exact Proofs.erase_prevents. Qed.
Print Assumptions erase_prevents.

Theorem update_moves : forall E s e t s', Inv E s -> exec_basic E s (UpdUntil e t) = (s', OOk) ->
  Inv E s' /\ due s' e t /\ (forall d, due s' e d -> d = t) /\
  (forall e' d, e' <> e -> (due s' e' d <-> due s e' d)).
Proof. exact Proofs.update_moves. Qed.
Print Assumptions update_moves.

Theorem next_timeout_sound : forall E s m s' o, Inv E s -> exec_basic E s (NextTimeout m) = (s', o) ->
  exists r, o = ONext r /\
    (forall e d, due s e d -> r <= Z.max 0 (d - now s)) /\ (0 <= m -> 0 <= r <= m) /\
    ((forall e d, ~ due s e d) -> r = m) /\ (forall e d, due s' e d <-> due s e d).
Proof. exact Proofs.next_timeout_sound. Qed.
Print Assumptions next_timeout_sound.

Theorem loop_refines : forall E s t1 d m c s' evs, Inv E s -> loop E s t1 d m c = (s', evs) ->
  Inv E s' /\ LoopIter E s t1 d m c evs s'.
Proof. exact Proofs.loop_refines. Qed.
Print Assumptions loop_refines.

Theorem loop_never_oversleeps : forall E s t1 d m c s' evs, Inv E s -> no_setnow E ->
  loop E s t1 d m c = (s', evs) ->
  forall tnow snow r, In (ELoop tnow snow r) evs ->
    tnow = t1 + d /\ snow = t1 + d /\ now s' = t1 + d /\ 0 <= r <= Z.max m 0 /\
    forall e dd, due s' e dd -> r = 0 \/ tnow + r <= dd.
Proof. exact Proofs.loop_never_oversleeps. Qed.
Print Assumptions loop_never_oversleeps.

Theorem ceil_seconds_round : forall t, 0 <= t ->
  t <= ceil_seconds t < t + 1000000 /\ ceil_seconds t mod 1000000 = 0.
Proof. exact Proofs.ceil_seconds_round. Qed.
Print Assumptions ceil_seconds_round.

Theorem ceil_seconds_negative_refuted : exists t, t < 0 /\ ~ (ceil_seconds t < t + 1000000).
Proof. exact Proofs.ceil_seconds_negative_refuted. Qed.
Print Assumptions ceil_seconds_negative_refuted.

Theorem wait_for_ceil_rounding : forall E s e dt s' b, Inv E s ->
  b = WaitForCeil e dt \/ b = UpdForCeil e dt -> exec_basic E s b = (s', OOk) ->
  exists D, due s' e D /\ now s + dt <= D < now s + dt + 1000000 /\ D mod 1000000 = 0.
Proof. exact Proofs.wait_for_ceil_rounding. Qed.
Print Assumptions wait_for_ceil_rounding.

Theorem run2_inv : forall E n ops sA sB outs, wf_env E n ->
  run2 E (init n, init n) ops = ((sA, sB), outs) -> Inv E sA /\ Inv E sB.
Proof. exact Proofs.run2_inv. Qed.
Print Assumptions run2_inv.

Theorem internal_error_iff : forall E s b, snd (exec_basic E s b) = OErr <-> api_pre E s b = false.
Proof. exact Proofs.internal_error_iff. Qed.
Print Assumptions internal_error_iff.

Theorem no_internal_error : forall E s e t,
  Z.max min_time_wait min_time_update <= t -> t <> 0 -> valid E e = true -> foreign E e = false ->
  (handle_of s e = None -> snd (exec_basic E s (WaitUntil e t)) = OOk) /\
  snd (exec_basic E s (UpdUntil e t)) = OOk /\ snd (exec_basic E s (Erase e)) = OOk.
Proof. exact Proofs.no_internal_error. Qed.
Print Assumptions no_internal_error.

(* int64: under the range hypotheses the checked (int64) evaluation never overflows and equals the model *)
Theorem exec_basic_chk_agrees : forall E s b, Inv E s -> Rng s -> arg_ok b ->
  exec_basic_chk E s b = Some (exec_basic E s b).
Proof. exact ProofsRange.exec_basic_chk_agrees. Qed.
Print Assumptions exec_basic_chk_agrees.

Theorem range_preserved : forall E s b, Inv E s -> Rng s -> arg_ok b -> Rng (fst (exec_basic E s b)).
Proof. exact ProofsRange.range_preserved. Qed.
Print Assumptions range_preserved.

Theorem params_ok_now : params_ok = true /\ 0 < min_time_wait /\ min_time_wait = min_time_update.
Proof. exact Proofs.params_ok_now. Qed.
Print Assumptions params_ok_now.
