(* C19 -- theorems (statements only; proofs in Proofs*.v). For all environments E (handler
   scripts, validity flags, slot budget) and all op lists. [due s e d] = entry e is pending with
   due time d (a live handle in the heap); Inv = heap order + handle/entry bijection. *)
From Coq Require Import ZArith List Sorted.
From LTV.C19 Require Import Model AModel ProofsHeap ProofsSched ProofsRun AProofs ProofsSim Proofs ProofsRange.
Import ListNotations.
Open Scope Z_scope.

Theorem push_heap_keeps_heap : forall l v, heap_ok l -> heap_ok (push_heap (l ++ [v])) /\ Permutation.Permutation (push_heap (l ++ [v])) (l ++ [v]).
Proof. exact Proofs.push_heap_keeps_heap. Qed.
Print Assumptions push_heap_keeps_heap.

Theorem pop_heap_keeps_heap : forall h0 r, heap_ok (h0 :: r) ->
  heap_ok (heap_pop (h0 :: r)) /\ Permutation.Permutation (h0 :: heap_pop (h0 :: r)) (h0 :: r) /\
  (forall h, In h (h0 :: r) -> h_time h0 <= h_time h).
Proof. exact Proofs.pop_heap_keeps_heap. Qed.
Print Assumptions pop_heap_keeps_heap.

Theorem heap_ok_inv : forall E n ops s' outs, wf_env E n ->
  run E (init n) ops = (s', outs) -> Inv E s'.
Proof. exact Proofs.heap_ok_inv. Qed.
Print Assumptions heap_ok_inv.

Theorem refines : forall E n ops s' outs, wf_env E n ->
  run E (init n) ops = (s', outs) -> Run E (init n) ops outs s'.
Proof. exact Proofs.refines. Qed.
Print Assumptions refines.

Theorem perform_refines : forall E t k s s' evs oc, Inv E s ->
  perform E k s t = (s', evs, oc) -> Dispatch E t k s evs oc s'.
Proof. exact ProofsRun.perform_refines. Qed.
Print Assumptions perform_refines.

Theorem never_early : forall E t k s s' evs oc, Inv E s -> perform E k s t = (s', evs, oc) ->
  forall e d, In (EFire e d) evs -> d <= t.
Proof. exact Proofs.never_early. Qed.
Print Assumptions never_early.

Theorem not_late : forall E t k s s' evs, Inv E s -> perform E k s t = (s', evs, Done) ->
  forall e d, due s' e d -> t < d.
Proof. exact Proofs.not_late. Qed.
Print Assumptions not_late.

Theorem fire_order : forall E t k s s' e d rest oc, Inv E s ->
  perform E k s t = (s', EFire e d :: rest, oc) ->
  due s e d /\ d <= t /\ (forall e' d', due s e' d' -> d <= d').
Proof. exact Proofs.fire_order. Qed.
Print Assumptions fire_order.

Theorem fire_order_sorted : forall E t k s s' evs oc, Inv E s -> (forall e, script E e = []) ->
  perform E k s t = (s', evs, oc) -> Sorted Z.le (fired_times evs).
Proof. exact Proofs.fire_order_sorted. Qed.
Print Assumptions fire_order_sorted.

Theorem fires_exactly_once : forall E t k s s' e d rest oc, Inv E s ->
  perform E k s t = (s', EFire e d :: rest, oc) ->
  exists s1 s2 os err, Inv E s1 /\ handle_of s1 e = None /\ (forall d', ~ due s1 e d') /\
    (forall e' d', e' <> e -> (due s1 e' d' <-> due s e' d')) /\
    run_script E s1 (script E e) = (s2, os, err) /\
    (err = true -> rest = map EOut os /\ oc = Aborted /\ s' = s2) /\
    (err = false -> exists k' evs, k = S k' /\ rest = map EOut os ++ evs /\ Dispatch E t k' s2 evs oc s').
Proof. exact Proofs.fires_exactly_once. Qed.
Print Assumptions fires_exactly_once.

Theorem due_functional : forall E s e d1 d2, Inv E s -> due s e d1 -> due s e d2 -> d1 = d2.
Proof. exact ProofsSched.due_fun. Qed.
Print Assumptions due_functional.

Theorem erase_prevents : forall E s e s', Inv E s -> exec_basic E s (Erase e) = (s', OOk) ->
  Inv E s' /\ (forall d, ~ due s' e d) /\ (forall e' d, e' <> e -> (due s' e' d <-> due s e' d)).
Proof. exact Proofs.erase_prevents. Qed.
Print Assumptions erase_prevents.

Theorem update_moves : forall E s e t s', Inv E s -> exec_basic E s (UpdUntil e t) = (s', OOk) ->
  Inv E s' /\ due s' e t /\ (forall d, due s' e d -> d = t) /\
  (forall e' d, e' <> e -> (due s' e' d <-> due s e' d)).
Proof. exact Proofs.update_moves. Qed.
Print Assumptions update_moves.

Theorem next_timeout_sound : forall E s m s' o, Inv E s -> exec_basic E s (NextTimeout m) = (s', o) ->
  exists r, o = ONext r /\
    (forall e d, due s e d -> r <= Z.max 0 (d - now s)) /\ (0 <= m -> 0 <= r <= m) /\
    ((forall e d, ~ due s e d) -> r = m) /\ (forall e d, due s' e d <-> due s e d).
Proof. exact Proofs.next_timeout_sound. Qed.
Print Assumptions next_timeout_sound.

Theorem loop_refines : forall E s t1 d m c s' evs, Inv E s -> loop E s t1 d m c = (s', evs) ->
  Inv E s' /\ LoopIter E s t1 d m c evs s'.
Proof. exact Proofs.loop_refines. Qed.
Print Assumptions loop_refines.

Theorem loop_never_oversleeps : forall E s t1 d m c s' evs, Inv E s -> no_setnow E ->
  loop E s t1 d m c = (s', evs) ->
  forall tnow snow r, In (ELoop tnow snow r) evs ->
    tnow = t1 + d /\ snow = t1 + d /\ now s' = t1 + d /\ 0 <= r <= Z.max m 0 /\
    forall e dd, due s' e dd -> r = 0 \/ tnow + r <= dd.
Proof. exact Proofs.loop_never_oversleeps. Qed.
Print Assumptions loop_never_oversleeps.

Theorem ceil_seconds_round : forall t, 0 <= t ->
  t <= ceil_seconds t < t + 1000000 /\ ceil_seconds t mod 1000000 = 0.
Proof. exact Proofs.ceil_seconds_round. Qed.
Print Assumptions ceil_seconds_round.

Theorem ceil_seconds_negative_refuted : exists t, t < 0 /\ ~ (ceil_seconds t < t + 1000000).
Proof. exact Proofs.ceil_seconds_negative_refuted. Qed.
Print Assumptions ceil_seconds_negative_refuted.

Theorem wait_for_ceil_rounding : forall E s e dt s' b, 0 < min_time_wait -> 0 < min_time_update -> Inv E s ->
  b = WaitForCeil e dt \/ b = UpdForCeil e dt -> exec_basic E s b = (s', OOk) ->
  exists D, due s' e D /\ now s + dt <= D < now s + dt + 1000000 /\ D mod 1000000 = 0.
Proof. exact Proofs.wait_for_ceil_rounding. Qed.
Print Assumptions wait_for_ceil_rounding.

Theorem run2_inv : forall E n ops sA sB outs, wf_env E n ->
  run2 E (init n, init n) ops = ((sA, sB), outs) -> Inv E sA /\ Inv E sB.
Proof. exact Proofs.run2_inv. Qed.
Print Assumptions run2_inv.

Theorem internal_error_iff : forall E s b, snd (exec_basic E s b) = OErr <-> api_pre E s b = false.
Proof. exact Proofs.internal_error_iff. Qed.
Print Assumptions internal_error_iff.

Theorem no_internal_error : forall E s e t,
  Z.max min_time_wait min_time_update <= t -> t <> 0 -> valid E e = true -> foreign E e = false ->
  (handle_of s e = None -> snd (exec_basic E s (WaitUntil e t)) = OOk) /\
  snd (exec_basic E s (UpdUntil e t)) = OOk /\ snd (exec_basic E s (Erase e)) = OOk.
Proof. exact Proofs.no_internal_error. Qed.
Print Assumptions no_internal_error.

(* int64: under the range hypotheses the checked (int64) evaluation never overflows and equals the model *)
Theorem exec_basic_chk_agrees : forall E s b, max_ok -> Inv E s -> Rng s -> arg_ok b ->
  exec_basic_chk E s b = Some (exec_basic E s b).
Proof. exact ProofsRange.exec_basic_chk_agrees. Qed.
Print Assumptions exec_basic_chk_agrees.

Theorem range_preserved : forall E s b, min_ok -> max_ok -> Inv E s -> Rng s -> arg_ok b -> Rng (fst (exec_basic E s b)).
Proof. exact ProofsRange.range_preserved. Qed.
Print Assumptions range_preserved.

(* ------------------------------------------------------------------------------------------------
   The choice-driven model (AModel.v) that the correspondence check runs: theorems for EVERY sequence
   of tie-breaking choices cs, every constants record C (probed from the compiled library) and every
   environment E. [apend a e d] = entry e is pending with due time d. *)

Theorem a_never_early : forall C E cs k a t a1 evs oc, aperform C E k a t cs = (a1, evs, oc) ->
  forall e d, In (EFire e d) evs -> d <= t.
Proof. exact AProofs.a_never_early. Qed.
Print Assumptions a_never_early.

Theorem a_not_late : forall C E cs k a t a1 evs, aperform C E k a t cs = (a1, evs, ADone) ->
  forall e d, apend a1 e d -> t < d.
Proof. exact AProofs.a_not_late. Qed.
Print Assumptions a_not_late.

Theorem a_fire_step : forall C E k a t c rest a1 evs oc,
  aperform C E k a t (c :: rest) = (a1, evs, oc) -> oc <> ABad ->
  exists d, apend a c d /\ d <= t /\ (forall e2 d2, apend a e2 d2 -> d <= d2) /\
    adue (aset a c None) c = None /\
    (forall e2, e2 <> c -> adue (aset a c None) e2 = adue a e2) /\
    (k = 0%nat -> evs = [EFuel] /\ oc = AOutOfFuel /\ a1 = aset a c None) /\
    (forall k1, k = S k1 ->
       exists a2 os err, arun_script C E (aset a c None) (nth c (e_scr E) []) = (a2, os, err) /\
         (err = true -> evs = EFire c d :: map EOut os /\ oc = AAborted /\ a1 = a2) /\
         (err = false -> exists evs2, aperform C E k1 a2 t rest = (a1, evs2, oc) /\
                                      evs = EFire c d :: map EOut os ++ evs2)).
Proof. exact AProofs.a_fire_step. Qed.
Print Assumptions a_fire_step.

Theorem a_bad_iff : forall C E cs k a t a1 evs oc, aperform C E k a t cs = (a1, evs, oc) ->
  (oc = ABad <-> (In EStuck evs \/ exists e, In (EBad e) evs)).
Proof. exact AProofs.a_bad_iff. Qed.
Print Assumptions a_bad_iff.

Theorem a_fire_order_sorted : forall C E cs k a t a1 evs oc, (forall e, script E e = []) ->
  aperform C E k a t cs = (a1, evs, oc) -> Sorted Z.le (fired_times evs).
Proof. exact AProofs.a_fire_order_sorted. Qed.
Print Assumptions a_fire_order_sorted.

Theorem a_next_timeout_sound : forall a m, exists r, anext_timeout a m = ONext r /\
  (forall e d, apend a e d -> r <= Z.max 0 (d - a_now a)) /\ (0 <= m -> 0 <= r <= m) /\
  ((forall e d, ~ apend a e d) -> r = m).
Proof. exact AProofs.a_next_timeout_sound. Qed.
Print Assumptions a_next_timeout_sound.

Theorem a_erase_prevents : forall E a e a1, aerase E a e = (a1, OOk) ->
  adue a1 e = None /\ a_now a1 = a_now a /\ forall e2, e2 <> e -> adue a1 e2 = adue a e2.
Proof. exact AProofs.a_erase_prevents. Qed.
Print Assumptions a_erase_prevents.

Theorem a_update_moves : forall C E a e t a1, valid E e = true -> (e < length (a_due a))%nat ->
  aupdate_wait_until C E a e t = (a1, OOk) ->
  adue a1 e = Some t /\ a_now a1 = a_now a /\ forall e2, e2 <> e -> adue a1 e2 = adue a e2.
Proof. exact AProofs.a_update_moves. Qed.
Print Assumptions a_update_moves.

Theorem a_loop_never_oversleeps : forall C E a t1 d m c cs a1 evs, no_setnow E ->
  aloop C E a t1 d m c cs = (a1, evs) ->
  forall tnow snow r, In (ELoop tnow snow r) evs ->
    tnow = t1 + d /\ snow = t1 + d /\ 0 <= r <= Z.max m 0 /\
    forall e dd, apend a1 e dd -> r = 0 \/ tnow + r <= dd.
Proof. exact AProofs.a_loop_never_oversleeps. Qed.
Print Assumptions a_loop_never_oversleeps.

(* today's tie-breaking policy (libstdc++ binary heap on time only) is an instance *)
Theorem sim_dispatch : forall E t k s evs oc s1, Dispatch E t k s evs oc s1 ->
  forall a, Abs E s a -> exists cs a1, aperform pC E k a t cs = (a1, evs, conv oc) /\ Abs E s1 a1.
Proof. exact ProofsSim.sim_dispatch. Qed.
Print Assumptions sim_dispatch.

Theorem heap_policy_admissible : forall E n ops s1 outs,
  (forall e, valid E e = true -> (e < n)%nat) -> forallb no_loop_op ops = true ->
  run E (init n) ops = (s1, outs) ->
  exists css a1, length css = length ops /\ arun pC E (ainit n) (combine ops css) = (a1, outs) /\ Abs E s1 a1.
Proof. exact ProofsSim.heap_policy_admissible. Qed.
Print Assumptions heap_policy_admissible.
