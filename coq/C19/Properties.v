From Coq Require Import ZArith List.
From LTV.C19 Require Import Model.
Theorem placeholder_true : True. Proof. exact I. Qed.
Print Assumptions placeholder_true.
