(* C19 -- the scheduler layer: invariant (heap order + handle/entry bijection), abstraction to the
   pending map  due s e d  ("entry e is scheduled for time d"), effect of every basic operation
   on that map, and soundness of next_timeout. *)
From Coq Require Import ZArith List Bool Arith Lia Permutation.
From Coq Require Import ZifyBool ZifyNat.
From LTV.C19 Require Import Model ProofsHeap.
Import ListNotations.
Open Scope Z_scope.
Arguments Nat.div : simpl never.
Arguments Nat.sub : simpl never.

(* entry e is pending with due time d: there is a live handle for it in the heap *)
Definition due (s : state) (e : nat) (d : Z) : Prop :=
  exists h, In h (heap s) /\ h_entry h = Some e /\ h_time h = d.

Record Inv (E : env) (s : state) : Prop := mkInv {
  inv_heap : heap_ok (heap s);
  inv_nodup : NoDup (map h_id (heap s));
  inv_fresh : forall h, In h (heap s) -> (h_id h < next_hid s)%nat;
  (* SchedulerEntry::m_handle points to a handle that is in the heap and points back *)
  inv_fwd : forall e hid, handle_of s e = Some hid ->
            exists h, In h (heap s) /\ h_id h = hid /\ h_entry h = Some e;
  (* a live handle's entry points to exactly that handle *)
  inv_bwd : forall h e, In h (heap s) -> h_entry h = Some e -> handle_of s e = Some (h_id h);
  inv_len : forall e, valid E e = true -> (e < length (ents s))%nat
}.

(* ------------------------------------------------------------------ small facts *)

Lemma nodup_id_inj : forall l h1 h2, NoDup (map h_id l) -> In h1 l -> In h2 l -> h_id h1 = h_id h2 -> h1 = h2.
Proof.
  induction l; simpl; intros; [tauto|]. inversion H; subst.
  destruct H0, H1; subst; auto.
  - exfalso. apply H5. rewrite H2. apply in_map. auto.
  - exfalso. apply H5. rewrite <- H2. apply in_map. auto.
Qed.

Lemma due_fun : forall E s e d1 d2, Inv E s -> due s e d1 -> due s e d2 -> d1 = d2.
Proof.
  intros E s e d1 d2 I (h1 & A1 & B1 & C1) (h2 & A2 & B2 & C2).
  pose proof (inv_bwd E s I h1 e A1 B1). pose proof (inv_bwd E s I h2 e A2 B2).
  assert (h1 = h2) by (eapply nodup_id_inj; eauto using inv_nodup; congruence).
  subst. reflexivity.
Qed.

Lemma due_scheduled : forall E s e d, Inv E s -> due s e d -> handle_of s e <> None.
Proof. intros E s e d I (h & A & B & C). rewrite (inv_bwd E s I h e A B). discriminate. Qed.

Lemma scheduled_due : forall E s e hid, Inv E s -> handle_of s e = Some hid -> exists d, due s e d.
Proof. intros E s e hid I H. destruct (inv_fwd E s I e hid H) as (h & A & B & C). exists (h_time h), h. auto. Qed.

Lemma nth_some_lt : forall (l : list (option nat)) e x, nth e l None = Some x -> (e < length l)%nat.
Proof.
  intros. destruct (Nat.lt_ge_cases e (length l)); auto.
  rewrite nth_overflow in H by auto. discriminate.
Qed.

Lemma handle_of_upd : forall s e e' v hp nw nx,
  handle_of (mkS hp (upd (ents s) e v) nw nx) e' =
  if (e' =? e)%nat && (e <? length (ents s))%nat then v else handle_of s e'.
Proof.
  intros. unfold handle_of. simpl.
  destruct (Nat.eqb_spec e' e); simpl.
  - subst. destruct (Nat.ltb_spec e (length (ents s))).
    + apply nth_upd_eq. auto.
    + rewrite !nth_overflow; auto. rewrite upd_length. auto.
  - apply nth_upd_neq. auto.
Qed.

Lemma init_inv : forall E n, (forall e, valid E e = true -> (e < n)%nat) -> Inv E (init n).
Proof.
  intros. constructor; simpl; intros; try tauto.
  - apply heap_ok_nil.
  - constructor.
  - unfold handle_of in H0. simpl in H0.
    assert (nth e (repeat (@None nat) n) None = None).
    { clear. revert e. induction n; destruct e; simpl; auto. }
    congruence.
  - rewrite repeat_length. auto.
Qed.

Lemma init_no_due : forall n e d, ~ due (init n) e d.
Proof. intros n e d (h & A & _). simpl in A. auto. Qed.

(* ------------------------------------------------------------------ tombstone *)

Definition tomb_f (hid : nat) (h : handle) : handle :=
  if (h_id h =? hid)%nat then mkH (h_id h) (h_time h) None else h.

Lemma tombstone_map : forall hp hid, tombstone hp hid = map (tomb_f hid) hp.
Proof. reflexivity. Qed.

Lemma tomb_f_id : forall hid h, h_id (tomb_f hid h) = h_id h.
Proof. intros. unfold tomb_f. destruct (_ =? _)%nat; auto. Qed.
Lemma tomb_f_time : forall hid h, h_time (tomb_f hid h) = h_time h.
Proof. intros. unfold tomb_f. destruct (_ =? _)%nat; auto. Qed.

Lemma tombstone_ids : forall hp hid, map h_id (tombstone hp hid) = map h_id hp.
Proof. intros. rewrite tombstone_map, map_map. apply map_ext. apply tomb_f_id. Qed.

Lemma tombstone_ht : forall hp hid i, ht (tombstone hp hid) i = ht hp i.
Proof.
  intros. unfold ht, hnth. rewrite tombstone_map.
  assert (D : tomb_f hid dummy = dummy) by (unfold tomb_f, dummy; simpl; destruct hid; reflexivity).
  rewrite <- D at 1. rewrite map_nth. apply tomb_f_time.
Qed.

Lemma tombstone_heap_ok : forall hp hid, heap_ok hp -> heap_ok (tombstone hp hid).
Proof.
  intros. red. rewrite tombstone_map, map_length. intros. rewrite <- tombstone_map, !tombstone_ht. auto.
Qed.

(* state after  handle->entry = nullptr; entry->set_handle(nullptr) *)
Definition detach (s : state) (e hid : nat) : state :=
  mkS (tombstone (heap s) hid) (upd (ents s) e None) (now s) (next_hid s).

Lemma detach_spec : forall E s e hid, Inv E s -> handle_of s e = Some hid ->
  Inv E (detach s e hid) /\ handle_of (detach s e hid) e = None /\
  (forall e' d, due (detach s e hid) e' d <-> e' <> e /\ due s e' d).
Proof.
  intros E s e hid I H.
  assert (He : (e < length (ents s))%nat) by (eapply nth_some_lt; eauto).
  destruct (inv_fwd E s I e hid H) as (h0 & In0 & Id0 & En0).
  assert (Hin : forall x, In x (heap (detach s e hid)) <->
                exists h, In h (heap s) /\ x = tomb_f hid h).
  { intros. unfold detach. simpl. rewrite tombstone_map, in_map_iff. firstorder. }
  assert (Hother : forall h, In h (heap s) -> h_id h <> hid -> tomb_f hid h = h).
  { intros. unfold tomb_f. destruct (Nat.eqb_spec (h_id h) hid); congruence. }
  assert (Hsame : forall h, In h (heap s) -> h_id h = hid -> h = h0).
  { intros. eapply nodup_id_inj; eauto using inv_nodup. congruence. }
  split; [|split].
  - constructor.
    + apply tombstone_heap_ok. apply (inv_heap E s I).
    + simpl. rewrite tombstone_ids. apply (inv_nodup E s I).
    + intros x Hx. apply Hin in Hx. destruct Hx as (h & A & ->). rewrite tomb_f_id.
      apply (inv_fresh E s I). auto.
    + intros e' hid'. unfold detach. rewrite handle_of_upd.
      destruct (Nat.eqb_spec e' e); simpl.
      * destruct (Nat.ltb_spec e (length (ents s))); [discriminate|lia].
      * intros H'. destruct (inv_fwd E s I e' hid' H') as (h & A & B & C).
        exists h. simpl. split; [|auto].
        rewrite tombstone_map. apply in_map_iff. exists h. split; auto.
        apply Hother; auto. intro. assert (h = h0) by (apply Hsame; congruence). subst. congruence.
    + intros x e' Hx Hen. apply Hin in Hx. destruct Hx as (h & A & ->).
      unfold tomb_f in *. destruct (Nat.eqb_spec (h_id h) hid); simpl in *; [discriminate|].
      unfold detach. rewrite handle_of_upd.
      pose proof (inv_bwd E s I h e' A Hen).
      destruct (Nat.eqb_spec e' e); simpl; auto.
      subst. congruence.
    + intros. unfold detach. simpl. rewrite upd_length. apply (inv_len E s I). auto.
  - unfold detach. rewrite handle_of_upd. rewrite Nat.eqb_refl. simpl.
    destruct (Nat.ltb_spec e (length (ents s))); auto. lia.
  - intros e' d. split.
    + intros (x & Hx & En & T). apply Hin in Hx. destruct Hx as (h & A & ->).
      unfold tomb_f in *. destruct (Nat.eqb_spec (h_id h) hid); simpl in *; [discriminate|].
      split.
      * intro. subst e'. pose proof (inv_bwd E s I h e A En). congruence.
      * exists h. auto.
    + intros (Hne & h & A & En & T). exists h. split; [|auto].
      apply Hin. exists h. split; auto. symmetry. apply Hother; auto.
      intro. assert (h = h0) by (apply Hsame; auto). subst. congruence.
Qed.

(* ------------------------------------------------------------------ push_entry *)

Lemma NoDup_app_single : forall (l : list nat) x, NoDup l -> ~ In x l -> NoDup (l ++ [x]).
Proof.
  intros. eapply Permutation_NoDup. apply Permutation_cons_append. constructor; auto.
Qed.

Lemma push_entry_spec : forall E s e t, Inv E s -> handle_of s e = None -> (e < length (ents s))%nat ->
  Inv E (push_entry s e t) /\
  (forall e' d, due (push_entry s e t) e' d <-> (e' = e /\ d = t) \/ due s e' d).
Proof.
  intros E s e t I Hn He.
  set (h := mkH (next_hid s) t (Some e)).
  assert (P : Permutation (heap (push_entry s e t)) (heap s ++ [h])).
  { unfold push_entry. simpl. apply push_heap_perm. }
  assert (Hin : forall x, In x (heap (push_entry s e t)) <-> In x (heap s) \/ x = h).
  { intros. split; intros.
    - apply (Permutation_in _ P) in H. apply in_app_or in H. simpl in H. intuition.
    - apply (Permutation_in _ (Permutation_sym P)). apply in_or_app. simpl. intuition. }
  split.
  - constructor.
    + unfold push_entry. simpl. apply push_heap_ok. apply (inv_heap E s I).
    + eapply Permutation_NoDup. { apply Permutation_map. apply Permutation_sym. exact P. }
      rewrite map_app. simpl. apply NoDup_app_single.
      * apply (inv_nodup E s I).
      * intro. apply in_map_iff in H. destruct H as (x & A & B).
        pose proof (inv_fresh E s I x B). lia.
    + intros x Hx. apply Hin in Hx. unfold push_entry. simpl. destruct Hx.
      * pose proof (inv_fresh E s I x H). lia.
      * subst. simpl. lia.
    + intros e' hid. unfold push_entry. rewrite handle_of_upd.
      destruct (Nat.eqb_spec e' e); simpl.
      * destruct (Nat.ltb_spec e (length (ents s))); [|lia].
        intros Hq. inversion Hq; subst. exists h. split; [|auto].
        apply (Hin h). auto.
      * intros Hq. destruct (inv_fwd E s I e' hid Hq) as (x & A & B & C).
        exists x. split; auto. apply (Hin x). auto.
    + intros x e' Hx En. apply Hin in Hx. unfold push_entry. rewrite handle_of_upd.
      destruct Hx.
      * pose proof (inv_bwd E s I x e' H En).
        destruct (Nat.eqb_spec e' e); simpl; auto. subst. congruence.
      * subst x. simpl in En. inversion En; subst. rewrite Nat.eqb_refl. simpl.
        destruct (Nat.ltb_spec e' (length (ents s))); auto. lia.
    + intros. unfold push_entry. simpl. rewrite upd_length. apply (inv_len E s I). auto.
  - intros e' d. split.
    + intros (x & Hx & En & T). apply Hin in Hx. destruct Hx.
      * right. exists x. auto.
      * subst x. simpl in *. inversion En. auto.
    + intros [[-> ->]|(x & A & B & C)].
      * exists h. split; [apply Hin; auto|auto].
      * exists x. split; [apply Hin; auto|auto].
Qed.
